import json,sys
r=json.load(open(sys.argv[1]))
print({k:r.get(k) for k in ['scenario','programs','evaluations','distinct_nontrivial','wall_s','model_errors','extra','hypothesis_failures']})
for m in r['mismatches'][:int(sys.argv[2]) if len(sys.argv)>2 else 5]:
    print('---',m['config'],'line',m['first_disagreeing_line'],'shrunk from',m['shrunk_from'])
    for a,b,c in zip(m['ops'],m['impl'],m['model']):
        if b==c: print('  ',a[:300],'=>',b[:200])
        else: print('  ',a[:400],'\n      impl :',b[:400],'\n      model:',c[:400])
