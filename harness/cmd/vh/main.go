// vh is the differential harness: it generates request programs from one seed, runs them on the
// real emulators (built from /repo's working tree with -tags verif) and on the Lean Model through
// the compiled driver, compares the canonical responses and writes a JSON report.
package main

import (
	"strings"
	"encoding/json"
	"flag"
	"fmt"
	"io"
	"log"
	"os"
	"path/filepath"
	"sort"

	"verif/harness/internal/bt"
	"verif/harness/internal/core"
	"verif/harness/internal/gcs"
)

func main() {
	if len(os.Args) < 2 {
		fmt.Fprintln(os.Stderr, "usage: vh <bt|gcs|...> [flags]")
		os.Exit(2)
	}
	if os.Getenv("VERIF_VERBOSE") == "" {
		log.SetOutput(io.Discard)
	}
	switch os.Args[1] {
	case "bt":
		cmdBt(os.Args[2:])
	case "gcsconc":
		cmdGcsConc(os.Args[2:])
	case "robustmix":
		cmdRobustMix(os.Args[2:])
	case "robust":
		cmdRobust(os.Args[2:])
	case "btcrash":
		cmdBtCrash(os.Args[2:])
	case "btscan":
		cmdBtScan(os.Args[2:])
	case "btconc":
		cmdBtConc(os.Args[2:])
	case "lock":
		cmdLock(os.Args[2:])
	case "gcs":
		cmdGcs(os.Args[2:])
	default:
		fmt.Fprintln(os.Stderr, "unknown subcommand", os.Args[1])
		os.Exit(2)
	}
}

func cmdBt(args []string) {
	fs := flag.NewFlagSet("bt", flag.ExitOnError)
	scenario := fs.String("scenario", "c01", "generator profile")
	seed := fs.Uint64("seed", 1, "PRNG seed")
	n := fs.Int("programs", 50, "number of random programs")
	engines := fs.String("engines", "all", "comma list: btree,leveldb-mem,leveldb-disk")
	out := fs.String("out", "-", "report path")
	corpus := fs.String("corpus", "", "directory of saved programs (JSON) to run first")
	replay := fs.String("replay", "", "run only this saved program / replay file")
	judgeRandom := fs.Int("judge-random", 0, "random chunk streams given to both decoders after the run")
	fs.Parse(args)

	prof, ok := bt.Profiles[*scenario]
	if _, isX := bt.Exhaustive[*scenario]; !ok && !isX {
		fmt.Fprintln(os.Stderr, "unknown scenario", *scenario)
		os.Exit(2)
	}
	root := core.NewRng(*seed)
	var progs [][]core.Op
	if *replay != "" {
		p, err := loadBtProgram(*replay)
		if err != nil {
			fmt.Fprintln(os.Stderr, err)
			os.Exit(2)
		}
		progs = append(progs, p)
		*n = 0
	}
	if *corpus != "" {
		files, _ := filepath.Glob(filepath.Join(*corpus, "*.json"))
		sort.Strings(files)
		for _, f := range files {
			p, err := loadBtProgram(f)
			if err != nil {
				fmt.Fprintln(os.Stderr, f, err)
				os.Exit(2)
			}
			progs = append(progs, p)
		}
	}
	exhaustive := false
	if gen, ok := bt.Exhaustive[*scenario]; ok && *replay == "" {
		progs = append(progs, gen(*seed, *n)...)
		exhaustive = *n <= 0
		*n = 0
	}
	for i := 0; i < *n; i++ {
		g := &bt.Gen{R: root.Fork(), P: prof}
		progs = append(progs, g.Program())
	}
	if *out != "-" && *out != "" {
		core.BreadcrumbPath = *out + ".current"
		defer os.Remove(core.BreadcrumbPath)
	}
	rep := core.RunPrograms("bt/"+*scenario, *seed, progs, bt.Engines(*engines), bt.Accept)
	rep.Exhaustive = exhaustive
	if *replay == "" {
		bt.RunJudges(rep, *seed, *judgeRandom)
	} else {
		bt.RunJudges(rep, *seed, 0)
	}
	if err := rep.Write(*out); err != nil {
		fmt.Fprintln(os.Stderr, err)
		os.Exit(2)
	}
	if len(rep.Mismatches) > 0 || len(rep.ModelErrors) > 0 {
		os.Exit(1)
	}
}

// loadBtProgram reads a saved program: either a JSON array of ops, or an object with "ops_json"
// (a mismatch entry of a report, or a replay file).
func loadBtProgram(path string) ([]core.Op, error) {
	b, err := os.ReadFile(path)
	if err != nil {
		return nil, err
	}
	var raw json.RawMessage = b
	var obj struct {
		OpsJSON json.RawMessage `json:"ops_json"`
	}
	if json.Unmarshal(b, &obj) == nil && len(obj.OpsJSON) > 0 {
		raw = obj.OpsJSON
	}
	var ops []*bt.Op
	if err := json.Unmarshal(raw, &ops); err != nil {
		return nil, err
	}
	out := make([]core.Op, len(ops))
	for i, o := range ops {
		out[i] = o
	}
	return out, nil
}

func cmdGcs(args []string) {
	fs := flag.NewFlagSet("gcs", flag.ExitOnError)
	scenario := fs.String("scenario", "c02", "generator profile")
	seed := fs.Uint64("seed", 1, "PRNG seed")
	n := fs.Int("programs", 50, "number of random programs")
	stores := fs.String("engines", "all", "comma list: mem,file")
	out := fs.String("out", "-", "report path")
	corpus := fs.String("corpus", "", "directory of saved programs (JSON) to run first")
	replay := fs.String("replay", "", "run only this saved program / replay file")
	fs.Parse(args)

	var progs [][]core.Op
	load := func(path string) {
		b, err := os.ReadFile(path)
		if err != nil {
			fmt.Fprintln(os.Stderr, err)
			os.Exit(2)
		}
		var raw json.RawMessage = b
		var obj struct {
			OpsJSON json.RawMessage `json:"ops_json"`
		}
		if json.Unmarshal(b, &obj) == nil && len(obj.OpsJSON) > 0 {
			raw = obj.OpsJSON
		}
		var ops []*gcs.Op
		if err := json.Unmarshal(raw, &ops); err != nil {
			fmt.Fprintln(os.Stderr, path, err)
			os.Exit(2)
		}
		p := make([]core.Op, len(ops))
		for i, o := range ops {
			p[i] = o
		}
		progs = append(progs, p)
	}
	if *replay != "" {
		load(*replay)
		*n = 0
	}
	if *corpus != "" {
		files, _ := filepath.Glob(filepath.Join(*corpus, "*.json"))
		sort.Strings(files)
		for _, f := range files {
			load(f)
		}
	}
	exhaustive := false
	if gen, ok := gcs.Exhaustive[*scenario]; ok && *replay == "" {
		progs = append(progs, gen(*seed, *n)...)
		exhaustive = *n <= 0
	} else if *n > 0 {
		prof, ok := gcs.Profiles[*scenario]
		if !ok {
			fmt.Fprintln(os.Stderr, "unknown scenario", *scenario)
			os.Exit(2)
		}
		root := core.NewRng(*seed)
		for i := 0; i < *n; i++ {
			g := &gcs.Gen{R: root.Fork(), P: prof}
			progs = append(progs, g.Program())
		}
	}
	if *out != "-" && *out != "" {
		core.BreadcrumbPath = *out + ".current"
		defer os.Remove(core.BreadcrumbPath)
	}
	rep := core.RunPrograms("gcs/"+*scenario, *seed, progs, gcs.Stores(*stores), gcs.Accept)
	rep.Exhaustive = exhaustive
	if strings.HasPrefix(*scenario, "c11") && *replay == "" {
		gcs.RunTokenJudges(rep, *seed)
	}
	rep.Hypothesis = gcs.ClockHypothesis()
	if err := rep.Write(*out); err != nil {
		fmt.Fprintln(os.Stderr, err)
		os.Exit(2)
	}
	if len(rep.Mismatches) > 0 || len(rep.ModelErrors) > 0 {
		os.Exit(1)
	}
}

func filepathGlob(dir string) ([]string, error) {
	files, err := filepath.Glob(filepath.Join(dir, "*.json"))
	sort.Strings(files)
	return files, err
}
