package main

import (
	"encoding/json"
	"flag"
	"fmt"
	"os"
	"strings"
	"time"

	"verif/harness/internal/bt"
	"verif/harness/internal/core"
)

func cmdBtCrash(args []string) {
	fs := flag.NewFlagSet("btcrash", flag.ExitOnError)
	scenario := fs.String("scenario", "c08", "c08")
	seed := fs.Uint64("seed", 1, "PRNG seed")
	n := fs.Int("programs", 10, "number of programs")
	out := fs.String("out", "-", "report path")
	_ = fs.String("engines", "", "unused")
	corpus := fs.String("corpus", "", "saved programs run first")
	replay := fs.String("replay", "", "replay file")
	fs.Parse(args)
	t0 := time.Now()
	rep := &core.Report{Scenario: "btcrash/" + *scenario, Seed: *seed, Configs: []string{"leveldb-disk"}, OpKinds: map[string]int{}, RespKinds: map[string]int{}, Extra: map[string]int{}}
	var progs []*bt.CrashProgram
	load := func(path string) {
		b, err := os.ReadFile(path)
		if err != nil {
			fmt.Fprintln(os.Stderr, err)
			os.Exit(2)
		}
		var obj struct {
			OpsJSON *bt.CrashProgram `json:"ops_json"`
		}
		if err := json.Unmarshal(b, &obj); err != nil || obj.OpsJSON == nil {
			fmt.Fprintln(os.Stderr, "bad replay file", path, err)
			os.Exit(2)
		}
		progs = append(progs, obj.OpsJSON)
	}
	if *replay != "" {
		load(*replay)
	} else {
		if *corpus != "" {
			files, _ := filepathGlob(*corpus)
			for _, f := range files {
				load(f)
			}
		}
		root := core.NewRng(*seed)
		for i := 0; i < *n; i++ {
			progs = append(progs, bt.GenCrash(root.Fork()))
		}
	}
	nd := len(bt.DumpOps())
	distinct := map[string]bool{}
	for _, p := range progs {
		lines, impl, mids := bt.RunCrash(p)
		model, err := core.RunModel(append([]string{"reset"}, lines...))
		if err != nil {
			rep.ModelErrors = append(rep.ModelErrors, err.Error())
			break
		}
		model = model[1:]
		rep.Programs++
		rep.Extra["boundary_images"] += len(p.Ops)
		rep.Extra["mid_request_images"] += len(mids)
		rep.Extra["restarts"] += len(p.Restarts)
		rep.Extra["kills_inside_requests_continued_from"] += len(p.KilledAt)
		rep.Evaluations += len(p.Ops) + len(mids)
		for _, op := range p.Ops {
			rep.OpKinds[op.Kind]++
		}
		for _, m := range mids {
			rep.OpKinds["image@"+m.Point]++
			distinct[p.Ops[m.Op].Line()+"@"+m.Point] = true
		}
		// block k: lines[k*(1+nd)] is the request, the next nd lines are the dump after it
		stride := 1 + nd
		dumpOf := func(k int) []string { // Model's dump after op k (k = -1: nothing exists yet)
			if k < 0 {
				var d []string
				for _, op := range bt.DumpOps() {
					if op.Kind == "list" {
						d = append(d, "names 0")
					} else {
						d = append(d, "err notfound")
					}
				}
				return d
			}
			return model[k*stride+1 : (k+1)*stride]
		}
		report := func(what string, upto int, extraOps, extraImpl, extraModel []string) {
			if len(rep.Mismatches) >= 3 {
				return
			}
			q := *p
			q.Ops = p.Ops[:upto+1]
			var rs []int
			for _, r := range p.Restarts {
				if r < upto {
					rs = append(rs, r)
				}
			}
			q.Restarts = rs
			var ks []bt.Kill
			for _, k := range p.Kills {
				if k.Op <= upto {
					ks = append(ks, k)
				}
			}
			q.Kills = ks
			qj, _ := json.Marshal(&q)
			var ops []string
			for _, op := range q.Ops {
				ops = append(ops, op.Line())
			}
			ops = append(ops, extraOps...)
			pad := make([]string, len(q.Ops))
			rep.Mismatches = append(rep.Mismatches, core.Mismatch{Config: "leveldb-disk", Ops: ops, Impl: append(append([]string{}, pad...), extraImpl...),
				Model: append(append([]string{}, pad...), extraModel...), Index: len(q.Ops), ShrunkFrom: len(p.Ops), Kind: "btcrash", OpsJSON: qj, Note: what})
		}
		bad := false
		// requests the process was killed in: the image compared after them is the one taken at that point
		killedAt := map[int]string{}
		for _, ka := range p.KilledAt {
			var i int
			var pt string
			if n, _ := fmt.Sscanf(ka, "request %d at %s", &i, &pt); n == 2 {
				killedAt[i] = pt
			}
		}
		for k := range p.Ops {
			distinct[p.Ops[k].Line()] = true
			if impl[k*stride] != model[k*stride] && !bad {
				bad = true
				report("the request's own response differs from the Model's", k, nil, []string{impl[k*stride]}, []string{model[k*stride]})
			}
			for j := 1; j <= nd && !bad; j++ {
				if impl[k*stride+j] != model[k*stride+j] {
					bad = true
					if pt, ok := killedAt[k]; ok {
						report(fmt.Sprintf("the process was killed at crash point %q inside request %d; a service started on the image it left serves a state that is neither the one before nor the one after that request", pt, k),
							k, []string{"image at " + pt + "; " + lines[k*stride+j]}, []string{impl[k*stride+j]}, []string{"after: " + model[k*stride+j]})
						continue
					}
					report(fmt.Sprintf("a service started on the image taken right after request %d (%s) does not serve the acknowledged state", k, strings.Fields(lines[k*stride])[1]),
						k, []string{"image after the last request; " + lines[k*stride+j]}, []string{impl[k*stride+j]}, []string{model[k*stride+j]})
				}
			}
		}
		for _, m := range mids {
			if bad {
				break
			}
			before, after := dumpOf(m.Op-1), dumpOf(m.Op)
			eq := func(a, b []string) bool { return strings.Join(a, "\n") == strings.Join(b, "\n") }
			if !eq(m.Dump, before) && !eq(m.Dump, after) {
				bad = true
				// first differing dump line against both
				j := 0
				for ; j < len(m.Dump) && j < len(before) && (m.Dump[j] == before[j] || m.Dump[j] == after[j]); j++ {
				}
				if j >= len(m.Dump) || j >= len(before) {
					j = 0
				}
				report(fmt.Sprintf("a service started on the image taken at crash point %q inside request %d serves a state that is neither the one before nor the one after that request", m.Point, m.Op),
					m.Op, []string{"image at " + m.Point + "; " + bt.DumpOps()[j].Line()}, []string{m.Dump[j]}, []string{"before: " + before[j] + "  |  after: " + after[j]})
			}
		}
		if bad {
			rep.Extra["disagreeing_programs"]++
		}
		if len(rep.Samples) < 2 {
			var ks []string
			for _, op := range p.Ops {
				ks = append(ks, op.Kind)
			}
			rep.Samples = append(rep.Samples, fmt.Sprintf("%d requests (%s), %d images at request boundaries, %d inside requests, restarts after %v", len(p.Ops), strings.Join(ks, " "), len(p.Ops), len(mids), p.Restarts))
		}
	}
	rep.Distinct = len(distinct)
	rep.Rule = "each program = 10-40 admin and data requests on the on-disk engine; after every request, and at every verifCrashPoint hit inside a request (metadata temp file written, renamed, database directory removed, database closed for a clear), the directory is copied as it is at that instant (what a killed process leaves), a fresh service is started on the copy and everything a client can observe (ListTables, GetTable, full ReadRows of every table) is compared with the Lean Model's state after the acknowledged prefix (for images inside a request: before or after it); at some boundaries the program continues on the image (repeated crash-restart cycles); distinct = distinct requests and (request, crash point) pairs"
	rep.WallS = time.Since(t0).Seconds()
	if err := rep.Write(*out); err != nil {
		fmt.Fprintln(os.Stderr, err)
		os.Exit(2)
	}
	if len(rep.Mismatches) > 0 || len(rep.ModelErrors) > 0 {
		os.Exit(1)
	}
}
