package main

import (
	"encoding/json"
	"flag"
	"fmt"
	"os"
	"strings"
	"time"

	"verif/harness/internal/core"
	"verif/harness/internal/lockmap"
)

// lockAccept compares one step's observation; `ent=*` marks a state the implementation cannot be
// observed in (between a release and the woken waiter's acquire): only the program counter counts.
func lockAccept(impl, model string) bool {
	if impl == model {
		return true
	}
	if i := strings.Index(impl, " ent=*"); i >= 0 {
		return strings.HasPrefix(model, impl[:i]+" ent=")
	}
	return false
}

type lockProg struct {
	p     lockmap.Program
	lines []string
	impl  []string
}

func cmdLock(args []string) {
	fs := flag.NewFlagSet("lock", flag.ExitOnError)
	scenario := fs.String("scenario", "c19", "c19x (every transition of the Model graph) | c19 (eager random walks)")
	seed := fs.Uint64("seed", 1, "PRNG seed")
	n := fs.Int("programs", 50, "number of random walks")
	out := fs.String("out", "-", "report path")
	_ = fs.String("engines", "", "unused")
	_ = fs.String("corpus", "", "unused")
	replay := fs.String("replay", "", "replay file")
	fs.Parse(args)
	t0 := time.Now()
	rep := &core.Report{Scenario: "lock/" + *scenario, Seed: *seed, Configs: []string{"gcsutil.TransientLockMap"}, OpKinds: map[string]int{}, RespKinds: map[string]int{}, Extra: map[string]int{}}
	var progs []lockProg
	tier := os.Getenv("VERIF_TIER")

	anomalies := 0 // runs that ended in a stall or an impossible step: each costs a timeout, stop after a few
	runA := func(p lockmap.Program) {
		if anomalies >= 3 {
			return
		}
		lines, impl := lockmap.Run(p)
		if !strings.HasPrefix(impl[len(impl)-1], "ok") {
			anomalies++
		}
		progs = append(progs, lockProg{p, lines, impl})
	}
	switch {
	case *replay != "":
		b, err := os.ReadFile(*replay)
		if err != nil {
			fmt.Fprintln(os.Stderr, err)
			os.Exit(2)
		}
		var obj struct {
			OpsJSON lockmap.Program `json:"ops_json"`
		}
		if err := json.Unmarshal(b, &obj); err != nil {
			fmt.Fprintln(os.Stderr, err)
			os.Exit(2)
		}
		// an eager walk is replayed lazily: same step list, each goroutine resumed where the walk resumed it
		obj.OpsJSON.Eager = false
		runA(obj.OpsJSON)
	case *scenario == "c19x":
		cfgs := [][3]int{{2, 2, 2}, {3, 2, 1}, {3, 2, 2}}
		if tier == "thorough" {
			cfgs = append(cfgs, [3]int{4, 2, 1}, [3]int{3, 3, 1})
		}
		for _, c := range cfgs {
			res, err := core.RunModel([]string{fmt.Sprintf("lock explore %d %d %d", c[0], c[1], c[2])})
			if err != nil {
				rep.ModelErrors = append(rep.ModelErrors, err.Error())
				break
			}
			f := strings.SplitN(res[0], " ", 4)
			if len(f) < 4 {
				rep.ModelErrors = append(rep.ModelErrors, "explore: "+res[0][:min(len(res[0]), 200)])
				break
			}
			var st, tr, sc int
			fmt.Sscanf(f[0], "states=%d", &st)
			fmt.Sscanf(f[1], "transitions=%d", &tr)
			fmt.Sscanf(f[2], "schedules=%d", &sc)
			rep.Extra[fmt.Sprintf("model_states_%dx%dx%d", c[0], c[1], c[2])] = st
			rep.Extra[fmt.Sprintf("model_transitions_%dx%dx%d", c[0], c[1], c[2])] = tr
			for i, s := range strings.Split(f[3], ";") {
				// every other schedule: the odd-numbered goroutines go through Run (lock, callback, unlock)
				runA(lockmap.Program{N: c[0], K: c[1], Steps: lockmap.ParseSchedule(s), ViaRun: i%2 == 1})
			}
		}
		rep.Exhaustive = anomalies == 0
	default:
		root := core.NewRng(*seed)
		for i := 0; i < *n; i++ {
			r := root.Fork()
			nt := 2 + r.Intn(5)
			k := 1 + r.Intn(3)
			rounds := 1 + r.Intn(3)
			if anomalies >= 3 {
				break
			}
			p, lines, impl := lockmap.RunEager(nt, k, rounds, r)
			if !strings.HasPrefix(impl[len(impl)-1], "ok") {
				anomalies++
			}
			progs = append(progs, lockProg{p, lines, impl})
		}
	}

	// validate every recorded step list against the Lean machine
	distinct := map[string]bool{}
	const batch = 4000
	for lo := 0; lo < len(progs) && len(rep.ModelErrors) == 0; lo += batch {
		hi := min(lo+batch, len(progs))
		var all []string
		for _, p := range progs[lo:hi] {
			all = append(all, p.lines...)
		}
		res, err := core.RunModel(all)
		if err != nil {
			rep.ModelErrors = append(rep.ModelErrors, err.Error())
			break
		}
		off := 0
		for _, p := range progs[lo:hi] {
			model := res[off : off+len(p.lines)]
			off += len(p.lines)
			rep.Programs++
			rep.Evaluations += len(p.lines) - 1
			bad := -1
			for i := range p.lines {
				f := strings.Fields(p.lines[i])
				if len(f) > 3 {
					rep.OpKinds[f[3]]++
				}
				if model[i] == "bad-op" {
					rep.ModelErrors = append(rep.ModelErrors, p.lines[i])
				}
				if !lockAccept(p.impl[i], model[i]) && bad < 0 {
					bad = i
				}
				// a covered (state, step) pair of the Model
				distinct[p.lines[i]+"|"+model[i]+"|"+func() string {
					if i > 0 {
						return model[i-1]
					}
					return ""
				}()] = true
			}
			if len(rep.Samples) < 3 && len(p.lines) > 6 {
				rep.Samples = append(rep.Samples, strings.Join(p.lines, " ; ")+"  =>  "+p.impl[len(p.impl)-1])
			}
			if bad >= 0 && len(rep.Mismatches) < 5 {
				q := p.p
				if bad < len(q.Steps) {
					q.Steps = q.Steps[:bad] // line 0 is the init line, so step bad-1 is the last kept
				}
				mm := core.Mismatch{Config: fmt.Sprintf("%d goroutines, %d keys, eager=%v", p.p.N, p.p.K, p.p.Eager),
					Ops: p.lines[:bad+1], Impl: p.impl[:bad+1], Model: append([]string{}, model[:bad+1]...), Index: bad,
					ShrunkFrom: len(p.lines), Kind: "lock", OpsJSON: q.JSON(),
					Note: "implementation = what the goroutine reported and VerifEntry shows after the step; model = Emu.Lock.step"}
				rep.Mismatches = append(rep.Mismatches, mm)
			}
		}
	}
	rep.Distinct = len(distinct)
	rep.Rule = "c19x: the Lean driver enumerates the reachable graph of Emu.Lock.step for the configuration and emits schedules that take every transition; each is run on a fresh TransientLockMap with goroutines parked at the verif yield points; c19: random walks in which waiters really block in the select. Distinct = distinct (previous Model observation, step, resulting Model observation) triples."
	rep.WallS = time.Since(t0).Seconds()
	if err := rep.Write(*out); err != nil {
		fmt.Fprintln(os.Stderr, err)
		os.Exit(2)
	}
	if len(rep.Mismatches) > 0 || len(rep.ModelErrors) > 0 {
		os.Exit(1)
	}
}
