package main

import (
	"bytes"
	"encoding/json"
	"flag"
	"fmt"
	"os"
	"os/exec"
	"strings"
	"time"

	"verif/harness/internal/core"
	"verif/harness/internal/robust"
)

// cmdRobustMix is the child process of the concurrent mix.
func cmdRobustMix(args []string) {
	fs := flag.NewFlagSet("robustmix", flag.ExitOnError)
	seed := fs.Uint64("seed", 1, "seed")
	secs := fs.Int("seconds", 3, "duration")
	fs.Parse(args)
	for _, l := range robust.Mix(*seed, time.Duration(*secs)*time.Second) {
		fmt.Println(l)
	}
}

func cmdRobust(args []string) {
	fs := flag.NewFlagSet("robust", flag.ExitOnError)
	scenario := fs.String("scenario", "c20", "c20")
	seed := fs.Uint64("seed", 1, "PRNG seed")
	n := fs.Int("programs", 400, "perturbed requests per configuration")
	out := fs.String("out", "-", "report path")
	_ = fs.String("engines", "", "unused")
	_ = fs.String("corpus", "", "unused")
	replay := fs.String("replay", "", "replay file")
	fs.Parse(args)
	t0 := time.Now()
	rep := &core.Report{Scenario: "robust/" + *scenario, Seed: *seed, Configs: []string{"gcs:mem", "gcs:file", "bt:btree", "bt:leveldb-mem"}, OpKinds: map[string]int{}, RespKinds: map[string]int{}, Extra: map[string]int{}}
	distinct := map[string]bool{}
	seenV := map[string]bool{}
	add := func(cfg, what, reqText string, reqJSON any, verdict string) {
		rep.Extra["violations"]++
		key := what + " " + strings.SplitN(reqText, " ", 2)[0] + " " + verdict[:min(len(verdict), 90)]
		if seenV[key] || len(rep.Mismatches) >= 12 {
			return
		}
		seenV[key] = true
		j, _ := json.Marshal(map[string]any{"config": cfg, "what": what, "request": reqJSON})
		rep.Mismatches = append(rep.Mismatches, core.Mismatch{Config: cfg, Ops: []string{reqText}, Impl: []string{verdict},
			Model: []string{"a well-formed success or error response, no panic, no hang, stored data intact after an error"}, Index: 0, ShrunkFrom: 1, Kind: "robust", OpsJSON: j, SpecVerdict: "rejects"})
	}
	// the request about to be sent, left behind for the case that the implementation brings the
	// process down with a fatal runtime error
	crumb := func(cfg, text string, reqJSON any) {
		if *out == "-" || *out == "" {
			return
		}
		j, _ := json.Marshal(map[string]any{"config": cfg, "what": "request in flight when the process died", "request": reqJSON})
		b, _ := json.Marshal(map[string]any{"config": cfg, "ops": []string{text}, "ops_json": json.RawMessage(j)})
		os.WriteFile(*out+".current", b, 0644)
	}
	if *replay != "" {
		b, err := os.ReadFile(*replay)
		if err != nil {
			fmt.Fprintln(os.Stderr, err)
			os.Exit(2)
		}
		var obj struct {
			OpsJSON struct {
				Config  string     `json:"config"`
				What    string     `json:"what"`
				Request robust.Req `json:"request"`
			} `json:"ops_json"`
		}
		json.Unmarshal(b, &obj)
		if strings.HasPrefix(obj.OpsJSON.Config, "gcs:") {
			e := robust.NewGcsEnv(strings.TrimPrefix(obj.OpsJSON.Config, "gcs:"))
			e.Seed()
			v, _ := e.JudgeGcs(obj.OpsJSON.Request)
			e.Close()
			rep.Programs, rep.Evaluations = 1, 1
			if v != "" {
				add(obj.OpsJSON.Config, "replay", obj.OpsJSON.Request.String(), obj.OpsJSON.Request, v)
			}
		} else {
			fmt.Fprintln(os.Stderr, "Bigtable replays are re-run from the seed: use the check with the seed recorded in the replay file")
		}
	} else {
		root := core.NewRng(*seed)
		for _, store := range []string{"mem", "file"} {
			r := root.Fork()
			e := robust.NewGcsEnv(store)
			e.Seed()
			directed := robust.Directed()
			for i := 0; i < *n+len(directed); i++ {
				var req robust.Req
				if i < len(directed) {
					req = directed[i]
				} else {
					req = robust.GenGcs(r)
				}
				crumb("gcs:"+store, req.String(), req)
				v, res := e.JudgeGcs(req)
				rep.Evaluations++
				rep.OpKinds["gcs "+strings.SplitN(req.Note, " of ", 2)[0]]++
				rep.RespKinds[fmt.Sprint("http ", res.Code)]++
				distinct[req.String()] = true
				if v != "" {
					add("gcs:"+store, "perturbed request", req.String(), req, v)
					// a damaged service is replaced so that the search goes on
					e.Close()
					e = robust.NewGcsEnv(store)
					e.Seed()
				}
				if i%10 == 0 {
					// 2-4 parts; half of them from the ones that carry a body or a condition
					pick := func() int {
						if r.Chance(1, 2) {
							return 14 + r.Intn(len(robust.BatchParts)-14)
						}
						return r.Intn(len(robust.BatchParts))
					}
					ks := []int{pick(), pick()}
					for len(ks) < 4 && r.Chance(1, 2) {
						ks = append(ks, pick())
					}
					rep.Evaluations++
					rep.OpKinds["gcs batch-vs-alone"]++
					abs := []bool{r.Chance(1, 3), r.Chance(1, 3), r.Chance(1, 3), r.Chance(1, 3)}
					if v := robust.CheckBatch(store, ks, abs); v != "" {
						add("gcs:"+store, "batch", fmt.Sprint("batch of parts ", ks, " absolute-form ", abs), map[string]any{"parts": ks, "absolute": abs}, v)
					}
				}
			}
			e.Close()
			rep.Programs++
		}
		for _, eng := range []string{"btree", "leveldb-mem"} {
			r := root.Fork()
			e := robust.NewBtEnv(eng)
			e.Seed()
			for i := 0; i < *n; i++ {
				c := robust.GenBt(r)
				crumb("bt:"+eng, c.Name+" "+c.Text, map[string]any{"rpc": c.Name, "request": c.Text, "seed": *seed, "index": i})
				v, code := e.JudgeBt(c)
				rep.Evaluations++
				rep.OpKinds["bt "+c.Name]++
				rep.RespKinds["grpc "+code.String()]++
				distinct[c.Name+c.Text] = true
				if v != "" {
					add("bt:"+eng, "perturbed call (seed "+fmt.Sprint(*seed)+", call "+fmt.Sprint(i)+")", c.Name+" "+c.Text, map[string]any{"rpc": c.Name, "request": c.Text, "seed": *seed, "index": i}, v)
					e = robust.NewBtEnv(eng)
					e.Seed()
				}
			}
			rep.Programs++
		}
	}
	if *replay == "" {
		// the concurrent admin/data mix runs in a child process: a fatal runtime error (unsynchronised
		// map access), or a data race when this binary was built with -race, kills it
		secs := 3
		if os.Getenv("VERIF_TIER") == "thorough" {
			secs = 30
		}
		self, _ := os.Executable()
		if rb := os.Getenv("VERIF_RACE_BIN"); rb != "" {
			// the same harness built with the race detector: a data race in the mix kills the child too
			self = rb
			rep.Extra["concurrent_mix_under_race_detector"] = 1
		}
		cmd := exec.Command(self, "robustmix", "--seed", fmt.Sprint(*seed), "--seconds", fmt.Sprint(secs))
		var outb, errb bytes.Buffer
		cmd.Stdout, cmd.Stderr = &outb, &errb
		err := cmd.Run()
		lines := strings.Split(strings.TrimSpace(outb.String()), "\n")
		rep.Evaluations++
		rep.OpKinds["concurrent mix (child process)"]++
		if len(lines) > 0 && strings.HasPrefix(lines[0], "ops=") {
			var n int
			fmt.Sscanf(lines[0], "ops=%d", &n)
			rep.Extra["concurrent_mix_requests"] = n
			lines = lines[1:]
		}
		if err != nil {
			tail := errb.String()
			if i := strings.Index(tail, "fatal error"); i >= 0 {
				tail = tail[i:]
			} else if i := strings.Index(tail, "WARNING: DATA RACE"); i >= 0 {
				tail = tail[i:]
			}
			add("mix", "concurrent mix", fmt.Sprintf("robustmix --seed %d --seconds %d", *seed, secs), map[string]any{"seed": *seed}, "THE PROCESS DIED ("+err.Error()+"): "+tail[:min(len(tail), 1500)])
		}
		for _, l := range lines {
			if l != "" {
				add("mix", "concurrent mix", fmt.Sprintf("robustmix --seed %d --seconds %d", *seed, secs), map[string]any{"seed": *seed}, l)
			}
		}
	}
	rep.Distinct = len(distinct)
	rep.Samples = []string{"GET /storage/v1/b/bk/o?maxResults=-1&pageToken=%25%25%25", "POST /upload/storage/v1/b/bk/o?uploadType=multipart with a body cut 12 bytes before the closing boundary", "ReadModifyWriteRow{rules:[nil]}", "ModifyColumnFamilies{modifications:[{id:\"g\" update:{gc_rule:{max_num_versions:-1}}}]} followed by a forced GC pass"}
	rep.Rule = "structure-aware perturbations of valid requests to every HTTP endpoint (all URL forms, uploads in all protocols, patch, delete, compose, rewrite, listing, buckets, batch) and every Bigtable RPC (nil sub-messages, negative / huge numbers, unknown ids, malformed regexes and ranges, junk GC rules followed by a forced pass), each judged: no panic, no hang (10 s), well-formed status (JSON error body for API errors), stored data unchanged after an error response, service still answering the snapshot requests; every 25th request a well-formed batch is compared part by part with the same requests sent alone; distinct = distinct request texts"
	rep.WallS = time.Since(t0).Seconds()
	if err := rep.Write(*out); err != nil {
		fmt.Fprintln(os.Stderr, err)
		os.Exit(2)
	}
	if len(rep.Mismatches) > 0 {
		os.Exit(1)
	}
}
