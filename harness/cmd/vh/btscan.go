package main

import (
	"encoding/json"
	"flag"
	"fmt"
	"os"
	"strings"
	"time"

	"verif/harness/internal/bt"
	"verif/harness/internal/core"
)

func cmdBtScan(args []string) {
	fs := flag.NewFlagSet("btscan", flag.ExitOnError)
	scenario := fs.String("scenario", "c18", "c18")
	seed := fs.Uint64("seed", 1, "PRNG seed")
	n := fs.Int("programs", 10, "number of scans")
	engines := fs.String("engines", "leveldb-mem,leveldb-disk", "engines (the btree engine documents that it does not offer this)")
	out := fs.String("out", "-", "report path")
	_ = fs.String("corpus", "", "unused")
	replay := fs.String("replay", "", "replay file")
	fs.Parse(args)
	t0 := time.Now()
	if *engines == "all" || *engines == "" {
		*engines = "leveldb-mem,leveldb-disk"
	}
	engs := strings.Split(*engines, ",")
	rep := &core.Report{Scenario: "btscan/" + *scenario, Seed: *seed, Configs: engs, OpKinds: map[string]int{}, RespKinds: map[string]int{}, Extra: map[string]int{}}
	var progs []*bt.ScanProgram
	if *replay != "" {
		b, err := os.ReadFile(*replay)
		if err != nil {
			fmt.Fprintln(os.Stderr, err)
			os.Exit(2)
		}
		var obj struct {
			OpsJSON *bt.ScanProgram `json:"ops_json"`
		}
		if err := json.Unmarshal(b, &obj); err != nil || obj.OpsJSON == nil {
			fmt.Fprintln(os.Stderr, "bad replay file", err)
			os.Exit(2)
		}
		progs = append(progs, obj.OpsJSON)
	} else {
		root := core.NewRng(*seed)
		for i := 0; i < *n; i++ {
			progs = append(progs, bt.GenScan(root.Fork(), engs[i%len(engs)]))
		}
	}
	distinct := map[string]bool{}
	for _, p := range progs {
		lines, impl := bt.RunScan(p)
		model, err := core.RunModel(append([]string{"reset"}, lines...))
		if err != nil {
			rep.ModelErrors = append(rep.ModelErrors, err.Error())
			break
		}
		model = model[1:]
		rep.Programs++
		rep.Extra["flush_points_with_writes"] += len(p.Flushes)
		for _, f := range p.Flushes {
			rep.Evaluations += len(f.Writes)
			for _, w := range f.Writes {
				rep.OpKinds[w.Kind]++
				distinct[w.Line()+fmt.Sprint(f.After)] = true
			}
		}
		rep.Evaluations += 2
		bad := -1
		for i := range lines {
			if model[i] == "bad-op" {
				rep.ModelErrors = append(rep.ModelErrors, lines[i][:min(len(lines[i]), 300)])
			}
			if impl[i] != model[i] && bad < 0 {
				bad = i
			}
		}
		scanIdx := len(lines) - 3
		rep.Extra["rows_streamed"] += strings.Count(impl[scanIdx], " | ")
		if len(rep.Samples) < 2 {
			rep.Samples = append(rep.Samples, fmt.Sprintf("%s: %d rows x %d cells, ranges=%d keys=%d, %d flush points: %s ...", p.Engine, p.NRows, p.Cells, len(p.Ranges), len(p.Keys), len(p.Flushes), lines[scanIdx][:min(len(lines[scanIdx]), 400)]))
		}
		if bad >= 0 && len(rep.Mismatches) < 3 {
			pj, _ := json.Marshal(p)
			// where do the row lists differ first?
			note := ""
			if bad >= scanIdx {
				ir, mr := strings.Split(impl[bad], " | "), strings.Split(model[bad], " | ")
				for k := 0; k < len(ir) || k < len(mr); k++ {
					a, b := "(none)", "(none)"
					if k < len(ir) {
						a = ir[k]
					}
					if k < len(mr) {
						b = mr[k]
					}
					if a != b {
						note = fmt.Sprintf("first differing row (position %d): implementation %q, model %q", k, a[:min(len(a), 200)], b[:min(len(b), 200)])
						break
					}
				}
			}
			short := func(s string) string { return s[:min(len(s), 600)] }
			rep.Mismatches = append(rep.Mismatches, core.Mismatch{Config: p.Engine, Ops: []string{short(lines[bad])}, Impl: []string{short(impl[bad])}, Model: []string{short(model[bad])},
				Index: 0, ShrunkFrom: len(lines), Kind: "btscan", OpsJSON: pj, Note: note})
		}
	}
	rep.Distinct = len(distinct)
	rep.Rule = "each program = a table of 1200-2400 rows (2-5 cells each), a ReadRows over the whole table / one range / several disjoint or overlapping ranges and keys; at every stream.Send (the scan has released the table lock) 1-4 client writes (SetCell, DeleteFromRow, ReadModifyWrite append, two-entry MutateRows) are issued on rows before, at, right after and far after the scan position; the streamed rows must equal what the Lean scan machine (snapshot per range) yields with the same writes at the same positions; distinct = distinct (write, position) pairs"
	rep.WallS = time.Since(t0).Seconds()
	if err := rep.Write(*out); err != nil {
		fmt.Fprintln(os.Stderr, err)
		os.Exit(2)
	}
	if len(rep.Mismatches) > 0 || len(rep.ModelErrors) > 0 {
		os.Exit(1)
	}
}
