package main

import (
	"encoding/json"
	"flag"
	"fmt"
	"os"
	"sort"
	"strings"
	"time"

	"verif/harness/internal/bt"
	"verif/harness/internal/conc"
	"verif/harness/internal/core"
)

// concCase is one interleaving of one concurrent program, as lines for the Lean driver and the
// implementation's side of each line.
type concCase struct {
	prog  json.RawMessage
	sched []int
	lines []string
	impl  []string
	run   *conc.Run
	nops  int
	setup []string // setup lines (for the serial-order search)
	ops   []string // request lines of the goroutines
	final []string // final read lines
	fimpl []string // implementation's final reads
}

// serialOrderExists asks the Model for every serial order compatible with real time whether it
// explains the responses and the final state.
func serialOrderExists(c *concCase) (bool, error) {
	perms := conc.Perms(c.nops, c.run.Order)
	var all []string
	for _, pm := range perms {
		all = append(all, "reset")
		all = append(all, c.setup...)
		for _, i := range pm {
			all = append(all, c.ops[i])
		}
		all = append(all, c.final...)
	}
	res, err := core.RunModel(all)
	if err != nil {
		return false, err
	}
	per := 1 + len(c.setup) + c.nops + len(c.final)
	for k, pm := range perms {
		out := res[k*per : (k+1)*per]
		ok := true
		for j, i := range pm {
			if c.run.Resp[i] != "" && out[1+len(c.setup)+j] != c.run.Resp[i] {
				ok = false
			}
		}
		for j := range c.final {
			if j < len(c.fimpl) && out[1+len(c.setup)+c.nops+j] != c.fimpl[j] {
				ok = false
			}
		}
		if ok {
			return true, nil
		}
	}
	return false, nil
}

func cmdBtConc(args []string) {
	fs := flag.NewFlagSet("btconc", flag.ExitOnError)
	scenario := fs.String("scenario", "c06s", "c06s")
	seed := fs.Uint64("seed", 1, "PRNG seed")
	n := fs.Int("programs", 20, "number of concurrent programs")
	engines := fs.String("engines", "btree,leveldb-mem", "engines")
	out := fs.String("out", "-", "report path")
	_ = fs.String("corpus", "", "unused")
	replay := fs.String("replay", "", "replay file")
	maxRuns := fs.Int("maxruns", 400, "interleavings per program at most")
	fs.Parse(args)
	t0 := time.Now()
	if *engines == "all" || *engines == "" {
		*engines = "btree,leveldb-mem"
	}
	engs := strings.Split(*engines, ",")
	rep := &core.Report{Scenario: "btconc/" + *scenario, Seed: *seed, Configs: engs, OpKinds: map[string]int{}, RespKinds: map[string]int{}, Extra: map[string]int{}}

	var progs []*bt.ConcProgram
	if *replay != "" {
		b, err := os.ReadFile(*replay)
		if err != nil {
			fmt.Fprintln(os.Stderr, err)
			os.Exit(2)
		}
		var obj struct {
			OpsJSON *bt.ConcProgram `json:"ops_json"`
		}
		if err := json.Unmarshal(b, &obj); err != nil || obj.OpsJSON == nil {
			fmt.Fprintln(os.Stderr, "bad replay file", err)
			os.Exit(2)
		}
		progs = append(progs, obj.OpsJSON)
	} else {
		root := core.NewRng(*seed)
		for i := 0; i < *n; i++ {
			r := root.Fork()
			progs = append(progs, bt.GenConc(r, engs[i%len(engs)]))
		}
	}

	distinct := map[string]bool{}
	complete := 0
	rejects := 0
	for _, p := range progs {
		var cases []*concCase
		var setupImpl []string
		pj, _ := json.Marshal(p)
		var setupLines, opLines, finalLines []string
		for _, op := range p.Setup {
			setupLines = append(setupLines, op.Line())
		}
		for _, op := range p.Ops {
			opLines = append(opLines, op.Line())
			rep.OpKinds[op.Kind]++
		}
		for _, op := range p.FinalReads() {
			finalLines = append(finalLines, op.Line())
		}
		visit := func(run *conc.Run) bool {
			c := &concCase{prog: pj, sched: append([]int{}, run.Chosen...), run: run, nops: len(p.Ops), setup: setupLines, ops: opLines, final: finalLines}
			c.lines = append(c.lines, "reset")
			c.impl = append(c.impl, "ok")
			for i, l := range setupLines {
				c.lines = append(c.lines, l)
				c.impl = append(c.impl, setupImpl[i])
			}
			c.lines = append(c.lines, "conc begin bt")
			c.impl = append(c.impl, "ok")
			for _, l := range opLines {
				c.lines = append(c.lines, "conc op "+l)
				c.impl = append(c.impl, "ok")
			}
			c.lines = append(c.lines, run.Lines...)
			c.impl = append(c.impl, run.Impl...)
			cases = append(cases, c)
			return true
		}
		var runs int
		var done bool
		if len(p.Sched) > 0 && *replay != "" {
			mk := p.MkSys(&setupImpl)
			var last conc.System
			run := conc.RunOne(func(y func(string)) conc.System { last = mk(y); return &keepOpen{last} }, len(p.Ops), bt.ConcClassify, p.Sched)
			visit(run)
			cases[0].fimpl = bt.ExecFinal(last, p.FinalReads())
			last.Close()
			runs, done = 1, false
		} else {
			// the final reads must be taken before the system is closed: wrap Close
			mk := p.MkSys(&setupImpl)
			var finals [][]string
			wrapped := func(y func(string)) conc.System {
				s := mk(y)
				return &finalOnClose{System: s, take: func() { finals = append(finals, bt.ExecFinal(s, p.FinalReads())) }}
			}
			runs, done = conc.Explore(wrapped, len(p.Ops), bt.ConcClassify, *maxRuns, visit)
			for i, c := range cases {
				if i < len(finals) {
					c.fimpl = finals[i]
				}
			}
		}
		if done {
			complete++
		}
		rep.Programs++
		rep.Extra["interleavings"] += runs
		// model side
		var all []string
		for _, c := range cases {
			if c.run.Stalled == "" {
				c.lines = append(c.lines, "conc end")
				c.impl = append(c.impl, "ok")
				for j, l := range finalLines {
					c.lines = append(c.lines, l)
					if j < len(c.fimpl) {
						c.impl = append(c.impl, c.fimpl[j])
					} else {
						c.impl = append(c.impl, "?")
					}
				}
			}
			all = append(all, c.lines...)
		}
		res, err := core.RunModel(all)
		if err != nil {
			rep.ModelErrors = append(rep.ModelErrors, err.Error())
			break
		}
		off := 0
		for _, c := range cases {
			model := res[off : off+len(c.lines)]
			off += len(c.lines)
			rep.Evaluations += len(c.run.Lines)
			bad := -1
			for i := range c.lines {
				if model[i] == "bad-op" {
					rep.ModelErrors = append(rep.ModelErrors, c.lines[i])
				}
				if c.impl[i] != model[i] && bad < 0 {
					bad = i
				}
			}
			distinct[string(c.prog)+"|"+conc.SchedString(c.sched)] = true
			if len(rep.Samples) < 3 && len(c.sched) > 5 {
				rep.Samples = append(rep.Samples, strings.Join(c.ops, " || ")+"  schedule "+conc.SchedString(c.sched)+"  =>  "+strings.Join(c.run.Resp, " | "))
			}
			if bad >= 0 {
				rep.Extra["disagreeing_interleavings"]++
				if rejects < 2 && len(rep.Mismatches) < 40 {
					serial, err := serialOrderExists(c)
					verdict := ""
					note := "the implementation's run is not a run of the one-lock machine Emu.Conc.step over the sequential Model (a step was not enabled, or a response differs from the Model's at the request's turn)"
					if err != nil {
						note += "; serial-order search failed: " + err.Error()
					} else if serial {
						verdict = "accepts"
						note += "; SPEC-ACCEPTS: some serial order compatible with real time explains every response and the final state (no failing input found)"
					} else {
						verdict = "rejects"
						rejects++
						note += "; SPEC-REJECTS: no serial order of the requests compatible with real time explains the responses and the final state"
					}
					var q bt.ConcProgram
					json.Unmarshal(c.prog, &q)
					q.Sched = c.sched
					qj, _ := json.Marshal(&q)
					rep.Mismatches = append(rep.Mismatches, core.Mismatch{Config: p.Engine, Ops: c.lines[:bad+1], Impl: c.impl[:bad+1],
						Model: append([]string{}, model[:bad+1]...), Index: bad, ShrunkFrom: len(c.lines), Kind: "btconc", OpsJSON: qj, Note: note, SpecVerdict: verdict})
				}
			}
		}
		if rejects >= 2 || len(rep.Mismatches) >= 40 {
			break
		}
	}
	// concrete failing inputs first; a handful is enough
	sort.SliceStable(rep.Mismatches, func(i, j int) bool {
		return rep.Mismatches[i].SpecVerdict == "rejects" && rep.Mismatches[j].SpecVerdict != "rejects"
	})
	if len(rep.Mismatches) > 4 {
		rep.Mismatches = rep.Mismatches[:4]
	}
	rep.Extra["programs_fully_enumerated"] = complete
	rep.Distinct = len(distinct)
	rep.Exhaustive = false
	rep.Rule = "each program = sequential prefix + 2-4 concurrent single-row requests on overlapping rows; every interleaving of the goroutines' parking points (before the table lock, inside it after the row fetch, per entry for MutateRows; attempts to enter while another goroutine is inside included) is run on a fresh service (stateless DFS, bounded per program) and replayed on the Lean one-lock machine; distinct = distinct (program, schedule) pairs"
	rep.WallS = time.Since(t0).Seconds()
	if err := rep.Write(*out); err != nil {
		fmt.Fprintln(os.Stderr, err)
		os.Exit(2)
	}
	if len(rep.Mismatches) > 0 || len(rep.ModelErrors) > 0 {
		os.Exit(1)
	}
}

type finalOnClose struct {
	conc.System
	take func()
}

func (f *finalOnClose) Close() {
	f.take()
	f.System.Close()
}

type keepOpen struct{ conc.System }

func (k *keepOpen) Close() {}
