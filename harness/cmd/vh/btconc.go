package main

import (
	"encoding/json"
	"flag"
	"fmt"
	"os"
	"path/filepath"
	"sort"
	"strings"
	"time"

	"verif/harness/internal/bt"
	"verif/harness/internal/conc"
	"verif/harness/internal/core"
	"verif/harness/internal/gcs"
)

// concCase is one interleaving of one concurrent program, as lines for the Lean driver and the
// implementation's side of each line.
type concCase struct {
	prog  json.RawMessage
	sched []int
	lines []string
	impl  []string
	run   *conc.Run
	nops  int
	setup []string // setup lines (for the serial-order search)
	ops   []string // request lines of the goroutines
	final []string // final read lines
	fimpl []string // implementation's final reads
}

// serialOrderExists asks the Model for every serial order compatible with real time whether it
// explains the responses and the final state.
func serialOrderExists(c *concCase, modelKind string, same func(impl, model string) bool, post func([]string) []string) (bool, error) {
	perms := conc.Perms(c.nops, c.run.Order)
	var all []string
	for _, pm := range perms {
		all = append(all, "reset")
		all = append(all, c.setup...)
		all = append(all, "conc begin "+modelKind)
		for _, l := range c.ops {
			all = append(all, "conc op "+l)
		}
		for _, i := range pm {
			for _, a := range []string{"invoke", "acquire", "work", "release", "respond"} {
				all = append(all, fmt.Sprintf("conc step %d %s", i, a))
			}
		}
		all = append(all, "conc end")
		all = append(all, c.final...)
	}
	res, err := core.RunModel(all)
	if err != nil {
		return false, err
	}
	per := 1 + len(c.setup) + 1 + c.nops + 5*c.nops + 1 + len(c.final)
	for k, pm := range perms {
		out := post(res[k*per : (k+1)*per])
		base := 1 + len(c.setup) + 1 + c.nops
		ok := true
		for j, i := range pm {
			if c.run.Resp[i] != "" && !same("ok "+c.run.Resp[i], out[base+5*j+2]) {
				ok = false
			}
		}
		for j := range c.final {
			if j < len(c.fimpl) && !same(c.fimpl[j], out[base+5*c.nops+1+j]) {
				ok = false
			}
		}
		if ok {
			return true, nil
		}
	}
	return false, nil
}

// concProg abstracts a concurrent program of either emulator.
type concProg interface {
	Config() string
	SetupLines() []string
	OpLines() []string
	OpKinds() []string
	FinalLines() []string
	// Mk returns the factory of fresh systems; setupOut receives the prefix's responses of the latest system.
	Mk(setupOut *[]string) func(y func(string)) conc.System
	Final(sys conc.System) []string
	// Post canonicalises all lines of one run together, the implementation's and likewise the
	// Model's (GCS: generation ranks per object).
	Post(lines []string) []string
	Opts() conc.Opts
	Sched() []int
	WithSched(s []int) json.RawMessage
	// Same decides whether the implementation's line is what the Model's line allows.
	Same(impl, model string) bool
	// Strict: the order in which the goroutines pass their parking points IS the serial order (Bigtable:
	// the table lock brackets the whole request). Otherwise (GCS: store mutations sit somewhere inside the
	// locked section and reads take no lock) the recorded order is only the first candidate and a run is
	// accepted if some serial order compatible with real time explains it.
	Strict() bool
}

type btProg struct{ p *bt.ConcProgram }

func (b btProg) Config() string { return b.p.Engine }
func (b btProg) SetupLines() (out []string) {
	for _, op := range b.p.Setup {
		out = append(out, op.Line())
	}
	return
}
func (b btProg) OpLines() (out []string) {
	for _, op := range b.p.Ops {
		out = append(out, op.Line())
	}
	return
}
func (b btProg) OpKinds() (out []string) {
	for _, op := range b.p.Ops {
		out = append(out, op.Kind)
	}
	return
}
func (b btProg) FinalLines() (out []string) {
	for _, op := range b.p.FinalReads() {
		out = append(out, op.Line())
	}
	return
}
func (b btProg) Mk(setupOut *[]string) func(y func(string)) conc.System { return b.p.MkSys(setupOut) }
func (b btProg) Final(sys conc.System) []string                         { return bt.ExecFinal(sys, b.p.FinalReads()) }
func (b btProg) Post(lines []string) []string                           { return lines }
func (b btProg) Opts() conc.Opts                                        { return conc.Opts{N: len(b.p.Ops), Cls: bt.ConcClassify} }
func (b btProg) Same(impl, model string) bool                           { return impl == model }
func (b btProg) Strict() bool                                           { return true }
func (b btProg) Sched() []int                                           { return b.p.Sched }
func (b btProg) WithSched(s []int) json.RawMessage {
	q := *b.p
	q.Sched = s
	j, _ := json.Marshal(&q)
	return j
}

type gcsProg struct {
	p    *gcs.ConcProgram
	base *[]int64
}

func (b gcsProg) Config() string { return b.p.Store }
func (b gcsProg) SetupLines() (out []string) {
	for _, op := range b.p.Setup {
		out = append(out, op.Line())
	}
	return
}
func (b gcsProg) OpLines() (out []string) {
	for _, op := range b.p.Ops {
		out = append(out, op.Line())
	}
	return
}
func (b gcsProg) OpKinds() (out []string) {
	for _, op := range b.p.Ops {
		out = append(out, op.Kind)
	}
	return
}
func (b gcsProg) FinalLines() (out []string) {
	for _, op := range b.p.FinalReads() {
		out = append(out, op.Line())
	}
	return
}
func (b gcsProg) Mk(setupOut *[]string) func(y func(string)) conc.System {
	return b.p.MkSys(setupOut, b.base)
}
func (b gcsProg) Final(sys conc.System) []string { return gcs.ExecFinal(sys, b.p.FinalReads()) }
func (b gcsProg) Post(lines []string) []string   { return gcs.RankGensPerObject(lines) }
func (b gcsProg) Opts() conc.Opts {
	if b.p.Tear {
		return conc.Opts{N: len(b.p.Ops), Cls: gcs.TearClassify, LazyAcquire: true}
	}
	if b.p.CrossRead() {
		return conc.Opts{N: len(b.p.Ops), Cls: gcs.ConcClassifyOneStep, LazyAcquire: true}
	}
	return conc.Opts{N: len(b.p.Ops), Cls: gcs.ConcClassify, LazyAcquire: true}
}
func (b gcsProg) Same(impl, model string) bool {
	if strings.HasPrefix(impl, "ok ") && strings.HasPrefix(model, "ok ") {
		return gcs.Accept(nil, impl[3:], model[3:])
	}
	return gcs.Accept(nil, impl, model)
}
func (b gcsProg) Strict() bool { return false }
func (b gcsProg) Sched() []int { return b.p.Sched }
func (b gcsProg) WithSched(s []int) json.RawMessage {
	q := *b.p
	q.Sched = s
	j, _ := json.Marshal(&q)
	return j
}

func cmdBtConc(args []string)  { cmdConc("btconc", args) }
func cmdGcsConc(args []string) { cmdConc("gcsconc", args) }

func cmdConc(kind string, args []string) {
	fs := flag.NewFlagSet(kind, flag.ExitOnError)
	scenario := fs.String("scenario", "c06s", "c06s | c07s")
	seed := fs.Uint64("seed", 1, "PRNG seed")
	n := fs.Int("programs", 20, "number of concurrent programs")
	defEng := "btree,leveldb-mem"
	if kind == "gcsconc" {
		defEng = "mem,file"
	}
	engines := fs.String("engines", defEng, "engines / stores")
	out := fs.String("out", "-", "report path")
	corpus := fs.String("corpus", "", "directory of saved programs: each is explored in full first")
	replay := fs.String("replay", "", "replay file")
	maxRuns := fs.Int("maxruns", 400, "interleavings per program at most")
	fs.Parse(args)
	t0 := time.Now()
	if *engines == "all" || *engines == "" {
		*engines = defEng
	}
	engs := strings.Split(*engines, ",")
	rep := &core.Report{Scenario: kind + "/" + *scenario, Seed: *seed, Configs: engs, OpKinds: map[string]int{}, RespKinds: map[string]int{}, Extra: map[string]int{}}

	var progs []concProg
	loadProg := func(path string, keepSched bool) {
		b, err := os.ReadFile(path)
		if err != nil {
			fmt.Fprintln(os.Stderr, err)
			os.Exit(2)
		}
		var obj struct {
			OpsJSON json.RawMessage `json:"ops_json"`
		}
		if err := json.Unmarshal(b, &obj); err != nil || obj.OpsJSON == nil {
			fmt.Fprintln(os.Stderr, "bad replay file", path, err)
			os.Exit(2)
		}
		if kind == "btconc" {
			q := &bt.ConcProgram{}
			if err := json.Unmarshal(obj.OpsJSON, q); err != nil {
				fmt.Fprintln(os.Stderr, "bad replay file", err)
				os.Exit(2)
			}
			if !keepSched {
				q.Sched = nil
			}
			progs = append(progs, btProg{q})
		} else {
			q := &gcs.ConcProgram{}
			if err := json.Unmarshal(obj.OpsJSON, q); err != nil {
				fmt.Fprintln(os.Stderr, "bad replay file", err)
				os.Exit(2)
			}
			if !keepSched {
				q.Sched = nil
			}
			if *scenario == "c07t" != q.Tear && !keepSched {
				return
			}
			progs = append(progs, gcsProg{q, new([]int64)})
		}
	}
	if *replay != "" {
		loadProg(*replay, true)
	} else {
		if *corpus != "" {
			files, _ := filepath.Glob(filepath.Join(*corpus, "*.json"))
			sort.Strings(files)
			for _, f := range files {
				loadProg(f, false)
			}
		}
		root := core.NewRng(*seed)
		for i := 0; i < *n; i++ {
			r := root.Fork()
			if kind == "btconc" {
				progs = append(progs, btProg{bt.GenConc(r, engs[i%len(engs)])})
			} else if *scenario == "c07t" {
				progs = append(progs, gcsProg{gcs.GenTear(r), new([]int64)})
			} else {
				progs = append(progs, gcsProg{gcs.GenConc(r, engs[i%len(engs)]), new([]int64)})
			}
		}
	}
	modelKind := "bt"
	if kind == "gcsconc" {
		modelKind = "gcs"
	}

	distinct := map[string]bool{}
	complete := 0
	rejects := 0
	abort := false
	for _, p := range progs {
		var cases []*concCase
		var setupImpl []string
		pj := p.WithSched(nil)
		setupLines, opLines, finalLines := p.SetupLines(), p.OpLines(), p.FinalLines()
		for _, k := range p.OpKinds() {
			rep.OpKinds[k]++
		}
		nops := len(opLines)
		opts := p.Opts()
		stalls := 0
		visited := 0        // runs seen so far (one system, hence one set of final reads, per run)
		var skipped []int   // indices of the runs that produced no case
		visit := func(run *conc.Run) bool {
			if run.Stalled != "" {
				stalls++
				rep.Extra["stalled_interleavings"]++
				if stalls >= 2 {
					// every stall costs a timeout; two are enough to report: stop exploring
					abort = true
				}
			}
			if run.Infeasible {
				rep.Extra["infeasible_replays_discarded"]++
				skipped = append(skipped, visited)
				visited++
				return true
			}
			visited++
			c := &concCase{prog: pj, sched: append([]int{}, run.Chosen...), run: run, nops: nops, setup: setupLines, ops: opLines, final: finalLines}
			c.lines = append(c.lines, "reset")
			c.impl = append(c.impl, "ok")
			for i, l := range setupLines {
				c.lines = append(c.lines, l)
				c.impl = append(c.impl, setupImpl[i])
			}
			c.lines = append(c.lines, "conc begin "+modelKind)
			c.impl = append(c.impl, "ok")
			for _, l := range opLines {
				c.lines = append(c.lines, "conc op "+l)
				c.impl = append(c.impl, "ok")
			}
			c.lines = append(c.lines, run.Lines...)
			c.impl = append(c.impl, run.Impl...)
			cases = append(cases, c)
			return stalls < 2
		}
		var runs int
		var done bool
		replayed := false
		if len(p.Sched()) > 0 && *replay != "" {
			mk := p.Mk(&setupImpl)
			var last conc.System
			run := conc.RunOne(func(y func(string)) conc.System { last = mk(y); return &keepOpen{last} }, opts, p.Sched())
			visit(run)
			if len(cases) > 0 {
				cases[0].fimpl = p.Final(last)
				replayed = true
				runs, done = 1, false
			} else {
				// the recorded schedule cannot be followed any more (the code, or the parking points, changed):
				// explore the program's interleavings instead
				visited, skipped = 0, nil
			}
			last.Close()
		}
		if !replayed {
			// the final reads must be taken before the system is closed: wrap Close
			mk := p.Mk(&setupImpl)
			var finals [][]string
			wrapped := func(y func(string)) conc.System {
				s := mk(y)
				return &finalOnClose{System: s, take: func() { finals = append(finals, p.Final(s)) }}
			}
			runs, done = conc.Explore(wrapped, opts, *maxRuns, visit)
			// finals has one entry per run, cases one per run that was kept: drop the finals of the others
			skip := map[int]bool{}
			for _, k := range skipped {
				skip[k] = true
			}
			var kept [][]string
			for k, f := range finals {
				if !skip[k] {
					kept = append(kept, f)
				}
			}
			for i, c := range cases {
				if i < len(kept) {
					c.fimpl = kept[i]
				}
			}
		}
		if done {
			complete++
		}
		rep.Programs++
		rep.Extra["interleavings"] += runs
		// model side
		var all []string
		for _, c := range cases {
			if c.run.Stalled == "" {
				c.lines = append(c.lines, "conc end")
				c.impl = append(c.impl, "ok")
				for j, l := range finalLines {
					c.lines = append(c.lines, l)
					if j < len(c.fimpl) {
						c.impl = append(c.impl, c.fimpl[j])
					} else {
						c.impl = append(c.impl, "?")
					}
				}
			}
			// canonicalise the implementation's side of the whole run together
			nimpl := len(c.impl)
			joint := p.Post(append(append(append([]string{}, c.impl...), c.run.Resp...), c.fimpl...))
			c.impl = joint[:nimpl]
			c.run.Resp = joint[nimpl : nimpl+len(c.run.Resp)]
			c.fimpl = joint[nimpl+len(c.run.Resp):]
			all = append(all, c.lines...)
		}
		res, err := core.RunModel(all)
		if err != nil {
			rep.ModelErrors = append(rep.ModelErrors, err.Error())
			break
		}
		off := 0
		for _, c := range cases {
			model := p.Post(res[off : off+len(c.lines)])
			off += len(c.lines)
			rep.Evaluations += len(c.run.Lines)
			bad := -1
			for i := range c.lines {
				if model[i] == "bad-op" {
					rep.ModelErrors = append(rep.ModelErrors, c.lines[i])
				}
				if !p.Same(c.impl[i], model[i]) && bad < 0 {
					bad = i
				}
			}
			distinct[string(c.prog)+"|"+conc.SchedString(c.sched)] = true
			if len(rep.Samples) < 3 && len(c.sched) > 5 {
				rep.Samples = append(rep.Samples, strings.Join(c.ops, " || ")+"  schedule "+conc.SchedString(c.sched)+"  =>  "+strings.Join(c.run.Resp, " | "))
			}
			if bad >= 0 && !p.Strict() && c.run.Stalled == "" {
				if serial, err := serialOrderExists(c, modelKind, p.Same, p.Post); err == nil && serial {
					rep.Extra["explained_by_another_serial_order"]++
					bad = -1
				}
			}
			if bad >= 0 {
				rep.Extra["disagreeing_interleavings"]++
				if rejects < 2 && len(rep.Mismatches) < 40 {
					serial, err := serialOrderExists(c, modelKind, p.Same, p.Post)
					verdict := ""
					if c.run.Stalled != "" {
						rep.Mismatches = append(rep.Mismatches, core.Mismatch{Config: p.Config(), Ops: c.lines[:bad+1], Impl: c.impl[:bad+1],
							Model: append([]string{}, model[:bad+1]...), Index: bad, ShrunkFrom: len(c.lines), Kind: kind, OpsJSON: p.WithSched(c.sched),
							Note: "STALLED: " + c.run.Stalled + " (a request is blocked where the one-lock machine lets it move: a lock taken under another key, a lock never released, or a lost wake-up)", SpecVerdict: "rejects"})
						rejects++
						continue
					}
					note := "the implementation's run is not a run of the one-lock machine Emu.Conc.step over the sequential Model (a step was not enabled, or a response differs from the Model's at the request's turn)"
					if err != nil {
						note += "; serial-order search failed: " + err.Error()
					} else if serial {
						verdict = "accepts"
						note += "; SPEC-ACCEPTS: some serial order compatible with real time explains every response and the final state (no failing input found)"
					} else {
						verdict = "rejects"
						rejects++
						note += "; SPEC-REJECTS: no serial order of the requests compatible with real time explains the responses and the final state"
					}
					qj := p.WithSched(c.sched)
					rep.Mismatches = append(rep.Mismatches, core.Mismatch{Config: p.Config(), Ops: c.lines[:bad+1], Impl: c.impl[:bad+1],
						Model: append([]string{}, model[:bad+1]...), Index: bad, ShrunkFrom: len(c.lines), Kind: kind, OpsJSON: qj, Note: note, SpecVerdict: verdict})
				}
			}
		}
		if rejects >= 2 || len(rep.Mismatches) >= 40 || abort {
			break
		}
	}
	// concrete failing inputs first; a handful is enough
	sort.SliceStable(rep.Mismatches, func(i, j int) bool {
		return rep.Mismatches[i].SpecVerdict == "rejects" && rep.Mismatches[j].SpecVerdict != "rejects"
	})
	if len(rep.Mismatches) > 4 {
		rep.Mismatches = rep.Mismatches[:4]
	}
	rep.Extra["programs_fully_enumerated"] = complete
	rep.Distinct = len(distinct)
	rep.Exhaustive = false
	rep.Rule = "each program = sequential prefix + 2-4 concurrent single-row requests on overlapping rows; every interleaving of the goroutines' parking points (before the table lock, inside it after the row fetch, per entry for MutateRows; attempts to enter while another goroutine is inside included) is run on a fresh service (stateless DFS, bounded per program) and replayed on the Lean one-lock machine; distinct = distinct (program, schedule) pairs"
	rep.WallS = time.Since(t0).Seconds()
	if err := rep.Write(*out); err != nil {
		fmt.Fprintln(os.Stderr, err)
		os.Exit(2)
	}
	if len(rep.Mismatches) > 0 || len(rep.ModelErrors) > 0 {
		os.Exit(1)
	}
}

type finalOnClose struct {
	conc.System
	take func()
}

func (f *finalOnClose) Close() {
	f.take()
	f.System.Close()
}

type keepOpen struct{ conc.System }

func (k *keepOpen) Close() {}
