import json,sys
r=json.load(open(sys.argv[1]))
print('=====',r['scenario'],r['evaluations'], r.get('extra'), r.get('model_errors'))
from collections import Counter
c=Counter(); ex={}
for i,m in enumerate(r['mismatches'] or []):
    k=str((m['config'],m['ops'][-1].split(' ')[1],m['impl'][-1].split(' ')[0:2], m['model'][-1].split(' ')[0:2]))
    c[k]+=1; ex.setdefault(k,[]).append(i)
for k,v in c.items(): print(v,k,ex[k][:5])
