#!/usr/bin/env python3
"""savecorpus.py report.json index dest.json 'note' : keep a shrunk disagreement as a corpus program"""
import json,sys
r=json.load(open(sys.argv[1])); m=r['mismatches'][int(sys.argv[2])]
json.dump({'note':sys.argv[4] if len(sys.argv)>4 else '', 'kind':m.get('kind'), 'config':m['config'], 'ops':m['ops'], 'ops_json':m['ops_json']}, open(sys.argv[3],'w'), indent=1)
