// Package robust is the search half of C20: structure-aware perturbations of valid requests to
// every endpoint / RPC of both emulators, each followed by a probe that the service still serves
// valid requests with its data intact. A panic, a hang, a malformed response or lost data is a
// violation with the request as replay.
package robust

import (
	"compress/gzip"
	"regexp"
	"bytes"
	"encoding/base64"
	"encoding/json"
	"fmt"
	"io"
	"mime"
	"mime/multipart"
	"net/http"
	"net/http/httptest"
	"net/url"
	"os"
	"runtime/debug"
	"strings"
	"time"

	"github.com/fullstorydev/emulators/storage/gcsemu"

	"verif/harness/internal/core"
)

// Req is one raw HTTP request.
type Req struct {
	Method string            `json:"method"`
	Path   string            `json:"path"`
	Query  string            `json:"query"`
	Hdr    map[string]string `json:"hdr,omitempty"`
	Body   []byte            `json:"body,omitempty"`
	Note   string            `json:"note,omitempty"`
	// Want: for a directed request, the status a valid request of this kind must get (0 = any well-formed answer)
	Want int `json:"want,omitempty"`
}

func (r Req) String() string {
	b := string(r.Body)
	if len(b) > 160 {
		b = b[:160] + "…"
	}
	return fmt.Sprintf("%s %s?%s hdr=%v body=%q (%s)", r.Method, r.Path, r.Query, r.Hdr, b, r.Note)
}

type GcsEnv struct {
	emu   *gcsemu.GcsEmu
	mux   *http.ServeMux
	dir   string
	Store string
}

func NewGcsEnv(store string) *GcsEnv {
	e := &GcsEnv{Store: store}
	opts := gcsemu.Options{}
	if store == "file" {
		d, err := os.MkdirTemp(scratch(), "verif-robust-")
		if err != nil {
			panic(err)
		}
		e.dir = d
		opts.Store = gcsemu.NewFileStore(d)
	}
	e.emu = gcsemu.NewGcsEmu(opts)
	e.mux = http.NewServeMux()
	e.emu.Register(e.mux)
	return e
}

// where names the emulator frames of a panic's stack.
func where(stack []byte) string {
	var out []string
	lines := strings.Split(string(stack), "\n")
	for i, l := range lines {
		if strings.Contains(l, "fullstorydev/emulators") && !strings.HasPrefix(l, "\t") && i+1 < len(lines) {
			f := strings.TrimSpace(lines[i+1])
			if j := strings.LastIndex(f, "/"); j >= 0 {
				f = f[j+1:]
			}
			if j := strings.Index(f, " "); j >= 0 {
				f = f[:j]
			}
			out = append(out, f)
			if len(out) == 3 {
				break
			}
		}
	}
	return strings.Join(out, " < ")
}

func scratch() string {
	if d := os.Getenv("VERIF_SCRATCH"); d != "" {
		return d
	}
	return "/var/tmp"
}

func (e *GcsEnv) Close() {
	if e.dir != "" {
		os.RemoveAll(e.dir)
	}
}

// Result of one request.
type Result struct {
	Code    int
	Body    []byte
	CT      string
	CL      string // the Content-Length header the handler set ("" = none)
	Panic   string
	Hung    bool
	Elapsed time.Duration
}

// Do sends the request through the emulator's handler in this process; a panic is recovered and
// reported (net/http would kill the connection), a handler that does not return in 10 s is a hang.
func (e *GcsEnv) Do(r Req) Result {
	done := make(chan Result, 1)
	t0 := time.Now()
	go func() {
		var res Result
		defer func() {
			if p := recover(); p != nil {
				res.Panic = fmt.Sprint(p) + " at " + where(debug.Stack())
			}
			done <- res
		}()
		u := &url.URL{Path: r.Path, RawQuery: r.Query}
		req := &http.Request{Method: r.Method, URL: u, Header: http.Header{}, Host: "emu.test", Proto: "HTTP/1.1", ProtoMajor: 1, ProtoMinor: 1}
		for k, v := range r.Hdr {
			req.Header.Set(k, v)
		}
		body := r.Body
		if body == nil {
			body = []byte{}
		}
		req.Body = io.NopCloser(bytes.NewReader(body))
		req.ContentLength = int64(len(body))
		rec := httptest.NewRecorder()
		e.mux.ServeHTTP(rec, req)
		res.Code = rec.Code
		res.Body = rec.Body.Bytes()
		res.CT = rec.Header().Get("Content-Type")
		res.CL = rec.Header().Get("Content-Length")
	}()
	select {
	case res := <-done:
		res.Elapsed = time.Since(t0)
		return res
	case <-time.After(10 * time.Second):
		return Result{Hung: true, Elapsed: time.Since(t0)}
	}
}

// wellFormed checks the shape of a response: a real status code, and for API-level errors a JSON
// error body carrying that code.
func wellFormed(r Req, res Result) string {
	if res.Code < 100 || res.Code > 599 {
		return fmt.Sprintf("status code %d", res.Code)
	}
	// An error answer that says it is JSON must be the API's error document carrying the same code.
	// (Errors raised below the API — net/http's mux, the gzip request-body wrapper — are plain text.)
	if res.Code >= 400 && strings.Contains(res.CT, "json") {
		var v struct {
			Error struct {
				Code int `json:"code"`
			} `json:"error"`
		}
		if err := json.Unmarshal(res.Body, &v); err != nil {
			return fmt.Sprintf("status %d, Content-Type %s, with a body that is not JSON: %.120q", res.Code, res.CT, res.Body)
		}
		if v.Error.Code != res.Code {
			return fmt.Sprintf("status %d but the error body says code %d", res.Code, v.Error.Code)
		}
	}
	// A declared length is a promise about the bytes that follow: on a real connection net/http cuts the
	// body or the client sees "unexpected EOF" when they disagree (a recorder just keeps both).
	if res.CL != "" && r.Method != "HEAD" && res.CL != fmt.Sprint(len(res.Body)) {
		return fmt.Sprintf("Content-Length says %s but the body has %d bytes", res.CL, len(res.Body))
	}
	if res.Code >= 400 && len(bytes.TrimSpace(res.Body)) == 0 && r.Method != "HEAD" {
		return fmt.Sprintf("status %d with an empty body", res.Code)
	}
	return ""
}

// Snapshot is everything stored, read through valid requests.
func (e *GcsEnv) Snapshot() (snap string) {
	defer func() {
		if p := recover(); p != nil {
			snap = fmt.Sprint("SNAPSHOT FAILED: panic: ", p)
		}
	}()
	var sb strings.Builder
	for _, b := range []string{"bk", "b2"} {
		res := e.Do(Req{Method: "GET", Path: "/storage/v1/b/" + b + "/o", Query: "maxResults=1000"})
		if res.Panic != "" || res.Hung {
			return "SNAPSHOT FAILED: " + res.Panic
		}
		if res.Code != 200 {
			fmt.Fprintf(&sb, "%s: %d\n", b, res.Code)
			continue
		}
		var l struct {
			Items []struct {
				Name, Generation, Metageneration, Md5Hash, Size, ContentType string
			} `json:"items"`
		}
		json.Unmarshal(res.Body, &l)
		for _, it := range l.Items {
			m := e.Do(Req{Method: "GET", Path: "/storage/v1/b/" + b + "/o/" + it.Name, Query: "alt=media"})
			fmt.Fprintf(&sb, "%s/%s gen=%s mg=%s md5=%s size=%s ct=%s media=%d:%x\n", b, it.Name, it.Generation, it.Metageneration, it.Md5Hash, it.Size, it.ContentType, m.Code, m.Body)
		}
	}
	return sb.String()
}

func mp(meta string, ct string, content []byte, bnd string, truncate int) ([]byte, string) {
	var buf bytes.Buffer
	buf.WriteString("--" + bnd + "\r\nContent-Type: application/json; charset=UTF-8\r\n\r\n" + meta + "\r\n--" + bnd + "\r\nContent-Type: " + ct + "\r\n\r\n")
	buf.Write(content)
	buf.WriteString("\r\n--" + bnd + "--\r\n")
	b := buf.Bytes()
	if truncate > 0 && truncate < len(b) {
		b = b[:len(b)-truncate]
	}
	return b, "multipart/related; boundary=" + bnd
}

// Seed populates the store with a few objects through valid requests.
func (e *GcsEnv) Seed() {
	e.Do(Req{Method: "POST", Path: "/storage/v1/b", Query: "project=p", Hdr: map[string]string{"Content-Type": "application/json"}, Body: []byte(`{"name":"bk"}`)})
	for i, n := range []string{"a", "a.txt", "d/e", "z z"} {
		b, ct := mp(fmt.Sprintf(`{"name":%q,"contentType":"text/plain","metadata":{"k":"v%d"}}`, n, i), "text/plain", []byte("content-"+n), "bnd", 0)
		e.Do(Req{Method: "POST", Path: "/upload/storage/v1/b/bk/o", Query: "uploadType=multipart", Hdr: map[string]string{"Content-Type": ct}, Body: b})
	}
	// two objects whose names are not valid UTF-8 (legal byte strings; only a media upload can name them)
	for _, n := range []string{"n%ff1", "n%ff2"} {
		e.Do(Req{Method: "POST", Path: "/upload/storage/v1/b/bk/o", Query: "uploadType=media&name=" + n, Hdr: map[string]string{"Content-Type": "text/plain"}, Body: []byte("bytes")})
	}
	// an object stored gzip-compressed and marked so (served decompressed to clients that do not accept gzip)
	var zb bytes.Buffer
	zw := gzip.NewWriter(&zb)
	zw.Write([]byte(strings.Repeat("compressible ", 50)))
	zw.Close()
	gb, gct := mp(`{"name":"gz","contentEncoding":"gzip","contentType":"text/plain"}`, "text/plain", zb.Bytes(), "bnd", 0)
	e.Do(Req{Method: "POST", Path: "/upload/storage/v1/b/bk/o", Query: "uploadType=multipart", Hdr: map[string]string{"Content-Type": gct}, Body: gb})
	// an object that claims gzip encoding but is not gzip
	b, ct := mp(`{"name":"notgz","contentEncoding":"gzip"}`, "text/plain", []byte("plain bytes"), "bnd", 0)
	e.Do(Req{Method: "POST", Path: "/upload/storage/v1/b/bk/o", Query: "uploadType=multipart", Hdr: map[string]string{"Content-Type": ct}, Body: b})
}

// tokenFor is the page token the emulator itself would hand out after `name`.
func tokenFor(name string) string {
	b := append([]byte{0x0a, byte(len(name))}, name...)
	return base64.StdEncoding.EncodeToString(b)
}

var junkInts = []string{"-1", "0", "9223372036854775807", "9223372036854775808", "-9223372036854775808", "1e3", "0x10", " 5", "५", "abc", "", "NaN", "18446744073709551616"}
var junkNames = []string{"", "a", "missing", "a/../b", "%2F", "a%2Fb", "a//b", ".", "..", "d", "d/", "/o/x", "x/o/y/rewriteTo/b/bk/o/q", "a/compose", "\xff\xfe", "é\x00", strings.Repeat("n", 300), "a?x=1", "a#f", "*"}
var junkJSON = []string{``, `{`, `null`, `[]`, `"str"`, `5`, `{"name":5}`, `{"name":null}`, `{"metadata":5}`, `{"metadata":{"k":5}}`, `{"generation":"x"}`, `{"size":"-1"}`, `{"sourceObjects":null}`, `{"sourceObjects":[null]}`,
	`{"sourceObjects":[{"name":"a","objectPreconditions":null}]}`, `{"sourceObjects":[{"name":"a","objectPreconditions":{"ifGenerationMatch":"x"}}]}`, `{"sourceObjects":[{}],"destination":null}`,
	`{"destination":{"name":"q"}}`, `{"sourceObjects":[{"name":"missing"}]}`, `{"contentEncoding":"gzip"}`, `{"md5Hash":"!!"}`, `{"timeCreated":5}`, strings.Repeat(`{"a":`, 200)}

// GenGcs draws one perturbed request.
func GenGcs(r *core.Rng) Req {
	name := func() string { return core.Pick(r, junkNames) }
	bucket := func() string { return core.Pick(r, []string{"bk", "bk", "bk", "b2", "nope", "", "b/k", "\xff"}) }
	jint := func() string { return core.Pick(r, junkInts) }
	q := url.Values{}
	maybeConds := func() {
		for _, p := range []string{"ifGenerationMatch", "ifGenerationNotMatch", "ifMetagenerationMatch", "ifMetagenerationNotMatch"} {
			if r.Chance(1, 4) {
				q.Set(p, jint())
			}
		}
	}
	jsonHdr := map[string]string{"Content-Type": "application/json"}
	switch r.Intn(16) {
	case 0: // metadata / media GET, all URL forms
		if r.Chance(1, 3) {
			q.Set("alt", core.Pick(r, []string{"media", "json", "xml", ""}))
		}
		hdr := map[string]string{}
		if r.Chance(1, 2) {
			hdr["Accept-Encoding"] = core.Pick(r, []string{"gzip", "identity", "br, gzip;q=0"})
		}
		n := core.Pick(r, append([]string{"notgz", "notgz"}, junkNames...))
		switch r.Intn(3) {
		case 0:
			return Req{Method: "GET", Path: "/storage/v1/b/" + bucket() + "/o/" + n, Query: q.Encode(), Hdr: hdr, Note: "get"}
		case 1:
			return Req{Method: "GET", Path: "/download/storage/v1/b/" + bucket() + "/o/" + n, Query: q.Encode(), Hdr: hdr, Note: "download"}
		default:
			return Req{Method: "GET", Path: "/" + bucket() + "/" + n, Hdr: hdr, Note: "public url"}
		}
	case 1: // listing
		for _, p := range []string{"prefix", "delimiter"} {
			if r.Chance(1, 2) {
				q.Set(p, name())
			}
		}
		if r.Chance(1, 2) {
			q.Set("maxResults", jint())
		}
		if r.Chance(1, 2) {
			q.Set("pageToken", core.Pick(r, []string{"", "%%%", "AAAA", "Cv8=", "////", strings.Repeat("Q", 999), "Cgj/",
				tokenFor("a"), tokenFor("a"), tokenFor("d/e"), tokenFor("z z"), tokenFor(""), tokenFor("zzzz"), tokenFor("d")}))
		}
		return Req{Method: "GET", Path: "/storage/v1/b/" + bucket() + "/o", Query: q.Encode(), Note: "list"}
	case 2: // media upload
		maybeConds()
		q.Set("uploadType", core.Pick(r, []string{"media", "media", "", "bogus", "MEDIA"}))
		if r.Chance(5, 6) {
			q.Set("name", name())
		}
		hdr := map[string]string{}
		if r.Chance(1, 2) {
			hdr["Content-Type"] = core.Pick(r, []string{"text/plain", "application/x-www-form-urlencoded", "", "multipart/related"})
		}
		if r.Chance(1, 5) {
			hdr["Content-Encoding"] = "gzip"
		}
		return Req{Method: "POST", Path: "/upload/storage/v1/b/" + bucket() + "/o", Query: q.Encode(), Hdr: hdr, Body: []byte(core.Pick(r, []string{"", "x", "a=b&c=d", "\x1f\x8b\x08garbage"})), Note: "media upload"}
	case 3: // multipart upload, possibly truncated / malformed
		maybeConds()
		q.Set("uploadType", "multipart")
		meta := core.Pick(r, append([]string{`{"name":"mp"}`, `{"name":"mp","md5Hash":"AAAA"}`}, junkJSON...))
		body, ct := mp(meta, core.Pick(r, []string{"text/plain", "", "\xff"}), []byte("payload"), "bnd", core.Pick(r, []int{0, 0, 1, 5, 12, 30, 60, 200}))
		switch r.Intn(6) {
		case 0:
			ct = "multipart/related"
		case 1:
			ct = "multipart/related; boundary="
		case 2:
			ct = "multipart/related; boundary=other"
		}
		return Req{Method: "POST", Path: "/upload/storage/v1/b/" + bucket() + "/o", Query: q.Encode(), Hdr: map[string]string{"Content-Type": ct}, Body: body, Note: "multipart upload"}
	case 4: // resumable initiation
		maybeConds()
		q.Set("uploadType", "resumable")
		if r.Chance(1, 2) {
			q.Set("name", name())
		}
		return Req{Method: "POST", Path: "/upload/storage/v1/b/" + bucket() + "/o", Query: q.Encode(), Hdr: jsonHdr, Body: []byte(core.Pick(r, junkJSON)), Note: "resumable init"}
	case 5: // resumable chunk with unknown / malformed id and range
		q.Set("upload_id", core.Pick(r, []string{"0", "1", "99", "-1", "x", "", "18446744073709551616"}))
		hdr := map[string]string{"Content-Range": core.Pick(r, []string{"bytes 0-3/4", "bytes */*", "bytes */4", "bytes 4-0/4", "bytes -1-2/3", "bytes 0-3", "garbage", "", "bytes 0-9223372036854775807/*", "bytes 5-6/7"})}
		return Req{Method: core.Pick(r, []string{"PUT", "POST"}), Path: "/upload/storage/v1/b/" + bucket() + "/o", Query: q.Encode(), Hdr: hdr, Body: []byte("abcd"), Note: "resumable chunk"}
	case 6: // patch
		maybeConds()
		return Req{Method: core.Pick(r, []string{"PATCH", "PUT", "POST"}), Path: "/storage/v1/b/" + bucket() + "/o/" + name(), Query: q.Encode(), Hdr: jsonHdr, Body: []byte(core.Pick(r, junkJSON)), Note: "patch"}
	case 7: // delete object / bucket
		maybeConds()
		p := "/storage/v1/b/" + bucket()
		if r.Chance(4, 5) {
			p += "/o/" + name()
		}
		if r.Chance(1, 6) {
			p = "/storage/v1/b/b2" // deleting the second bucket is allowed
		}
		return Req{Method: "DELETE", Path: p, Query: q.Encode(), Note: "delete"}
	case 8: // compose
		maybeConds()
		body := core.Pick(r, junkJSON)
		if r.Chance(1, 3) {
			var srcs []string
			for i := 0; i < core.Pick(r, []int{0, 1, 2, 32, 33}); i++ {
				srcs = append(srcs, fmt.Sprintf(`{"name":%q}`, core.Pick(r, []string{"a", "a.txt", "missing"})))
			}
			body = `{"sourceObjects":[` + strings.Join(srcs, ",") + `]` + core.Pick(r, []string{"", `,"destination":{"contentType":"x/y"}`, `,"destination":null`}) + `}`
		}
		return Req{Method: "POST", Path: "/storage/v1/b/" + bucket() + "/o/" + name() + "/compose", Query: q.Encode(), Hdr: jsonHdr, Body: []byte(body), Note: "compose"}
	case 9: // rewrite / copy
		dst := core.Pick(r, []string{"/rewriteTo/b/bk/o/copy", "/rewriteTo/b/bk", "/rewriteTo/b/", "/rewriteTo", "/rewriteTo/b/bk/o/", "/rewriteTo/b/nope/o/x", "/rewriteTo/b/bk/o/x/rewriteTo/b/bk/o/y", "/copyTo/b/bk/o/x"})
		return Req{Method: "POST", Path: "/storage/v1/b/" + bucket() + "/o/" + name() + dst, Query: q.Encode(), Hdr: jsonHdr, Body: []byte(core.Pick(r, junkJSON)), Note: "rewrite"}
	case 10: // bucket create / get
		if r.Chance(1, 2) {
			return Req{Method: "POST", Path: "/storage/v1/b", Query: "project=p", Hdr: jsonHdr, Body: []byte(core.Pick(r, append([]string{`{"name":"b2"}`, `{"name":""}`, `{"name":"a/b"}`}, junkJSON...))), Note: "bucket insert"}
		}
		return Req{Method: core.Pick(r, []string{"GET", "PUT", "HEAD", "OPTIONS"}), Path: "/storage/v1/b/" + bucket(), Note: "bucket get"}
	case 11, 12: // batch
		return genBatch(r)
	case 13: // odd paths and methods
		return Req{Method: core.Pick(r, []string{"GET", "POST", "PUT", "DELETE", "PATCH", "HEAD", "TRACE", "BREW"}),
			Path:  core.Pick(r, []string{"/", "/storage", "/storage/v1", "/storage/v1/b//o/", "/storage/v1/b/bk/o", "/upload/storage/v1/b/bk/o/x", "/download/storage/v1/b/bk", "/batch/storage/v2", "/storage/v1/b/bk/o/a/b/c/compose/compose", "/storage/v1/b/bk/o/%zz", "/storage/v1/b/bk/iam"}),
			Query: core.Pick(r, []string{"", "alt=media", "uploadType=resumable&upload_id=", "%zz", "a=%", "name="}), Note: "odd path"}
	default: // valid-looking mutation followed by nothing: keeps the store moving
		b, ct := mp(fmt.Sprintf(`{"name":%q}`, core.Pick(r, []string{"a", "new", "d/e"})), "text/plain", []byte("fresh"), "bnd", 0)
		return Req{Method: "POST", Path: "/upload/storage/v1/b/bk/o", Query: "uploadType=multipart", Hdr: map[string]string{"Content-Type": ct}, Body: b, Note: "valid upload"}
	}
}

// batch part: one embedded request
func partText(method, path, body string, ct string) string {
	s := method + " " + path + " HTTP/1.1\r\n"
	if ct != "" {
		s += "Content-Type: " + ct + "\r\n"
	}
	if body != "" {
		s += fmt.Sprintf("Content-Length: %d\r\n", len(body))
	}
	return s + "\r\n" + body
}

// BatchParts are the sub-requests (method, path with query, JSON body) whose batch responses — and
// whose effect on the store — must equal what the same requests do when sent one by one.
var BatchParts = [][3]string{
	{"GET", "/storage/v1/b/bk/o/a", ""}, {"GET", "/storage/v1/b/bk/o/missing", ""}, {"GET", "/storage/v1/b/nope/o/a", ""}, {"GET", "/storage/v1/b/bk/o?maxResults=0", ""},
	{"GET", "/storage/v1/b/bk/o?maxResults=2", ""}, {"GET", "/storage/v1/b/bk/o/a?alt=media", ""}, {"GET", "/storage/v1/b/bk", ""}, {"DELETE", "/storage/v1/b/bk/o/missing", ""},
	{"PATCH", "/storage/v1/b/bk/o/missing", ""}, {"GET", "/storage/v1/b/bk/o/a?ifGenerationMatch=x", ""}, {"POST", "/storage/v1/b/bk/o/missing/rewriteTo/b/bk/o/q", ""},
	{"DELETE", "/storage/v1/b/bk/o/a", ""}, {"POST", "/storage/v1/b/bk/o/a.txt/rewriteTo/b/bk/o/a", ""}, {"DELETE", "/storage/v1/b/bk/o/a?ifGenerationMatch=1", ""},
	// parts that carry a body (each its own), and conditions in the query
	{"PATCH", "/storage/v1/b/bk/o/a", `{"contentType":"x/one"}`},
	{"PATCH", "/storage/v1/b/bk/o/a.txt", `{"contentType":"x/twotwo","metadata":{"m":"2"}}`},
	{"POST", "/storage/v1/b/bk/o/cmp1/compose", `{"sourceObjects":[{"name":"a.txt"},{"name":"d/e"}],"destination":{"contentType":"c/1"}}`},
	{"POST", "/storage/v1/b/bk/o/cmp2/compose", `{"sourceObjects":[{"name":"d/e"}],"destination":{"contentType":"c/22"}}`},
	{"PATCH", "/storage/v1/b/bk/o/d/e?ifMetagenerationMatch=77", `{"contentType":"never/applied"}`},
	{"DELETE", "/storage/v1/b/bk/o/a.txt?ifGenerationMatch=5", ""},
	{"PATCH", "/storage/v1/b/bk/o/d/e?ifGenerationMatch=abc", `{}`},
	{"DELETE", "/storage/v1/b/bk/o/d/e?ifGenerationNotMatch=0&ifMetagenerationNotMatch=1", ""},
}

func batchPartText(k int, absolute bool) string {
	path, ct := BatchParts[k][1], ""
	if absolute {
		// the absolute form of the request target, as legal in a batch part as in any HTTP/1.1 request
		path = "http://emu.test" + path
	}
	if BatchParts[k][2] != "" {
		ct = "application/json"
	}
	return partText(BatchParts[k][0], path, BatchParts[k][2], ct)
}

var genRe = regexp.MustCompile(` gen=\d+`)

// ContentSnapshot is Snapshot without the generations (timestamps: two services never agree on them).
func (e *GcsEnv) ContentSnapshot() string { return genRe.ReplaceAllString(e.Snapshot(), "") }

func genBatch(r *core.Rng) Req {
	var buf bytes.Buffer
	w := multipart.NewWriter(&buf)
	n := r.Intn(5)
	var idx []string
	for i := 0; i < n; i++ {
		k := r.Intn(len(BatchParts))
		idx = append(idx, fmt.Sprint(k))
		h := map[string][]string{"Content-Type": {"application/http"}, "Content-ID": {fmt.Sprintf("<id+%d>", i)}}
		txt := batchPartText(k, r.Chance(1, 3))
		switch r.Intn(8) {
		case 0:
			h["Content-Type"] = []string{"text/plain"}
		case 1:
			txt = "GARBAGE\r\n\r\n"
		case 2:
			txt = txt[:len(txt)/2]
		case 3:
			delete(h, "Content-ID")
		}
		pw, _ := w.CreatePart(h)
		pw.Write([]byte(txt))
	}
	w.Close()
	body := buf.Bytes()
	ct := mime.FormatMediaType("multipart/mixed", map[string]string{"boundary": w.Boundary()})
	switch r.Intn(6) {
	case 0:
		body = body[:len(body)*2/3]
	case 1:
		ct = "multipart/mixed"
	case 2:
		ct = "application/json"
	}
	return Req{Method: "POST", Path: "/batch/storage/v1", Hdr: map[string]string{"Content-Type": ct}, Body: body, Note: "batch of parts " + strings.Join(idx, ",")}
}

// CheckBatch sends the given sub-requests in one well-formed batch and alone, and compares statuses.
func CheckBatch(store string, ks []int, absolute []bool) string {
	// two fresh, identically seeded services: one gets the batch, the other the same requests one by
	// one in the same order (parts may change the store, so both must start from the same state)
	e := NewGcsEnv(store)
	defer e.Close()
	e.Seed()
	alone := NewGcsEnv(store)
	defer alone.Close()
	alone.Seed()
	var buf bytes.Buffer
	w := multipart.NewWriter(&buf)
	for i, k := range ks {
		pw, _ := w.CreatePart(map[string][]string{"Content-Type": {"application/http"}, "Content-ID": {fmt.Sprintf("<id+%d>", i)}})
		pw.Write([]byte(batchPartText(k, i < len(absolute) && absolute[i])))
	}
	w.Close()
	ct := mime.FormatMediaType("multipart/mixed", map[string]string{"boundary": w.Boundary()})
	res := e.Do(Req{Method: "POST", Path: "/batch/storage/v1", Hdr: map[string]string{"Content-Type": ct}, Body: buf.Bytes()})
	if res.Panic != "" {
		return "batch panicked: " + res.Panic
	}
	if res.Code != 200 {
		return fmt.Sprintf("well-formed batch answered %d", res.Code)
	}
	_, params, err := mime.ParseMediaType(res.CT)
	if err != nil {
		return "batch response content type: " + res.CT
	}
	mr := multipart.NewReader(bytes.NewReader(res.Body), params["boundary"])
	var got []int
	for {
		p, err := mr.NextPart()
		if err != nil {
			break
		}
		b, _ := io.ReadAll(p)
		var code int
		fmt.Sscanf(string(b), "HTTP/1.1 %d", &code)
		got = append(got, code)
	}
	if len(got) != len(ks) {
		return fmt.Sprintf("batch of %d parts answered with %d sub-responses", len(ks), len(got))
	}
	for i, k := range ks {
		pq := strings.SplitN(BatchParts[k][1], "?", 2)
		q := ""
		if len(pq) > 1 {
			q = pq[1]
		}
		hdr := map[string]string{}
		if BatchParts[k][2] != "" {
			hdr["Content-Type"] = "application/json"
		}
		one := alone.Do(Req{Method: BatchParts[k][0], Path: pq[0], Query: q, Hdr: hdr, Body: []byte(BatchParts[k][2])})
		if one.Code != got[i] {
			return fmt.Sprintf("sub-response %d (%s %s) has status %d in the batch but %d when the same requests are sent one by one", i, BatchParts[k][0], BatchParts[k][1], got[i], one.Code)
		}
	}
	if a, b := e.ContentSnapshot(), alone.ContentSnapshot(); a != b {
		return "after the batch the store differs from the store after the same requests sent one by one:\n  batch: " + strings.ReplaceAll(a, "\n", " ; ") + "\n  alone: " + strings.ReplaceAll(b, "\n", " ; ")
	}
	return ""
}

// JudgeGcs runs one perturbed request and reports what is wrong with the outcome ("" = fine).
func (e *GcsEnv) JudgeGcs(r Req) (verdict string, res Result) {
	before := e.Snapshot()
	res = e.Do(r)
	if res.Panic != "" {
		return "PANIC: " + res.Panic, res
	}
	if res.Hung {
		return "HANG: no response within 10 s", res
	}
	if w := wellFormed(r, res); w != "" {
		return "MALFORMED RESPONSE: " + w, res
	}
	if r.Want != 0 && res.Code != r.Want {
		return fmt.Sprintf("VALID REQUEST REFUSED: answered %d, a request of this kind must be answered %d: %.200s", res.Code, r.Want, res.Body), res
	}
	after := e.Snapshot()
	if strings.HasPrefix(after, "SNAPSHOT FAILED") {
		return "SERVICE DAMAGED: " + after, res
	}
	if res.Code >= 400 {
		// everything that was stored must still be there, unchanged (an error answer may leave an
		// empty bucket behind; that loses nothing)
		have := map[string]bool{}
		for _, l := range strings.Split(after, "\n") {
			have[l] = true
		}
		for _, l := range strings.Split(before, "\n") {
			if strings.Contains(l, " gen=") && !have[l] {
				return fmt.Sprintf("STORED DATA CHANGED by a request answered %d: %q is gone or different\nbefore:\n%safter:\n%s", res.Code, l, before, after), res
			}
		}
	}
	return "", res
}

// Directed are requests that once crashed the service (kept as a regression corpus: they run first).
func Directed() []Req {
	j := map[string]string{"Content-Type": "application/json"}
	nonUTF8, ct := mp("{\"name\":\"\xff\xfe\"}", "text/plain", []byte("x"), "bnd", 0)
	return []Req{
		{Method: "GET", Path: "/storage/v1/b/bk/o", Query: "maxResults=1&prefix=n%ff", Want: 200, Note: "first page of a listing that continues after a name that is not UTF-8"},
		{Method: "GET", Path: "/storage/v1/b/bk/o", Query: "maxResults=1&prefix=n&pageToken=" + url.QueryEscape(tokenFor("n\xff1")), Want: 200, Note: "next page after a name that is not UTF-8"},
		{Method: "GET", Path: "/storage/v1/b/bk/o", Query: "maxResults=1&delimiter=%ff", Note: "listing with a delimiter that is not UTF-8"},
		{Method: "POST", Path: "/storage/v1/b/bk/o/dst/compose", Hdr: j, Body: []byte(`{"sourceObjects":[null]}`), Note: "compose with a null source"},
		{Method: "POST", Path: "/storage/v1/b/bk/o/dst/compose", Hdr: j, Body: []byte(`{"sourceObjects":[{"name":"a"}]}`), Note: "compose without destination"},
		{Method: "PATCH", Path: "/storage/v1/b/bk/o/a", Hdr: j, Body: []byte(`null`), Note: "patch with body null"},
		{Method: "GET", Path: "/storage/v1/b/bk/o/gz", Query: "alt=media", Want: 200, Note: "media of a gzip object for a client that does not accept gzip"},
		{Method: "GET", Path: "/storage/v1/b/bk/o/gz", Query: "alt=media", Hdr: map[string]string{"Accept-Encoding": "gzip"}, Want: 200, Note: "media of a gzip object for a client that accepts gzip"},
		{Method: "GET", Path: "/bk/gz", Want: 200, Note: "public url of a gzip object, no Accept-Encoding"},
		{Method: "GET", Path: "/storage/v1/b/bk/o/notgz", Query: "alt=media", Note: "media of a mislabelled gzip object"},
		{Method: "GET", Path: "/download/storage/v1/b/bk/o/notgz", Query: "alt=media", Hdr: map[string]string{"Accept-Encoding": "identity"}, Note: "download of a mislabelled gzip object"},
		{Method: "GET", Path: "/bk/notgz", Note: "public url of a mislabelled gzip object"},
		{Method: "POST", Path: "/storage/v1/b/bk/o/a/rewriteTo/b/bk", Hdr: j, Body: []byte(`{}`), Note: "rewrite without an object part"},
		{Method: "POST", Path: "/storage/v1/b/bk/o/a/rewriteTo/b/bk/o/x/o/y", Hdr: j, Body: []byte(`{}`), Note: "rewrite to a name containing /o/"},
		{Method: "POST", Path: "/upload/storage/v1/b/bk/o", Query: "uploadType=multipart", Hdr: map[string]string{"Content-Type": ct}, Body: nonUTF8, Note: "object name that is not UTF-8"},
		{Method: "GET", Path: "/storage/v1/b/bk/o", Query: "maxResults=1", Note: "first page of a listing (token after any name)"},
		{Method: "GET", Path: "/storage/v1/b/bk/o", Query: "maxResults=1&pageToken=%25%25%25", Note: "garbage page token"},
		{Method: "GET", Path: "/storage/v1/b/bk/o", Query: "maxResults=-1", Note: "negative maxResults"},
		{Method: "GET", Path: "/storage/v1/b/bk/o", Query: "prefix=d%2Fe%2Ff&delimiter=%2F&pageToken=" + url.QueryEscape(tokenFor("a")), Note: "token of a name shorter than the prefix, with a delimiter"},
		{Method: "GET", Path: "/storage/v1/b/bk/o", Query: "prefix=a.&delimiter=.&maxResults=1&pageToken=" + url.QueryEscape(tokenFor("d/e")), Note: "token of a name outside the prefix"},
		{Method: "PUT", Path: "/upload/storage/v1/b/bk/o", Query: "upload_id=99", Hdr: map[string]string{"Content-Range": "bytes 0-3/4"}, Body: []byte("abcd"), Note: "unknown upload id"},
	}
}
