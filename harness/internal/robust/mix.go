package robust

import (
	"context"
	"fmt"
	"sync"
	"sync/atomic"
	"time"

	btapb "cloud.google.com/go/bigtable/admin/apiv2/adminpb"
	btpb "cloud.google.com/go/bigtable/apiv2/bigtablepb"
	"google.golang.org/protobuf/proto"

	"verif/harness/internal/core"
)

// Mix runs concurrent admin/data request mixes against both emulators for about d. It is meant to
// run in a child process (a fatal runtime error such as a concurrent map access, or a data race
// under -race, kills the process: the parent reports that). A recovered panic or a request that
// does not return is reported as text.
func Mix(seed uint64, d time.Duration) []string {
	var mu sync.Mutex
	var problems []string
	report := func(s string) {
		mu.Lock()
		if len(problems) < 5 {
			problems = append(problems, s)
		}
		mu.Unlock()
	}
	guard := func(what string, f func()) {
		defer func() {
			if p := recover(); p != nil {
				report(fmt.Sprintf("PANIC in %s: %v", what, p))
			}
		}()
		f()
	}
	deadline := time.Now().Add(d)
	var wg sync.WaitGroup
	var ops int64
	spawn := func(what string, seed uint64, body func(r *core.Rng)) {
		wg.Add(1)
		go func() {
			defer wg.Done()
			r := core.NewRng(seed)
			for time.Now().Before(deadline) {
				guard(what, func() { body(r) })
				atomic.AddInt64(&ops, 1)
			}
		}()
	}
	ctx := context.Background()

	// ---- Bigtable: schema changes while fetching the schema, create/delete while reading and writing
	for _, eng := range []string{"btree", "leveldb-mem"} {
		e := NewBtEnv(eng)
		e.Seed()
		e.SeedBig()
		spawn("GetTable+encode", seed+1, func(r *core.Rng) {
			t, err := e.Svc.Admin().GetTable(ctx, &btapb.GetTableRequest{Name: btTable})
			if err == nil {
				proto.Marshal(t) // what the gRPC layer does with the response after the handler returned
			}
		})
		spawn("ModifyColumnFamilies", seed+2, func(r *core.Rng) {
			id := core.Pick(r, []string{"h", "k", "m"})
			mod := &btapb.ModifyColumnFamiliesRequest_Modification{Id: id, Mod: &btapb.ModifyColumnFamiliesRequest_Modification_Create{Create: &btapb.ColumnFamily{}}}
			if r.Chance(1, 2) {
				mod = &btapb.ModifyColumnFamiliesRequest_Modification{Id: id, Mod: &btapb.ModifyColumnFamiliesRequest_Modification_Drop{Drop: true}}
			}
			t, err := e.Svc.Admin().ModifyColumnFamilies(ctx, &btapb.ModifyColumnFamiliesRequest{Name: btTable, Modifications: []*btapb.ModifyColumnFamiliesRequest_Modification{mod}})
			if err == nil {
				proto.Marshal(t)
			}
		})
		spawn("Create/DeleteTable", seed+3, func(r *core.Rng) {
			e.Svc.Admin().CreateTable(ctx, &btapb.CreateTableRequest{Parent: "p", TableId: "tmp", Table: &btapb.Table{ColumnFamilies: map[string]*btapb.ColumnFamily{"f": {}}}})
			e.Svc.Data().MutateRow(ctx, &btpb.MutateRowRequest{TableName: "p/tables/tmp", RowKey: []byte("k"), Mutations: []*btpb.Mutation{{Mutation: &btpb.Mutation_SetCell_{SetCell: &btpb.Mutation_SetCell{FamilyName: "f", TimestampMicros: 1000, Value: []byte("v")}}}}})
			e.Svc.Admin().DeleteTable(ctx, &btapb.DeleteTableRequest{Name: "p/tables/tmp"})
		})
		spawn("ModifyColumnFamilies of the table being created", seed+10, func(r *core.Rng) {
			// a client that changes a table the instant it exists (A16c: the creator was still copying its definition)
			e.Svc.Admin().ModifyColumnFamilies(ctx, &btapb.ModifyColumnFamiliesRequest{Name: "p/tables/tmp", Modifications: []*btapb.ModifyColumnFamiliesRequest_Modification{
				{Id: core.Pick(r, []string{"x", "y"}), Mod: &btapb.ModifyColumnFamiliesRequest_Modification_Create{Create: &btapb.ColumnFamily{}}}}})
		})
		spawn("ReadRows abandoned by its client", seed+11, func(r *core.Rng) {
			// the stream refuses the second message (a client that went away in the middle of a long scan)
			e.Svc.Data().ReadRows(&btpb.ReadRowsRequest{TableName: btBig}, &readStream{fake: fake{ctx}, failAt: 2})
			e.Svc.Data().MutateRow(ctx, &btpb.MutateRowRequest{TableName: btBig, RowKey: []byte("w"), Mutations: []*btpb.Mutation{{Mutation: &btpb.Mutation_SetCell_{SetCell: &btpb.Mutation_SetCell{FamilyName: "f", TimestampMicros: 1000, Value: []byte("v")}}}}})
		})
		spawn("ReadRows with a regex filter", seed+14, func(r *core.Rng) {
			e.Svc.Data().ReadRows(&btpb.ReadRowsRequest{TableName: btTable, Filter: &btpb.RowFilter{Filter: &btpb.RowFilter_ValueRegexFilter{ValueRegexFilter: []byte(core.Pick(r, []string{"v.*", ".*", "[a-z]+"}))}}}, &readStream{fake: fake{ctx}})
		})
		spawn("CheckAndMutateRow with a pattern never seen before", seed+15, func(r *core.Rng) {
			pat := fmt.Sprintf("r%d.*", r.Intn(1<<30))
			e.Svc.Data().CheckAndMutateRow(ctx, &btpb.CheckAndMutateRowRequest{TableName: btTable, RowKey: []byte("r2"),
				PredicateFilter: &btpb.RowFilter{Filter: &btpb.RowFilter_RowKeyRegexFilter{RowKeyRegexFilter: []byte(pat)}}})
		})
		spawn("ReadRows/ListTables", seed+4, func(r *core.Rng) {
			e.Svc.Data().ReadRows(&btpb.ReadRowsRequest{TableName: core.Pick(r, []string{btTable, "p/tables/tmp"})}, &readStream{fake: fake{ctx}})
			l, err := e.Svc.Admin().ListTables(ctx, &btapb.ListTablesRequest{Parent: "p"})
			if err == nil {
				proto.Marshal(l)
			}
			e.Svc.Data().SampleRowKeys(&btpb.SampleRowKeysRequest{TableName: btTable}, &skStream{fake{ctx}})
		})
		spawn("writes+gc", seed+5, func(r *core.Rng) {
			e.Svc.Data().ReadModifyWriteRow(ctx, &btpb.ReadModifyWriteRowRequest{TableName: btTable, RowKey: []byte("r1"), Rules: []*btpb.ReadModifyWriteRule{{FamilyName: "g", ColumnQualifier: []byte("c"), Rule: &btpb.ReadModifyWriteRule_AppendValue{AppendValue: []byte("x")}}}})
			if r.Chance(1, 20) {
				e.Svc.ForceGC(btTable)
			}
			e.Svc.Admin().DropRowRange(ctx, &btapb.DropRowRangeRequest{Name: btTable, Target: &btapb.DropRowRangeRequest_RowKeyPrefix{RowKeyPrefix: []byte("zz")}})
		})
	}

	// ---- GCS: bucket deletion while uploading, listing while deleting, compose/copy while overwriting
	for _, store := range []string{"mem", "file"} {
		e := NewGcsEnv(store)
		defer e.Close()
		e.Seed()
		do := func(what string, r Req) {
			res := e.Do(r)
			if res.Panic != "" {
				report(fmt.Sprintf("PANIC in gcs:%s %s: %s", store, what, res.Panic))
			}
			if res.Hung {
				report(fmt.Sprintf("HANG in gcs:%s %s", store, what))
			}
		}
		spawn("gcs upload", seed+6, func(r *core.Rng) {
			b, ct := mp(fmt.Sprintf(`{"name":%q}`, core.Pick(r, []string{"a", "d/e", "new"})), "text/plain", []byte("x"), "bnd", 0)
			do("upload", Req{Method: "POST", Path: "/upload/storage/v1/b/" + core.Pick(r, []string{"bk", "b2"}) + "/o", Query: "uploadType=multipart", Hdr: map[string]string{"Content-Type": ct}, Body: b})
		})
		spawn("gcs bucket delete/create", seed+7, func(r *core.Rng) {
			do("delete bucket", Req{Method: "DELETE", Path: "/storage/v1/b/b2"})
			do("create bucket", Req{Method: "POST", Path: "/storage/v1/b", Query: "project=p", Hdr: map[string]string{"Content-Type": "application/json"}, Body: []byte(`{"name":"b2"}`)})
		})
		spawn("gcs list/get", seed+8, func(r *core.Rng) {
			do("list", Req{Method: "GET", Path: "/storage/v1/b/" + core.Pick(r, []string{"bk", "b2"}) + "/o", Query: core.Pick(r, []string{"", "delimiter=/", "maxResults=1", "prefix=d/"})})
			do("get", Req{Method: "GET", Path: "/storage/v1/b/bk/o/" + core.Pick(r, []string{"a", "new", "d/e"}), Query: core.Pick(r, []string{"", "alt=media"})})
		})
		// rewrites in opposite directions between two objects (a lock-order inversion would wedge both)
		spawn("gcs copy a->b", seed+12, func(r *core.Rng) {
			do("copy a->swap", Req{Method: "POST", Path: "/storage/v1/b/bk/o/a/rewriteTo/b/bk/o/swap", Hdr: map[string]string{"Content-Type": "application/json"}, Body: []byte(`{}`)})
		})
		spawn("gcs copy b->a", seed+13, func(r *core.Rng) {
			do("copy swap->a", Req{Method: "POST", Path: "/storage/v1/b/bk/o/swap/rewriteTo/b/bk/o/a", Hdr: map[string]string{"Content-Type": "application/json"}, Body: []byte(`{}`)})
		})
		spawn("gcs delete/compose/copy", seed+9, func(r *core.Rng) {
			do("delete", Req{Method: "DELETE", Path: "/storage/v1/b/bk/o/" + core.Pick(r, []string{"new", "d/e", "cp"})})
			do("compose", Req{Method: "POST", Path: "/storage/v1/b/bk/o/cp/compose", Hdr: map[string]string{"Content-Type": "application/json"}, Body: []byte(`{"sourceObjects":[{"name":"a"},{"name":"new"}],"destination":{"contentType":"x/y"}}`)})
			do("copy", Req{Method: "POST", Path: "/storage/v1/b/bk/o/a/rewriteTo/b/b2/o/cp", Hdr: map[string]string{"Content-Type": "application/json"}, Body: []byte(`{}`)})
			do("patch", Req{Method: "PATCH", Path: "/storage/v1/b/bk/o/a", Hdr: map[string]string{"Content-Type": "application/json"}, Body: []byte(`{"metadata":{"z":"1"}}`)})
		})
	}

	finished := make(chan struct{})
	go func() { wg.Wait(); close(finished) }()
	select {
	case <-finished:
	case <-time.After(d + 30*time.Second):
		report("HANG: the concurrent mix did not finish within 30 s after its deadline (a request is blocked)")
	}
	problems = append([]string{fmt.Sprintf("ops=%d", atomic.LoadInt64(&ops))}, problems...)
	return problems
}
