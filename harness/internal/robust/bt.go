package robust

import (
	"context"
	"fmt"
	"math"
	"runtime/debug"
	"sort"
	"strings"
	"time"

	"cloud.google.com/go/bigtable"
	btapb "cloud.google.com/go/bigtable/admin/apiv2/adminpb"
	btpb "cloud.google.com/go/bigtable/apiv2/bigtablepb"
	"google.golang.org/grpc"
	"google.golang.org/grpc/codes"
	"google.golang.org/grpc/metadata"
	"google.golang.org/grpc/status"
	"google.golang.org/protobuf/encoding/prototext"
	"google.golang.org/protobuf/proto"
	"google.golang.org/protobuf/types/known/durationpb"

	"github.com/fullstorydev/emulators/bigtable/bttest"

	"verif/harness/internal/core"
)

type BtEnv struct {
	Svc    *bttest.VerifService
	Engine string
}

func NewBtEnv(engine string) *BtEnv {
	var st bttest.Storage = bttest.BtreeStorage{}
	if engine == "leveldb-mem" {
		st = bttest.LeveldbMemStorage{}
	}
	return &BtEnv{Svc: bttest.NewVerifService(st, func() bigtable.Timestamp { return 5000000 }), Engine: engine}
}

const btTable = "p/tables/t"

type fake struct{ ctx context.Context }

func (f *fake) SetHeader(metadata.MD) error  { return nil }
func (f *fake) SendHeader(metadata.MD) error { return nil }
func (f *fake) SetTrailer(metadata.MD)       {}
func (f *fake) Context() context.Context     { return f.ctx }
func (f *fake) SendMsg(m any) error          { return nil }
func (f *fake) RecvMsg(m any) error          { return nil }

var _ grpc.ServerStream = (*fake)(nil)

type readStream struct {
	fake
	chunks []*btpb.ReadRowsResponse_CellChunk
	failAt int // the failAt-th Send fails (0 = never)
	sends  int
}

func (s *readStream) Send(r *btpb.ReadRowsResponse) error {
	s.sends++
	if s.failAt > 0 && s.sends >= s.failAt {
		return fmt.Errorf("the client went away")
	}
	s.chunks = append(s.chunks, r.Chunks...)
	return nil
}

type mrStream struct{ fake }

func (s *mrStream) Send(r *btpb.MutateRowsResponse) error { return nil }

type skStream struct{ fake }

func (s *skStream) Send(r *btpb.SampleRowKeysResponse) error { return nil }

// btBig is a table whose full scan needs more than one response message (> 1024 chunks).
const btBig = "p/tables/big"

// SeedBig creates btBig.
func (e *BtEnv) SeedBig() {
	ctx := context.Background()
	e.Svc.Admin().CreateTable(ctx, &btapb.CreateTableRequest{Parent: "p", TableId: "big", Table: &btapb.Table{ColumnFamilies: map[string]*btapb.ColumnFamily{"f": {}}}})
	for i := 0; i < 1300; i++ {
		e.Svc.Data().MutateRow(ctx, &btpb.MutateRowRequest{TableName: btBig, RowKey: []byte(fmt.Sprintf("b%05d", i)), Mutations: []*btpb.Mutation{
			{Mutation: &btpb.Mutation_SetCell_{SetCell: &btpb.Mutation_SetCell{FamilyName: "f", ColumnQualifier: []byte("q"), TimestampMicros: 1000, Value: []byte("v")}}}}})
	}
}

// Seed creates the table and a few rows.
func (e *BtEnv) Seed() {
	ctx := context.Background()
	e.Svc.Admin().CreateTable(ctx, &btapb.CreateTableRequest{Parent: "p", TableId: "t", Table: &btapb.Table{ColumnFamilies: map[string]*btapb.ColumnFamily{
		"f": {}, "g": {GcRule: &btapb.GcRule{Rule: &btapb.GcRule_MaxNumVersions{MaxNumVersions: 2}}}}}})
	for i := 0; i < 5; i++ {
		e.Svc.Data().MutateRow(ctx, &btpb.MutateRowRequest{TableName: btTable, RowKey: []byte(fmt.Sprintf("r%d", i)), Mutations: []*btpb.Mutation{
			{Mutation: &btpb.Mutation_SetCell_{SetCell: &btpb.Mutation_SetCell{FamilyName: "f", ColumnQualifier: []byte("q"), TimestampMicros: 1000, Value: []byte{0, 0, 0, 0, 0, 0, 0, byte(i)}}}},
			{Mutation: &btpb.Mutation_SetCell_{SetCell: &btpb.Mutation_SetCell{FamilyName: "g", ColumnQualifier: []byte("q"), TimestampMicros: 2000, Value: []byte("v")}}},
		}})
	}
}

// Snapshot reads the schema and every row.
func (e *BtEnv) Snapshot() (snap string) {
	defer func() {
		if p := recover(); p != nil {
			snap = fmt.Sprint("SNAPSHOT FAILED: panic: ", p)
		}
	}()
	ctx := context.Background()
	var sb strings.Builder
	l, err := e.Svc.Admin().ListTables(ctx, &btapb.ListTablesRequest{Parent: "p"})
	if err != nil {
		return "SNAPSHOT FAILED: " + err.Error()
	}
	var names []string
	for _, t := range l.Tables {
		names = append(names, t.Name)
	}
	sort.Strings(names)
	for _, n := range names {
		t, err := e.Svc.Admin().GetTable(ctx, &btapb.GetTableRequest{Name: n})
		if err != nil {
			return "SNAPSHOT FAILED: " + err.Error()
		}
		var fams []string
		for f, cf := range t.ColumnFamilies {
			fams = append(fams, f+"="+prototext.MarshalOptions{}.Format(cf.GetGcRule()))
		}
		sort.Strings(fams)
		fmt.Fprintf(&sb, "%s %v\n", n, fams)
		st := &readStream{fake: fake{ctx}}
		if err := e.Svc.Data().ReadRows(&btpb.ReadRowsRequest{TableName: n}, st); err != nil {
			return "SNAPSHOT FAILED: " + err.Error()
		}
		for _, c := range st.chunks {
			fmt.Fprintf(&sb, " %q %v %q %d %q %v\n", c.RowKey, c.FamilyName.GetValue(), c.Qualifier.GetValue(), c.TimestampMicros, c.Value, c.GetCommitRow())
		}
	}
	return sb.String()
}

// BtCall is one perturbed RPC.
type BtCall struct {
	Name string                                `json:"rpc"`
	Text string                                `json:"request"` // prototext of the request
	Msg  proto.Message                         `json:"-"`
	Do   func(e *BtEnv, m proto.Message) error `json:"-"`
}

func junkFilter(r *core.Rng, depth int) *btpb.RowFilter {
	if depth <= 0 || r.Chance(1, 2) {
		switch r.Intn(16) {
		case 0:
			return nil
		case 1:
			return &btpb.RowFilter{}
		case 2:
			return &btpb.RowFilter{Filter: &btpb.RowFilter_CellsPerRowLimitFilter{CellsPerRowLimitFilter: core.Pick(r, []int32{-1, 0, 1, math.MinInt32, math.MaxInt32})}}
		case 3:
			return &btpb.RowFilter{Filter: &btpb.RowFilter_CellsPerRowOffsetFilter{CellsPerRowOffsetFilter: core.Pick(r, []int32{-1, 0, 1, math.MinInt32, math.MaxInt32})}}
		case 4:
			return &btpb.RowFilter{Filter: &btpb.RowFilter_CellsPerColumnLimitFilter{CellsPerColumnLimitFilter: core.Pick(r, []int32{-1, 0, 1, math.MinInt32, math.MaxInt32})}}
		case 5:
			return &btpb.RowFilter{Filter: &btpb.RowFilter_ColumnRangeFilter{ColumnRangeFilter: nil}}
		case 6:
			return &btpb.RowFilter{Filter: &btpb.RowFilter_ValueRangeFilter{ValueRangeFilter: nil}}
		case 7:
			return &btpb.RowFilter{Filter: &btpb.RowFilter_TimestampRangeFilter{TimestampRangeFilter: nil}}
		case 8:
			return &btpb.RowFilter{Filter: &btpb.RowFilter_TimestampRangeFilter{TimestampRangeFilter: &btpb.TimestampRange{StartTimestampMicros: core.Pick(r, []int64{-1, 0, 1, math.MinInt64, math.MaxInt64}), EndTimestampMicros: core.Pick(r, []int64{-1, 0, 1, math.MinInt64, math.MaxInt64})}}}
		case 9:
			return &btpb.RowFilter{Filter: &btpb.RowFilter_RowKeyRegexFilter{RowKeyRegexFilter: []byte(core.Pick(r, []string{"(", "[", "\\", "(?P<", "a{99999}", "\xff", "", "(?i)a", "\\C*"}))}}
		case 10:
			return &btpb.RowFilter{Filter: &btpb.RowFilter_RowSampleFilter{RowSampleFilter: core.Pick(r, []float64{-1, 0, 1, 2, math.NaN(), math.Inf(1), 0.5})}}
		case 11:
			return &btpb.RowFilter{Filter: &btpb.RowFilter_Chain_{Chain: nil}}
		case 12:
			return &btpb.RowFilter{Filter: &btpb.RowFilter_Interleave_{Interleave: nil}}
		case 13:
			return &btpb.RowFilter{Filter: &btpb.RowFilter_Condition_{Condition: nil}}
		case 14:
			return &btpb.RowFilter{Filter: &btpb.RowFilter_ApplyLabelTransformer{ApplyLabelTransformer: core.Pick(r, []string{"", "UP", "ok", strings.Repeat("l", 100), "\xff"})}}
		default:
			return &btpb.RowFilter{Filter: &btpb.RowFilter_PassAllFilter{PassAllFilter: r.Chance(1, 2)}}
		}
	}
	switch r.Intn(3) {
	case 0:
		c := &btpb.RowFilter_Chain{}
		for i := 0; i < r.Intn(4); i++ {
			c.Filters = append(c.Filters, junkFilter(r, depth-1))
		}
		return &btpb.RowFilter{Filter: &btpb.RowFilter_Chain_{Chain: c}}
	case 1:
		c := &btpb.RowFilter_Interleave{}
		for i := 0; i < r.Intn(4); i++ {
			c.Filters = append(c.Filters, junkFilter(r, depth-1))
		}
		return &btpb.RowFilter{Filter: &btpb.RowFilter_Interleave_{Interleave: c}}
	default:
		return &btpb.RowFilter{Filter: &btpb.RowFilter_Condition_{Condition: &btpb.RowFilter_Condition{PredicateFilter: junkFilter(r, depth-1), TrueFilter: junkFilter(r, depth-1), FalseFilter: junkFilter(r, depth-1)}}}
	}
}

func junkMutation(r *core.Rng) *btpb.Mutation {
	ts := core.Pick(r, []int64{-1, 0, 1000, 1, -2, math.MinInt64, math.MaxInt64})
	switch r.Intn(9) {
	case 0:
		return nil
	case 1:
		return &btpb.Mutation{}
	case 2:
		return &btpb.Mutation{Mutation: &btpb.Mutation_SetCell_{SetCell: nil}}
	case 3:
		return &btpb.Mutation{Mutation: &btpb.Mutation_SetCell_{SetCell: &btpb.Mutation_SetCell{FamilyName: core.Pick(r, []string{"f", "", "zz"}), TimestampMicros: ts}}}
	case 4:
		return &btpb.Mutation{Mutation: &btpb.Mutation_DeleteFromColumn_{DeleteFromColumn: nil}}
	case 5:
		return &btpb.Mutation{Mutation: &btpb.Mutation_DeleteFromColumn_{DeleteFromColumn: &btpb.Mutation_DeleteFromColumn{FamilyName: "f", ColumnQualifier: []byte("q"), TimeRange: &btpb.TimestampRange{StartTimestampMicros: ts, EndTimestampMicros: core.Pick(r, []int64{0, 1000, -1000, math.MaxInt64})}}}}
	case 6:
		return &btpb.Mutation{Mutation: &btpb.Mutation_DeleteFromFamily_{DeleteFromFamily: nil}}
	case 7:
		return &btpb.Mutation{Mutation: &btpb.Mutation_DeleteFromRow_{DeleteFromRow: nil}}
	default:
		return &btpb.Mutation{Mutation: &btpb.Mutation_SetCell_{SetCell: &btpb.Mutation_SetCell{FamilyName: "f", ColumnQualifier: []byte("q"), TimestampMicros: 3000, Value: []byte("ok")}}}
	}
}

func junkGcRule(r *core.Rng, depth int) *btapb.GcRule {
	switch r.Intn(8) {
	case 0:
		return nil
	case 1:
		return &btapb.GcRule{}
	case 2:
		return &btapb.GcRule{Rule: &btapb.GcRule_MaxNumVersions{MaxNumVersions: core.Pick(r, []int32{-1, 0, 1, math.MinInt32})}}
	case 3:
		return &btapb.GcRule{Rule: &btapb.GcRule_MaxAge{MaxAge: nil}}
	case 4:
		return &btapb.GcRule{Rule: &btapb.GcRule_MaxAge{MaxAge: &durationpb.Duration{Seconds: core.Pick(r, []int64{-1, 0, math.MaxInt64, math.MinInt64}), Nanos: core.Pick(r, []int32{-1, 0, 999999999, math.MaxInt32})}}}
	case 5:
		return &btapb.GcRule{Rule: &btapb.GcRule_Union_{Union: nil}}
	case 6:
		if depth > 0 {
			return &btapb.GcRule{Rule: &btapb.GcRule_Union_{Union: &btapb.GcRule_Union{Rules: []*btapb.GcRule{junkGcRule(r, depth-1), nil, junkGcRule(r, depth-1)}}}}
		}
		return &btapb.GcRule{Rule: &btapb.GcRule_Intersection_{Intersection: nil}}
	default:
		return &btapb.GcRule{Rule: &btapb.GcRule_Intersection_{Intersection: &btapb.GcRule_Intersection{Rules: []*btapb.GcRule{nil}}}}
	}
}

// GenBt draws one perturbed RPC.
func GenBt(r *core.Rng) BtCall {
	ctx := context.Background()
	tbl := core.Pick(r, []string{btTable, btTable, btTable, "p/tables/missing", "", "p", "p/tables/"})
	key := []byte(core.Pick(r, []string{"r1", "r9", "", "\x00", "\xff"}))
	mk := func(name string, m proto.Message, do func(e *BtEnv, m proto.Message) error) BtCall {
		// what arrives at the service is what the wire can carry: encode and decode the request once
		// (a nil element of a repeated field or a nil sub-message of a oneof arrives as an empty message)
		b, err := proto.Marshal(m)
		if err == nil {
			m2 := m.ProtoReflect().New().Interface()
			if proto.Unmarshal(b, m2) == nil {
				m = m2
			}
		}
		return BtCall{Name: name, Msg: m, Text: prototext.MarshalOptions{}.Format(m), Do: do}
	}
	switch r.Intn(14) {
	case 0:
		req := &btpb.ReadRowsRequest{TableName: tbl, RowsLimit: core.Pick(r, []int64{0, -1, 1, math.MinInt64, math.MaxInt64}), Filter: junkFilter(r, 2)}
		switch r.Intn(5) {
		case 0:
			req.Rows = &btpb.RowSet{RowRanges: []*btpb.RowRange{nil}}
		case 1:
			req.Rows = &btpb.RowSet{RowRanges: []*btpb.RowRange{{}}, RowKeys: [][]byte{nil, {}}}
		case 2:
			req.Rows = &btpb.RowSet{RowRanges: []*btpb.RowRange{{StartKey: &btpb.RowRange_StartKeyClosed{StartKeyClosed: []byte("z")}, EndKey: &btpb.RowRange_EndKeyOpen{EndKeyOpen: []byte("a")}}}}
		case 3:
			req.Rows = &btpb.RowSet{RowRanges: []*btpb.RowRange{{StartKey: &btpb.RowRange_StartKeyOpen{StartKeyOpen: nil}, EndKey: &btpb.RowRange_EndKeyClosed{EndKeyClosed: nil}}}}
		}
		if r.Chance(1, 4) {
			// a valid full scan whose client goes away at the first message
			req = &btpb.ReadRowsRequest{TableName: btTable}
			return mk("ReadRows(abandoned)", req, func(e *BtEnv, m proto.Message) error {
				return e.Svc.Data().ReadRows(m.(*btpb.ReadRowsRequest), &readStream{fake: fake{ctx}, failAt: 1})
			})
		}
		return mk("ReadRows", req, func(e *BtEnv, m proto.Message) error {
			return e.Svc.Data().ReadRows(m.(*btpb.ReadRowsRequest), &readStream{fake: fake{ctx}})
		})
	case 1:
		req := &btpb.MutateRowRequest{TableName: tbl, RowKey: key}
		for i := 0; i < r.Intn(4); i++ {
			req.Mutations = append(req.Mutations, junkMutation(r))
		}
		return mk("MutateRow", req, func(e *BtEnv, m proto.Message) error {
			_, err := e.Svc.Data().MutateRow(ctx, m.(*btpb.MutateRowRequest))
			return err
		})
	case 2:
		req := &btpb.MutateRowsRequest{TableName: tbl}
		for i := 0; i < r.Intn(4); i++ {
			if r.Chance(1, 5) {
				req.Entries = append(req.Entries, nil)
				continue
			}
			en := &btpb.MutateRowsRequest_Entry{RowKey: key}
			for j := 0; j < r.Intn(3); j++ {
				en.Mutations = append(en.Mutations, junkMutation(r))
			}
			req.Entries = append(req.Entries, en)
		}
		return mk("MutateRows", req, func(e *BtEnv, m proto.Message) error {
			return e.Svc.Data().MutateRows(m.(*btpb.MutateRowsRequest), &mrStream{fake{ctx}})
		})
	case 3:
		req := &btpb.CheckAndMutateRowRequest{TableName: tbl, RowKey: key, PredicateFilter: junkFilter(r, 2), TrueMutations: []*btpb.Mutation{junkMutation(r)}, FalseMutations: []*btpb.Mutation{junkMutation(r)}}
		return mk("CheckAndMutateRow", req, func(e *BtEnv, m proto.Message) error {
			_, err := e.Svc.Data().CheckAndMutateRow(ctx, m.(*btpb.CheckAndMutateRowRequest))
			return err
		})
	case 4:
		req := &btpb.ReadModifyWriteRowRequest{TableName: tbl, RowKey: key}
		for i := 0; i < r.Intn(4); i++ {
			switch r.Intn(5) {
			case 0:
				req.Rules = append(req.Rules, nil)
			case 1:
				req.Rules = append(req.Rules, &btpb.ReadModifyWriteRule{FamilyName: "f", ColumnQualifier: []byte("q")})
			case 2:
				req.Rules = append(req.Rules, &btpb.ReadModifyWriteRule{FamilyName: core.Pick(r, []string{"f", "g", "zz", ""}), ColumnQualifier: []byte("q"), Rule: &btpb.ReadModifyWriteRule_IncrementAmount{IncrementAmount: core.Pick(r, []int64{1, math.MaxInt64, math.MinInt64})}})
			default:
				req.Rules = append(req.Rules, &btpb.ReadModifyWriteRule{FamilyName: "g", ColumnQualifier: nil, Rule: &btpb.ReadModifyWriteRule_AppendValue{AppendValue: nil}})
			}
		}
		return mk("ReadModifyWriteRow", req, func(e *BtEnv, m proto.Message) error {
			_, err := e.Svc.Data().ReadModifyWriteRow(ctx, m.(*btpb.ReadModifyWriteRowRequest))
			return err
		})
	case 5:
		req := &btpb.SampleRowKeysRequest{TableName: tbl}
		return mk("SampleRowKeys", req, func(e *BtEnv, m proto.Message) error {
			return e.Svc.Data().SampleRowKeys(m.(*btpb.SampleRowKeysRequest), &skStream{fake{ctx}})
		})
	case 6:
		req := &btapb.CreateTableRequest{Parent: core.Pick(r, []string{"p", "", "q/x"}), TableId: core.Pick(r, []string{"t", "new", "", "a/b"})}
		switch r.Intn(4) {
		case 0:
			req.Table = &btapb.Table{ColumnFamilies: map[string]*btapb.ColumnFamily{"f": nil}}
		case 1:
			req.Table = &btapb.Table{ColumnFamilies: map[string]*btapb.ColumnFamily{"": {GcRule: junkGcRule(r, 2)}}}
		case 2:
			req.InitialSplits = []*btapb.CreateTableRequest_Split{nil, {Key: nil}}
		}
		return mk("CreateTable", req, func(e *BtEnv, m proto.Message) error {
			_, err := e.Svc.Admin().CreateTable(ctx, m.(*btapb.CreateTableRequest))
			return err
		})
	case 7:
		req := &btapb.ModifyColumnFamiliesRequest{Name: tbl}
		for i := 0; i < r.Intn(4); i++ {
			id := core.Pick(r, []string{"f", "g", "h", ""})
			switch r.Intn(6) {
			case 0:
				req.Modifications = append(req.Modifications, nil)
			case 1:
				req.Modifications = append(req.Modifications, &btapb.ModifyColumnFamiliesRequest_Modification{Id: id})
			case 2:
				req.Modifications = append(req.Modifications, &btapb.ModifyColumnFamiliesRequest_Modification{Id: id, Mod: &btapb.ModifyColumnFamiliesRequest_Modification_Create{Create: nil}})
			case 3:
				req.Modifications = append(req.Modifications, &btapb.ModifyColumnFamiliesRequest_Modification{Id: id, Mod: &btapb.ModifyColumnFamiliesRequest_Modification_Update{Update: &btapb.ColumnFamily{GcRule: junkGcRule(r, 2)}}})
			case 4:
				req.Modifications = append(req.Modifications, &btapb.ModifyColumnFamiliesRequest_Modification{Id: id, Mod: &btapb.ModifyColumnFamiliesRequest_Modification_Create{Create: &btapb.ColumnFamily{GcRule: junkGcRule(r, 2)}}})
			default:
				req.Modifications = append(req.Modifications, &btapb.ModifyColumnFamiliesRequest_Modification{Id: id, Mod: &btapb.ModifyColumnFamiliesRequest_Modification_Drop{Drop: r.Chance(1, 2)}})
			}
		}
		return mk("ModifyColumnFamilies", req, func(e *BtEnv, m proto.Message) error {
			_, err := e.Svc.Admin().ModifyColumnFamilies(ctx, m.(*btapb.ModifyColumnFamiliesRequest))
			return err
		})
	case 8:
		req := &btapb.DropRowRangeRequest{Name: tbl}
		switch r.Intn(4) {
		case 0:
			req.Target = &btapb.DropRowRangeRequest_RowKeyPrefix{RowKeyPrefix: nil}
		case 1:
			req.Target = &btapb.DropRowRangeRequest_RowKeyPrefix{RowKeyPrefix: []byte("zz")}
		case 2:
			req.Target = &btapb.DropRowRangeRequest_DeleteAllDataFromTable{DeleteAllDataFromTable: false}
		}
		return mk("DropRowRange", req, func(e *BtEnv, m proto.Message) error {
			_, err := e.Svc.Admin().DropRowRange(ctx, m.(*btapb.DropRowRangeRequest))
			return err
		})
	case 9:
		req := &btapb.GetTableRequest{Name: tbl}
		return mk("GetTable", req, func(e *BtEnv, m proto.Message) error {
			_, err := e.Svc.Admin().GetTable(ctx, m.(*btapb.GetTableRequest))
			return err
		})
	case 10:
		req := &btapb.ListTablesRequest{Parent: core.Pick(r, []string{"p", "", "zz"})}
		return mk("ListTables", req, func(e *BtEnv, m proto.Message) error {
			_, err := e.Svc.Admin().ListTables(ctx, m.(*btapb.ListTablesRequest))
			return err
		})
	case 11:
		req := &btapb.DeleteTableRequest{Name: core.Pick(r, []string{"p/tables/missing", "", "p/tables/new"})}
		return mk("DeleteTable", req, func(e *BtEnv, m proto.Message) error {
			_, err := e.Svc.Admin().DeleteTable(ctx, m.(*btapb.DeleteTableRequest))
			return err
		})
	case 12:
		req := &btapb.GenerateConsistencyTokenRequest{Name: tbl}
		return mk("GenerateConsistencyToken", req, func(e *BtEnv, m proto.Message) error {
			_, err := e.Svc.Admin().GenerateConsistencyToken(ctx, m.(*btapb.GenerateConsistencyTokenRequest))
			if err == nil {
				_, err = e.Svc.Admin().CheckConsistency(ctx, &btapb.CheckConsistencyRequest{Name: tbl, ConsistencyToken: core.Pick(r, []string{"", "x"})})
			}
			return err
		})
	default:
		// a forced GC pass after the rules may have been perturbed
		return BtCall{Name: "gc", Text: "forced GC pass on " + btTable, Do: func(e *BtEnv, _ proto.Message) error { e.Svc.ForceGC(btTable); return nil }}
	}
}

// JudgeBt runs one call; verdict "" = fine.
func (e *BtEnv) JudgeBt(c BtCall) (verdict string, code codes.Code) {
	before := e.Snapshot()
	type out struct {
		err   error
		panic string
	}
	done := make(chan out, 1)
	go func() {
		var o out
		defer func() {
			if p := recover(); p != nil {
				o.panic = fmt.Sprint(p) + " at " + where(debug.Stack())
			}
			done <- o
		}()
		o.err = c.Do(e, c.Msg)
	}()
	var o out
	select {
	case o = <-done:
	case <-time.After(10 * time.Second):
		return "HANG: the call did not return within 10 s", codes.Unknown
	}
	if o.panic != "" {
		return "PANIC: " + o.panic, codes.Unknown
	}
	code = status.Code(o.err)
	after := e.Snapshot()
	if strings.HasPrefix(after, "SNAPSHOT FAILED") {
		return "SERVICE DAMAGED: " + after, code
	}
	if o.err != nil && c.Name != "MutateRows" && after != before {
		return fmt.Sprintf("DATA CHANGED by a call that returned an error (%v):\nbefore:\n%safter:\n%s", o.err, before, after), code
	}
	return "", code
}
