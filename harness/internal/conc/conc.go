// Package conc is tie T3 for the one-lock machine Emu.Conc (C06, C07): it runs a handful of
// client requests concurrently on the real service, parks their goroutines at the repository's
// yield hooks, enumerates every interleaving of those parking points (stateless depth-first
// search: each interleaving is a fresh service), records each run as a step list of the Lean
// machine (invoke / acquire / work / release / respond) with the responses the implementation
// gave, and lets the Lean driver replay it: every step must be enabled in the machine and every
// response must be the one the sequential Model gives at the request's turn.
package conc

import (
	"fmt"
	"os"
	"strings"
	"time"

	"verif/harness/internal/sched"
)

// System is one fresh instance of the service with its requests.
type System interface {
	// Exec runs request i to completion and returns its canonical response (called from the
	// goroutine of thread i; the yield hook parks it on the way).
	Exec(i int) string
	// LockKey names the lock request i takes ("" = none: the request is one atomic step).
	LockKey(i int) string
	// Yields reports whether request i passes the yield hooks (a request that does not is run as one step,
	// and blocks while another goroutine is inside a section on its lock).
	Yields(i int) bool
	Close()
}

// Classify maps a yield point to "before" (about to take the lock), "inside" (holding it), "mid"
// (a point between two separate steps of a request that carries no lock meaning: the goroutine
// can be parked there) or "" (not used by this tie).
type Classify func(point string) string

// Opts configures an exploration.
type Opts struct {
	N   int
	Cls Classify
	// LazyAcquire logs a request's acquire only when it completes. For services whose reads take
	// no lock and whose writers change the state in their last segment (GCS: GetMeta, validate,
	// then one store mutation), a read that runs while a writer is parked inside its section
	// observes the pre-state, i.e. is ordered before that writer; mutual exclusion among writers
	// is still checked by watching that a second writer does not get inside.
	LazyAcquire bool
}

type Run struct {
	Chosen  []int
	Enabled [][]int
	Lines   []string // `conc step …` lines
	Impl    []string // what the implementation showed for each line
	Resp    []string // response per thread ("" = did not finish)
	Order   [][2]int // (thread, 0=invoke | 1=respond) in real-time order
	Stalled string
	// Infeasible: the requested prefix could not be followed (a goroutine counted as waiting in
	// the run the prefix came from moved this time, or vice versa); the run is discarded.
	Infeasible bool
}

const (
	stNew = iota
	stBefore
	stInside
	stBlocked
	stDone
	stMid
)

type runner struct {
	sys     System
	s       *sched.Sched
	cls     Classify
	n       int
	st      []int
	holder  map[string]int
	run     *Run
	tmo     time.Duration
	blocked int // index of the one goroutine allowed to sit blocked, -1 = none
	pending []sched.Event
	lazy    bool
	inside  []bool       // the goroutine has passed an "inside" point (it holds its lock)
	atMid   []bool       // the goroutine is parked at a "mid" point (it may hold a store-level lock there)
	workIdx []int        // index of the already logged `work` line of a goroutine that has released its lock (-1 = none)
	soft    map[int]bool // goroutines that did not report after being let go while another one was parked at a mid point
}

// midParkedOther: some other goroutine is parked between two steps of a store operation; the
// store may serialise its operations, so a goroutine let go now may have to wait for that one.
func (r *runner) midParkedOther(i int) bool {
	for j := 0; j < r.n; j++ {
		if j != i && r.atMid[j] {
			return true
		}
	}
	return false
}

// softAwait waits briefly for goroutine i; if nothing comes it is taken to be waiting for a
// goroutine parked at a mid point (not a stall: it is collected once that one moves).
func (r *runner) softAwait(i int) bool {
	for {
		ev, ok := r.next(25 * time.Millisecond)
		if !ok {
			r.soft[i] = true
			r.st[i] = stBlocked
			return true
		}
		r.handle(ev)
		if ev.Thread == i && (ev.Kind != "yield" || r.cls(ev.Point) != "") {
			return true
		}
	}
}

// collectSoft picks up goroutines that were waiting for a mid-parked one, after something moved.
func (r *runner) collectSoft() {
	for len(r.soft) > 0 {
		ev, ok := r.next(25 * time.Millisecond)
		if !ok {
			return
		}
		r.handle(ev)
	}
}

// next returns the next event in an order consistent with the lock: when a goroutine reports that
// it is inside (or through) a section while the bookkeeping still has another goroutine as the
// holder, the holder's completion event may simply still be on its way (it unlocks before it
// reports), so that one is awaited briefly and delivered first.
func (r *runner) next(d time.Duration) (sched.Event, bool) {
	if len(r.pending) > 0 {
		ev := r.pending[0]
		r.pending = r.pending[1:]
		return ev, true
	}
	ev, ok := r.s.Wait(d)
	if !ok {
		return ev, false
	}
	entering := (ev.Kind == "yield" && r.cls(ev.Point) == "inside" && r.st[ev.Thread] != stInside) || ev.Kind == "done" && r.st[ev.Thread] != stInside
	if key := r.sys.LockKey(ev.Thread); entering && key != "" && r.workIdx[ev.Thread] < 0 {
		if h, held := r.holder[key]; held && h != ev.Thread {
			if ev2, ok2 := r.s.Wait(150 * time.Millisecond); ok2 {
				if ev2.Thread == h && (ev2.Kind != "yield" || r.cls(ev2.Point) == "after") {
					r.pending = append(r.pending, ev)
					return ev2, true
				}
				r.pending = append(r.pending, ev2)
			}
		}
	}
	return ev, true
}

func (r *runner) log(i int, act, impl string) {
	r.run.Lines = append(r.run.Lines, fmt.Sprintf("conc step %d %s", i, act))
	r.run.Impl = append(r.run.Impl, impl)
}

func (r *runner) finish(i int, resp string, viaLock bool) {
	r.run.Resp[i] = resp
	if r.workIdx[i] >= 0 {
		// the request took effect when it released its lock; only now is its response known
		r.run.Impl[r.workIdx[i]] = "ok " + resp
		r.log(i, "respond", "ok")
		r.run.Order = append(r.run.Order, [2]int{i, 1})
		r.st[i] = stDone
		return
	}
	if !viaLock || r.lazy {
		r.log(i, "acquire", "ok")
	}
	r.log(i, "work", "ok "+resp)
	r.log(i, "release", "ok")
	r.log(i, "respond", "ok")
	r.run.Order = append(r.run.Order, [2]int{i, 1})
	r.st[i] = stDone
}

// release: goroutine i no longer holds key; if the bookkeeping already saw another goroutine inside
// (its event overtook this one) that one is the holder now.
func (r *runner) release(i int, key string) {
	if h, ok := r.holder[key]; ok && h == i {
		delete(r.holder, key)
		for j := 0; j < r.n; j++ {
			if j != i && r.inside[j] && r.sys.LockKey(j) == key && key != "" {
				r.holder[key] = j
			}
		}
	}
}

// handle processes one event of thread i.
func (r *runner) handle(ev sched.Event) {
	if os.Getenv("VERIF_CONC_DEBUG") == "2" {
		fmt.Fprintf(os.Stderr, "  %v event %v | st=%v holder=%v blocked=%d\n", time.Now().Format("05.000"), ev, r.st, r.holder, r.blocked)
	}
	i := ev.Thread
	key := r.sys.LockKey(i)
	if ev.Kind == "yield" && r.cls(ev.Point) == "" {
		// a yield point this tie does not use: let the goroutine go on, nothing else changes
		r.s.Resume(i)
		return
	}
	delete(r.soft, i)
	r.atMid[i] = ev.Kind == "yield" && r.cls(ev.Point) == "mid"
	switch ev.Kind {
	case "yield":
		switch r.cls(ev.Point) {
		case "before":
			r.st[i] = stBefore
		case "after":
			// the lock has been released: this is where the request is ordered
			if r.lazy {
				r.log(i, "acquire", "ok")
			}
			r.workIdx[i] = len(r.run.Lines)
			r.log(i, "work", "ok ?")
			r.log(i, "release", "ok")
			r.inside[i] = false
			r.release(i, key)
			r.st[i] = stMid
		case "mid":
			if !r.inside[i] {
				r.st[i] = stMid
			} else {
				r.st[i] = stInside
			}
		case "inside":
			if r.st[i] != stInside {
				if !r.lazy {
					r.log(i, "acquire", "ok")
				}
				r.st[i] = stInside
				r.inside[i] = true
				if _, held := r.holder[key]; !held || key == "" {
					r.holder[key] = i
				}
			}
		}
	case "done", "panic":
		was := stNew
		if r.inside[i] {
			was = stInside
		}
		resp := ev.Val
		if ev.Kind == "panic" {
			resp = "panic: " + ev.Val
		}
		r.finish(i, resp, was == stInside)
		r.inside[i] = false
		r.release(i, key)
	}
	if r.blocked == i && r.st[i] != stBlocked {
		r.blocked = -1
	}
}

func (r *runner) await(i int) bool {
	for {
		ev, ok := r.next(r.tmo)
		if !ok {
			r.run.Stalled = fmt.Sprintf("goroutine %d made no progress within %v although the machine lets it move", i, r.tmo)
			r.log(i, "acquire", "stalled")
			return false
		}
		r.handle(ev)
		if ev.Thread == i && (ev.Kind != "yield" || r.cls(ev.Point) != "") {
			return true
		}
		if ev.Thread != i && ev.Kind == "yield" && r.cls(ev.Point) == "" {
			continue
		}
		if ev.Thread != i {
			// another goroutine moved (a blocked one that should not have: recorded by handle; or one
			// that was waiting for the store and got it).  If it is now parked between two steps of a
			// store operation, goroutine i may be the one waiting for the store: that is no stall.
			if r.midParkedOther(i) {
				return r.softAwait(i)
			}
			continue
		}
	}
}

// expectBlocked: thread i was let go while another goroutine is inside the same lock.
func (r *runner) expectBlocked(i int) {
	ev, ok := r.next(3 * time.Millisecond)
	if !ok {
		r.st[i] = stBlocked
		r.blocked = i
		return
	}
	r.handle(ev) // it moved: the machine will refuse the acquire
}

func (r *runner) enabled() []int {
	var out []int
	for i := 0; i < r.n; i++ {
		switch r.st[i] {
		case stNew, stBefore:
			key := r.sys.LockKey(i)
			_, held := r.holder[key]
			wouldBlock := held && key != "" && (r.st[i] == stBefore || !r.sys.Yields(i))
			if wouldBlock && r.blocked >= 0 {
				continue // at most one goroutine is kept blocked (keeps runs deterministic)
			}
			out = append(out, i)
		case stInside, stMid:
			out = append(out, i)
		}
	}
	return out
}

func (r *runner) step(i int) bool {
	key := r.sys.LockKey(i)
	_, held := r.holder[key]
	held = held && key != ""
	switch r.st[i] {
	case stNew:
		r.log(i, "invoke", "ok")
		r.run.Order = append(r.run.Order, [2]int{i, 0})
		r.s.Start(i, func() string { return r.sys.Exec(i) })
		if !r.sys.Yields(i) && held {
			r.expectBlocked(i)
			return true
		}
		if r.midParkedOther(i) {
			return r.softAwait(i)
		}
		return r.await(i)
	case stBefore:
		r.s.Resume(i)
		if held {
			r.expectBlocked(i)
			return true
		}
		if r.midParkedOther(i) {
			return r.softAwait(i)
		}
		return r.await(i)
	case stMid:
		defer r.collectSoft()
		if !r.inside[i] && held && r.workIdx[i] < 0 {
			// parked before it took the lock (e.g. inside a helper read): may block now
			r.s.Resume(i)
			r.expectBlocked(i)
			return true
		}
		r.s.Resume(i)
		if r.midParkedOther(i) {
			return r.softAwait(i)
		}
		return r.await(i)
	case stInside:
		wasMid := r.atMid[i]
		r.s.Resume(i)
		if r.midParkedOther(i) {
			if !r.softAwait(i) {
				return false
			}
		} else if !r.await(i) {
			return false
		}
		if wasMid {
			r.collectSoft()
		}
		if _, stillHeld := r.holder[key]; !stillHeld && r.blocked >= 0 && r.blocked != i && r.sys.LockKey(r.blocked) == key {
			b := r.blocked
			return r.await(b)
		}
		return true
	}
	return false
}

func (r *runner) drain() {
	for k := 0; k < 200 && r.s.Live() > 0; k++ {
		for i := 0; i < r.n; i++ {
			if r.st[i] == stBefore || r.st[i] == stInside || r.st[i] == stMid {
				r.s.Resume(i)
				r.st[i] = stBlocked
			}
		}
		ev, ok := r.s.Wait(300 * time.Millisecond)
		if ok && ev.Kind == "yield" {
			r.st[ev.Thread] = stInside
		} else if ok {
			r.st[ev.Thread] = stDone
		}
	}
}

// RunOne executes one interleaving: follow prefix, then always the first enabled goroutine.
func RunOne(mk func(y func(point string)) System, o Opts, prefix []int) *Run {
	t0 := time.Now()
	s := sched.New()
	n, cls := o.N, o.Cls
	sys := mk(func(point string) { s.Yield(point, "") })
	r := &runner{sys: sys, s: s, cls: cls, n: n, st: make([]int, n), holder: map[string]int{}, tmo: 4 * time.Second, blocked: -1,
		lazy: o.LazyAcquire, inside: make([]bool, n), atMid: make([]bool, n), workIdx: func() []int {
			w := make([]int, n)
			for i := range w {
				w[i] = -1
			}
			return w
		}(), soft: map[int]bool{}, run: &Run{Resp: make([]string, n)}}
	defer sys.Close()
	defer r.drain()
	for k := 0; ; k++ {
		en := r.enabled()
		if len(en) == 0 && len(r.soft) > 0 {
			// everyone else is done or parked nowhere: the waiting goroutines must come through now
			ev, ok := r.next(r.tmo)
			if !ok {
				break
			}
			r.handle(ev)
			continue
		}
		if len(en) == 0 {
			break
		}
		c := en[0]
		if k < len(prefix) {
			c = prefix[k]
			ok := false
			for _, e := range en {
				if e == c {
					ok = true
				}
			}
			if !ok {
				r.run.Infeasible = true // timing made this prefix unreplayable; not a statement about the code
				break
			}
		}
		r.run.Enabled = append(r.run.Enabled, en)
		r.run.Chosen = append(r.run.Chosen, c)
		if !r.step(c) {
			break
		}
	}
	if r.run.Stalled == "" && !r.run.Infeasible {
		for i := 0; i < n; i++ {
			if r.st[i] != stDone {
				r.run.Stalled = fmt.Sprintf("goroutine %d never finished (deadlock)", i)
				r.log(i, "respond", "stalled")
				break
			}
		}
	}
	if os.Getenv("VERIF_CONC_DEBUG") != "" && (r.run.Stalled != "" || time.Since(t0) > time.Second) {
		fmt.Fprintf(os.Stderr, "conc run %v took %v stalled=%q lines=%v\n", r.run.Chosen, time.Since(t0), r.run.Stalled, r.run.Lines)
	}
	return r.run
}

// Explore enumerates every interleaving depth-first (bounded by maxRuns); visit returns false to stop.
func Explore(mk func(y func(point string)) System, o Opts, maxRuns int, visit func(*Run) bool) (runs int, complete bool) {
	var prefix []int
	for runs < maxRuns {
		res := RunOne(mk, o, prefix)
		runs++
		if !visit(res) {
			return runs, false
		}
		i := len(res.Chosen) - 1
		for ; i >= 0; i-- {
			en := res.Enabled[i]
			pos := -1
			for j, e := range en {
				if e == res.Chosen[i] {
					pos = j
				}
			}
			if pos+1 < len(en) {
				prefix = append(append([]int{}, res.Chosen[:i]...), en[pos+1])
				break
			}
		}
		if i < 0 {
			return runs, true
		}
	}
	return runs, false
}

// Perms lists the serial orders of n requests that respect the real-time order of a run.
func Perms(n int, order [][2]int) [][]int {
	// a must precede b if a's respond comes before b's invoke
	must := make([][]bool, n)
	for i := range must {
		must[i] = make([]bool, n)
	}
	responded := map[int]bool{}
	for _, e := range order {
		if e[1] == 1 {
			responded[e[0]] = true
		} else {
			for a := range responded {
				must[a][e[0]] = true
			}
		}
	}
	var out [][]int
	var rec func(cur []int, used []bool)
	rec = func(cur []int, used []bool) {
		if len(cur) == n {
			out = append(out, append([]int{}, cur...))
			return
		}
		for c := 0; c < n; c++ {
			if used[c] {
				continue
			}
			ok := true
			for a := 0; a < n; a++ {
				if must[a][c] && !used[a] {
					ok = false
				}
			}
			if ok {
				used[c] = true
				rec(append(cur, c), used)
				used[c] = false
			}
		}
	}
	rec(nil, make([]bool, n))
	return out
}

func SchedString(s []int) string {
	parts := make([]string, len(s))
	for i, t := range s {
		parts[i] = fmt.Sprint(t)
	}
	return strings.Join(parts, ",")
}
