package gcs

import (
	"strings"
	"fmt"

	"verif/harness/internal/core"
)

var (
	Buckets = []string{"bk", "b2"}
	// SafeNames are representable as files next to each other (no name is a directory of another).
	// ("a+b": a '+' travels literally in a URL path and means itself there, unlike in a query)
	SafeNames = []string{"a", "a.txt", "a-b", "b/c", "b/d.e", "b c", "b/e/f", "ü", "b.c", "b/e/g", "a+b"}
	// MemNames additionally mix names and "directories", bytes below '/', and API path fragments.
	MemNames = []string{"a", "a.txt", "a/b", "a/b/c", "a-b", "a/c", "b", "a b", "ab", "x/o/y", "a%2Fb", "c++/m+n", LongName}
	// LongName: 900 bytes, inside the 1024-byte limit of object names (its page token is longer than that)
	LongName = "a/" + strings.Repeat("n", 898)
	Payloads = [][]byte{{}, []byte("x"), []byte("hello"), {0, 1, 2, 255, 254, 10, 13}, []byte("0123456789abcdef0123456789")}
	CTs      = []string{"text/plain", "application/octet-stream", "", "image/png", "application/x-www-form-urlencoded"}
)

type Profile struct {
	Name                                                               string
	Upload, Resumable, GetMeta, GetMedia, Patch, Delete, Compose, Copy int
	List, ListBad, MkBucket, RmBucket, Reopen, GetBucket, Plant        int
	CondPct                                                            int // chance (%) that a mutating op carries conditions
	Names                                                              []string
	MinOps, MaxOps                                                     int
	ReadBack                                                           bool // GET metadata+media after every mutation
	BigPayload                                                         int  // bytes of the payload every upload of the profile carries (0 = the usual small ones)
}

// bigPayload: n bytes that are not periodic in any power of two.
func bigPayload(n int) []byte {
	out := make([]byte, n)
	for i := range out {
		out[i] = byte(i % 251)
	}
	return out
}

func (g *Gen) payload() []byte {
	if g.P.BigPayload > 0 {
		return bigPayload(g.P.BigPayload + g.R.Intn(3))
	}
	return core.Pick(g.R, Payloads)
}

var Profiles = map[string]Profile{
	// (composes, copies and patches of OTHER names are there for "objects under other names are never affected")
	"c02":    {Name: "c02", Upload: 40, Resumable: 25, GetMeta: 8, GetMedia: 12, Delete: 10, List: 3, MkBucket: 2, Compose: 6, Copy: 5, Patch: 4, CondPct: 8, Names: SafeNames, MinOps: 6, MaxOps: 30, ReadBack: true},
	// payloads beyond every buffer size in sight (10 MiB + a bit): one upload per protocol, read back
	"c02big": {Name: "c02big", Upload: 60, Resumable: 40, CondPct: 0, Names: SafeNames[:3], MinOps: 2, MaxOps: 3, ReadBack: true, BigPayload: 10<<20 + 4096},
	"c04":    {Name: "c04", Upload: 30, Resumable: 10, Patch: 20, Delete: 15, Compose: 15, GetMeta: 5, CondPct: 85, Names: SafeNames[:4], MinOps: 8, MaxOps: 30, ReadBack: true},
	"c09":    {Name: "c09", Upload: 30, Resumable: 8, Patch: 12, Delete: 10, Compose: 6, Copy: 8, GetMeta: 5, GetMedia: 5, List: 8, MkBucket: 3, RmBucket: 2, GetBucket: 2, CondPct: 20, Names: SafeNames, MinOps: 8, MaxOps: 40, ReadBack: true},
	"c09r":   {Name: "c09r", Upload: 30, Resumable: 8, Patch: 12, Delete: 10, Compose: 6, Copy: 8, GetMeta: 5, GetMedia: 5, List: 8, MkBucket: 3, RmBucket: 2, Reopen: 10, GetBucket: 2, CondPct: 20, Names: SafeNames, MinOps: 8, MaxOps: 40, ReadBack: true},
	"c09p":   {Name: "c09p", Upload: 25, Patch: 12, Delete: 8, Compose: 6, Copy: 8, GetMeta: 10, GetMedia: 10, List: 8, Reopen: 8, Plant: 15, CondPct: 15, Names: SafeNames, MinOps: 8, MaxOps: 40, ReadBack: true},
	"c10":    {Name: "c10", Upload: 35, Resumable: 5, Patch: 30, Delete: 8, Compose: 6, Copy: 8, GetMeta: 4, GetMedia: 4, List: 4, CondPct: 25, Names: SafeNames[:5], MinOps: 10, MaxOps: 60, ReadBack: true},
	"c11":    {Name: "c11", Upload: 40, Patch: 10, Delete: 8, List: 45, ListBad: 4, RmBucket: 1, CondPct: 0, Names: SafeNames, MinOps: 10, MaxOps: 40},
	"c11mem": {Name: "c11mem", Upload: 40, Patch: 6, Delete: 8, List: 45, ListBad: 4, CondPct: 0, Names: MemNames, MinOps: 10, MaxOps: 40},
	"c15":    {Name: "c15", Upload: 30, Resumable: 8, Compose: 30, Copy: 25, Delete: 5, GetMeta: 3, GetMedia: 5, Patch: 5, CondPct: 15, Names: SafeNames, MinOps: 8, MaxOps: 30, ReadBack: true},
	"c15mem": {Name: "c15mem", Upload: 30, Resumable: 8, Compose: 30, Copy: 25, Delete: 5, GetMedia: 5, CondPct: 10, Names: MemNames, MinOps: 8, MaxOps: 30, ReadBack: true},
}

type Gen struct {
	R *core.Rng
	P Profile
	// ordinal of resumable sessions opened so far (reset by reopen)
	sessions int
}

func (g *Gen) name() string   { return core.Pick(g.R, g.P.Names) }
func (g *Gen) bucket() string { return Buckets[g.R.Weighted([]int{85, 15})] }

func (g *Gen) conds(always bool) Conds {
	var c Conds
	if !always && !g.R.Chance(g.P.CondPct, 100) {
		return c
	}
	n := 1 + g.R.Weighted([]int{60, 30, 10})
	for i := 0; i < n; i++ {
		k := g.R.Intn(4)
		switch k {
		case 0:
			c[0] = core.Pick(g.R, []string{"cur", "other", "zero", "cur", "other", "zero", "bad"})
		default:
			c[k] = core.Pick(g.R, []string{"cur", "other", "cur", "other", "cur", "other", "bad"})
		}
	}
	return c
}

func (g *Gen) meta(rich bool) Meta {
	m := Meta{CT: core.Pick(g.R, CTs[:4])}
	if rich {
		if g.R.Chance(1, 3) {
			m.CC = core.Pick(g.R, []string{"no-cache", "max-age=60"})
		}
		for i := 0; i < g.R.Weighted([]int{50, 30, 20}); i++ {
			m.UM = append(m.UM, KV{core.Pick(g.R, []string{"k1", "k2", "ü"}), core.Pick(g.R, []string{"v", "w", ""})})
		}
		m.UM = dedupKV(m.UM)
		if len(m.UM) == 0 && g.R.Chance(1, 3) {
			m.EmptyUM = true
		}
		m.OutOnly = g.R.Chance(1, 8)
	}
	return m
}

// dirOf: the longest proper "directory" of an object name ("b/e/f" -> "b/e"), "" if none.
func dirOf(n string) string {
	if i := strings.LastIndex(n, "/"); i > 0 {
		return n[:i]
	}
	return ""
}

func dedupKV(l []KV) []KV {
	var out []KV
	for _, kv := range l {
		dup := false
		for i := range out {
			if out[i].K == kv.K {
				out[i].V = kv.V
				dup = true
			}
		}
		if !dup {
			out = append(out, kv)
		}
	}
	return out
}

func (g *Gen) UploadOp(b, n string) *Op {
	o := &Op{Kind: "upload", B: b, N: n, Content: g.payload(), Declared: "none", Conds: g.conds(false), URLForm: g.R.Intn(2)}
	if g.R.Chance(1, 2) {
		o.Proto = "media"
		o.Meta = Meta{CT: core.Pick(g.R, CTs[:4])}
	} else {
		o.Proto = "multipart"
		o.Meta = g.meta(true)
		o.Declared = core.Pick(g.R, []string{"none", "none", "ok", "ok", "wrong", "garbage"})
	}
	o.Gzip = g.R.Chance(1, 6)
	o.Chunked = g.R.Chance(1, 4)
	if o.Proto == "multipart" && g.R.Chance(1, 10) {
		// an object stored as a gzip stream and marked so: downloads inflate it for a client that does not
		// accept gzip (this harness), and nothing about the stored object changes by that
		o.Content = GzOf(n + fmt.Sprint(g.R.Intn(3)))
		o.Meta.CE = "gzip"
		if o.Declared == "ok" || o.Declared == "wrong" || o.Declared == "garbage" {
			o.Declared = "none"
		}
	}
	return o
}

// Resumable emits an initiation and a chunk sequence for one payload.
// Resumable emits an initiation and a chunk sequence for one payload, now and then followed by
// requests to the session after its final chunk (accepted or rejected): the final range once more, a
// stale earlier range, a status query.
func (g *Gen) Resumable(b, n string) []core.Op {
	ops := g.resumable(b, n)
	last, ok := ops[len(ops)-1].(*Op)
	if !ok || last.Kind != "reschunk" || !g.R.Chance(1, 3) {
		return ops
	}
	var lo, hi, sz int
	if c, _ := fmt.Sscanf(last.Range, "%d %d %d", &lo, &hi, &sz); c != 3 || sz < 0 {
		return ops // the sequence did not end with a finalising request
	}
	for k := 1 + g.R.Intn(2); k > 0; k-- {
		switch g.R.Intn(3) {
		case 0:
			again := *last
			ops = append(ops, &again)
		case 1:
			ops = append(ops, &Op{Kind: "reschunk", B: b, Idx: last.Idx, Range: "0 0 -1", RawRange: "bytes 0-0/*", Content: []byte("Z")})
		default:
			ops = append(ops, &Op{Kind: "reschunk", B: b, Idx: last.Idx, Range: "-1 -1 -1", RawRange: "bytes */*"})
		}
	}
	return ops
}

func (g *Gen) resumable(b, n string) []core.Op {
	p := g.payload()
	g.sessions++
	idx := g.sessions
	init := &Op{Kind: "resinit", B: b, N: n, Content: p, Meta: g.meta(true), Declared: core.Pick(g.R, []string{"none", "none", "ok", "wrong"}), Conds: g.conds(false)}
	ops := []core.Op{init}
	chunk := func(lo, hi, sz int, body []byte) *Op {
		r := fmt.Sprintf("%d %d %d", lo, hi, sz)
		raw := "bytes "
		if lo < 0 {
			raw += "*"
		} else {
			raw += fmt.Sprintf("%d-%d", lo, hi)
		}
		if sz < 0 {
			raw += "/*"
		} else {
			raw += fmt.Sprintf("/%d", sz)
		}
		return &Op{Kind: "reschunk", B: b, Idx: idx, Range: r, RawRange: raw, Content: body}
	}
	pos := 0
	steps := 0
	for steps < 12 {
		steps++
		switch g.R.Weighted([]int{70, 8, 8, 5, 4, 5}) {
		case 0: // next chunk
			if pos == len(p) {
				ops = append(ops, chunk(-1, -1, len(p), nil)) // finalise with */N
				return ops
			}
			k := 1 + g.R.Intn(len(p)-pos)
			if g.R.Chance(1, 3) {
				k = len(p) - pos
			}
			if pos+k == len(p) && !g.R.Chance(1, 4) {
				ops = append(ops, chunk(pos, pos+k-1, len(p), p[pos:pos+k]))
				return ops
			}
			ops = append(ops, chunk(pos, pos+k-1, -1, p[pos:pos+k]))
			pos += k
		case 1: // status query
			ops = append(ops, chunk(-1, -1, -1, nil))
		case 2: // re-send an earlier range (truncates and re-appends)
			if pos > 0 {
				lo := g.R.Intn(pos)
				k := 1 + g.R.Intn(len(p)-lo)
				if lo+k == len(p) {
					ops = append(ops, chunk(lo, lo+k-1, len(p), p[lo:lo+k]))
					return ops
				}
				ops = append(ops, chunk(lo, lo+k-1, -1, p[lo:lo+k]))
				pos = lo + k
			}
		case 3: // gap: missing content
			ops = append(ops, chunk(pos+1+g.R.Intn(3), pos+3, -1, []byte("zz")))
		case 4: // range/body length disagree
			ops = append(ops, chunk(pos, pos+4, -1, []byte("q")))
		default: // malformed or missing header
			raw := core.Pick(g.R, []string{"bytes 0-3", "octets 0-1/2", "bytes a-b/c", ""})
			ops = append(ops, &Op{Kind: "reschunk", B: b, Idx: idx, Range: "", RawRange: raw, Content: []byte("q")})
		}
	}
	return ops
}

func (g *Gen) readBack(prog *[]core.Op, b, n string) {
	*prog = append(*prog, &Op{Kind: "getmeta", B: b, N: n, URLForm: g.R.Intn(2)}, &Op{Kind: "getmedia", B: b, N: n, URLForm: g.R.Intn(4)})
}

func (g *Gen) ListOp(b string) *Op {
	o := &Op{Kind: "listall", B: b, Max: core.Pick(g.R, []int{1, 1, 2, 2, 3, 5, 1000})}
	if g.R.Chance(2, 3) {
		n := g.name()
		o.Prefix = n[:g.R.Intn(len(n)+1)]
	}
	o.Delim = core.Pick(g.R, []string{"", "/", "/", "/", ".", "/b", "-"})
	return o
}

func (g *Gen) Program() []core.Op {
	g.sessions = 0
	var prog []core.Op
	prog = append(prog, &Op{Kind: "mkbucket", B: "bk"})
	p := g.P
	if p.BigPayload > 0 {
		// one upload per protocol, each read back
		for i, proto := range []string{"media", "multipart"} {
			n := p.Names[i%len(p.Names)]
			o := &Op{Kind: "upload", B: "bk", N: n, Content: g.payload(), Declared: core.Pick(g.R, []string{"none", "ok"}), Proto: proto, Meta: Meta{CT: "application/octet-stream"}}
			if proto == "media" {
				o.Declared = "none"
			}
			prog = append(prog, o)
			g.readBack(&prog, "bk", n)
		}
		n := p.Names[2%len(p.Names)]
		prog = append(prog, g.Resumable("bk", n)...)
		g.readBack(&prog, "bk", n)
		return prog
	}
	if p.Copy > 0 && p.Patch > 0 && len(p.Names) >= 3 && g.R.Chance(1, 5) {
		// aliasing probe for user metadata: an object created with an explicitly empty metadata map, its
		// copy, a patch of one of the two (or a patch that is refused half-way): the other keeps what it had
		ns := p.Names
		prog = append(prog,
			&Op{Kind: "upload", B: "bk", N: ns[0], Content: []byte("src"), Declared: "none", Proto: "multipart", Meta: Meta{CT: "text/plain", EmptyUM: true}},
			&Op{Kind: "copy", B: "bk", N: ns[0], B2: "bk", N2: ns[1]})
		tgt, other := ns[1], ns[0]
		if g.R.Chance(1, 2) {
			tgt, other = other, tgt
		}
		prog = append(prog, &Op{Kind: "patch", B: "bk", N: tgt, Meta: Meta{UM: []KV{{K: "color", V: "red"}}}},
			&Op{Kind: "getmeta", B: "bk", N: other}, &Op{Kind: "getmeta", B: "bk", N: tgt}, g.ListOp("bk"))
	}
	if p.Compose > 0 && len(p.Names) >= 5 && g.R.Chance(1, 3) {
		// aliasing probe: two composes (or a compose and a copy) that start from the same source must not
		// disturb each other's results nor the source
		ns := p.Names
		up := func(n string, c []byte) {
			prog = append(prog, &Op{Kind: "upload", B: "bk", N: n, Content: c, Declared: "none", Proto: core.Pick(g.R, []string{"media", "multipart"}), Meta: Meta{CT: "text/plain"}})
		}
		up(ns[0], core.Pick(g.R, Payloads))
		up(ns[1], []byte("tail-one"))
		up(ns[2], []byte("TAIL-2"))
		prog = append(prog, &Op{Kind: "compose", B: "bk", N: ns[3], HasMeta: true, Srcs: []Src{{Name: ns[0]}, {Name: ns[1]}}})
		if g.R.Chance(1, 2) {
			prog = append(prog, &Op{Kind: "compose", B: "bk", N: ns[4], HasMeta: true, Srcs: []Src{{Name: ns[0]}, {Name: ns[2]}}})
		} else {
			prog = append(prog, &Op{Kind: "compose", B: "bk", N: ns[4], HasMeta: true, Srcs: []Src{{Name: ns[3]}, {Name: ns[2]}}})
		}
		for _, n := range ns[:5] {
			prog = append(prog, &Op{Kind: "getmedia", B: "bk", N: n})
		}
	}
	n := p.MinOps + g.R.Intn(p.MaxOps-p.MinOps+1)
	w := []int{p.Upload, p.Resumable, p.GetMeta, p.GetMedia, p.Patch, p.Delete, p.Compose, p.Copy, p.List, p.ListBad, p.MkBucket, p.RmBucket, p.Reopen, p.GetBucket, p.Plant}
	for i := 0; i < n; i++ {
		b, nm := g.bucket(), g.name()
		switch g.R.Weighted(w) {
		case 0:
			prog = append(prog, g.UploadOp(b, nm))
			if p.ReadBack {
				g.readBack(&prog, b, nm)
			}
		case 1:
			prog = append(prog, g.Resumable(b, nm)...)
			if p.ReadBack {
				g.readBack(&prog, b, nm)
			}
		case 2:
			prog = append(prog, &Op{Kind: "getmeta", B: b, N: nm, URLForm: g.R.Intn(2)})
		case 3:
			prog = append(prog, &Op{Kind: "getmedia", B: b, N: nm, URLForm: g.R.Intn(4)})
		case 4:
			o := &Op{Kind: "patch", B: b, N: nm, Conds: g.conds(false)}
			if g.R.Chance(1, 2) {
				v := core.Pick(g.R, CTs[:4])
				o.PatchCT = &v
			}
			if g.R.Chance(1, 2) {
				v := core.Pick(g.R, []string{"no-cache", "max-age=60", "private"})
				o.PatchCC = &v
			}
			o.Meta.UM = g.meta(true).UM
			o.Computed = g.R.Chance(1, 4)
			o.BadJSON = g.R.Chance(1, 25)
			prog = append(prog, o)
			if p.ReadBack {
				g.readBack(&prog, b, nm)
			}
		case 5:
			if dir := dirOf(nm); dir != "" && g.R.Chance(1, 6) {
				// delete the name of a "directory" of other objects: there is no such object, so nothing
				// may change — in particular not the objects below it (read back: one of them)
				prog = append(prog, &Op{Kind: "delete", B: b, N: dir, DirName: true})
				if p.ReadBack {
					g.readBack(&prog, b, nm)
				}
				break
			}
			prog = append(prog, &Op{Kind: "delete", B: b, N: nm, Conds: g.conds(false)})
			if p.ReadBack {
				g.readBack(&prog, b, nm)
			}
		case 6:
			o := &Op{Kind: "compose", B: b, N: nm, Conds: g.conds(false), HasMeta: !g.R.Chance(1, 6), Meta: g.meta(true)}
			if !o.HasMeta {
				o.Meta = Meta{}
			}
			ns := g.R.Weighted([]int{3, 30, 30, 20, 10})
			if g.R.Chance(1, 25) {
				ns = 32 + g.R.Intn(2)
			}
			for j := 0; j < ns; j++ {
				s := Src{Name: g.name()}
				if g.R.Chance(1, 3) {
					s.Name = nm // destination among the sources
				}
				if g.R.Chance(g.P.CondPct, 200) {
					s.Cond = core.Pick(g.R, []string{"cur", "other"})
				}
				o.Srcs = append(o.Srcs, s)
			}
			prog = append(prog, o)
			if len(o.Srcs) >= 2 && len(o.Srcs) <= 32 && g.R.Chance(1, 3) {
				// the same first source again, into another destination: the earlier result must not change
				other := g.name()
				o2 := &Op{Kind: "compose", B: b, N: other, HasMeta: true, Meta: g.meta(true), Srcs: []Src{{Name: o.Srcs[0].Name}, {Name: g.name()}}}
				prog = append(prog, o2)
				g.readBack(&prog, b, nm)
				g.readBack(&prog, b, o.Srcs[0].Name)
			}
			if p.ReadBack {
				g.readBack(&prog, b, nm)
			}
		case 7:
			b2, n2 := g.bucket(), g.name()
			prog = append(prog, &Op{Kind: "copy", B: b, N: nm, B2: b2, N2: n2})
			if p.ReadBack {
				g.readBack(&prog, b2, n2)
				g.readBack(&prog, b, nm)
			}
		case 8:
			prog = append(prog, g.ListOp(b))
		case 9:
			prog = append(prog, &Op{Kind: "listbad", B: b, BadList: core.Pick(g.R, []string{"max0", "maxneg", "maxtext", "token"})})
		case 10:
			prog = append(prog, &Op{Kind: "mkbucket", B: core.Pick(g.R, Buckets)})
		case 11:
			prog = append(prog, &Op{Kind: "delete", B: b, N: ""})
		case 12:
			prog = append(prog, &Op{Kind: "reopen"})
			g.sessions = 0
		case 13:
			prog = append(prog, &Op{Kind: "getbucket", B: b})
		case 14:
			prog = append(prog, &Op{Kind: "plant", B: "bk", N: nm, Content: core.Pick(g.R, [][]byte{[]byte("planted"), {}, {0, 255, 7}})})
			g.readBack(&prog, "bk", nm)
		}
	}
	// final dump: the listing, and every name's metadata and bytes (an object changed behind the back
	// of the request that wrote it shows up here)
	for _, b := range Buckets {
		prog = append(prog, &Op{Kind: "listall", B: b, Max: 1000})
	}
	for _, nm := range p.Names {
		prog = append(prog, &Op{Kind: "getmedia", B: "bk", N: nm})
	}
	return prog
}
