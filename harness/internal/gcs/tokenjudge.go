//go:build verif

package gcs

import (
	"encoding/base64"
	"fmt"
	"strings"

	"github.com/fullstorydev/emulators/storage/gcsutil"

	"verif/harness/internal/core"
)

// RunTokenJudges compares the repository's page-token codec with the Model's (Emu.Gcs.Token, the one
// `page_token_round_trip` is about): for names of every kind the wire bytes of the token must be the
// Model's and decoding must give the name back; for random byte strings, whatever the Model decodes
// the repository must decode to the same name.
func RunTokenJudges(rep *core.Report, seed uint64) {
	r := core.NewRng(seed ^ 0x746f6b656e)
	names := []string{"", "a", "a/b", "ü", "a\xff1", "\x00", strings.Repeat("n", 127), strings.Repeat("n", 128), strings.Repeat("x", 766), strings.Repeat("y", 1024), strings.Repeat("z", 20000), LongName}
	for _, n := range SafeNames {
		names = append(names, n)
	}
	for i := 0; i < 60; i++ {
		b := make([]byte, r.Intn(300))
		for j := range b {
			b[j] = byte(r.Intn(256))
		}
		names = append(names, string(b))
	}
	var lines, want []string
	for _, n := range names {
		tok := gcsutil.EncodePageToken(n)
		wire, err := base64.StdEncoding.DecodeString(tok)
		back, derr := gcsutil.DecodePageToken(tok)
		w := fmt.Sprintf("token %s back %s", core.Hex(wire), core.Hex([]byte(back)))
		if err != nil || derr != nil {
			w = fmt.Sprintf("token ? (encode/decode failed: %v %v)", err, derr)
		}
		lines = append(lines, "judge token "+core.HexS(n))
		want = append(want, w)
	}
	// arbitrary bytes offered as a token
	for i := 0; i < 150; i++ {
		var b []byte
		switch r.Intn(3) {
		case 0:
			b = make([]byte, r.Intn(12))
			for j := range b {
				b[j] = byte(r.Intn(256))
			}
		default:
			// a well-formed token, then perhaps damaged
			n := []byte(core.Pick(r, names))
			tok, _ := base64.StdEncoding.DecodeString(gcsutil.EncodePageToken(string(n)))
			b = append([]byte{}, tok...)
			if len(b) > 0 && r.Chance(1, 2) {
				switch r.Intn(3) {
				case 0:
					b = b[:r.Intn(len(b))]
				case 1:
					b[r.Intn(len(b))] ^= byte(1 << r.Intn(8))
				default:
					b = append(b, b...)
				}
			}
		}
		name, err := gcsutil.DecodePageToken(base64.StdEncoding.EncodeToString(b))
		lines = append(lines, "judge untoken "+core.Hex(b))
		if err != nil {
			want = append(want, "other")
		} else {
			want = append(want, "name "+core.Hex([]byte(name)))
		}
	}
	res, err := core.RunModel(lines)
	if err != nil {
		rep.ModelErrors = append(rep.ModelErrors, "token judges: "+err.Error())
		return
	}
	for i, l := range lines {
		rep.Evaluations++
		got := res[i]
		if got == "bad-op" {
			rep.ModelErrors = append(rep.ModelErrors, "model rejected line: "+l[:min(len(l), 200)])
			continue
		}
		ok := got == want[i]
		if strings.HasPrefix(l, "judge untoken") && got == "other" {
			// the Model only reads messages made of the one field; the repository's decoder also skips
			// unknown fields: nothing to compare
			ok = true
			rep.Extra["token_bytes_only_the_repository_reads"]++
		}
		rep.Extra["token_judgements"]++
		if !ok && len(rep.Mismatches) < 6 {
			rep.Mismatches = append(rep.Mismatches, core.Mismatch{Config: "token codec", Ops: []string{l[:min(len(l), 400)]}, Impl: []string{want[i][:min(len(want[i]), 400)]}, Model: []string{got[:min(len(got), 400)]},
				Index: 0, ShrunkFrom: 1, Kind: "gcs", Note: "gcsutil's page-token codec (impl column) and the Model's codec the round-trip theorem is about (model column) disagree"})
		}
	}
}
