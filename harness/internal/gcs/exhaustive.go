package gcs

import (
	"fmt"
	"time"

	"verif/harness/internal/core"
)

// Exhaustive enumerations (filled in below); the int argument caps the number of programs
// (<= 0: the whole space).
var Exhaustive = map[string]func(seed uint64, n int) [][]core.Op{}

// ClockHypothesis re-measures what the Model assumes about time.Now(): strictly increasing
// readings across successive calls. A failure is reported as a failed hypothesis, not as a
// violation by the code.
func ClockHypothesis() []string {
	prev := time.Now().UnixNano()
	for i := 0; i < 200000; i++ {
		now := time.Now().UnixNano()
		if now <= prev {
			return []string{fmt.Sprintf("time.Now().UnixNano() did not increase between two successive readings (%d then %d)", prev, now)}
		}
		prev = now
	}
	return nil
}
