package gcs

import (
	"fmt"
	"time"

	"verif/harness/internal/core"
)

// Exhaustive enumerations; the int argument caps the number of cases (<= 0: the whole space).
var Exhaustive = map[string]func(seed uint64, n int) [][]core.Op{
	"c04x":    truthTable,
	"c11x":    func(seed uint64, n int) [][]core.Op { return listUniverse(seed, n, c11Safe) },
	"c11xmem": func(seed uint64, n int) [][]core.Op { return listUniverse(seed, n, c11Mem) },
}

// ClockHypothesis re-measures what the Model assumes about time.Now(): strictly increasing
// readings across successive calls. A failure is reported as a failed hypothesis, not as a
// violation by the code.
func ClockHypothesis() []string {
	prev := time.Now().UnixNano()
	for i := 0; i < 200000; i++ {
		now := time.Now().UnixNano()
		if now <= prev {
			return []string{fmt.Sprintf("time.Now().UnixNano() did not increase between two successive readings (%d then %d)", prev, now)}
		}
		prev = now
	}
	return nil
}

// C04: the whole table — 4 parameters x {unset, = current, != current, (0 | unparsable)} x object
// state {absent, fresh, patched twice, overwritten} x operation {media, multipart, resumable,
// patch, delete, compose destination, compose source}. After every request the object's metadata
// and media are read back, and finally the whole bucket is listed.
func truthTable(seed uint64, n int) [][]core.Op {
	gmVals := []string{"u", "cur", "other", "zero", "bad"}
	other := []string{"u", "cur", "other", "bad"}
	states := []string{"absent", "fresh", "patched", "overwritten"}
	ops := []string{"media", "multipart", "resumable", "patch", "delete", "compose-dst", "compose-src"}
	type cs struct {
		c     Conds
		state string
		op    string
	}
	var all []cs
	for _, a := range gmVals {
		for _, b := range other {
			for _, c := range other {
				for _, d := range other {
					for _, st := range states {
						for _, op := range ops {
							all = append(all, cs{Conds{a, b, c, d}, st, op})
						}
					}
				}
			}
		}
	}
	stride := 1
	if n > 0 && len(all) > n {
		stride = len(all) / n
	}
	off := 0
	if stride > 1 {
		off = core.NewRng(seed).Intn(stride)
	}
	var progs [][]core.Op
	for i, x := range all {
		if (i+off)%stride != 0 {
			continue
		}
		p := []core.Op{&Op{Kind: "mkbucket", B: "bk"},
			&Op{Kind: "upload", B: "bk", N: "other", Content: []byte("keep"), Proto: "media", Declared: "none", Meta: Meta{CT: "text/plain"}},
			&Op{Kind: "upload", B: "bk", N: "src", Content: []byte("S"), Proto: "media", Declared: "none", Meta: Meta{CT: "text/plain"}}}
		ct := "text/plain"
		switch x.state {
		case "fresh", "patched", "overwritten":
			p = append(p, &Op{Kind: "upload", B: "bk", N: "obj", Content: []byte("v1"), Proto: "multipart", Declared: "none", Meta: Meta{CT: ct, UM: []KV{{"k1", "v"}}}})
		}
		if x.state == "patched" {
			cc := "no-cache"
			p = append(p, &Op{Kind: "patch", B: "bk", N: "obj", PatchCC: &cc}, &Op{Kind: "patch", B: "bk", N: "obj", Meta: Meta{UM: []KV{{"k2", "w"}}}})
		}
		if x.state == "overwritten" {
			p = append(p, &Op{Kind: "upload", B: "bk", N: "obj", Content: []byte("v2"), Proto: "media", Declared: "none", Meta: Meta{CT: ct}})
		}
		switch x.op {
		case "media":
			p = append(p, &Op{Kind: "upload", B: "bk", N: "obj", Content: []byte("new"), Proto: "media", Declared: "none", Meta: Meta{CT: "image/png"}, Conds: x.c})
		case "multipart":
			p = append(p, &Op{Kind: "upload", B: "bk", N: "obj", Content: []byte("new"), Proto: "multipart", Declared: "ok", Meta: Meta{CT: "image/png", CC: "private"}, Conds: x.c})
		case "resumable":
			p = append(p, &Op{Kind: "resinit", B: "bk", N: "obj", Content: []byte("new"), Declared: "none", Meta: Meta{CT: "image/png"}, Conds: x.c},
				&Op{Kind: "reschunk", B: "bk", Idx: 1, Range: "0 1 -1", RawRange: "bytes 0-1/*", Content: []byte("ne")},
				&Op{Kind: "reschunk", B: "bk", Idx: 1, Range: "2 2 3", RawRange: "bytes 2-2/3", Content: []byte("w")})
		case "patch":
			cc := "max-age=60"
			p = append(p, &Op{Kind: "patch", B: "bk", N: "obj", PatchCC: &cc, Conds: x.c})
		case "delete":
			p = append(p, &Op{Kind: "delete", B: "bk", N: "obj", Conds: x.c})
		case "compose-dst":
			p = append(p, &Op{Kind: "compose", B: "bk", N: "obj", Conds: x.c, Srcs: []Src{{Name: "src"}, {Name: "other"}}, HasMeta: true, Meta: Meta{CT: "text/plain"}})
		case "compose-src":
			// the per-source condition is the first parameter only (ifGenerationMatch)
			sc := x.c[0]
			if sc == "zero" || sc == "bad" {
				sc = "other"
			}
			p = append(p, &Op{Kind: "compose", B: "bk", N: "dst", Srcs: []Src{{Name: "obj", Cond: sc}, {Name: "src"}}, HasMeta: true, Meta: Meta{CT: "text/plain"}},
				&Op{Kind: "getmeta", B: "bk", N: "dst"}, &Op{Kind: "getmedia", B: "bk", N: "dst"})
		}
		p = append(p, &Op{Kind: "getmeta", B: "bk", N: "obj"}, &Op{Kind: "getmedia", B: "bk", N: "obj"},
			&Op{Kind: "getmeta", B: "bk", N: "other"}, &Op{Kind: "listall", B: "bk", Max: 1000})
		progs = append(progs, p)
	}
	return progs
}

// C11: all subsets of a small name universe x every prefix of every name x delimiters x page
// sizes, each listing followed to the end.
var c11Mem = []string{"a", "a.txt", "a/b", "a/b/c", "a-b", "a/c", "b", "a b", "ab"}
var c11Safe = []string{"a.txt", "a/b", "a/c/d", "a-b", "a/c/e", "b", "a b", "ab", "a.b/c"}

func listUniverse(seed uint64, n int, universe []string) [][]core.Op {
	prefixSet := map[string]bool{"": true}
	for _, nm := range universe {
		for i := 1; i <= len(nm); i++ {
			prefixSet[nm[:i]] = true
		}
	}
	var prefixes []string
	for _, nm := range append([]string{""}, universe...) {
		for i := 0; i <= len(nm); i++ {
			if prefixSet[nm[:i]] {
				prefixes = append(prefixes, nm[:i])
				delete(prefixSet, nm[:i])
			}
		}
	}
	delims := []string{"", "/", ".", "/b"}
	maxes := []int{1, 2, 3, 1000}
	subsets := 1 << len(universe)
	perSubset := len(prefixes) * len(delims) * len(maxes)
	total := subsets * perSubset
	stride := 1
	if n > 0 && total > n {
		stride = total / n
	}
	off := 0
	if stride > 1 {
		off = core.NewRng(seed).Intn(stride)
	}
	var progs [][]core.Op
	idx := 0
	for mask := 0; mask < subsets; mask++ {
		var p []core.Op
		p = append(p, &Op{Kind: "mkbucket", B: "bk"})
		for i, nm := range universe {
			if mask&(1<<i) != 0 {
				p = append(p, &Op{Kind: "upload", B: "bk", N: nm, Content: []byte{byte('0' + i)}, Proto: "media", Declared: "none", Meta: Meta{CT: "text/plain"}})
			}
		}
		base := len(p)
		for _, pf := range prefixes {
			for _, d := range delims {
				for _, m := range maxes {
					if (idx+off)%stride == 0 {
						p = append(p, &Op{Kind: "listall", B: "bk", Prefix: pf, Delim: d, Max: m})
					}
					idx++
				}
			}
		}
		if len(p) > base {
			progs = append(progs, p)
		}
	}
	return progs
}
