// Package gcs is the Cloud Storage side of the differential harness: abstract ops that print as
// protocol lines for the Lean Model and execute as real HTTP requests against GcsEmu's handlers.
package gcs

import (
	"bytes"
	"compress/gzip"
	"crypto/md5"
	"encoding/base64"
	"encoding/json"
	"fmt"
	"io"
	"net/http"
	"net/http/httptest"
	"net/url"
	"os"
	"path/filepath"
	"regexp"
	"sort"
	"strconv"
	"strings"
	"time"

	"github.com/fullstorydev/emulators/storage/gcsemu"

	"verif/harness/internal/core"
)

var hx = core.Hex

func hs(s string) string { return core.HexS(s) }

type KV struct{ K, V string }

type Meta struct {
	CT, CC string
	UM     []KV
	// EmptyUM: no user metadata, written as an explicitly empty map ("metadata": {}) — the same as none
	EmptyUM bool `json:",omitempty"`
	// OutOnly: the resource also carries output-only fields (generation, metageneration), as a client
	// does that sends back a resource it had fetched; the service must ignore them
	OutOnly bool `json:",omitempty"`
	// CE: contentEncoding of the resource ("gzip": the content is then a gzip stream made by GzOf)
	CE string `json:",omitempty"`
}

// gzip-encoded objects.  The Model knows stored bytes only; a download that the service inflates on
// behalf of a client that does not accept gzip is mapped back to the stored bytes it came from
// (ungz: plaintext -> the gzip stream GzOf made of it), everything else is compared as it is.
var ungz = map[string][]byte{}

// GzOf compresses a plaintext that no other payload equals and remembers the pair.
func GzOf(tag string) []byte {
	plain := []byte("gz-plain:" + tag)
	var b bytes.Buffer
	w := gzip.NewWriter(&b)
	w.Write(plain)
	w.Close()
	ungz[string(plain)] = b.Bytes()
	return b.Bytes()
}

// Conds are symbolic: u(nset) cur other zero bad, for gm gnm mm mnm.
type Conds [4]string

func (c Conds) Line() string {
	out := make([]string, 4)
	for i, x := range c {
		if x == "" {
			x = "u"
		}
		out[i] = x
	}
	return strings.Join(out, " ")
}

type Src struct {
	Name string
	Cond string // u cur other
}

type Op struct {
	Kind     string
	B, N     string
	B2, N2   string
	Content  []byte
	Meta     Meta
	Declared string // none ok wrong garbage
	Conds    Conds
	Proto    string // media multipart
	Gzip     bool
	// Chunked: the request body is sent without a Content-Length (Transfer-Encoding: chunked)
	Chunked bool `json:",omitempty"`
	// DirName: the name is a directory of other objects' names (file store: not representable as a file
	// next to them); only used by deletes, which must not touch those objects whatever they answer
	DirName bool `json:",omitempty"`
	URLForm  int
	Idx      int    // reschunk: ordinal of the initiation
	Range    string // reschunk: "" (bad) or "lo hi sz"
	RawRange string // header text actually sent
	PatchCT  *string
	PatchCC  *string
	Computed bool
	BadJSON  bool
	Srcs     []Src
	HasMeta  bool
	Prefix   string
	Delim    string
	Max      int
	BadList  string // listbad: which parameter is malformed
}

func md5b64(b []byte) string {
	h := md5.Sum(b)
	return base64.StdEncoding.EncodeToString(h[:])
}

func (m Meta) line(md5 string) string {
	parts := []string{hs(m.CT), hs(m.CC), fmt.Sprint(len(m.UM))}
	for _, kv := range m.UM {
		parts = append(parts, hs(kv.K), hs(kv.V))
	}
	parts = append(parts, hs(md5))
	return strings.Join(parts, " ")
}

func optLine(p *string) string {
	if p == nil {
		return "-"
	}
	return "= " + hs(*p)
}

func (o *Op) Line() string {
	switch o.Kind {
	case "mkbucket", "getbucket", "listbad":
		return "gcs " + o.Kind + " " + hs(o.B)
	case "upload":
		return fmt.Sprintf("gcs upload %s %s %s %s %s %s", hs(o.B), hs(o.N), hx(o.Content), o.Meta.line(md5b64(o.Content)), o.Declared, o.Conds.Line())
	case "resinit":
		// the MD5 token is the one of the final payload, carried in Content
		return fmt.Sprintf("gcs resinit %s %s %s %s %s", hs(o.B), hs(o.N), o.Meta.line(md5b64(o.Content)), o.Declared, o.Conds.Line())
	case "reschunk":
		r := "badrange"
		if o.Range != "" {
			r = "range " + o.Range
		}
		return fmt.Sprintf("gcs reschunk %d %s %s", o.Idx, r, hx(o.Content))
	case "getmeta", "getmedia":
		return fmt.Sprintf("gcs %s %s %s", o.Kind, hs(o.B), hs(o.N))
	case "patch":
		parts := []string{"gcs patch", hs(o.B), hs(o.N), o.Conds.Line(), optLine(o.PatchCT), optLine(o.PatchCC), fmt.Sprint(len(o.Meta.UM))}
		for _, kv := range o.Meta.UM {
			parts = append(parts, hs(kv.K), hs(kv.V))
		}
		parts = append(parts, fmt.Sprint(b2i(o.Computed)), fmt.Sprint(b2i(o.BadJSON)))
		return strings.Join(parts, " ")
	case "delete":
		return fmt.Sprintf("gcs delete %s %s %s", hs(o.B), hs(o.N), o.Conds.Line())
	case "compose":
		parts := []string{"gcs compose", hs(o.B), hs(o.N), o.Conds.Line(), fmt.Sprint(len(o.Srcs))}
		for _, s := range o.Srcs {
			c := s.Cond
			if c == "" {
				c = "u"
			}
			parts = append(parts, hs(s.Name), c)
		}
		if o.HasMeta {
			parts = append(parts, "meta", o.Meta.line(""))
		} else {
			parts = append(parts, "nometa")
		}
		return strings.Join(parts, " ")
	case "copy":
		return fmt.Sprintf("gcs copy %s %s %s %s", hs(o.B), hs(o.N), hs(o.B2), hs(o.N2))
	case "listall":
		return fmt.Sprintf("gcs listall %s %s %s %d", hs(o.B), hs(o.Prefix), hs(o.Delim), o.Max)
	case "reopen":
		return "gcs reopen"
	case "plant":
		return fmt.Sprintf("gcs plant %s %s %s", hs(o.B), hs(o.N), hx(o.Content))
	}
	panic("gcs op kind " + o.Kind)
}

func b2i(b bool) int {
	if b {
		return 1
	}
	return 0
}

// ---------- executor ----------

type Env struct {
	emu     *gcsemu.GcsEmu
	mux     *http.ServeMux
	dir     string
	store   string
	gens    []int64 // distinct generations seen, ascending
	uploads []string
	// HypothesisFailures collects violated environment assumptions (clock).
	HypothesisFailures []string
	// frozen, when set, is the view against which symbolic conditions are resolved (tie T3: the
	// concurrent requests are all built against the state after the sequential prefix).
	frozen map[string][3]int64
	// RawGens prints generations as #g<raw value> (ranked after the run, see RankGens).
	RawGens bool
}

// Freeze records generation / metageneration of the named objects; later symbolic conditions are
// resolved against this record instead of the live store.
func (e *Env) Freeze(names [][2]string) {
	fr := map[string][3]int64{}
	for _, bn := range names {
		g, m, ok := e.current(bn[0], bn[1])
		o := int64(0)
		if ok {
			o = 1
		}
		fr[bn[0]+"\x00"+bn[1]] = [3]int64{g, m, o}
	}
	e.frozen = fr
}

// Gens returns the distinct generations seen so far, ascending.
func (e *Env) Gens() []int64 { return append([]int64{}, e.gens...) }

func Stores(which string) []core.Config {
	all := []core.Config{
		{Name: "mem", New: func() core.Impl { return NewEnv("mem", "") }},
		{Name: "file", New: func() core.Impl { return NewEnv("file", "") }},
	}
	if which == "" || which == "all" {
		return all
	}
	var out []core.Config
	for _, c := range all {
		if strings.Contains(","+which+",", ","+c.Name+",") {
			out = append(out, c)
		}
	}
	return out
}

func scratchRoot() string {
	if d := os.Getenv("VERIF_SCRATCH"); d != "" {
		return d
	}
	return "/var/tmp"
}

func NewEnv(store, dir string) *Env {
	e := &Env{store: store}
	e.open(dir)
	return e
}

func (e *Env) open(dir string) {
	opts := gcsemu.Options{}
	if e.store == "file" {
		if dir == "" {
			d, err := os.MkdirTemp(scratchRoot(), "verif-gcs-")
			if err != nil {
				panic(err)
			}
			dir = d
		}
		e.dir = dir
		opts.Store = gcsemu.NewFileStore(dir)
	}
	e.emu = gcsemu.NewGcsEmu(opts)
	e.mux = http.NewServeMux()
	e.emu.Register(e.mux)
}

// Reopen simulates a restart: a new GcsEmu on the same directory (file store only).
func (e *Env) Reopen() {
	if e.store == "file" {
		e.open(e.dir)
		e.uploads = nil
	}
}

func (e *Env) Close() {
	if e.dir != "" {
		os.RemoveAll(e.dir)
	}
}

func (e *Env) do(method, path, query string, hdr map[string]string, body []byte) *httptest.ResponseRecorder {
	u := &url.URL{Path: path, RawQuery: query}
	req := &http.Request{Method: method, URL: u, Header: http.Header{}, Host: "emu.test", Proto: "HTTP/1.1", ProtoMajor: 1, ProtoMinor: 1}
	for k, v := range hdr {
		req.Header.Set(k, v)
	}
	if body == nil {
		body = []byte{}
	}
	req.Body = io.NopCloser(bytes.NewReader(body))
	req.ContentLength = int64(len(body))
	if req.Header.Get("X-Verif-Chunked") != "" {
		// what net/http hands a handler for a chunked request body
		req.Header.Del("X-Verif-Chunked")
		req.ContentLength = -1
		req.TransferEncoding = []string{"chunked"}
	}
	rec := httptest.NewRecorder()
	e.mux.ServeHTTP(rec, req)
	return rec
}

func (e *Env) rank(g int64) int {
	i := sort.Search(len(e.gens), func(i int) bool { return e.gens[i] >= g })
	if i == len(e.gens) || e.gens[i] != g {
		e.gens = append(e.gens, 0)
		copy(e.gens[i+1:], e.gens[i:])
		e.gens[i] = g
	}
	return i + 1
}

func (e *Env) rankStr(g int64) string {
	if e.RawGens {
		return fmt.Sprintf("g%d", g)
	}
	return fmt.Sprint(e.rank(g))
}

var rawGenRe = regexp.MustCompile(`#g(-?\d+)`)

// RankGens replaces every #g<raw> token by the rank of that generation among base and all raw
// generations occurring in the lines.
func RankGens(base []int64, lines []string) []string {
	set := map[int64]bool{}
	for _, g := range base {
		set[g] = true
	}
	for _, l := range lines {
		for _, m := range rawGenRe.FindAllStringSubmatch(l, -1) {
			g, _ := strconv.ParseInt(m[1], 10, 64)
			set[g] = true
		}
	}
	var all []int64
	for g := range set {
		all = append(all, g)
	}
	sort.Slice(all, func(i, j int) bool { return all[i] < all[j] })
	rank := map[int64]int{}
	for i, g := range all {
		rank[g] = i + 1
	}
	out := make([]string, len(lines))
	for i, l := range lines {
		out[i] = rawGenRe.ReplaceAllStringFunc(l, func(tok string) string {
			g, _ := strconv.ParseInt(tok[2:], 10, 64)
			return fmt.Sprintf("#%d", rank[g])
		})
	}
	return out
}

var namedGenRe = regexp.MustCompile(`name=(\S+) [^#|;]*gen=#g?(-?\d+)`)

// RankGensPerObject replaces every generation token (#g<raw> of the implementation, #<n> of the
// Model) by its rank among the generations reported for the same object name in the lines.  Every
// token stands in a resource or media line that names its object.  Generations of different objects
// are deliberately not compared: the properties order the versions of one object, not the instants
// at which unrelated objects were written (and two objects may well carry the same number).
func RankGensPerObject(lines []string) []string {
	per := map[string]map[int64]bool{}
	for _, l := range lines {
		for _, m := range namedGenRe.FindAllStringSubmatch(l, -1) {
			g, _ := strconv.ParseInt(m[2], 10, 64)
			if per[m[1]] == nil {
				per[m[1]] = map[int64]bool{}
			}
			per[m[1]][g] = true
		}
	}
	rank := map[string]map[int64]int{}
	for n, set := range per {
		var gs []int64
		for g := range set {
			gs = append(gs, g)
		}
		sort.Slice(gs, func(i, j int) bool { return gs[i] < gs[j] })
		rank[n] = map[int64]int{}
		for i, g := range gs {
			rank[n][g] = i + 1
		}
	}
	out := make([]string, len(lines))
	for i, l := range lines {
		out[i] = namedGenRe.ReplaceAllStringFunc(l, func(tok string) string {
			m := namedGenRe.FindStringSubmatch(tok)
			g, _ := strconv.ParseInt(m[2], 10, 64)
			k := strings.LastIndex(tok, "#")
			return tok[:k] + fmt.Sprintf("#%d", rank[m[1]][g])
		})
	}
	return out
}

type objJSON struct {
	Bucket         string            `json:"bucket"`
	Name           string            `json:"name"`
	Size           string            `json:"size"`
	Md5Hash        string            `json:"md5Hash"`
	ContentType    string            `json:"contentType"`
	CacheControl   string            `json:"cacheControl"`
	Generation     string            `json:"generation"`
	Metageneration string            `json:"metageneration"`
	Metadata       map[string]string `json:"metadata"`
	ComponentCount int64             `json:"componentCount"`
}

func (e *Env) showObj(o *objJSON) string {
	g, _ := strconv.ParseInt(o.Generation, 10, 64)
	size := o.Size
	if size == "" {
		size = "0"
	}
	mg := o.Metageneration
	if mg == "" {
		mg = "0"
	}
	var keys []string
	for k := range o.Metadata {
		keys = append(keys, k)
	}
	sort.Strings(keys)
	var um []string
	for _, k := range keys {
		um = append(um, hs(k)+":"+hs(o.Metadata[k]))
	}
	return fmt.Sprintf("b=%s name=%s size=%s md5=%s ct=%s cc=%s gen=#%s mg=%s um=%s cmp=%d",
		hs(o.Bucket), hs(o.Name), size, hs(o.Md5Hash), hs(o.ContentType), hs(o.CacheControl), e.rankStr(g), mg, strings.Join(um, ","), o.ComponentCount)
}

func statusLine(code int) string { return fmt.Sprintf("status %d", code) }

// current looks up generation / metageneration of an object (harness-internal read).
func (e *Env) current(b, n string) (gen, mg int64, ok bool) {
	if n == "" {
		return 0, 0, false
	}
	if e.frozen != nil {
		v, found := e.frozen[b+"\x00"+n]
		if !found {
			panic("condition on an object outside the frozen view: " + b + "/" + n)
		}
		return v[0], v[1], v[2] == 1
	}
	rec := e.do("GET", "/storage/v1/b/"+b+"/o/"+n, "alt=json", nil, nil)
	if rec.Code != 200 {
		return 0, 0, false
	}
	var o objJSON
	if json.Unmarshal(rec.Body.Bytes(), &o) != nil {
		return 0, 0, false
	}
	gen, _ = strconv.ParseInt(o.Generation, 10, 64)
	mg, _ = strconv.ParseInt(o.Metageneration, 10, 64)
	return gen, mg, true
}

func symVal(sym string, cur int64, ok bool) (string, bool) {
	if !ok {
		cur = 7
	}
	switch sym {
	case "", "u":
		return "", false
	case "cur":
		return fmt.Sprint(cur), true
	case "other":
		return fmt.Sprint(cur + 1000003), true
	case "zero":
		return "0", true
	case "bad":
		return "12x", true
	}
	panic("sym " + sym)
}

func (e *Env) condQuery(b, n string, c Conds) url.Values {
	q := url.Values{}
	gen, mg, ok := e.current(b, n)
	names := []string{"ifGenerationMatch", "ifGenerationNotMatch", "ifMetagenerationMatch", "ifMetagenerationNotMatch"}
	for i, sym := range c {
		cur := gen
		if i >= 2 {
			cur = mg
		}
		if v, set := symVal(sym, cur, ok); set {
			q.Set(names[i], v)
		}
	}
	return q
}

func metaJSON(name string, m Meta, md5 string) map[string]any {
	j := map[string]any{"name": name}
	if m.CT != "" {
		j["contentType"] = m.CT
	}
	if m.CC != "" {
		j["cacheControl"] = m.CC
	}
	if len(m.UM) > 0 {
		um := map[string]string{}
		for _, kv := range m.UM {
			um[kv.K] = kv.V
		}
		j["metadata"] = um
	} else if m.EmptyUM {
		j["metadata"] = map[string]string{}
	}
	if m.CE != "" {
		j["contentEncoding"] = m.CE
	}
	if m.OutOnly {
		j["generation"] = "9223372036854775807"
		j["metageneration"] = "9"
	}
	if md5 != "" {
		j["md5Hash"] = md5
	}
	return j
}

func declaredMd5(decl string, content []byte) string {
	switch decl {
	case "ok":
		return md5b64(content)
	case "wrong":
		return md5b64(append([]byte("x"), content...))
	case "garbage":
		return "!!not-base64!!"
	}
	return ""
}

func gz(b []byte) []byte {
	var buf bytes.Buffer
	w := gzip.NewWriter(&buf)
	w.Write(b)
	w.Close()
	return buf.Bytes()
}

// objResp renders an upload / metadata response: status, and for 200 the object line; the
// generation headers (when present) must agree with the body.
func (e *Env) objResp(rec *httptest.ResponseRecorder, prefix string) string {
	if rec.Code != 200 {
		return statusLine(rec.Code)
	}
	var o objJSON
	if err := json.Unmarshal(rec.Body.Bytes(), &o); err != nil {
		return "malformed-json-body " + err.Error()
	}
	line := prefix + e.showObj(&o)
	if hg := rec.Header().Get("x-goog-generation"); hg != "" && hg != o.Generation {
		line += " HEADER-GENERATION-DISAGREES"
	}
	if hm := rec.Header().Get("X-Goog-Metageneration"); hm != "" && hm != o.Metageneration {
		line += " HEADER-METAGENERATION-DISAGREES"
	}
	return line
}

func errorBodyOK(rec *httptest.ResponseRecorder) bool {
	if rec.Code < 400 {
		return true
	}
	var v struct {
		Error struct {
			Code int `json:"code"`
		} `json:"error"`
	}
	return json.Unmarshal(rec.Body.Bytes(), &v) == nil && v.Error.Code == rec.Code
}

// digest: everything the listings of the known buckets say (full resources: every metadata field,
// MD5, size, both counters of every object).
func (e *Env) digest() string {
	var sb strings.Builder
	for _, b := range Buckets {
		rec := e.do("GET", "/storage/v1/b/"+b+"/o", "maxResults=1000", nil, nil)
		sb.WriteString(fmt.Sprint(rec.Code))
		sb.Write(rec.Body.Bytes())
	}
	return sb.String()
}

// Exec runs one request.  Requests that only read (metadata, media, listings) are bracketed by two
// digests of the store: a read that changes what is stored is reported in its own answer. (Listings are
// not bracketed: the exhaustive listing sweeps would triple in cost; the digest is itself a listing.)
func (e *Env) Exec(cop core.Op) (resp string) {
	o := cop.(*Op)
	if e.RawGens {
		// (the interleaving harness: every request of a goroutine is a scheduled step, no extra ones)
		return e.exec(cop)
	}
	switch o.Kind {
	case "getmeta", "getmedia", "getbucket":
		before := e.digest()
		resp = e.exec(cop)
		if after := e.digest(); after != before {
			resp += " THIS-READ-CHANGED-WHAT-IS-STORED"
		}
		return resp
	}
	return e.exec(cop)
}

func (e *Env) exec(cop core.Op) (resp string) {
	o := cop.(*Op)
	defer func() {
		if r := recover(); r != nil {
			resp = fmt.Sprintf("PANIC %v", r)
		}
	}()
	switch o.Kind {
	case "mkbucket":
		body, _ := json.Marshal(map[string]string{"name": o.B})
		rec := e.do("POST", "/storage/v1/b", "project=p", map[string]string{"Content-Type": "application/json"}, body)
		if rec.Code != 200 {
			return statusLine(rec.Code)
		}
		return "bucket " + hs(o.B)
	case "getbucket":
		rec := e.do("GET", "/storage/v1/b/"+o.B, "", nil, nil)
		if rec.Code != 200 {
			return statusLine(rec.Code)
		}
		var b struct{ Name string }
		json.Unmarshal(rec.Body.Bytes(), &b)
		return "bucket " + hs(b.Name)
	case "upload":
		q := e.condQuery(o.B, o.N, o.Conds)
		hdr := map[string]string{}
		var body []byte
		if o.Proto == "media" {
			q.Set("uploadType", "media")
			q.Set("name", o.N)
			if o.Meta.CT != "" {
				hdr["Content-Type"] = o.Meta.CT
			}
			body = o.Content
		} else {
			q.Set("uploadType", "multipart")
			mj, _ := json.Marshal(metaJSON(o.N, o.Meta, declaredMd5(o.Declared, o.Content)))
			const bnd = "verif-boundary-7f3a"
			var buf bytes.Buffer
			buf.WriteString("--" + bnd + "\r\nContent-Type: application/json; charset=UTF-8\r\n\r\n")
			buf.Write(mj)
			buf.WriteString("\r\n--" + bnd + "\r\nContent-Type: " + o.Meta.CT + "\r\n\r\n")
			buf.Write(o.Content)
			buf.WriteString("\r\n--" + bnd + "--\r\n")
			hdr["Content-Type"] = "multipart/related; boundary=" + bnd
			body = buf.Bytes()
		}
		if o.Gzip {
			hdr["Content-Encoding"] = "gzip"
			body = gz(body)
		}
		if o.Chunked {
			hdr["X-Verif-Chunked"] = "1"
		}
		path := "/upload/storage/v1/b/" + o.B + "/o"
		if o.URLForm%2 == 1 {
			path = "/storage/v1/b/" + o.B + "/o"
		}
		rec := e.do("POST", path, q.Encode(), hdr, body)
		if !errorBodyOK(rec) {
			return fmt.Sprintf("status %d WITHOUT-JSON-ERROR-BODY", rec.Code)
		}
		return e.objResp(rec, "obj ")
	case "resinit":
		q := e.condQuery(o.B, o.N, o.Conds)
		q.Set("uploadType", "resumable")
		mj, _ := json.Marshal(metaJSON(o.N, o.Meta, declaredMd5(o.Declared, o.Content)))
		rec := e.do("POST", "/upload/storage/v1/b/"+o.B+"/o", q.Encode(), map[string]string{"Content-Type": "application/json"}, mj)
		if rec.Code != 200 {
			return statusLine(rec.Code)
		}
		loc, err := url.Parse(rec.Header().Get("Location"))
		if err != nil || loc.Query().Get("upload_id") == "" {
			return "resumable-init-without-upload-id"
		}
		e.uploads = append(e.uploads, loc.Query().Get("upload_id"))
		return fmt.Sprintf("uploadid %d", len(e.uploads))
	case "reschunk":
		id := "999999"
		b := "nobucket"
		if o.Idx >= 1 && o.Idx <= len(e.uploads) {
			id = e.uploads[o.Idx-1]
		}
		if o.B != "" {
			b = o.B
		}
		hdr := map[string]string{}
		if o.RawRange != "" {
			hdr["Content-Range"] = o.RawRange
		}
		rec := e.do("PUT", "/upload/storage/v1/b/"+b+"/o", "uploadType=resumable&upload_id="+id, hdr, o.Content)
		if rec.Code == 308 {
			rg := rec.Header().Get("Range")
			if !strings.HasPrefix(rg, "bytes=0-") {
				return "308-without-range " + rg
			}
			n, _ := strconv.Atoi(strings.TrimPrefix(rg, "bytes=0-"))
			return fmt.Sprintf("more %d", n+1)
		}
		return e.objResp(rec, "obj ")
	case "getmeta":
		rec := e.do("GET", "/storage/v1/b/"+o.B+"/o/"+o.N, []string{"", "alt=json"}[o.URLForm%2], nil, nil)
		if !errorBodyOK(rec) {
			return fmt.Sprintf("status %d WITHOUT-JSON-ERROR-BODY", rec.Code)
		}
		return e.objResp(rec, "obj ")
	case "getmedia":
		var rec *httptest.ResponseRecorder
		switch o.URLForm % 4 {
		case 0:
			rec = e.do("GET", "/storage/v1/b/"+o.B+"/o/"+o.N, "alt=media", nil, nil)
		case 1:
			rec = e.do("GET", "/download/storage/v1/b/"+o.B+"/o/"+o.N, "alt=media", nil, nil)
		case 2:
			rec = e.do("GET", "/"+o.B+"/"+o.N, "", nil, nil)
		default:
			rec = e.do("GET", "/b/"+o.B+"/o/"+o.N, "alt=media", nil, nil)
		}
		if rec.Code != 200 {
			return statusLine(rec.Code)
		}
		g, _ := strconv.ParseInt(rec.Header().Get("X-Goog-Generation"), 10, 64)
		body := rec.Body.Bytes()
		if stored, ok := ungz[string(body)]; ok && rec.Header().Get("Content-Encoding") == "" {
			body = stored // inflated on our behalf (we sent no Accept-Encoding): the stored stream is what the Model holds
		}
		return fmt.Sprintf("media name=%s ct=%s gen=#%s mg=%s data=%s", hs(o.N), hs(rec.Header().Get("Content-Type")), e.rankStr(g), rec.Header().Get("X-Goog-Metageneration"), hx(body))
	case "patch":
		q := e.condQuery(o.B, o.N, o.Conds)
		q.Set("alt", "json")
		j := map[string]any{}
		if o.PatchCT != nil {
			j["contentType"] = *o.PatchCT
		}
		if o.PatchCC != nil {
			j["cacheControl"] = *o.PatchCC
		}
		if len(o.Meta.UM) > 0 {
			um := map[string]string{}
			for _, kv := range o.Meta.UM {
				um[kv.K] = kv.V
			}
			j["metadata"] = um
		}
		if o.Computed {
			j["generation"] = "12345"
			j["metageneration"] = "77"
			j["md5Hash"] = md5b64([]byte("not the content"))
			j["size"] = "999"
			j["name"] = "another-name"
			j["bucket"] = "another-bucket"
		}
		body, _ := json.Marshal(j)
		if o.BadJSON {
			body = []byte(`{"contentType": `)
		}
		rec := e.do("PATCH", "/storage/v1/b/"+o.B+"/o/"+o.N, q.Encode(), map[string]string{"Content-Type": "application/json"}, body)
		return e.objResp(rec, "obj ")
	case "delete":
		q := e.condQuery(o.B, o.N, o.Conds)
		path := "/storage/v1/b/" + o.B
		if o.N != "" {
			path += "/o/" + o.N
		}
		rec := e.do("DELETE", path, q.Encode(), nil, nil)
		if !errorBodyOK(rec) {
			return fmt.Sprintf("status %d WITHOUT-JSON-ERROR-BODY", rec.Code)
		}
		return statusLine(rec.Code)
	case "compose":
		q := e.condQuery(o.B, o.N, o.Conds)
		type pre struct {
			IfGenerationMatch string `json:"ifGenerationMatch,omitempty"`
		}
		type src struct {
			Name string `json:"name"`
			Pre  *pre   `json:"objectPreconditions,omitempty"`
		}
		req := map[string]any{}
		var srcs []src
		for _, s := range o.Srcs {
			x := src{Name: s.Name}
			gen, _, ok := e.current(o.B, s.Name)
			if v, set := symVal(s.Cond, gen, ok); set {
				x.Pre = &pre{IfGenerationMatch: v}
			}
			srcs = append(srcs, x)
		}
		req["sourceObjects"] = srcs
		if o.HasMeta {
			d := metaJSON(o.N, o.Meta, "")
			req["destination"] = d
		}
		body, _ := json.Marshal(req)
		rec := e.do("POST", "/storage/v1/b/"+o.B+"/o/"+o.N+"/compose", q.Encode(), map[string]string{"Content-Type": "application/json"}, body)
		return e.objResp(rec, "obj ")
	case "copy":
		rec := e.do("POST", "/storage/v1/b/"+o.B+"/o/"+o.N+"/rewriteTo/b/"+o.B2+"/o/"+o.N2, "", map[string]string{"Content-Type": "application/json"}, []byte("{}"))
		if rec.Code != 200 {
			return statusLine(rec.Code)
		}
		var rr struct {
			Done                bool    `json:"done"`
			ObjectSize          string  `json:"objectSize"`
			TotalBytesRewritten string  `json:"totalBytesRewritten"`
			Resource            objJSON `json:"resource"`
		}
		if err := json.Unmarshal(rec.Body.Bytes(), &rr); err != nil {
			return "malformed-json-body"
		}
		size := rr.ObjectSize
		if size == "" {
			size = "0"
		}
		tot := rr.TotalBytesRewritten
		if tot == "" {
			tot = "0"
		}
		if !rr.Done || tot != size {
			return "rewrite-not-done-or-sizes-differ"
		}
		return fmt.Sprintf("rewrite done size=%s %s", size, e.showObj(&rr.Resource))
	case "listall":
		token := ""
		var pages []string
		truncated := false
		for i := 0; ; i++ {
			if i >= 400 {
				truncated = true
				break
			}
			q := url.Values{}
			if o.Prefix != "" {
				q.Set("prefix", o.Prefix)
			}
			if o.Delim != "" {
				q.Set("delimiter", o.Delim)
			}
			q.Set("maxResults", fmt.Sprint(o.Max))
			if token != "" {
				q.Set("pageToken", token)
			}
			rec := e.do("GET", "/storage/v1/b/"+o.B+"/o", q.Encode(), nil, nil)
			if rec.Code != 200 {
				return statusLine(rec.Code)
			}
			var l struct {
				NextPageToken string    `json:"nextPageToken"`
				Items         []objJSON `json:"items"`
				Prefixes      []string  `json:"prefixes"`
			}
			if err := json.Unmarshal(rec.Body.Bytes(), &l); err != nil {
				return "malformed-json-body"
			}
			var items, pfx []string
			for k := range l.Items {
				items = append(items, e.showObj(&l.Items[k]))
			}
			for _, p := range l.Prefixes {
				pfx = append(pfx, hs(p))
			}
			pages = append(pages, " | items "+strings.Join(items, " ; ")+" prefixes "+strings.Join(pfx, ","))
			token = l.NextPageToken
			if token == "" {
				break
			}
		}
		t := ""
		if truncated {
			t = " TRUNCATED"
		}
		return fmt.Sprintf("pages %d%s%s", len(pages), t, strings.Join(pages, ""))
	case "listbad":
		q := url.Values{}
		switch o.BadList {
		case "max0":
			q.Set("maxResults", "0")
		case "maxneg":
			q.Set("maxResults", "-3")
		case "maxtext":
			q.Set("maxResults", "ten")
		default:
			q.Set("pageToken", "%%%not-base64")
		}
		rec := e.do("GET", "/storage/v1/b/"+o.B+"/o", q.Encode(), nil, nil)
		return statusLine(rec.Code)
	case "reopen":
		e.Reopen()
		return "status 200"
	case "plant":
		// a content file written into the store's directory by hand, without a sidecar
		if e.store != "file" {
			return "plant: file store only"
		}
		f := filepath.Join(e.dir, o.B, filepath.FromSlash(o.N))
		if err := os.MkdirAll(filepath.Dir(f), 0777); err != nil {
			return "plant: " + err.Error()
		}
		os.Remove(f + ".emumeta")
		if err := os.WriteFile(f, o.Content, 0666); err != nil {
			return "plant: " + err.Error()
		}
		now := time.Now()
		os.Chtimes(f, now, now)
		return "planted"
	}
	panic("gcs exec kind " + o.Kind)
}

// Accept: equality, except that a failed precondition may answer with any code of the set the
// Model prints (`cond 412|304`).
func Accept(cop core.Op, impl, model string) bool {
	if o, ok := cop.(*Op); ok && o.DirName && model == "status 404" && impl == "status 500" {
		// the file store cannot tell "no such object" from "that path is a directory"; either way
		// nothing may have changed (the reads that follow are compared as usual)
		return true
	}
	if strings.HasPrefix(model, "cond ") {
		if !strings.HasPrefix(impl, "status ") {
			return false
		}
		code := strings.TrimPrefix(impl, "status ")
		for _, c := range strings.Split(strings.TrimPrefix(model, "cond "), "|") {
			if c == code {
				return true
			}
		}
		return false
	}
	return impl == model
}
