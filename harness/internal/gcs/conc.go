package gcs

import (
	"time"

	"github.com/fullstorydev/emulators/storage/gcsemu"

	"verif/harness/internal/conc"
	"verif/harness/internal/core"
)

// ConcProgram is a sequential prefix followed by requests issued concurrently (tie T3, C07).
type ConcProgram struct {
	// Tear: park writers between the file store's content write and sidecar write as well.
	Tear  bool   `json:"tear,omitempty"`
	Store string `json:"store"`
	Setup []*Op  `json:"setup"`
	Ops   []*Op  `json:"ops"`
	Sched []int  `json:"sched,omitempty"`
}

const concBucket = "bk"

// concBucket2 holds the source of cross-bucket copies
const concBucket2 = "b2"
const concSrc2 = "src"

var concNames = []string{"a", "b/c"}

type concSys struct {
	env *Env
	p   *ConcProgram
}

func (c *concSys) Exec(i int) string { return c.env.Exec(c.p.Ops[i]) }
func (c *concSys) LockKey(i int) string {
	o := c.p.Ops[i]
	switch o.Kind {
	case "upload", "patch", "delete", "compose":
		return o.B + "/" + o.N
	case "copy":
		return o.B2 + "/" + o.N2
	}
	return "" // reads take no lock
}
func (c *concSys) Yields(i int) bool { return true }
func (c *concSys) Close() {
	gcsemu.VerifYield = nil
	c.env.Close()
}

// ConcClassify maps the repository's yield points of the object handlers and the file store.
func ConcClassify(point string) string {
	switch point {
	case "gcs.before-lock":
		return "before"
	case "gcs.locked":
		return "inside"
	case "gcs.unlocked":
		return "after"
	case "gcs.validated":
		return "mid" // the precondition has been checked, the store not yet changed
	}
	// The file store's own yield points (between its separate file operations) are not parking
	// points of the general exploration: since the store serialises its operations a goroutine
	// parked there blocks the others. They are used by the tear scenario (TearClassify).
	return ""
}

// CrossRead: some compose of the program reads, as a source, an object other than its destination
// that another request of the program writes.  A compose holds the lock of its destination only: it
// reads its sources, validates, and writes the destination later, so a writer of a source (which
// takes that other object's lock) can come in between.  The two requests do not target the same
// object, which is all C07 speaks about, and the outcome need not be one of the one-lock machine
// (compose{a <- a + b} next to copy{a -> b} can leave a = old a + old b, b = old a: no serial
// order).  For such a program the compose is not parked between its reads and its write, so that
// at the granularity of the exploration it stays one step, as in the machine.
func (p *ConcProgram) CrossRead() bool {
	target := func(o *Op) (string, bool) {
		switch o.Kind {
		case "upload", "patch", "delete", "compose":
			return o.B + "/" + o.N, true
		case "copy":
			return o.B2 + "/" + o.N2, true
		}
		return "", false
	}
	for i, c := range p.Ops {
		if c.Kind != "compose" {
			continue
		}
		for _, src := range c.Srcs {
			if src.Name == c.N {
				continue
			}
			for j, w := range p.Ops {
				if t, ok := target(w); ok && j != i && t == c.B+"/"+src.Name {
					return true
				}
			}
		}
	}
	return false
}

// ConcClassifyOneStep is ConcClassify without the parking point between validation and mutation.
func ConcClassifyOneStep(point string) string {
	if point == "gcs.validated" {
		return ""
	}
	return ConcClassify(point)
}

// TearClassify additionally parks a writer between the content write and the sidecar write.
func TearClassify(point string) string {
	if point == "fs.add.content-written" || point == "fs.get.meta-read" || point == "fs.getmeta.stat-done" {
		// a writer between its two file writes, a reader between the sidecar and the content, any request
		// that has just looked at an object's metadata (what it does next must not depend on the object
		// still being that one)
		return "mid"
	}
	return ConcClassify(point)
}

func (p *ConcProgram) MkSys(setupOut *[]string, baseGens *[]int64) func(y func(point string)) conc.System {
	return func(y func(point string)) conc.System {
		env := NewEnv(p.Store, "")
		env.RawGens = true
		var out []string
		for _, op := range p.Setup {
			out = append(out, env.Exec(op))
		}
		if setupOut != nil {
			*setupOut = out
		}
		var names [][2]string
		for _, n := range concNames {
			names = append(names, [2]string{concBucket, n})
		}
		names = append(names, [2]string{concBucket2, concSrc2})
		env.Freeze(names)
		if baseGens != nil {
			*baseGens = env.Gens()
		}
		gcsemu.VerifYield = y
		return &concSys{env: env, p: p}
	}
}

func (p *ConcProgram) FinalReads() []*Op {
	var out []*Op
	for _, n := range concNames {
		out = append(out, &Op{Kind: "getmeta", B: concBucket, N: n}, &Op{Kind: "getmedia", B: concBucket, N: n})
	}
	out = append(out, &Op{Kind: "getmeta", B: concBucket2, N: concSrc2}, &Op{Kind: "listall", B: concBucket, Max: 1000})
	return out
}

func ExecFinal(sys conc.System, ops []*Op) []string {
	c := sys.(*concSys)
	gcsemu.VerifYield = nil
	c.env.frozen = nil
	done := make(chan []string, 1)
	go func() {
		var out []string
		for _, op := range ops {
			out = append(out, c.env.Exec(op))
		}
		done <- out
	}()
	select {
	case out := <-done:
		return out
	case <-time.After(5 * time.Second):
		return []string{"final read blocked"}
	}
}

// GenConc draws a concurrent GCS program: 2-3 requests, most of them on one object name.
func GenConc(r *core.Rng, store string) *ConcProgram {
	p := &ConcProgram{Store: store}
	p.Setup = append(p.Setup, &Op{Kind: "mkbucket", B: concBucket})
	content := func() []byte {
		return core.Pick(r, [][]byte{[]byte("x"), []byte("hello"), {}, {0, 1, 2}, []byte("yy")})
	}
	meta := func() Meta {
		m := Meta{CT: core.Pick(r, []string{"", "text/plain", "application/x-v"})}
		if r.Chance(1, 3) {
			m.UM = []KV{{K: "k", V: core.Pick(r, []string{"1", "2"})}}
		}
		return m
	}
	for _, n := range concNames {
		if r.Chance(2, 3) {
			p.Setup = append(p.Setup, &Op{Kind: "upload", B: concBucket, N: n, Content: content(), Meta: meta(), Declared: "none", Proto: "multipart"})
			if r.Chance(1, 3) {
				ct := "text/x-patched"
				p.Setup = append(p.Setup, &Op{Kind: "patch", B: concBucket, N: n, PatchCT: &ct})
			}
		}
	}
	name := func() string {
		if r.Chance(4, 5) {
			return concNames[0]
		}
		return concNames[1]
	}
	conds := func() Conds {
		switch r.Weighted([]int{30, 35, 20, 15}) {
		case 0:
			return Conds{}
		case 1:
			return Conds{"cur"}
		case 2:
			return Conds{"zero"}
		default:
			return Conds{"", "", "cur"}
		}
	}
	n := 2 + r.Weighted([]int{60, 40})
	if r.Chance(1, 2) {
		// contest: writers of different kinds on one name, all carrying the same condition —
		// exactly one may succeed
		nm := name()
		c := core.Pick(r, []Conds{{"cur"}, {"zero"}, {"cur"}, {"", "", "cur"}})
		for i := 0; i < n; i++ {
			switch r.Weighted([]int{30, 25, 12, 18, 15}) {
			case 4: // an unconditional writer in the middle of the contest: it must still be ordered with the others
				src := concNames[1]
				if nm == src {
					src = concNames[0]
				}
				if r.Chance(1, 2) {
					// from another bucket
					p.Setup = append(p.Setup, &Op{Kind: "upload", B: concBucket2, N: concSrc2, Content: []byte("from-b2"), Meta: Meta{CT: "text/b2"}, Declared: "none", Proto: "multipart"})
					p.Ops = append(p.Ops, &Op{Kind: "copy", B: concBucket2, N: concSrc2, B2: concBucket, N2: nm})
				} else {
					p.Ops = append(p.Ops, &Op{Kind: "copy", B: concBucket, N: src, B2: concBucket, N2: nm})
				}
			case 0:
				p.Ops = append(p.Ops, &Op{Kind: "upload", B: concBucket, N: nm, Content: append(content(), byte('A'+i)), Meta: meta(), Declared: "none", Proto: "multipart", Conds: c})
			case 1:
				p.Ops = append(p.Ops, &Op{Kind: "compose", B: concBucket, N: nm, Srcs: []Src{{Name: concNames[1]}}, HasMeta: true, Meta: meta(), Conds: c})
			case 2:
				p.Ops = append(p.Ops, &Op{Kind: "delete", B: concBucket, N: nm, Conds: c})
			default:
				ct := "text/c" + string(rune('0'+i))
				p.Ops = append(p.Ops, &Op{Kind: "patch", B: concBucket, N: nm, PatchCT: &ct, Conds: c, Computed: r.Chance(1, 3)})
			}
		}
		return p
	}
	for i := 0; i < n; i++ {
		switch r.Weighted([]int{30, 20, 12, 10, 8, 10, 10}) {
		case 0:
			p.Ops = append(p.Ops, &Op{Kind: "upload", B: concBucket, N: name(), Content: append(content(), byte('A'+i)), Meta: meta(), Declared: "none", Proto: "multipart", Conds: conds()})
		case 1:
			ct := "text/p" + string(rune('0'+i))
			o := &Op{Kind: "patch", B: concBucket, N: name(), PatchCT: &ct, Conds: conds(), Computed: r.Chance(1, 3)}
			if r.Chance(1, 2) {
				o.Meta.UM = []KV{{K: "p", V: string(rune('0' + i))}}
			}
			p.Ops = append(p.Ops, o)
		case 2:
			p.Ops = append(p.Ops, &Op{Kind: "delete", B: concBucket, N: name(), Conds: conds()})
		case 3:
			dst := name()
			srcs := []Src{{Name: core.Pick(r, concNames)}}
			if r.Chance(1, 2) {
				srcs = append(srcs, Src{Name: core.Pick(r, concNames), Cond: core.Pick(r, []string{"", "cur"})})
			}
			p.Ops = append(p.Ops, &Op{Kind: "compose", B: concBucket, N: dst, Srcs: srcs, HasMeta: true, Meta: meta(), Conds: conds()})
		case 4:
			src := core.Pick(r, concNames)
			dst := concNames[0]
			if src == dst {
				dst = concNames[1]
			}
			p.Ops = append(p.Ops, &Op{Kind: "copy", B: concBucket, N: src, B2: concBucket, N2: dst})
		case 5:
			p.Ops = append(p.Ops, &Op{Kind: "getmeta", B: concBucket, N: name()})
		default:
			p.Ops = append(p.Ops, &Op{Kind: "getmedia", B: concBucket, N: name()})
		}
	}
	return p
}

// GenTear draws a program for the torn-read scenario: one writer replacing an existing object of the
// file store (by upload, compose or copy) and one or two readers of it.
func GenTear(r *core.Rng) *ConcProgram {
	p := &ConcProgram{Store: "file", Tear: true}
	p.Setup = append(p.Setup, &Op{Kind: "mkbucket", B: concBucket})
	for _, n := range concNames {
		p.Setup = append(p.Setup, &Op{Kind: "upload", B: concBucket, N: n, Content: []byte("old-" + n), Meta: Meta{CT: "text/old", UM: []KV{{K: "v", V: "old"}}}, Declared: "none", Proto: "multipart"})
	}
	if r.Chance(1, 2) {
		ct := "text/patched"
		p.Setup = append(p.Setup, &Op{Kind: "patch", B: concBucket, N: concNames[0], PatchCT: &ct})
	}
	switch r.Intn(4) {
	case 3:
		// the object being replaced is the SOURCE of a copy or a compose: what lands in the destination
		// must be one version of the source, bytes and metadata together
		p.Ops = append(p.Ops, &Op{Kind: "upload", B: concBucket, N: concNames[1], Content: []byte("NEW-SOURCE"), Meta: Meta{CT: "text/new"}, Declared: "none", Proto: "multipart"})
		if r.Chance(1, 2) {
			p.Ops = append(p.Ops, &Op{Kind: "copy", B: concBucket, N: concNames[1], B2: concBucket, N2: concNames[0]})
		} else {
			// (half of the time conditioned on the source's generation: then the bytes must be that generation's)
			p.Ops = append(p.Ops, &Op{Kind: "compose", B: concBucket, N: concNames[0], Srcs: []Src{{Name: concNames[1], Cond: core.Pick(r, []string{"", "cur"})}}, HasMeta: true, Meta: Meta{CT: "text/composed"}})
		}
		if r.Chance(1, 2) {
			p.Ops = append(p.Ops, &Op{Kind: "getmedia", B: concBucket, N: concNames[1]})
		}
		return p
	case 0:
		p.Ops = append(p.Ops, &Op{Kind: "upload", B: concBucket, N: concNames[0], Content: []byte("NEW"), Meta: Meta{CT: "text/new"}, Declared: "none", Proto: "multipart"})
	case 1:
		p.Ops = append(p.Ops, &Op{Kind: "compose", B: concBucket, N: concNames[0], Srcs: []Src{{Name: concNames[1]}, {Name: concNames[1]}}, HasMeta: true, Meta: Meta{CT: "text/composed"}})
	default:
		p.Ops = append(p.Ops, &Op{Kind: "copy", B: concBucket, N: concNames[1], B2: concBucket, N2: concNames[0]})
	}
	nr := 1 + r.Intn(2)
	for i := 0; i < nr; i++ {
		p.Ops = append(p.Ops, &Op{Kind: core.Pick(r, []string{"getmedia", "getmeta"}), B: concBucket, N: concNames[0]})
	}
	return p
}
