// Package lockmap drives gcsutil.TransientLockMap through schedules of its internal steps and
// records, after every step, what a client and the verif inspection hooks can observe; the Lean
// machine Emu.Lock.step validates the same step list (tie T3 for C19).
package lockmap

import (
	"context"
	"encoding/json"
	"fmt"
	"strconv"
	"strings"
	"time"

	"github.com/fullstorydev/emulators/storage/gcsutil"

	"verif/harness/internal/core"
	"verif/harness/internal/sched"
)

// Step is one (thread, action) pair in the vocabulary of Emu.Lock.Action.
type Step struct {
	T   int    `json:"t"`
	Act string `json:"a"`
	K   int    `json:"k,omitempty"`
}

func (s Step) Line() string {
	switch s.Act {
	case "enter", "strayUnlock":
		return fmt.Sprintf("lock step %d %s %d", s.T, s.Act, s.K)
	}
	return fmt.Sprintf("lock step %d %s", s.T, s.Act)
}

// Program is one schedule on a fresh map.
type Program struct {
	N     int    `json:"n"`
	K     int    `json:"keys"`
	Eager bool   `json:"eager"`
	Steps []Step `json:"steps"`
	// ViaRun: goroutines with an odd number call TransientLockMap.Run (lock, callback, unlock in
	// one call) instead of Lock and Unlock; the callback parks where the machine has them "holding".
	ViaRun bool `json:"via_run,omitempty"`
}

func ParseSchedule(s string) []Step {
	var out []Step
	for _, tok := range strings.Split(s, ",") {
		if tok == "" {
			continue
		}
		f := strings.Split(tok, ":")
		t, _ := strconv.Atoi(f[0])
		st := Step{T: t, Act: f[1]}
		if len(f) > 2 {
			st.K, _ = strconv.Atoi(f[2])
		}
		out = append(out, st)
	}
	return out
}

func keyName(k int) string { return fmt.Sprintf("key-%d", k) }

type thread struct {
	pc        string // as in Emu.Driver.showPC
	key       int
	ctx       context.Context
	cancel    context.CancelFunc
	cancelled bool
	parked    bool // a goroutine of this thread is parked at a yield point
	blocked   bool // resumed into the select and not heard from since
}

type runner struct {
	m      *gcsutil.TransientLockMap
	s      *sched.Sched
	th     []*thread
	K      int
	tmo    time.Duration
	viaRun bool
}

// usesRun: thread t takes its locks through Run.
func (r *runner) usesRun(t int) bool { return r.viaRun && t%2 == 1 }

func newRunner(n, K int) *runner {
	r := &runner{m: gcsutil.NewTransientLockMap(), s: sched.New(), K: K, tmo: 3 * time.Second}
	for i := 0; i < n; i++ {
		t := &thread{pc: "idle"}
		t.ctx, t.cancel = context.WithCancel(context.Background())
		r.th = append(r.th, t)
	}
	gcsutil.VerifYield = r.s.Yield
	return r
}

func (r *runner) ent() string {
	parts := make([]string, r.K)
	for k := 0; k < r.K; k++ {
		present, rc, full := r.m.VerifEntry(keyName(k))
		if !present {
			parts[k] = fmt.Sprintf("%d=-", k)
		} else {
			f := 0
			if full {
				f = 1
			}
			parts[k] = fmt.Sprintf("%d=%d/%d", k, rc, f)
		}
	}
	return strings.Join(parts, ",")
}

func (r *runner) obs(t int) string { return "ok pc=" + r.th[t].pc + " ent=" + r.ent() }

// absorb updates thread t's program counter from an event of its goroutine.
func (r *runner) absorb(ev sched.Event) {
	t := r.th[ev.Thread]
	t.blocked = false
	k := t.key
	switch ev.Kind {
	case "yield":
		t.parked = true
		switch ev.Point {
		case "lock.entered", "lock.prechecked":
			// past the context pre-check the goroutine is still "waiting" for the machine
			t.pc = fmt.Sprintf("wait:%d", k)
		case "lock.giving-up":
			t.pc = fmt.Sprintf("givingUp:%d", k)
		case "unlock.found":
			t.pc = fmt.Sprintf("found:%d", k)
		case "unlock.released":
			t.pc = fmt.Sprintf("released:%d", k)
		case "run.callback":
			// inside Run's callback: the lock is held
			t.pc = fmt.Sprintf("holding:%d", k)
		default:
			t.pc = "at:" + ev.Point
		}
	case "done":
		t.parked = false
		switch ev.Val {
		case "lock:true":
			t.pc = fmt.Sprintf("holding:%d", k)
		case "lock:false", "run:error":
			t.pc = "failed"
		case "unlock":
			t.pc = "idle"
		default:
			t.pc = "done:" + ev.Val
		}
	case "panic":
		t.parked = false
		t.pc = "panicked"
	}
}

// await waits for the next event, which must come from thread t.
func (r *runner) await(t int) string {
	ev, ok := r.s.Wait(r.tmo)
	if !ok {
		return fmt.Sprintf("stalled (goroutine %d did not reach its next step within %v)", t, r.tmo)
	}
	r.absorb(ev)
	if ev.Thread != t {
		return "unexpected-event " + ev.String()
	}
	return ""
}

func (r *runner) startLock(t, k int) {
	th := r.th[t]
	th.key = k
	ctx := th.ctx
	if r.usesRun(t) {
		r.s.Start(t, func() string {
			err := r.m.Run(ctx, keyName(k), func(context.Context) error {
				r.s.Yield("run.callback", keyName(k))
				return nil
			})
			if err != nil {
				return "run:error"
			}
			return "unlock" // Run has locked, called back and unlocked
		})
		return
	}
	r.s.Start(t, func() string {
		if r.m.Lock(ctx, keyName(k)) {
			return "lock:true"
		}
		return "lock:false"
	})
}

func (r *runner) startUnlock(t, k int) {
	r.th[t].key = k
	r.s.Start(t, func() string {
		r.m.Unlock(keyName(k))
		return "unlock"
	})
}

// exec performs one step and returns what the implementation shows afterwards ("" = the step
// cannot be forced on the implementation, the schedule ends here).
func (r *runner) exec(st Step) string {
	if st.T < 0 || st.T >= len(r.th) {
		return "bad-step"
	}
	th := r.th[st.T]
	// the step list comes from the Model; if the implementation has already left the Model's path
	// its goroutine may not be where the step needs it
	switch st.Act {
	case "acquire", "giveUp", "backOut", "release", "leave":
		if !th.parked {
			return "cannot-step: goroutine is not parked at a yield point (pc=" + th.pc + ")"
		}
	case "enter", "find", "strayUnlock":
		if st.Act == "find" && r.usesRun(st.T) {
			if !th.parked {
				return "cannot-step: goroutine is not inside Run's callback (pc=" + th.pc + ")"
			}
		} else if th.parked || th.blocked {
			return "cannot-step: goroutine is still inside its previous call (pc=" + th.pc + ")"
		}
	}
	switch st.Act {
	case "enter":
		r.startLock(st.T, st.K)
		if e := r.await(st.T); e != "" {
			return e
		}
		if !th.cancelled {
			// let it pass the context pre-check: a cancellation from now on races with the slot in the select
			r.s.Resume(st.T)
			th.parked = false
			if e := r.await(st.T); e != "" {
				return e
			}
		}
	case "acquire", "giveUp":
		r.s.Resume(st.T)
		th.parked = false
		if e := r.await(st.T); e != "" {
			return e
		}
	case "backOut", "release", "leave":
		r.s.Resume(st.T)
		th.parked = false
		if e := r.await(st.T); e != "" {
			return e
		}
	case "find":
		if r.usesRun(st.T) {
			// leave the callback: Run goes on to unlock
			r.s.Resume(st.T)
			th.parked = false
		} else {
			r.startUnlock(st.T, th.key)
		}
		if e := r.await(st.T); e != "" {
			return e
		}
	case "strayUnlock":
		r.startUnlock(st.T, st.K)
		for {
			if e := r.await(st.T); e != "" {
				return e
			}
			if !th.parked {
				break
			}
			r.s.Resume(st.T)
			th.parked = false
		}
	case "cancel":
		th.cancel()
		th.cancelled = true
	case "again":
		th.ctx, th.cancel = context.WithCancel(context.Background())
		th.cancelled = false
		th.pc = "idle"
	default:
		return "bad-step"
	}
	return r.obs(st.T)
}

// drain ends every goroutine that is still parked or blocked so that nothing leaks between runs.
func (r *runner) drain() {
	for _, th := range r.th {
		th.cancel()
	}
	for i := 0; i < 64 && r.s.Live() > 0; i++ {
		for t, th := range r.th {
			if th.parked {
				th.parked = false
				r.s.Resume(t)
			}
		}
		ev, ok := r.s.Wait(200 * time.Millisecond)
		if ok {
			r.absorb(ev)
		}
	}
}

// Run executes the schedule lazily (mode A): a goroutine is resumed only when the schedule says
// so, hence never blocks inside the select. Returns the lines and what the implementation showed.
func Run(p Program) (lines []string, impl []string) {
	r := newRunner(p.N, p.K)
	r.viaRun = p.ViaRun
	defer func() { gcsutil.VerifYield = nil }()
	defer r.drain()
	lines = append(lines, fmt.Sprintf("lock init %d %d", p.N, p.K))
	impl = append(impl, "ok")
	for _, st := range p.Steps {
		o := r.exec(st)
		if o == "" {
			break
		}
		diverged := false
		if (st.Act == "acquire" || st.Act == "giveUp") && strings.HasPrefix(o, "ok ") {
			// with the context ended AND the slot free the select may take either case: record the
			// step the implementation took (the machine allows both) and stop following the schedule
			took := "acquire"
			if strings.HasPrefix(r.th[st.T].pc, "givingUp") {
				took = "giveUp"
			}
			if took != st.Act {
				st.Act = took
				diverged = true
			}
		}
		lines = append(lines, st.Line())
		impl = append(impl, o)
		if !strings.HasPrefix(o, "ok ") || diverged {
			break
		}
	}
	return
}

// RunEager (mode B) performs a random walk in which every Lock call goes straight into its select,
// so waiters really block in the runtime and are woken by it. The walk is generated here from what
// the implementation shows; the Lean machine then has to accept the recorded step list.
func RunEager(n, K, rounds int, rng *core.Rng) (p Program, lines []string, impl []string) {
	r := newRunner(n, K)
	defer func() { gcsutil.VerifYield = nil }()
	defer r.drain()
	p = Program{N: n, K: K, Eager: true, ViaRun: rng.Chance(1, 2)}
	r.viaRun = p.ViaRun
	lines = append(lines, fmt.Sprintf("lock init %d %d", n, K))
	impl = append(impl, "ok")
	used := make([]int, n)
	log := func(st Step, o string) bool {
		p.Steps = append(p.Steps, st)
		lines = append(lines, st.Line())
		impl = append(impl, o)
		return strings.HasPrefix(o, "ok ")
	}
	// settle: thread t is parked at lock.entered; push it into the select.
	settle := func(t int) bool {
		th := r.th[t]
		_, _, full := r.m.VerifEntry(keyName(th.key))
		r.s.Resume(t)
		th.parked = false
		if full && !th.cancelled {
			th.blocked = true
			if ev, ok := r.s.Poll(2 * time.Millisecond); ok {
				r.absorb(ev)
				return log(Step{T: ev.Thread, Act: "acquire"}, "moved-while-key-held "+ev.String())
			}
			return true
		}
		if e := r.await(t); e != "" {
			return log(Step{T: t, Act: "acquire"}, e)
		}
		act := "acquire"
		if strings.HasPrefix(th.pc, "givingUp") {
			act = "giveUp"
		}
		return log(Step{T: t, Act: act}, r.obs(t))
	}
	for steps := 0; steps < 400; steps++ {
		type choice struct {
			t   int
			act string
			k   int
		}
		var cs []choice
		for t, th := range r.th {
			switch {
			case th.pc == "idle" && used[t] < rounds:
				for k := 0; k < K; k++ {
					cs = append(cs, choice{t, "enter", k})
				}
				if !th.cancelled {
					cs = append(cs, choice{t, "cancel", 0})
				}
			case th.blocked && !th.cancelled:
				cs = append(cs, choice{t, "cancel", 0})
			case strings.HasPrefix(th.pc, "holding"):
				cs = append(cs, choice{t, "find", 0})
			case strings.HasPrefix(th.pc, "givingUp"):
				cs = append(cs, choice{t, "backOut", 0})
			case strings.HasPrefix(th.pc, "found"):
				cs = append(cs, choice{t, "release", 0})
			case strings.HasPrefix(th.pc, "released"):
				cs = append(cs, choice{t, "leave", 0})
			case th.pc == "failed" && used[t] < rounds:
				cs = append(cs, choice{t, "again", 0})
			}
		}
		if len(cs) == 0 {
			break
		}
		c := cs[rng.Intn(len(cs))]
		th := r.th[c.t]
		switch c.act {
		case "enter":
			used[c.t]++
			if !log(Step{T: c.t, Act: "enter", K: c.k}, r.exec(Step{T: c.t, Act: "enter", K: c.k})) {
				return
			}
			if !settle(c.t) {
				return
			}
		case "cancel":
			wasBlocked := th.blocked
			if !log(Step{T: c.t, Act: "cancel"}, r.exec(Step{T: c.t, Act: "cancel"})) {
				return
			}
			if wasBlocked {
				if e := r.await(c.t); e != "" {
					log(Step{T: c.t, Act: "giveUp"}, e)
					return
				}
				if !log(Step{T: c.t, Act: "giveUp"}, r.obs(c.t)) {
					return
				}
			}
		case "release":
			k := th.key
			var waiters []int
			for u, o := range r.th {
				if o.blocked && o.key == k {
					waiters = append(waiters, u)
				}
			}
			r.s.Resume(c.t)
			th.parked = false
			// the releasing goroutine and at most one woken waiter report, in either order
			want := 1
			if len(waiters) > 0 {
				want = 2
			}
			var evs []sched.Event
			for i := 0; i < want; i++ {
				ev, ok := r.s.Wait(r.tmo)
				if !ok {
					what := "stalled"
					if len(evs) == 1 && evs[0].Thread == c.t {
						what = fmt.Sprintf("lost-wake-up (key %d was released with goroutines %v blocked on it and none acquired within %v)", k, waiters, r.tmo)
					}
					log(Step{T: c.t, Act: "release"}, what)
					return
				}
				evs = append(evs, ev)
			}
			// log the release first with the state as the Model sees it after both moved: the Model
			// is asked step by step, so report the holder's step with the entry it must show
			// (slot emptied), then the waiter's acquire with the entry as observed.
			var woke *sched.Event
			for i := range evs {
				if evs[i].Thread == c.t {
					r.absorb(evs[i])
				} else {
					woke = &evs[i]
				}
			}
			if woke == nil {
				if !log(Step{T: c.t, Act: "release"}, r.obs(c.t)) {
					return
				}
			} else {
				// between the two steps the slot was empty; the implementation cannot be observed
				// there, so that line is marked and compared on the program counter only
				if !log(Step{T: c.t, Act: "release"}, "ok pc="+th.pc+" ent=*") {
					return
				}
				r.absorb(*woke)
				if !log(Step{T: woke.Thread, Act: "acquire"}, r.obs(woke.Thread)) {
					return
				}
			}
		default:
			if !log(Step{T: c.t, Act: c.act}, r.exec(Step{T: c.t, Act: c.act, K: c.k})) {
				return
			}
		}
	}
	// quiescence: every goroutine idle/failed and nothing held ⇒ the map must be empty
	quiet := true
	for _, th := range r.th {
		if th.pc != "idle" && th.pc != "failed" && th.pc != "panicked" {
			quiet = false
		}
	}
	if quiet {
		if n := r.m.VerifLen(); n != 0 {
			log(Step{T: 0, Act: "again"}, fmt.Sprintf("leak: %d entries in a quiescent map", n))
		}
	}
	return
}

func (p Program) JSON() json.RawMessage {
	b, _ := json.Marshal(p)
	return b
}
