// Package core holds what every differential harness shares: the PRNG, the pipe to the Lean
// driver, program comparison, shrinking and the JSON report.
package core

// Rng is splitmix64: every random choice of a run derives from one seed.
type Rng struct{ s uint64 }

// NewRng scrambles the seed first: with a linear seeding the stream of seed n+1 would be the stream
// of seed n shifted by one draw, so neighbouring seeds would explore nearly the same programs.
func NewRng(seed uint64) *Rng {
	z := seed + 0x1234567
	z = (z ^ (z >> 30)) * 0xBF58476D1CE4E5B9
	z = (z ^ (z >> 27)) * 0x94D049BB133111EB
	return &Rng{s: z ^ (z >> 31)}
}

func (r *Rng) Next() uint64 {
	r.s += 0x9E3779B97F4A7C15
	z := r.s
	z = (z ^ (z >> 30)) * 0xBF58476D1CE4E5B9
	z = (z ^ (z >> 27)) * 0x94D049BB133111EB
	return z ^ (z >> 31)
}

// Intn returns a value in [0,n).
func (r *Rng) Intn(n int) int {
	if n <= 0 {
		return 0
	}
	return int(r.Next() % uint64(n))
}

// Chance is true with probability num/den.
func (r *Rng) Chance(num, den int) bool { return r.Intn(den) < num }

// Fork derives an independent stream (so adding a choice in one place does not shift others).
func (r *Rng) Fork() *Rng { return NewRng(r.Next()) }

func Pick[T any](r *Rng, xs []T) T { return xs[r.Intn(len(xs))] }

// Weighted picks an index with probability proportional to w[i].
func (r *Rng) Weighted(w []int) int {
	t := 0
	for _, x := range w {
		t += x
	}
	if t == 0 {
		return 0
	}
	k := r.Intn(t)
	for i, x := range w {
		if k < x {
			return i
		}
		k -= x
	}
	return len(w) - 1
}
