package core

import (
	"bytes"
	"fmt"
	"os"
	"os/exec"
	"strings"
)

// DriverPath is the compiled Lean driver (emu-driver).
var DriverPath = "/verif/lean/.lake/build/bin/emu-driver"

func init() {
	if p := os.Getenv("VERIF_DRIVER"); p != "" {
		DriverPath = p
	}
}

// RunModel feeds the lines to the Lean driver and returns one response per line.
func RunModel(lines []string) ([]string, error) {
	// (an address-space limit: should the Model ever explode on an input, the driver fails on its own
	// instead of taking the machine's memory)
	cmd := exec.Command("/bin/sh", "-c", `ulimit -v 16777216; exec "$0"`, DriverPath)
	cmd.Stdin = strings.NewReader(strings.Join(lines, "\n") + "\n")
	var out, errb bytes.Buffer
	cmd.Stdout = &out
	cmd.Stderr = &errb
	if err := cmd.Run(); err != nil {
		return nil, fmt.Errorf("driver failed: %v: %s", err, errb.String())
	}
	res := strings.Split(strings.TrimSuffix(out.String(), "\n"), "\n")
	if len(lines) == 0 {
		return nil, nil
	}
	if len(res) != len(lines) {
		return nil, fmt.Errorf("driver returned %d lines for %d ops: %s", len(res), len(lines), errb.String())
	}
	return res, nil
}

// Hex renders bytes in the wire form `x<hex>`.
func Hex(b []byte) string {
	const d = "0123456789abcdef"
	out := make([]byte, 1, 1+2*len(b))
	out[0] = 'x'
	for _, c := range b {
		out = append(out, d[c>>4], d[c&15])
	}
	return string(out)
}

func HexS(s string) string { return Hex([]byte(s)) }
