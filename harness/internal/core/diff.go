package core

import (
	"encoding/json"
	"fmt"
	"hash/fnv"
	"os"
	"sort"
	"strings"
	"time"
)

// Op is one line of the protocol.
type Op interface {
	Line() string
}

// Impl is a fresh instance of the real implementation under one configuration.
type Impl interface {
	Exec(op Op) string
	Close()
}

// Config names a way to instantiate the implementation (storage engine, store kind).
type Config struct {
	Name string
	New  func() Impl
}

// Accept decides whether the implementation's response is allowed given the Model's.
// The default is string equality; ops whose property is a relation install their own.
type Accept func(op Op, impl, model string) bool

type Mismatch struct {
	Config     string   `json:"config"`
	Ops        []string `json:"ops"`
	Impl       []string `json:"impl"`
	Model      []string `json:"model"`
	Index      int      `json:"first_disagreeing_line"`
	ShrunkFrom int      `json:"shrunk_from"`
	Note       string   `json:"note,omitempty"`
	// OpsJSON is the machine-readable form of Ops (the replay input).
	OpsJSON json.RawMessage `json:"ops_json,omitempty"`
	Kind    string          `json:"kind,omitempty"` // bt | gcs | ...
	// SpecVerdict: "rejects" (the property itself fails on this input), "accepts" (the tie broke but the
	// property holds on this input), "" (not evaluated separately: the compared observables are the property).
	SpecVerdict string `json:"spec_verdict,omitempty"`
}

type Report struct {
	Scenario    string         `json:"scenario"`
	Seed        uint64         `json:"seed"`
	Configs     []string       `json:"configs"`
	Programs    int            `json:"programs"`
	Evaluations int            `json:"evaluations"`
	Distinct    int            `json:"distinct_nontrivial"`
	Rule        string         `json:"rule"`
	OpKinds     map[string]int `json:"op_kinds"`
	RespKinds   map[string]int `json:"resp_kinds"`
	Extra       map[string]int `json:"extra,omitempty"`
	Samples     []string       `json:"samples"`
	Mismatches  []Mismatch     `json:"mismatches"`
	Exhaustive  bool           `json:"exhaustive"`
	WallS       float64        `json:"wall_s"`
	ModelErrors []string       `json:"model_errors,omitempty"`
	Hypothesis  []string       `json:"hypothesis_failures,omitempty"`
}

// FirstTok is the first n tokens of a line.
func FirstTok(s string, n int) string { return firstTok(s, n) }

func firstTok(s string, n int) string {
	f := strings.Fields(s)
	if len(f) > n {
		f = f[:n]
	}
	return strings.Join(f, " ")
}

// OpTimeout: an operation that has not answered by then is a hang.
var OpTimeout = 15 * time.Second

// BreadcrumbPath, when set, receives the program about to be executed (config + ops), so that a
// fatal runtime error of the implementation — which kills this process — leaves its input behind.
var BreadcrumbPath string

func breadcrumb(c Config, prog []Op) {
	if BreadcrumbPath == "" {
		return
	}
	var lines []string
	for _, op := range prog {
		lines = append(lines, op.Line())
	}
	j, _ := json.Marshal(prog)
	b, _ := json.Marshal(map[string]any{"config": c.Name, "ops": lines, "ops_json": json.RawMessage(j)})
	os.WriteFile(BreadcrumbPath, b, 0644)
}

func runImpl(c Config, prog []Op) []string {
	breadcrumb(c, prog)
	impl := c.New()
	out := make([]string, len(prog))
	wedged := false
	for i, op := range prog {
		if wedged {
			out[i] = "HANG (the service stopped answering earlier in this program)"
			continue
		}
		done := make(chan string, 1)
		go func() { done <- impl.Exec(op) }()
		select {
		case r := <-done:
			out[i] = r
		case <-time.After(OpTimeout):
			out[i] = fmt.Sprintf("HANG (no answer within %s)", OpTimeout)
			wedged = true
		}
	}
	if !wedged {
		closed := make(chan struct{})
		go func() { impl.Close(); close(closed) }()
		select {
		case <-closed:
		case <-time.After(OpTimeout):
		}
	}
	return out
}

func progLines(prog []Op) []string {
	lines := make([]string, 0, len(prog)+1)
	lines = append(lines, "reset")
	for _, op := range prog {
		lines = append(lines, op.Line())
	}
	return lines
}

// respKind: the branch of the Model a response stands for — its first word, with the second for the
// kinds whose second word is a status (err notfound, status 404, cond 412, ok ran).
func respKind(m string) string {
	f := strings.Fields(m)
	if len(f) == 0 {
		return "(empty)"
	}
	switch f[0] {
	case "ok", "err", "status", "cond", "matched":
		if len(f) > 1 {
			return f[0] + " " + f[1]
		}
	}
	return f[0]
}

func firstDiff(prog []Op, impl, model []string, acc Accept) int {
	for i := range prog {
		if !acc(prog[i], impl[i], model[i]) {
			return i
		}
	}
	return -1
}

func DefaultAccept(_ Op, impl, model string) bool { return impl == model }

// fails reports whether the program still shows a disagreement under config c.
func fails(c Config, prog []Op, acc Accept) (int, []string, []string) {
	if len(prog) == 0 {
		return -1, nil, nil
	}
	impl := runImpl(c, prog)
	m, err := RunModel(progLines(prog))
	if err != nil {
		return -1, nil, nil
	}
	model := m[1:]
	return firstDiff(prog, impl, model, acc), impl, model
}

// Shrink is delta debugging over the op list (order preserved).
func Shrink(c Config, prog []Op, acc Accept, budget int) []Op {
	cur := prog
	n := 2
	for len(cur) >= 2 && budget > 0 {
		chunk := (len(cur) + n - 1) / n
		reduced := false
		for start := 0; start < len(cur) && budget > 0; start += chunk {
			end := start + chunk
			if end > len(cur) {
				end = len(cur)
			}
			cand := append(append([]Op{}, cur[:start]...), cur[end:]...)
			budget--
			if idx, _, _ := fails(c, cand, acc); idx >= 0 {
				cur = cand
				if n > 2 {
					n--
				}
				reduced = true
				break
			}
		}
		if !reduced {
			if n >= len(cur) {
				break
			}
			n *= 2
			if n > len(cur) {
				n = len(cur)
			}
		}
	}
	return cur
}

// RunPrograms executes every program under every configuration and on the Model, compares line by
// line, shrinks the first few disagreements, and fills a report.
func RunPrograms(scenario string, seed uint64, progs [][]Op, configs []Config, acc Accept) *Report {
	t0 := time.Now()
	if acc == nil {
		acc = DefaultAccept
	}
	rep := &Report{Scenario: scenario, Seed: seed, Programs: len(progs),
		OpKinds: map[string]int{}, RespKinds: map[string]int{}, Extra: map[string]int{}}
	for _, c := range configs {
		rep.Configs = append(rep.Configs, c.Name)
	}
	rep.Rule = "one evaluation = one request executed on the implementation under one configuration and on the Lean Model; " +
		"distinct_nontrivial = distinct request lines (by hash) whose Model response is neither NotFound nor bad-op, clock/rand set-up lines excluded"

	// Model: one driver run for all programs.
	var all []string
	for _, p := range progs {
		all = append(all, progLines(p)...)
	}
	modelAll, err := RunModel(all)
	if err != nil {
		rep.ModelErrors = append(rep.ModelErrors, err.Error())
		rep.WallS = time.Since(t0).Seconds()
		return rep
	}
	models := make([][]string, len(progs))
	pos := 0
	for i, p := range progs {
		models[i] = modelAll[pos+1 : pos+1+len(p)]
		pos += len(p) + 1
	}

	distinct := map[uint64]bool{}
	for i, p := range progs {
		for j, op := range p {
			line := op.Line()
			m := models[i][j]
			rep.OpKinds[firstTok(line, 2)]++
			rep.RespKinds[respKind(m)]++
			if m == "bad-op" {
				rep.ModelErrors = append(rep.ModelErrors, "model rejected line: "+line)
				continue
			}
			k := firstTok(line, 2)
			if strings.HasSuffix(k, " clock") || strings.HasSuffix(k, " rand") || m == "err notfound" {
				continue
			}
			h := fnv.New64a()
			h.Write([]byte(line))
			distinct[h.Sum64()] = true
		}
	}
	rep.Distinct = len(distinct)
	if len(rep.ModelErrors) > 5 {
		rep.ModelErrors = rep.ModelErrors[:5]
	}

	maxReported := 5
	if v := os.Getenv("VERIF_MAXREPORT"); v != "" {
		fmt.Sscan(v, &maxReported)
	}
	hangs := 0
run:
	for _, c := range configs {
		for i, p := range progs {
			if hangs >= 3 {
				// every further hang costs OpTimeout: three are enough to report
				rep.Extra["stopped_early_after_hangs"] = 1
				break run
			}
			impl := runImpl(c, p)
			rep.Evaluations += len(p)
			for _, r := range impl {
				if strings.HasPrefix(r, "HANG (no answer") {
					hangs++
				}
			}
			idx := firstDiff(p, impl, models[i], acc)
			if idx < 0 {
				continue
			}
			rep.Extra["disagreeing_programs"]++
			if len(rep.Mismatches) >= maxReported {
				continue
			}
			small := p[:idx+1]
			hung := false
			for _, r := range impl[:idx+1] {
				hung = hung || strings.HasPrefix(r, "HANG")
			}
			if hung {
				rep.Extra["hangs"]++
			} else {
				small = Shrink(c, p[:idx+1], acc, 400)
			}
			sidx, simpl, smodel := idx, impl[:idx+1], models[i][:idx+1]
			if !hung {
				sidx, simpl, smodel = fails(c, small, acc)
			}
			if sidx < 0 { // flaky under re-execution: report unshrunk
				small, sidx, simpl, smodel = p[:idx+1], idx, impl[:idx+1], models[i][:idx+1]
			}
			mm := Mismatch{Config: c.Name, Index: sidx, ShrunkFrom: len(p), Impl: simpl, Model: smodel}
			for _, op := range small {
				mm.Ops = append(mm.Ops, op.Line())
			}
			mm.OpsJSON, _ = json.Marshal(small)
			mm.Kind = strings.SplitN(scenario, "/", 2)[0]
			rep.Mismatches = append(rep.Mismatches, mm)
		}
	}
	// samples: a short, a median and the longest program's first lines
	if len(progs) > 0 {
		idxs := []int{0, len(progs) / 2, len(progs) - 1}
		for _, i := range idxs {
			p := progs[i]
			n := len(p)
			if n > 6 {
				n = 6
			}
			var ls []string
			for j := 0; j < n; j++ {
				ls = append(ls, p[j].Line()+"  =>  "+models[i][j])
			}
			rep.Samples = append(rep.Samples, strings.Join(ls, " ;; "))
		}
	}
	rep.WallS = time.Since(t0).Seconds()
	return rep
}

func (r *Report) Write(path string) error {
	keys := make([]string, 0, len(r.OpKinds))
	for k := range r.OpKinds {
		keys = append(keys, k)
	}
	sort.Strings(keys)
	b, err := json.MarshalIndent(r, "", " ")
	if err != nil {
		return err
	}
	if path == "" || path == "-" {
		fmt.Println(string(b))
		return nil
	}
	return os.WriteFile(path, b, 0644)
}
