// Package sched is the controlled scheduler of tie T3: client operations run in goroutines that
// can be parked only at the repository's verifYield hooks (build tag verif) or when they finish,
// so an interleaving is a list of "resume thread t" decisions and replays exactly.
package sched

import (
	"bytes"
	"fmt"
	"runtime"
	"strconv"
	"sync"
	"time"
)

// Event is what a controlled goroutine reports when it parks or ends.
type Event struct {
	Thread int
	Kind   string // "yield" | "done" | "panic"
	Point  string // yield point name
	Key    string // yield argument
	Val    string // result of the operation, or the panic text
}

func (e Event) String() string {
	return fmt.Sprintf("t%d %s %s %s %s", e.Thread, e.Kind, e.Point, e.Key, e.Val)
}

type Sched struct {
	mu     sync.Mutex
	gids   map[uint64]int
	resume map[int]chan struct{}
	events chan Event
	live   int
}

func New() *Sched {
	return &Sched{gids: map[uint64]int{}, resume: map[int]chan struct{}{}, events: make(chan Event, 64)}
}

func gid() uint64 {
	var buf [64]byte
	b := buf[:runtime.Stack(buf[:], false)]
	b = bytes.TrimPrefix(b, []byte("goroutine "))
	i := bytes.IndexByte(b, ' ')
	n, _ := strconv.ParseUint(string(b[:i]), 10, 64)
	return n
}

// Yield is installed as the repository's yield hook. Goroutines that are not controlled
// (the servers' own) pass through.
func (s *Sched) Yield(point, key string) {
	g := gid()
	s.mu.Lock()
	t, ok := s.gids[g]
	var ch chan struct{}
	if ok {
		ch = s.resume[t]
	}
	s.mu.Unlock()
	if !ok {
		return
	}
	s.events <- Event{Thread: t, Kind: "yield", Point: point, Key: key}
	<-ch
}

// Start runs op as thread t in a new controlled goroutine; it runs until its first yield or its
// end, either of which arrives as an event.
func (s *Sched) Start(t int, op func() string) {
	ch := make(chan struct{})
	s.mu.Lock()
	s.resume[t] = ch
	s.live++
	s.mu.Unlock()
	ready := make(chan struct{})
	go func() {
		g := gid()
		s.mu.Lock()
		s.gids[g] = t
		s.mu.Unlock()
		close(ready)
		ev := Event{Thread: t, Kind: "done"}
		defer func() {
			if r := recover(); r != nil {
				ev = Event{Thread: t, Kind: "panic", Val: fmt.Sprint(r)}
			}
			s.mu.Lock()
			delete(s.gids, g)
			s.live--
			s.mu.Unlock()
			s.events <- ev
		}()
		ev.Val = op()
	}()
	<-ready
}

// Resume lets thread t continue from the yield point it is parked at.
func (s *Sched) Resume(t int) {
	s.mu.Lock()
	ch := s.resume[t]
	s.mu.Unlock()
	select {
	case ch <- struct{}{}:
	case <-time.After(5 * time.Second):
		// nobody is parked there (the caller's bookkeeping is off); the missing event shows up as a stall
	}
}

// Wait returns the next event of any controlled goroutine.
func (s *Sched) Wait(d time.Duration) (Event, bool) {
	select {
	case e := <-s.events:
		return e, true
	case <-time.After(d):
		return Event{}, false
	}
}

// Poll returns an event only if one is already there or arrives within d (used to see that a
// goroutine predicted to block really does not move).
func (s *Sched) Poll(d time.Duration) (Event, bool) { return s.Wait(d) }

// Live is the number of controlled goroutines that have not ended.
func (s *Sched) Live() int {
	s.mu.Lock()
	defer s.mu.Unlock()
	return s.live
}
