//go:build verif

package bt

import (
	"fmt"
	"sort"
	"strings"
	"sync"

	btpb "cloud.google.com/go/bigtable/apiv2/bigtablepb"
	"google.golang.org/protobuf/types/known/wrapperspb"

	"verif/harness/internal/core"
)

// The two pure judges of C03 — the client-side chunk decoder and the SampleRowKeys relation — exist
// twice: in Lean (Emu.Bt.decode / Emu.Bt.sampleExplained, the ones the theorems are about) and here
// in Go (DecodeChunks / sampleExplained, the ones that look at the implementation's answers while
// the programs run).  Every stream and every answer the Go judges have seen is logged with their
// verdict and re-judged by the Lean ones after the run; so are random, mostly malformed streams.

type judgeLog struct {
	mu    sync.Mutex
	lines map[string]string // judge line -> verdict of the Go judge
	order []string
	kinds map[string]int
}

var Judges = &judgeLog{lines: map[string]string{}, kinds: map[string]int{}}

const judgeCap = 6000

func (j *judgeLog) add(kind, line, verdict string) {
	j.mu.Lock()
	defer j.mu.Unlock()
	j.kinds[kind+"_seen"]++
	if _, ok := j.lines[line]; ok || len(j.order) >= judgeCap {
		return
	}
	j.lines[line] = verdict
	j.order = append(j.order, line)
	j.kinds[kind+"_judged"]++
}

func wrapS(s string) *wrapperspb.StringValue { return &wrapperspb.StringValue{Value: s} }
func wrapB(b []byte) *wrapperspb.BytesValue  { return &wrapperspb.BytesValue{Value: b} }

func optHex(b []byte, present bool) string {
	if !present {
		return "-"
	}
	return hx(b)
}

// chunkLine renders raw response messages for `judge decode`.
func chunkLine(msgs []*btpb.ReadRowsResponse) string {
	var sb strings.Builder
	fmt.Fprintf(&sb, "judge decode %d", len(msgs))
	for _, m := range msgs {
		fmt.Fprintf(&sb, " %d", len(m.Chunks))
		for _, c := range m.Chunks {
			fl := "-"
			if c.GetCommitRow() {
				fl = "c"
			}
			if c.GetResetRow() {
				fl = "r"
			}
			fam, qual := "-", "-"
			if c.FamilyName != nil {
				fam = hs(c.FamilyName.Value)
			}
			if c.Qualifier != nil {
				qual = hx(c.Qualifier.Value)
			}
			fmt.Fprintf(&sb, " %s %s %s %d %s %d", optHex(c.RowKey, len(c.RowKey) > 0), fam, qual, c.TimestampMicros, hx(c.Value), len(c.Labels))
			for _, l := range c.Labels {
				sb.WriteString(" " + hs(l))
			}
			sb.WriteString(" " + fl)
		}
	}
	return sb.String()
}

// decodedLine renders decoded rows in stream order, as the Lean judge prints them.
func decodedLine(rows []DRow, bad string) string {
	if bad != "" {
		return "malformed"
	}
	var sb strings.Builder
	fmt.Fprintf(&sb, "decoded %d", len(rows))
	for _, r := range rows {
		sb.WriteString(" | " + hx(r.Key))
		for _, c := range r.Cells {
			fmt.Fprintf(&sb, " %s/%s@%d=%s#%s", hs(c.Fam), hx(c.Qual), c.TS, hx(c.Val), labelsStr(c.Labels))
		}
	}
	return sb.String()
}

func (j *judgeLog) Stream(msgs []*btpb.ReadRowsResponse, rows []DRow, bad string) {
	j.add("decode", chunkLine(msgs), decodedLine(rows, bad))
}

type keySize struct {
	Key  string
	Size int64
}

// sampleExplained is Emu.Bt.sampleExplained: the draws are read off the answer (a row was drawn iff
// its key is in it) and the loop of SampleRowKeys is replayed with them.
func sampleExplained(rows []keySize, out []keySize) bool {
	in := map[string]bool{}
	for _, o := range out {
		in[o.Key] = true
	}
	var want []keySize
	var last *keySize
	var off int64
	for _, r := range rows {
		if in[r.Key] {
			want = append(want, keySize{r.Key, off})
			last = nil
		} else {
			last = &keySize{r.Key, off}
		}
		off += r.Size
	}
	if last != nil {
		want = append(want, *last)
	}
	if len(want) != len(out) {
		return false
	}
	for i := range want {
		if want[i] != out[i] {
			return false
		}
	}
	return true
}

func parseKS(fields []string) []keySize {
	var out []keySize
	for _, f := range fields {
		kv := strings.SplitN(f, ":", 2)
		var n int64
		if len(kv) == 2 {
			fmt.Sscan(kv[1], &n)
		}
		out = append(out, keySize{kv[0], n})
	}
	return out
}

func (j *judgeLog) Sample(rows, out []keySize, verdict bool) {
	var sb strings.Builder
	fmt.Fprintf(&sb, "judge sample %d", len(rows))
	for _, r := range rows {
		fmt.Fprintf(&sb, " %s %d", r.Key, r.Size)
	}
	fmt.Fprintf(&sb, " %d", len(out))
	for _, r := range out {
		fmt.Fprintf(&sb, " %s %d", r.Key, r.Size)
	}
	v := "unexplained"
	if verdict {
		v = "explained"
	}
	j.add("sample", sb.String(), v)
}

// randomStream draws a chunk stream: a well-formed one with a few defects planted in it.
func randomStream(r *core.Rng) []*btpb.ReadRowsResponse {
	var chunks []*btpb.ReadRowsResponse_CellChunk
	nrows := 1 + r.Intn(3)
	for i := 0; i < nrows; i++ {
		key := []byte{byte('a' + i)}
		first := true
		nf := 1 + r.Intn(2)
		for f := 0; f < nf; f++ {
			nc := 1 + r.Intn(2)
			for c := 0; c < nc; c++ {
				ncell := 1 + r.Intn(2)
				for k := 0; k < ncell; k++ {
					ch := &btpb.ReadRowsResponse_CellChunk{TimestampMicros: int64(1000 * (3 - k)), Value: []byte{byte('0' + k)}}
					if first {
						ch.RowKey = key
						first = false
					}
					if c == 0 && k == 0 {
						ch.FamilyName = wrapS(fmt.Sprintf("f%d", f))
					}
					if k == 0 {
						ch.Qualifier = wrapB([]byte{byte('q' + c)})
					}
					if r.Chance(1, 6) {
						ch.Labels = []string{"l"}
					}
					chunks = append(chunks, ch)
				}
			}
		}
		chunks[len(chunks)-1].RowStatus = &btpb.ReadRowsResponse_CellChunk_CommitRow{CommitRow: true}
	}
	// defects
	for d := r.Intn(3); d > 0 && len(chunks) > 0; d-- {
		i := r.Intn(len(chunks))
		c := chunks[i]
		switch r.Intn(9) {
		case 0:
			c.RowKey = nil
		case 1:
			c.RowKey = []byte("zz")
		case 2:
			c.FamilyName = nil
		case 3:
			c.FamilyName = wrapS("")
		case 4:
			c.Qualifier = nil
		case 5:
			c.Qualifier = wrapB(nil)
		case 6:
			c.RowStatus = nil
		case 7:
			c.RowStatus = &btpb.ReadRowsResponse_CellChunk_CommitRow{CommitRow: true}
		default:
			if r.Chance(1, 2) {
				c.RowStatus = &btpb.ReadRowsResponse_CellChunk_ResetRow{ResetRow: true}
			} else {
				chunks = append(chunks[:i], chunks[i+1:]...)
			}
		}
	}
	// split into messages, now and then an empty one
	var msgs []*btpb.ReadRowsResponse
	for len(chunks) > 0 {
		n := 1 + r.Intn(len(chunks))
		msgs = append(msgs, &btpb.ReadRowsResponse{Chunks: chunks[:n]})
		chunks = chunks[n:]
		if r.Chance(1, 25) {
			msgs = append(msgs, &btpb.ReadRowsResponse{})
		}
	}
	return msgs
}

// RunJudges re-judges everything the Go judges saw, and `random` random streams, with the Lean
// judges; a disagreement is a mismatch of the report.
func RunJudges(rep *core.Report, seed uint64, random int) {
	r := core.NewRng(seed ^ 0x6a75646765)
	for i := 0; i < random; i++ {
		msgs := randomStream(r)
		rows, bad := DecodeChunks(msgs)
		Judges.add("random", chunkLine(msgs), decodedLine(rows, bad))
	}
	j := Judges
	j.mu.Lock()
	defer j.mu.Unlock()
	if len(j.order) == 0 {
		return
	}
	res, err := core.RunModel(j.order)
	if err != nil {
		rep.ModelErrors = append(rep.ModelErrors, "judges: "+err.Error())
		return
	}
	verdicts := map[string]int{}
	for i, line := range j.order {
		want := j.lines[line]
		got := res[i]
		verdicts[core.FirstTok(line, 2)+" => "+core.FirstTok(got, 1)]++
		if got == "bad-op" {
			rep.ModelErrors = append(rep.ModelErrors, "model rejected line: "+line)
			continue
		}
		rep.Evaluations++
		if got != want && len(rep.Mismatches) < 8 {
			rep.Mismatches = append(rep.Mismatches, core.Mismatch{Config: "judge", Ops: []string{line}, Impl: []string{want}, Model: []string{got},
				Index: 0, ShrunkFrom: 1, Kind: "bt",
				Note: "the Go judge that watched the implementation (impl column) and the Lean judge the theorems are about (model column) disagree on this stream / answer"})
		}
	}
	keys := make([]string, 0, len(j.kinds))
	for k := range j.kinds {
		keys = append(keys, k)
	}
	sort.Strings(keys)
	for _, k := range keys {
		rep.Extra["judge_"+k] = j.kinds[k]
	}
	for k, v := range verdicts {
		rep.Extra["verdict "+k] = v
	}
}
