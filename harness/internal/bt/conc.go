package bt

import (
	"time"

	"github.com/fullstorydev/emulators/bigtable/bttest"

	"verif/harness/internal/conc"
	"verif/harness/internal/core"
)

// ConcProgram is a sequential prefix followed by requests issued concurrently (tie T3, C06).
type ConcProgram struct {
	Engine string `json:"engine"`
	Setup  []*Op  `json:"setup"`
	Ops    []*Op  `json:"ops"`
	Sched  []int  `json:"sched,omitempty"`
}

const concTable = "p/tables/t"

type concSys struct {
	env *Env
	p   *ConcProgram
}

func (c *concSys) Exec(i int) string { return c.env.Exec(c.p.Ops[i]) }
func (c *concSys) LockKey(i int) string {
	return c.p.Ops[i].Name // the table's lock
}
func (c *concSys) Yields(i int) bool {
	switch c.p.Ops[i].Kind {
	case "mutate", "mutaterows", "cam", "rmw":
		return true
	}
	return false
}
func (c *concSys) Close() {
	bttest.VerifYield = nil
	c.env.Close()
}

// ConcClassify maps the repository's yield points of the single-row write RPCs.
func ConcClassify(point string) string {
	switch point {
	case "write.before-lock":
		return "before"
	case "write.row-fetched":
		return "inside"
	}
	return ""
}

// MkSys builds a fresh service, runs the sequential prefix on it and installs the yield hook.
// setupOut receives the prefix's responses.
func (p *ConcProgram) MkSys(setupOut *[]string) func(y func(point string)) conc.System {
	return func(y func(point string)) conc.System {
		env := NewEnv(p.Engine, "")
		var out []string
		for _, op := range p.Setup {
			out = append(out, env.Exec(op))
		}
		if setupOut != nil {
			*setupOut = out
		}
		bttest.VerifYield = y
		return &concSys{env: env, p: p}
	}
}

// FinalReads are issued after every goroutine has finished.
func (p *ConcProgram) FinalReads() []*Op { return []*Op{{Kind: "read", Name: concTable}} }

// ExecFinal runs the final reads on a finished system.
func ExecFinal(sys conc.System, ops []*Op) []string {
	c := sys.(*concSys)
	done := make(chan []string, 1)
	go func() {
		var out []string
		for _, op := range ops {
			out = append(out, c.env.Exec(op))
		}
		done <- out
	}()
	select {
	case out := <-done:
		return out
	case <-time.After(5 * time.Second):
		return []string{"final read blocked (the table lock is still held)"}
	}
}

var concPreds = []*Filter{
	nil,
	{Kind: "pass", Flag: true},
	{Kind: "block", Flag: true},
	{Kind: "colrange", Fam: "f", SB: Bound{Kind: 'c', K: []byte("a")}, EB: Bound{Kind: 'c', K: []byte("a")}},
	{Kind: "collim", N: 1},
	{Kind: "ts", S: 0, E: 2000},
	{Kind: "chain", Subs: []*Filter{{Kind: "colrange", Fam: "f", SB: Bound{Kind: 'u'}, EB: Bound{Kind: 'u'}}, {Kind: "rowlim", N: 1}}},
}

// GenConc draws a concurrent program: 2-3 (rarely 4) requests on one or two rows of one table.
func GenConc(r *core.Rng, engine string) *ConcProgram {
	g := &Gen{R: r, P: Profiles["c06"]}
	p := &ConcProgram{Engine: engine}
	p.Setup = append(p.Setup, &Op{Kind: "rand", N: 500}, &Op{Kind: "clock", N: core.Pick(r, []int64{1000, 2500, 5000})})
	create := &Op{Kind: "create", Parent: "p", ID: "t"}
	for _, f := range Fams {
		create.Fams = append(create.Fams, FamDef{Name: f})
	}
	p.Setup = append(p.Setup, create)
	keys := [][]byte{[]byte("a"), {'a', 0}}
	if r.Chance(1, 2) {
		// initial content: a counter and a few cells
		var entries []Entry
		for _, k := range keys {
			if r.Chance(2, 3) {
				ms := []Mut{{Kind: "set", Fam: "f", Qual: []byte("a"), TS: 1000, Val: i64(int64(r.Intn(5)))}}
				if r.Chance(1, 2) {
					ms = append(ms, Mut{Kind: "set", Fam: "g", Qual: []byte("b"), TS: core.Pick(r, GoodTS[:4]), Val: core.Pick(r, Values[:4])})
				}
				entries = append(entries, Entry{Key: k, Muts: ms})
			}
		}
		if len(entries) > 0 {
			p.Setup = append(p.Setup, &Op{Kind: "mutaterows", Name: concTable, Entries: entries})
		}
	}
	n := 2 + r.Weighted([]int{55, 40, 5})
	key := func() []byte {
		if r.Chance(3, 4) {
			return keys[0]
		}
		return keys[1]
	}
	for i := 0; i < n; i++ {
		switch r.Weighted([]int{30, 20, 20, 15, 15}) {
		case 0: // increment / append on the shared counter column
			rule := RmwRule{Kind: "inc", Fam: "f", Qual: []byte("a"), Amt: int64(1 + r.Intn(3))}
			if r.Chance(1, 4) {
				rule = RmwRule{Kind: "app", Fam: "g", Qual: []byte("b"), Val: core.Pick(r, Values[1:4])}
			}
			rules := []RmwRule{rule}
			if r.Chance(1, 4) {
				rules = append(rules, RmwRule{Kind: "inc", Fam: core.Pick(r, []string{"f", BadFam}), Qual: []byte("b"), Amt: 1})
			}
			p.Ops = append(p.Ops, &Op{Kind: "rmw", Name: concTable, Key: key(), Rules: rules})
		case 1: // check-and-set
			p.Ops = append(p.Ops, &Op{Kind: "cam", Name: concTable, Key: key(), Pred: core.Pick(r, concPreds),
				TM: []Mut{{Kind: "set", Fam: "g", Qual: []byte("b"), TS: int64(1000 * (1 + r.Intn(3))), Val: []byte{byte('A' + i)}}},
				FM: []Mut{{Kind: "set", Fam: "f", Qual: []byte("a"), TS: 1000, Val: i64(int64(10 + i))}}})
		case 2: // multi-mutation request, possibly with an invalid element at some position
			ms := g.Muts(4)
			p.Ops = append(p.Ops, &Op{Kind: "mutate", Name: concTable, Key: key(), Muts: ms})
		case 3: // two entries on overlapping rows
			var es []Entry
			for k := 0; k < 1+r.Intn(3); k++ {
				es = append(es, Entry{Key: key(), Muts: g.Muts(3)})
			}
			p.Ops = append(p.Ops, &Op{Kind: "mutaterows", Name: concTable, Entries: es})
		default:
			p.Ops = append(p.Ops, &Op{Kind: "read", Name: concTable})
		}
	}
	return p
}
