package bt

import (
	"bytes"
	"encoding/binary"
	"fmt"
	"math"

	"verif/harness/internal/core"
)

// Adversarial universes (DESIGN 2.3).
var (
	Keys    = [][]byte{[]byte("a"), {'a', 0}, {'a', 0, 0}, []byte("ab"), []byte("b"), {0}, {0xff}, {'a', 0xff}, {'a', '\n'}}
	Quals   = [][]byte{{}, []byte("a"), []byte("b"), {0}, {'a', 0xff}, {'\n'}}
	Fams    = []string{"f", "g"}
	BadFam  = "h"
	MaxTS   = int64(math.MaxInt64 - math.MaxInt64%1000)
	GoodTS  = []int64{0, 1000, 2000, 3000, 4000, MaxTS}
	BadTS   = []int64{1, 1500, -1000, -2, MaxTS + 1, math.MaxInt64}
	Clocks  = []int64{0, 999, 1000, 1001, 2500, 5000, 7000000, MaxTS, MaxTS + 500, -1, -1500}
	// "p-2" extends "p": a listing of p's tables must not pick up p-2's
	Parents = []string{"p", "q", "p-2"}
	IDs     = []string{"t", "u"}
)

func i64(v int64) []byte {
	b := make([]byte, 8)
	binary.BigEndian.PutUint64(b, uint64(v))
	return b
}

var Values = [][]byte{{}, []byte("v"), []byte("w"), []byte("vw"), {0}, {0xff}, i64(0), i64(1), i64(-1), i64(math.MaxInt64), i64(math.MinInt64), []byte("1234567"), []byte("123456789"), []byte("v\nw")}

// Profile weights the op kinds of a random program.
type Profile struct {
	Name                                                                string
	Mutate, MutateRows, Cam, Rmw, Read, Keys, Modify, DropRange, Create int
	Delete, List, Get, Gc, Clock, Rand, Gcw, Idle                       int
	ReadAfterWrite                                                      bool
	Filters                                                             int // chance (%) that a read carries a filter
	RowSets                                                             int // chance (%) that a read carries a RowSet
	Invalid                                                             int // chance (%) of an invalid element in a mutation list
	GcRules                                                             bool
	MinOps, MaxOps                                                      int
	ManyRows                                                            bool
	Big                                                                 int // rows of an extra large table (several response messages)
	ExtraIDs                                                            []string
	DeepColumn                                                          bool // now and then a column with 12+ versions
}

var Profiles = map[string]Profile{
	"c01":    {Name: "c01", DeepColumn: true, Mutate: 50, MutateRows: 20, Read: 10, Clock: 8, ReadAfterWrite: true, Invalid: 12, MinOps: 4, MaxOps: 40},
	"c03":    {Name: "c03", Mutate: 10, MutateRows: 10, Read: 70, Keys: 8, DropRange: 2, RowSets: 90, Filters: 15, MinOps: 10, MaxOps: 40, ManyRows: true},
	"c05":    {Name: "c05", Mutate: 6, MutateRows: 10, Rmw: 5, Read: 80, Rand: 4, Filters: 100, RowSets: 10, MinOps: 10, MaxOps: 40, ManyRows: true},
	"c06":    {Name: "c06", Mutate: 30, MutateRows: 30, Cam: 15, Rmw: 15, Read: 5, ReadAfterWrite: true, Invalid: 45, MinOps: 4, MaxOps: 25},
	"c12":    {Name: "c12", Mutate: 15, MutateRows: 5, Cam: 60, Read: 5, Rand: 3, Clock: 3, ReadAfterWrite: true, Invalid: 15, MinOps: 4, MaxOps: 30},
	"c13":    {Name: "c13", DeepColumn: true, Mutate: 20, Rmw: 60, Read: 5, Clock: 10, ReadAfterWrite: true, Invalid: 5, MinOps: 4, MaxOps: 30},
	"c14":    {Name: "c14", Mutate: 15, MutateRows: 10, Modify: 20, DropRange: 15, Create: 10, Delete: 8, List: 6, Get: 8, Read: 8, Keys: 3, ReadAfterWrite: true, Invalid: 5, MinOps: 6, MaxOps: 40, GcRules: true},
	"c16":    {Name: "c16", Mutate: 25, MutateRows: 15, Gc: 25, Clock: 15, Modify: 8, Read: 5, Keys: 4, ReadAfterWrite: true, MinOps: 6, MaxOps: 40, GcRules: true},
	// the background loop's pass and the quiescence it waits for: time passes, requests come, the pass is tried
	"c16q":   {Name: "c16q", Mutate: 30, MutateRows: 8, Rmw: 4, Cam: 4, Idle: 45, Read: 10, Gc: 3, Clock: 10, Modify: 4, MinOps: 8, MaxOps: 40, GcRules: true, Invalid: 15},
	"c03big": {Name: "c03big", Mutate: 5, Read: 90, Keys: 5, RowSets: 70, Filters: 10, MinOps: 6, MaxOps: 14, Big: 450},
	"c17big": {Name: "c17big", Mutate: 5, Read: 90, Keys: 5, RowSets: 70, Filters: 10, MinOps: 4, MaxOps: 8, Big: 1100},
	"c16w":   {Name: "c16w", Mutate: 10, Gcw: 50, Clock: 20, Read: 10, Keys: 10, ReadAfterWrite: true, MinOps: 4, MaxOps: 10, GcRules: true, Big: 260},
	// ("t.v2": an id that extends another one by a dotted suffix — the files of one must not be taken for the other's)
	// ("x/": an id whose path form differs from its text — the definition file must be found again on delete)
	"c08":    {Name: "c08", ExtraIDs: []string{"t.v2", "x/"}, Mutate: 25, MutateRows: 12, Cam: 4, Rmw: 6, Modify: 12, DropRange: 12, Create: 10, Delete: 8, Gc: 3, Clock: 3, MinOps: 8, MaxOps: 35, GcRules: true, Invalid: 5},
	// (the extra id is table t's definition file name on disk: legal, and the engines must still agree — no restarts here, see finding K1)
	"c17": {Name: "c17", ExtraIDs: []string{"t.table.proto"}, Mutate: 20, MutateRows: 12, Cam: 8, Rmw: 8, Read: 20, Keys: 3, Modify: 5, DropRange: 5, Create: 3, Delete: 2, List: 2, Get: 3, Gc: 4, Clock: 4, Rand: 2,
		ReadAfterWrite: false, Filters: 50, RowSets: 50, Invalid: 10, MinOps: 10, MaxOps: 60, GcRules: true},
}

type Gen struct {
	flushRow int // big table: number of the row whose chunks push a full scan's buffer over 1024 (0 = none)
	R      *core.Rng
	P      Profile
	tables []string
	// passed: a GC pass has already run on the big table in this program. A pass deletes the rows it
	// empties; a write that re-creates such a row DURING a later pass inserts a row, and whether a
	// pass visits a row inserted while it runs is engine dependent (the btree engine iterates the
	// live tree, the leveldb engines a snapshot) and not fixed by the property. So only the first
	// pass of a program gets writes aimed at rows that it empties.
	passed bool
}

func (g *Gen) pickTable() string {
	if len(g.tables) == 0 || g.R.Chance(1, 40) {
		return TableName(core.Pick(g.R, Parents), core.Pick(g.R, g.ids())) // possibly missing
	}
	return core.Pick(g.R, g.tables)
}

func (g *Gen) fam() string {
	if g.R.Chance(1, 15) {
		return BadFam
	}
	return core.Pick(g.R, Fams)
}

func (g *Gen) Rule(depth int) *Rule {
	switch g.R.Weighted([]int{30, 25, 25, 12, 6}) {
	case 0:
		return nil
	case 1:
		return &Rule{Kind: "v", N: int64(core.Pick(g.R, []int{0, 1, 1, 2, 3, 1, 2, -1}))}
	case 2:
		secs := core.Pick(g.R, []int64{0, 0, 0, 1})
		nanos := core.Pick(g.R, []int32{0, 1000000, 2000000, 1500000, 999, 1000})
		return &Rule{Kind: "a", Sec: secs, Nanos: nanos}
	case 3:
		if depth <= 0 {
			return &Rule{Kind: "v", N: 1}
		}
		n := 1 + g.R.Intn(3)
		u := &Rule{Kind: "u"}
		for i := 0; i < n; i++ {
			s := g.Rule(depth - 1)
			if s == nil {
				s = &Rule{Kind: "o"}
			}
			u.Subs = append(u.Subs, s)
		}
		return u
	default:
		return &Rule{Kind: "o"}
	}
}

func (g *Gen) Mut(valid bool) Mut {
	if !valid {
		switch g.R.Intn(7) {
		case 0:
			return Mut{Kind: "set", Fam: BadFam, Qual: core.Pick(g.R, Quals), TS: core.Pick(g.R, GoodTS), Val: core.Pick(g.R, Values)}
		case 1:
			return Mut{Kind: "set", Fam: core.Pick(g.R, Fams), Qual: core.Pick(g.R, Quals), TS: core.Pick(g.R, BadTS), Val: core.Pick(g.R, Values)}
		case 2:
			return Mut{Kind: "delcol", Fam: BadFam, Qual: core.Pick(g.R, Quals)}
		case 3: // inverted / invalid range
			s := core.Pick(g.R, []int64{2000, 3000, 1, -1000, 1000})
			e := core.Pick(g.R, []int64{1000, 2000, 1500, 1000})
			if s == 1000 && e != 1000 && e != 1500 {
				e = 1000
			}
			return Mut{Kind: "delcol", Fam: core.Pick(g.R, Fams), Qual: core.Pick(g.R, Quals), HasRange: true, S: s, E: e}
		case 4:
			return Mut{Kind: "delfam", Fam: BadFam}
		case 5:
			return Mut{Kind: "unknown"}
		default:
			return Mut{Kind: "set", Fam: BadFam, Qual: []byte("a"), TS: -1, Val: []byte("v")}
		}
	}
	switch g.R.Weighted([]int{60, 20, 8, 6}) {
	case 0:
		ts := core.Pick(g.R, GoodTS)
		if g.R.Chance(1, 6) {
			ts = -1
		}
		return Mut{Kind: "set", Fam: core.Pick(g.R, Fams), Qual: core.Pick(g.R, Quals), TS: ts, Val: core.Pick(g.R, Values)}
	case 1:
		m := Mut{Kind: "delcol", Fam: core.Pick(g.R, Fams), Qual: core.Pick(g.R, Quals)}
		if g.R.Chance(2, 3) {
			m.HasRange = true
			switch g.R.Intn(5) {
			case 0:
				m.S, m.E = 0, 0
			case 1:
				m.S, m.E = core.Pick(g.R, []int64{0, 1000, 2000}), 0
			case 2:
				m.S, m.E = 0, core.Pick(g.R, []int64{1000, 2000, 3000, MaxTS})
			case 3:
				m.S, m.E = 1000, core.Pick(g.R, []int64{2000, 3000, 4000, MaxTS})
			default:
				m.S, m.E = 2000, 3000
			}
		}
		return m
	case 2:
		return Mut{Kind: "delfam", Fam: core.Pick(g.R, Fams)}
	default:
		return Mut{Kind: "delrow"}
	}
}

func (g *Gen) Muts(maxN int) []Mut {
	if maxN >= 3 && g.R.Chance(1, 12) {
		// a sandwich: the same column written, wiped (row, family or column), written again — order matters,
		// and whatever an implementation remembers about the row between mutations must not survive the wipe
		f, q := core.Pick(g.R, Fams), core.Pick(g.R, Quals)
		wipe := core.Pick(g.R, []Mut{{Kind: "delrow"}, {Kind: "delfam", Fam: f}, {Kind: "delcol", Fam: f, Qual: q}})
		ms := []Mut{{Kind: "set", Fam: f, Qual: q, TS: core.Pick(g.R, GoodTS[:4]), Val: core.Pick(g.R, Values)}, wipe,
			{Kind: "set", Fam: f, Qual: q, TS: core.Pick(g.R, GoodTS[:4]), Val: core.Pick(g.R, Values)}}
		if g.R.Chance(g.P.Invalid, 100) {
			ms = append(ms, g.Mut(false)) // … and the whole request refused after all
		}
		return ms
	}
	n := g.R.Intn(maxN + 1)
	if n == 0 && g.R.Chance(3, 4) {
		n = 1
	}
	bad := -1
	if n > 0 && g.R.Chance(g.P.Invalid, 100) {
		bad = g.R.Intn(n)
	}
	ms := make([]Mut, n)
	for i := range ms {
		ms[i] = g.Mut(i != bad)
	}
	return ms
}

// LongKeys: row keys around the length where a one-byte length prefix stops being enough (and well beyond)
var LongKeys = [][]byte{bytes.Repeat([]byte("L"), 127), bytes.Repeat([]byte("L"), 128), append(bytes.Repeat([]byte("k"), 299), 0xff)}

func (g *Gen) key() []byte {
	// (not next to row-key patterns: the Model's matcher takes derivatives without simplifying them, which
	// is fine for keys of a few bytes and explodes on a star-heavy pattern over three hundred)
	if g.P.Filters == 0 && g.P.Cam == 0 && g.R.Chance(1, 14) {
		return core.Pick(g.R, LongKeys)
	}
	return core.Pick(g.R, Keys)
}

// ids: the table ids of the profile.
func (g *Gen) ids() []string { return append(append([]string{}, IDs...), g.P.ExtraIDs...) }

var reBytes = []byte{'a', 'b', 'f', 'g', 'v', 'w', 0, 0xff, '\n', '1'}

func (g *Gen) Regex(depth int) *Regex {
	if depth <= 0 {
		switch g.R.Intn(6) {
		case 0:
			return &Regex{Kind: "eps"}
		case 1:
			return &Regex{Kind: "any"}
		case 2:
			return &Regex{Kind: "dot"}
		case 3:
			lo := core.Pick(g.R, reBytes)
			hi := lo
			if g.R.Chance(1, 2) {
				hi = core.Pick(g.R, reBytes)
				if hi < lo {
					lo, hi = hi, lo
				}
			}
			return &Regex{Kind: "cls", Neg: g.R.Chance(1, 3), Ranges: [][2]byte{{lo, hi}}}
		default:
			return &Regex{Kind: "b", B: core.Pick(g.R, reBytes)}
		}
	}
	switch g.R.Intn(6) {
	case 0:
		return &Regex{Kind: "cat", X: g.Regex(depth - 1), Y: g.Regex(depth - 1)}
	case 1:
		return &Regex{Kind: "alt", X: g.Regex(depth - 1), Y: g.Regex(depth - 1)}
	case 2:
		return &Regex{Kind: "star", X: g.Regex(depth - 1)}
	case 3: // x+
		x := g.Regex(depth - 1)
		return &Regex{Kind: "cat", X: x, Y: &Regex{Kind: "star", X: x}, Sugar: "plus"}
	case 4: // x?
		return &Regex{Kind: "alt", X: g.Regex(depth - 1), Y: &Regex{Kind: "eps"}, Sugar: "opt"}
	default:
		return g.Regex(0)
	}
}

var badPatterns = [][]byte{[]byte("("), []byte("[a"), []byte("*"), []byte(`\`), []byte("a{2,1}")}

// longAlt: z…z|c with forty z — long patterns that differ only in their last byte (and have the same length)
func longAlt(c byte) *Regex {
	var lit *Regex
	for i := 0; i < 40; i++ {
		b := &Regex{Kind: "b", B: 'z'}
		if lit == nil {
			lit = b
		} else {
			lit = &Regex{Kind: "cat", X: lit, Y: b}
		}
	}
	return &Regex{Kind: "alt", X: lit, Y: &Regex{Kind: "b", B: c}}
}

func (g *Gen) Rx(ascii bool) *Rx {
	if g.R.Chance(1, 14) {
		return &Rx{Bad: core.Pick(g.R, badPatterns)}
	}
	if g.R.Chance(1, 12) {
		if g.R.Chance(1, 6) {
			// the same length and the same forty bytes, but not a pattern
			return &Rx{Bad: append(longAlt('a').plain(0)[:41], '(')}
		}
		return &Rx{Re: longAlt(core.Pick(g.R, []byte{'a', 'b', 'w', 'v'})), Plain: true}
	}
	for {
		re := g.Regex(g.R.Intn(3))
		if ascii {
			ok := true
			for _, b := range re.Pattern() {
				if b > 127 {
					ok = false
				}
			}
			if !ok {
				continue
			}
		}
		return &Rx{Re: re, Plain: g.R.Chance(1, 2)}
	}
}

func (g *Gen) bound(universe [][]byte) Bound {
	switch g.R.Intn(3) {
	case 0:
		return Bound{Kind: 'u'}
	case 1:
		return Bound{Kind: 'o', K: core.Pick(g.R, universe)}
	default:
		return Bound{Kind: 'c', K: core.Pick(g.R, universe)}
	}
}

var counts = []int64{0, 1, 1, 2, 2, 3, 5, 100}

func (g *Gen) count() int64 {
	if g.R.Chance(1, 16) {
		return core.Pick(g.R, []int64{-1, -5, math.MinInt32})
	}
	return core.Pick(g.R, counts)
}

var labels = []string{"l", "lab-1", "0", "x-y", "", "A", "UP"}

// LeafFilter draws one non-composite filter.
func (g *Gen) LeafFilter() *Filter {
	switch g.R.Intn(18) {
	case 0:
		return &Filter{Kind: "pass", Flag: !g.R.Chance(1, 8)}
	case 1:
		return &Filter{Kind: "block", Flag: !g.R.Chance(1, 8)}
	case 2:
		return &Filter{Kind: "rowre", Rx: g.Rx(false)}
	case 3:
		return &Filter{Kind: "famre", Rx: g.Rx(true)}
	case 4:
		return &Filter{Kind: "qualre", Rx: g.Rx(false)}
	case 5:
		return &Filter{Kind: "valre", Rx: g.Rx(false)}
	case 6, 7:
		return &Filter{Kind: "colrange", Fam: g.fam(), SB: g.bound(Quals), EB: g.bound(Quals)}
	case 8:
		return &Filter{Kind: "valrange", SB: g.bound(Values), EB: g.bound(Values)}
	case 9, 10:
		s := core.Pick(g.R, []int64{0, 0, 1000, 2000, 3000, 1500, -1000})
		e := core.Pick(g.R, []int64{0, 0, 1000, 2000, 3000, 4000, 2500, MaxTS})
		return &Filter{Kind: "ts", S: s, E: e}
	case 11:
		return &Filter{Kind: "rowlim", N: g.count()}
	case 12:
		return &Filter{Kind: "rowoff", N: g.count()}
	case 13:
		return &Filter{Kind: "collim", N: g.count()}
	case 14:
		return &Filter{Kind: "strip"}
	case 15:
		return &Filter{Kind: "label", Label: core.Pick(g.R, labels)}
	case 16:
		return &Filter{Kind: "sample", PMilli: core.Pick(g.R, []int64{250, 500, 750, 0, 1000, -500, 1500, 1, 999})}
	default:
		return &Filter{Kind: "qualre", Rx: g.Rx(false)}
	}
}

func (g *Gen) FilterTree(depth int) *Filter {
	if depth >= 2 && g.R.Chance(1, 10) {
		// positional filters after a union: the union of an interleave keeps the row's column order (a branch
		// that selects a later column must not move it in front of the columns another branch brings)
		sel := core.Pick(g.R, []*Filter{
			{Kind: "qualre", Rx: &Rx{Re: &Regex{Kind: "b", B: 'b'}}},
			{Kind: "qualre", Rx: &Rx{Re: &Regex{Kind: "cat", X: &Regex{Kind: "b", B: 'a'}, Y: &Regex{Kind: "any"}}}},
			{Kind: "colrange", Fam: g.fam(), SB: Bound{Kind: 'c', K: []byte("b")}, EB: Bound{Kind: 'u'}},
			{Kind: "valre", Rx: &Rx{Re: &Regex{Kind: "b", B: 'w'}}},
		})
		inter := &Filter{Kind: "inter", Subs: []*Filter{sel, {Kind: "pass", Flag: true}}}
		if g.R.Chance(1, 3) {
			inter.Subs = []*Filter{sel, g.LeafFilter(), {Kind: "pass", Flag: true}}
		}
		pos := core.Pick(g.R, []*Filter{{Kind: "rowlim", N: 1}, {Kind: "rowlim", N: 2}, {Kind: "rowoff", N: 1}, {Kind: "collim", N: 1}})
		return &Filter{Kind: "chain", Subs: []*Filter{inter, pos}}
	}
	if depth <= 0 || g.R.Chance(2, 5) {
		return g.LeafFilter()
	}
	switch g.R.Intn(3) {
	case 0, 1:
		kind := "chain"
		if g.R.Chance(1, 2) {
			kind = "inter"
		}
		n := 2 + g.R.Intn(2)
		if g.R.Chance(1, 20) {
			n = g.R.Intn(2) // invalid: fewer than two
		}
		f := &Filter{Kind: kind}
		for i := 0; i < n; i++ {
			f.Subs = append(f.Subs, g.FilterTree(depth-1))
		}
		return f
	default:
		if g.R.Chance(1, 7) {
			// a lopsided condition: one branch absent, the other one invalid — the whole tree must be
			// refused whichever branch the data would select
			bad := core.Pick(g.R, []*Filter{{Kind: "pass", Flag: false}, {Kind: "block", Flag: false}, {Kind: "sample", PMilli: 0}, {Kind: "sample", PMilli: 1500}})
			f := &Filter{Kind: "cond", P: g.FilterTree(depth - 1)}
			if g.R.Chance(1, 2) {
				f.T = bad
			} else {
				f.F = bad
			}
			return f
		}
		f := &Filter{Kind: "cond", P: g.FilterTree(depth - 1)}
		if !g.R.Chance(1, 5) {
			f.T = g.FilterTree(depth - 1)
		}
		if !g.R.Chance(1, 5) {
			f.F = g.FilterTree(depth - 1)
		}
		return f
	}
}

func (g *Gen) rowRange() [2]Bound {
	s, e := g.bound(Keys), g.bound(Keys)
	return [2]Bound{s, e}
}

func (g *Gen) ReadOp(table string) *Op {
	o := &Op{Kind: "read", Name: table}
	if g.R.Chance(g.P.RowSets, 100) {
		nk := g.R.Weighted([]int{50, 30, 15, 5})
		for i := 0; i < nk; i++ {
			o.Keys = append(o.Keys, g.key())
		}
		nr := g.R.Weighted([]int{25, 40, 25, 10})
		for i := 0; i < nr; i++ {
			o.Ranges = append(o.Ranges, g.rowRange())
		}
	}
	if g.R.Chance(1, 4) {
		o.Limit = core.Pick(g.R, []int64{1, 1, 2, 3, 5, -1})
	}
	if g.R.Chance(g.P.Filters, 100) {
		o.Filter = g.FilterTree(2)
	} else if len(o.Ranges) > 0 && g.R.Chance(1, 6) {
		// a request is validated as a whole whatever its filter promises: the row set next to filters
		// that make the scan trivial (nothing, everything, one cell)
		o.Filter = core.Pick(g.R, []*Filter{{Kind: "block", Flag: true}, {Kind: "pass", Flag: true}, {Kind: "rowlim", N: 0}, {Kind: "rowlim", N: 1}, {Kind: "strip"}})
	}
	return o
}

func (g *Gen) fullRead(table string) *Op { return &Op{Kind: "read", Name: table} }

func (g *Gen) setupTable(prog *[]core.Op, parent, id string) {
	o := &Op{Kind: "create", Parent: parent, ID: id}
	for _, f := range Fams {
		fd := FamDef{Name: f}
		if g.P.GcRules {
			fd.Rule = g.Rule(2)
		}
		o.Fams = append(o.Fams, fd)
	}
	*prog = append(*prog, o)
	g.tables = append(g.tables, TableName(parent, id))
}

// fullNodeTable: a table whose row count fills a node of the btree engine exactly (degree 16: 31 rows
// fill the root leaf, then every 16 more the rightmost leaf), inserted in key order, every row with
// cells in both families; then a request that rewrites every row in one pass over the table — a family
// drop (and its re-creation, which would show cells that survived), or a GC pass that condemns one
// version per column.  A store that restructures itself under the rewriting scan must not end it early.
func (g *Gen) fullNodeTable(prog *[]core.Op) {
	o := &Op{Kind: "create", Parent: "p", ID: "full"}
	rule := &Rule{Kind: "v", N: 1}
	for _, f := range Fams {
		fd := FamDef{Name: f}
		if g.P.Name == "c16" {
			fd.Rule = rule
		}
		o.Fams = append(o.Fams, fd)
	}
	*prog = append(*prog, o)
	name := TableName("p", "full")
	n := core.Pick(g.R, []int{31, 31, 47, 63, 30, 32})
	w := &Op{Kind: "mutaterows", Name: name}
	for i := 0; i < n; i++ {
		var ms []Mut
		for _, f := range Fams {
			ms = append(ms, Mut{Kind: "set", Fam: f, Qual: []byte("q"), TS: 1000, Val: []byte("x")},
				Mut{Kind: "set", Fam: f, Qual: []byte("q"), TS: 2000, Val: []byte("y")})
		}
		w.Entries = append(w.Entries, Entry{Key: []byte(fmt.Sprintf("r%03d", i)), Muts: ms})
	}
	*prog = append(*prog, w)
	if g.P.Name == "c16" {
		*prog = append(*prog, &Op{Kind: "gc", Name: name}, g.fullRead(name))
		return
	}
	*prog = append(*prog,
		&Op{Kind: "modify", Name: name, Mods: []FamMod{{Kind: "drop", ID: Fams[0]}}},
		&Op{Kind: "modify", Name: name, Mods: []FamMod{{Kind: "create", ID: Fams[0]}}},
		g.fullRead(name))
}

// sizedTableDropAll: a table with a row count around a batch size of the storage layer (128), then
// "delete all data": nothing may be left, now or after a restart.
func (g *Gen) sizedTableDropAll(prog *[]core.Op) {
	name := g.tables[0]
	n := core.Pick(g.R, []int{127, 128, 129, 129, 130, 257})
	w := &Op{Kind: "mutaterows", Name: name}
	for i := 0; i < n; i++ {
		w.Entries = append(w.Entries, Entry{Key: []byte(fmt.Sprintf("row-%05d", i)), Muts: []Mut{{Kind: "set", Fam: Fams[0], Qual: []byte("q"), TS: 1000, Val: []byte("x")}}})
	}
	*prog = append(*prog, w, &Op{Kind: "droprange", Name: name, Target: "all"}, g.fullRead(name))
}

// longBatch: one MutateRows with more entries than the small-slice paths of the standard library's
// sort (12) and other batch thresholds (32), in no particular key order, in which some row keys occur
// twice with mutations that do not commute: entries are applied in request order.
func (g *Gen) longBatch(prog *[]core.Op) {
	name := g.tables[0]
	n := core.Pick(g.R, []int{13, 14, 20, 33, 40})
	w := &Op{Kind: "mutaterows", Name: name}
	keys := make([][]byte, n)
	for i := range keys {
		keys[i] = []byte(fmt.Sprintf("k%02d", (i*7+3)%n))
	}
	// two pairs of repeated keys, far apart
	keys[n-2] = keys[1]
	keys[n-1] = keys[4]
	for i, k := range keys {
		var ms []Mut
		switch {
		case i == n-2:
			ms = []Mut{{Kind: "set", Fam: Fams[1], Qual: []byte("b"), TS: 1000, Val: []byte("second")}}
		case i == n-1:
			ms = []Mut{{Kind: "delrow"}, {Kind: "set", Fam: Fams[0], Qual: []byte("z"), TS: 2000, Val: []byte("after-delete")}}
		default:
			ms = []Mut{{Kind: "set", Fam: Fams[0], Qual: []byte("a"), TS: 1000, Val: []byte(fmt.Sprintf("entry%d", i))},
				{Kind: "set", Fam: Fams[1], Qual: []byte("b"), TS: 1000, Val: []byte("first")}}
		}
		w.Entries = append(w.Entries, Entry{Key: k, Muts: ms})
	}
	*prog = append(*prog, w, g.fullRead(name))
}

// fillRows writes a dense table: every key gets a few cells.
func (g *Gen) fillRows(prog *[]core.Op, table string) {
	var entries []Entry
	for _, k := range Keys {
		if g.R.Chance(1, 6) {
			continue
		}
		var ms []Mut
		n := 1 + g.R.Intn(6)
		for i := 0; i < n; i++ {
			ms = append(ms, Mut{Kind: "set", Fam: core.Pick(g.R, Fams), Qual: core.Pick(g.R, Quals), TS: core.Pick(g.R, GoodTS[:5]), Val: core.Pick(g.R, Values)})
		}
		entries = append(entries, Entry{Key: k, Muts: ms})
	}
	*prog = append(*prog, &Op{Kind: "mutaterows", Name: table, Entries: entries})
}

// Program draws one random program under the profile.
func (g *Gen) Program() []core.Op {
	g.tables = nil
	g.passed = false
	var prog []core.Op
	prog = append(prog, &Op{Kind: "rand", N: 500}, &Op{Kind: "clock", N: core.Pick(g.R, Clocks[:7])})
	g.setupTable(&prog, "p", "t")
	if g.R.Chance(1, 3) {
		g.setupTable(&prog, core.Pick(g.R, Parents), "u")
	}
	if g.P.ManyRows {
		g.fillRows(&prog, g.tables[0])
	}
	if (g.P.Name == "c14" || g.P.Name == "c16" || g.P.Name == "c17") && g.R.Chance(1, 5) {
		g.fullNodeTable(&prog)
	}
	if (g.P.Name == "c14" || g.P.Name == "c17" || g.P.Name == "c08") && g.R.Chance(1, 6) {
		g.sizedTableDropAll(&prog)
	}
	if (g.P.Name == "c01" || g.P.Name == "c06" || g.P.Name == "c17") && g.R.Chance(1, 5) {
		g.longBatch(&prog)
	}
	if g.P.DeepColumn && g.R.Chance(1, 2) {
		// a column with a long history (more versions than any small-slice fast path handles), counters in it
		var ms []Mut
		nv := 12 + g.R.Intn(30)
		for v := 1; v <= nv; v++ {
			ms = append(ms, Mut{Kind: "set", Fam: "f", Qual: []byte("a"), TS: int64(v) * 1000, Val: i64(int64(v))})
		}
		prog = append(prog, &Op{Kind: "mutate", Name: g.tables[0], Key: []byte("a"), Muts: ms})
		if g.R.Chance(1, 2) {
			// a version somewhere in the middle is written again: one cell per timestamp, the last value
			prog = append(prog, &Op{Kind: "mutate", Name: g.tables[0], Key: []byte("a"),
				Muts: []Mut{{Kind: "set", Fam: "f", Qual: []byte("a"), TS: int64(1+g.R.Intn(nv)) * 1000, Val: []byte("again")}}}, g.fullRead(g.tables[0]))
		}
		// the clock at (or before) the newest version: the next writes land on its timestamp
		prog = append(prog, &Op{Kind: "clock", N: int64(nv) * 1000})
	}
	big := ""
	if g.P.Big > 0 {
		g.setupTable(&prog, "p", "big")
		big = g.tables[len(g.tables)-1]
		if g.P.Gcw > 0 {
			// rows must survive every pass (the property does not say whether a row inserted
			// during a pass is visited by it; engines differ): family f carries no rule and
			// every row has an f cell.
			prog[len(prog)-1].(*Op).Fams[0].Rule = nil
			// family g always carries a rule that can condemn every cell of a row, so that rows
			// holding only g cells are emptied by a pass (and deleted at its end, after a re-check)
			prog[len(prog)-1].(*Op).Fams[1].Rule = core.Pick(g.R, []*Rule{
				{Kind: "a", Sec: 0, Nanos: 1000000},
				{Kind: "u", Subs: []*Rule{{Kind: "v", N: 1}, {Kind: "a", Sec: 0, Nanos: 2000000}}},
				{Kind: "a", Sec: 1},
			})
		}
		o := &Op{Kind: "mutaterows", Name: big}
		bigCells := 0
		g.flushRow = 0
		for i := 0; i < g.P.Big; i++ {
			k := []byte(fmt.Sprintf("r%04d", i))
			var ms []Mut
			if g.P.Gcw == 0 || i%3 != 1 {
				ms = append(ms, Mut{Kind: "set", Fam: Fams[0], Qual: []byte("k"), TS: 1000, Val: []byte("v")})
			} else {
				// a row that lives in family g only
				ms = append(ms, Mut{Kind: "set", Fam: Fams[1], Qual: []byte("k"), TS: core.Pick(g.R, GoodTS[:3]), Val: []byte("v")})
			}
			for j := 0; j < 1+g.R.Intn(3); j++ {
				fam := core.Pick(g.R, Fams)
				if g.P.Gcw > 0 && i%3 == 1 {
					fam = Fams[1]
				}
				ms = append(ms, Mut{Kind: "set", Fam: fam, Qual: core.Pick(g.R, Quals[:3]), TS: core.Pick(g.R, GoodTS[:4]), Val: core.Pick(g.R, Values[:4])})
			}
			o.Entries = append(o.Entries, Entry{Key: k, Muts: ms})
			// the row that pushes the response buffer over its 1024 chunks: a limit that ends a scan exactly
			// where a message ends is a case of its own
			seen := map[string]bool{}
			for _, m := range ms {
				seen[fmt.Sprintf("%s/%x/%d", m.Fam, m.Qual, m.TS)] = true
			}
			bigCells += len(seen)
			if g.flushRow == 0 && bigCells > 1024 {
				g.flushRow = i + 1
			}
		}
		prog = append(prog, o)
	}
	p := g.P
	n := p.MinOps + g.R.Intn(p.MaxOps-p.MinOps+1)
	w := []int{p.Mutate, p.MutateRows, p.Cam, p.Rmw, p.Read, p.Keys, p.Modify, p.DropRange, p.Create, p.Delete, p.List, p.Get, p.Gc, p.Clock, p.Rand, p.Gcw, p.Idle}
	for i := 0; i < n; i++ {
		t := g.pickTable()
		write := true
		switch g.R.Weighted(w) {
		case 0:
			prog = append(prog, &Op{Kind: "mutate", Name: t, Key: g.key(), Muts: g.Muts(4)})
		case 1:
			o := &Op{Kind: "mutaterows", Name: t}
			ne := g.R.Intn(4)
			for j := 0; j < ne; j++ {
				o.Entries = append(o.Entries, Entry{Key: g.key(), Muts: g.Muts(3)})
			}
			prog = append(prog, o)
		case 2:
			o := &Op{Kind: "cam", Name: t, Key: g.key(), TM: g.Muts(2), FM: g.Muts(2)}
			if !g.R.Chance(1, 6) {
				o.Pred = g.FilterTree(2)
			}
			prog = append(prog, o)
		case 3:
			o := &Op{Kind: "rmw", Name: t, Key: g.key()}
			nr := g.R.Weighted([]int{5, 40, 30, 15, 10})
			for j := 0; j < nr; j++ {
				r := RmwRule{Fam: g.fam(), Qual: core.Pick(g.R, Quals[:3])}
				switch g.R.Weighted([]int{50, 45, 5}) {
				case 0:
					r.Kind, r.Amt = "inc", core.Pick(g.R, []int64{0, 1, -1, 5, math.MaxInt64, math.MinInt64})
				case 1:
					r.Kind, r.Val = "app", core.Pick(g.R, Values)
				default:
					r.Kind = "unk"
				}
				o.Rules = append(o.Rules, r)
			}
			prog = append(prog, o)
		case 4:
			if big != "" && g.R.Chance(3, 4) {
				o := g.ReadOp(big)
				if g.R.Chance(1, 2) {
					o.Keys, o.Ranges = nil, nil
					if g.R.Chance(1, 2) {
						lo, hi := g.R.Intn(g.P.Big), g.R.Intn(g.P.Big)
						if lo > hi {
							lo, hi = hi, lo
						}
						if g.P.Big > 1100-1 && g.R.Chance(1, 2) {
							// a bounded range holding more rows than any internal batch of a scan (1024), with rows behind its end
							lo, hi = g.R.Intn(30), 1060+g.R.Intn(30)
						}
						o.Ranges = [][2]Bound{{{Kind: 'c', K: []byte(fmt.Sprintf("r%04d", lo))}, {Kind: core.Pick(g.R, []byte{'o', 'c'}), K: []byte(fmt.Sprintf("r%04d", hi))}}}
					}
				}
				if g.R.Chance(1, 3) {
					o.FailAt = 1 + g.R.Intn(3)
				}
				if g.R.Chance(1, 2) {
					o.Limit = int64(core.Pick(g.R, []int{1, 100, 300, 449, 450, 451}))
					if g.flushRow > 0 && g.R.Chance(2, 3) {
						o.Limit = int64(g.flushRow + g.R.Intn(3))
						if g.R.Chance(1, 2) {
							o.Keys, o.Ranges = nil, nil // the whole table: the count below is about that scan
						}
					}
				}
				prog = append(prog, o)
			} else {
				prog = append(prog, g.ReadOp(t))
			}
			write = false
		case 5:
			prog = append(prog, &Op{Kind: "keys", Name: t})
			write = false
		case 6:
			o := &Op{Kind: "modify", Name: t}
			if g.R.Chance(1, 8) {
				// all or nothing, however a modification that does nothing is spelled: an effective modification,
				// then `drop: false` for a family, then an attempt to create that (existing) family — refused as a whole
				first := core.Pick(g.R, []FamMod{{Kind: "drop", ID: "g"}, {Kind: "create", ID: "h", Rule: g.Rule(1)}, {Kind: "update", ID: "f", Rule: g.Rule(1)}})
				o.Mods = []FamMod{first, {Kind: core.Pick(g.R, []string{"nodrop", "noop"}), ID: "f"}, {Kind: "create", ID: "f", Rule: g.Rule(1)}}
				prog = append(prog, o)
				break
			}
			nm := 1 + g.R.Intn(3)
			for j := 0; j < nm; j++ {
				id := core.Pick(g.R, []string{"f", "g", "h", "k"})
				switch g.R.Weighted([]int{35, 25, 35, 5}) {
				case 0:
					o.Mods = append(o.Mods, FamMod{Kind: "create", ID: id, Rule: g.Rule(1)})
				case 1:
					o.Mods = append(o.Mods, FamMod{Kind: "update", ID: id, Rule: g.Rule(1)})
				case 2:
					o.Mods = append(o.Mods, FamMod{Kind: "drop", ID: id})
				default:
					o.Mods = append(o.Mods, FamMod{Kind: core.Pick(g.R, []string{"noop", "nodrop"}), ID: id})
				}
			}
			prog = append(prog, o)
		case 7:
			o := &Op{Kind: "droprange", Name: t}
			switch g.R.Weighted([]int{20, 75, 5}) {
			case 0:
				o.Target = "all"
			case 1:
				o.Target = "pfx"
				o.Prefix = core.Pick(g.R, append(append([][]byte{}, Keys...), []byte{}, []byte{'a', 0xff, 0xff}, []byte("c")))
			default:
				o.Target = "unset"
			}
			prog = append(prog, o)
		case 8:
			parent, id := core.Pick(g.R, Parents), core.Pick(g.R, g.ids())
			noFams := g.R.Chance(1, 6)
			o := &Op{Kind: "create", Parent: parent, ID: id}
			for _, f := range Fams {
				// (one table in six starts without any family: an empty definition is a definition too)
				if g.R.Chance(4, 5) && !noFams {
					o.Fams = append(o.Fams, FamDef{Name: f, Rule: g.Rule(1)})
				}
			}
			prog = append(prog, o)
			name := TableName(parent, id)
			found := false
			for _, x := range g.tables {
				found = found || x == name
			}
			if !found {
				g.tables = append(g.tables, name)
			}
		case 9:
			prog = append(prog, &Op{Kind: "delete", Name: t})
			if g.R.Chance(1, 3) {
				// a token handed out before the delete proves nothing afterwards: NotFound for every later request
				prog = append(prog, &Op{Kind: "checktoken", Name: t, Key: []byte("TokenFor-" + t)})
				if g.R.Chance(1, 2) {
					prog = append(prog, &Op{Kind: "gentoken", Name: t})
				}
			}
		case 10:
			prog = append(prog, &Op{Kind: "list", Name: core.Pick(g.R, Parents)})
			write = false
		case 11:
			switch g.R.Weighted([]int{60, 15, 25}) {
			case 0:
				prog = append(prog, &Op{Kind: "get", Name: t})
			case 1:
				prog = append(prog, &Op{Kind: "gentoken", Name: t})
			default:
				other := g.pickTable()
				tok := core.Pick(g.R, []string{"TokenFor-" + t, "TokenFor-" + t, "TokenFor-" + other, "", "TokenFor-", "x"})
				prog = append(prog, &Op{Kind: "checktoken", Name: t, Key: []byte(tok)})
			}
			write = false
		case 12:
			prog = append(prog, &Op{Kind: "gc", Name: t})
			g.passed = true
		case 13:
			prog = append(prog, &Op{Kind: "clock", N: core.Pick(g.R, Clocks)})
			write = false
		case 14:
			prog = append(prog, &Op{Kind: "rand", N: core.Pick(g.R, []int64{100, 600, 0, 999})})
			write = false
		case 15:
			// interleaved writes: SetCell on rows that exist (no structural change of the row set)
			o := &Op{Kind: "gcw", Name: big}
			t = big
			for j := 0; j < 1+g.R.Intn(3); j++ {
				ki := g.R.Intn(g.P.Big)
				if g.passed {
					for ki%3 == 1 { // rows that live in family g only may have been deleted by an earlier pass
						ki = g.R.Intn(g.P.Big)
					}
				} else if g.R.Chance(1, 2) {
					ki = 1 + 3*g.R.Intn(33) // a g-only row among the first hundred: visited before the first reversal
				}
				k := []byte(fmt.Sprintf("r%04d", ki))
				var ms []Mut
				for x := 0; x < 1+g.R.Intn(2); x++ {
					ms = append(ms, Mut{Kind: "set", Fam: core.Pick(g.R, Fams), Qual: core.Pick(g.R, Quals[:3]), TS: core.Pick(g.R, GoodTS[:5]), Val: core.Pick(g.R, Values[:4])})
				}
				o.Entries = append(o.Entries, Entry{Key: k, Muts: ms})
			}
			prog = append(prog, o)
			g.passed = true
		case 16:
			// time passes for the table (well away from the five-minute threshold: the requests in between
			// take real time too), then — usually — the background pass is tried and the table looked at
			if g.R.Chance(4, 5) {
				const minute = int64(60e9)
				prog = append(prog, &Op{Kind: "idle", Name: t, N: core.Pick(g.R, []int64{1 * minute, 2 * minute, 4 * minute, 6 * minute, 6 * minute, 11 * minute})})
			}
			if g.R.Chance(3, 4) {
				prog = append(prog, &Op{Kind: "trygc", Name: t})
				// looking at the table is a read: it resets the read stamp (as it would in production)
				if g.R.Chance(1, 2) {
					prog = append(prog, g.fullRead(t))
				}
			}
			write = false
		}
		if write && p.ReadAfterWrite {
			if g.R.Chance(3, 4) {
				prog = append(prog, g.fullRead(t))
			} else {
				prog = append(prog, &Op{Kind: "read", Name: t, Keys: [][]byte{g.key()}})
			}
		}
	}
	// final dump of every table
	for _, t := range g.tables {
		prog = append(prog, g.fullRead(t), &Op{Kind: "get", Name: t})
	}
	return prog
}
