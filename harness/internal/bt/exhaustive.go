package bt

import (
	"verif/harness/internal/core"
)

// Exhaustive enumerations. The int argument caps the number of *cases* (<= 0: the whole space);
// a cap samples the space evenly from the seed.
var Exhaustive = map[string]func(seed uint64, n int) [][]core.Op{
	"c03x": exhaustiveRowSets,
	"c05x": exhaustiveFilters,
}

// C03: every RowSet of up to two ranges (each bound unset/open/closed over the 7 adversarial
// keys) combined with no key or one of the 7 keys, on the table that holds all 7 rows.
var c03Keys = [][]byte{[]byte("a"), {'a', 0}, {'a', 0, 0}, []byte("ab"), []byte("b"), {0}, {0xff}}

func allBounds() []Bound {
	bs := []Bound{{Kind: 'u'}}
	for _, k := range c03Keys {
		bs = append(bs, Bound{Kind: 'o', K: k}, Bound{Kind: 'c', K: k})
	}
	return bs
}

func exhaustiveRowSets(seed uint64, n int) [][]core.Op {
	table := TableName("p", "t")
	setup := func() []core.Op {
		ops := []core.Op{&Op{Kind: "rand", N: 500}, &Op{Kind: "clock", N: 1000},
			&Op{Kind: "create", Parent: "p", ID: "t", Fams: []FamDef{{Name: "f"}, {Name: "g"}}}}
		var entries []Entry
		for i, k := range c03Keys {
			entries = append(entries, Entry{Key: k, Muts: []Mut{{Kind: "set", Fam: Fams[i%2], Qual: []byte("q"), TS: 1000, Val: []byte{byte('0' + i)}}}})
		}
		return append(ops, &Op{Kind: "mutaterows", Name: table, Entries: entries})
	}
	bs := allBounds()
	var ranges [][2]Bound
	for _, s := range bs {
		for _, e := range bs {
			ranges = append(ranges, [2]Bound{s, e})
		}
	}
	keyChoices := append([][]byte{nil}, c03Keys...)
	total := len(ranges)*len(ranges)*len(keyChoices) + len(ranges)*len(keyChoices)
	stride := 1
	if n > 0 && total > n {
		stride = total / n
	}
	r := core.NewRng(seed)
	offset := 0
	if stride > 1 {
		offset = r.Intn(stride)
	}
	var progs [][]core.Op
	cur := setup()
	idx := 0
	emit := func(o *Op) {
		if (idx+offset)%stride == 0 {
			cur = append(cur, o)
			if len(cur) >= 600 {
				progs = append(progs, cur)
				cur = setup()
			}
		}
		idx++
	}
	limits := []int64{0, 0, 0, 1, 2, 5}
	for _, kc := range keyChoices {
		var keys [][]byte
		if kc != nil {
			keys = [][]byte{kc}
		}
		for _, r1 := range ranges {
			emit(&Op{Kind: "read", Name: table, Keys: keys, Ranges: [][2]Bound{r1}, Limit: limits[idx%len(limits)]})
		}
		for _, r1 := range ranges {
			for _, r2 := range ranges {
				emit(&Op{Kind: "read", Name: table, Keys: keys, Ranges: [][2]Bound{r1, r2}, Limit: limits[idx%len(limits)]})
			}
		}
	}
	if len(cur) > 4 {
		progs = append(progs, cur)
	}
	return progs
}

// C05: every leaf filter over its boundary arguments, and all depth-2 compositions
// (chain / interleave / condition) of a leaf basis, on a 4-row x 2-family x 3-column x 3-version
// table with binary qualifiers.
func leafBasis(full bool) []*Filter {
	var fs []*Filter
	for _, b := range []bool{true, false} {
		fs = append(fs, &Filter{Kind: "pass", Flag: b}, &Filter{Kind: "block", Flag: b})
	}
	counts := []int64{-1, 0, 1, 2, 100}
	for _, c := range counts {
		fs = append(fs, &Filter{Kind: "rowlim", N: c}, &Filter{Kind: "rowoff", N: c}, &Filter{Kind: "collim", N: c})
	}
	quals := [][]byte{{}, []byte("a"), {'a', 0xff}}
	bounds := func(u [][]byte) []Bound {
		out := []Bound{{Kind: 'u'}}
		for _, k := range u[:2] {
			out = append(out, Bound{Kind: 'o', K: k}, Bound{Kind: 'c', K: k})
		}
		return out
	}
	for _, s := range bounds(quals[1:]) {
		for _, e := range bounds(quals[1:]) {
			fs = append(fs, &Filter{Kind: "colrange", Fam: "f", SB: s, EB: e})
			if full {
				fs = append(fs, &Filter{Kind: "valrange", SB: Bound{Kind: s.Kind, K: []byte("v")}, EB: Bound{Kind: e.Kind, K: []byte("w")}})
			}
		}
	}
	for _, s := range []int64{0, 1000, 1500} {
		for _, e := range []int64{0, 2000, 2500} {
			fs = append(fs, &Filter{Kind: "ts", S: s, E: e})
		}
	}
	lit := func(b ...byte) *Regex {
		var r *Regex
		for _, x := range b {
			l := &Regex{Kind: "b", B: x}
			if r == nil {
				r = l
			} else {
				r = &Regex{Kind: "cat", X: r, Y: l}
			}
		}
		if r == nil {
			return &Regex{Kind: "eps"}
		}
		return r
	}
	rxs := []*Rx{{Re: lit('a')}, {Re: &Regex{Kind: "cat", X: lit('a'), Y: &Regex{Kind: "star", X: &Regex{Kind: "any"}}}}, {Re: &Regex{Kind: "star", X: &Regex{Kind: "dot"}}}, {Re: lit()}, {Re: lit('a', 0xff)}, {Bad: []byte("(")}}
	for _, rx := range rxs {
		fs = append(fs, &Filter{Kind: "rowre", Rx: rx}, &Filter{Kind: "qualre", Rx: rx}, &Filter{Kind: "valre", Rx: rx})
	}
	fs = append(fs, &Filter{Kind: "famre", Rx: &Rx{Re: lit('f')}}, &Filter{Kind: "famre", Rx: &Rx{Re: &Regex{Kind: "alt", X: lit('f'), Y: lit('g')}}})
	fs = append(fs, &Filter{Kind: "strip"}, &Filter{Kind: "label", Label: "l"}, &Filter{Kind: "label", Label: "A"})
	for _, p := range []int64{0, 250, 750, 1000} {
		fs = append(fs, &Filter{Kind: "sample", PMilli: p})
	}
	return fs
}

func exhaustiveFilters(seed uint64, n int) [][]core.Op {
	table := TableName("p", "t")
	rowKeys := [][]byte{[]byte("a"), {'a', 0xff}, []byte("ab"), []byte("b")}
	quals := [][]byte{{}, []byte("a"), {'a', 0xff}}
	setup := func() []core.Op {
		ops := []core.Op{&Op{Kind: "rand", N: 500}, &Op{Kind: "clock", N: 1000},
			&Op{Kind: "create", Parent: "p", ID: "t", Fams: []FamDef{{Name: "f"}, {Name: "g"}}}}
		var entries []Entry
		for i, k := range rowKeys {
			var ms []Mut
			for fi, f := range Fams {
				for qi, q := range quals {
					for v := 0; v < 3; v++ {
						if (i+fi+qi+v)%5 == 4 {
							continue
						}
						val := [][]byte{[]byte("v"), []byte("w"), {}, []byte("vw")}[(i+qi+v)%4]
						ms = append(ms, Mut{Kind: "set", Fam: f, Qual: q, TS: int64(1000 * (v + 1)), Val: val})
					}
				}
			}
			entries = append(entries, Entry{Key: k, Muts: ms})
		}
		return append(ops, &Op{Kind: "mutaterows", Name: table, Entries: entries})
	}
	leaves := leafBasis(true)
	basis := leafBasis(false)
	var trees []*Filter
	trees = append(trees, leaves...)
	for _, a := range basis {
		for _, b := range basis {
			trees = append(trees, &Filter{Kind: "chain", Subs: []*Filter{a, b}}, &Filter{Kind: "inter", Subs: []*Filter{a, b}})
		}
	}
	small := basis
	if len(small) > 24 {
		// conditions: predicate x true x false over a thinner basis (every 3rd), incl. absent branches
		var thin []*Filter
		for i, f := range basis {
			if i%3 == 0 {
				thin = append(thin, f)
			}
		}
		small = thin
	}
	for _, p := range basis {
		for _, t := range append([]*Filter{nil}, small...) {
			for _, e := range append([]*Filter{nil}, small[:len(small)/2]...) {
				trees = append(trees, &Filter{Kind: "cond", P: p, T: t, F: e})
			}
		}
	}
	stride := 1
	if n > 0 && len(trees) > n {
		stride = len(trees) / n
	}
	r := core.NewRng(seed)
	offset := 0
	if stride > 1 {
		offset = r.Intn(stride)
	}
	var progs [][]core.Op
	cur := setup()
	for i, f := range trees {
		if (i+offset)%stride != 0 {
			continue
		}
		cur = append(cur, &Op{Kind: "read", Name: table, Filter: f})
		if len(cur) >= 400 {
			progs = append(progs, cur)
			cur = setup()
		}
	}
	if len(cur) > 4 {
		progs = append(progs, cur)
	}
	return progs
}
