package bt

import (
	"time"
	"context"
	"fmt"
	"os"
	"sort"
	"strings"

	"cloud.google.com/go/bigtable"
	btapb "cloud.google.com/go/bigtable/admin/apiv2/adminpb"
	btpb "cloud.google.com/go/bigtable/apiv2/bigtablepb"
	"github.com/fullstorydev/emulators/bigtable/bttest"
	"google.golang.org/grpc"
	"google.golang.org/grpc/codes"
	"google.golang.org/grpc/metadata"
	"google.golang.org/grpc/status"

	"verif/harness/internal/core"
)

// Op is one Bigtable request (or harness control line).
type Op struct {
	Kind    string
	Parent  string
	ID      string
	Name    string // full table name
	Fams    []FamDef
	Mods    []FamMod
	Target  string // droprange: all pfx unset
	Prefix  []byte
	Key     []byte
	Muts    []Mut
	Entries []Entry
	Pred    *Filter
	TM, FM  []Mut
	Rules   []RmwRule
	Keys    [][]byte
	Ranges  [][2]Bound
	Limit   int64
	Filter  *Filter
	FailAt  int   // read: the FailAt-th stream.Send returns an error (0 = never)
	N       int64 // clock / rand
}

type FamDef struct {
	Name string
	Rule *Rule
}

type FamMod struct {
	Kind string // create update drop noop
	ID   string
	Rule *Rule
}

type Entry struct {
	Key  []byte
	Muts []Mut
}

type RmwRule struct {
	Kind string // app inc unk
	Fam  string
	Qual []byte
	Val  []byte
	Amt  int64
}

func TableName(parent, id string) string { return parent + "/tables/" + id }

func (o *Op) Line() string {
	switch o.Kind {
	case "clock", "rand":
		return fmt.Sprintf("bt %s %d", o.Kind, o.N)
	case "create":
		parts := []string{"bt create", hs(o.Parent), hs(o.ID), fmt.Sprint(len(o.Fams))}
		for _, f := range o.Fams {
			parts = append(parts, hs(f.Name), f.Rule.Line())
		}
		return strings.Join(parts, " ")
	case "delete", "list", "get", "keys", "gc", "trygc":
		return "bt " + o.Kind + " " + hs(o.Name)
	case "idle":
		return fmt.Sprintf("bt idle %s %d", hs(o.Name), o.N)
	case "gentoken":
		return "bt gentoken " + hs(o.Name)
	case "checktoken":
		return "bt checktoken " + hs(o.Name) + " " + hx(o.Key)
	case "modify":
		parts := []string{"bt modify", hs(o.Name), fmt.Sprint(len(o.Mods))}
		for _, m := range o.Mods {
			switch m.Kind {
			case "create", "update":
				parts = append(parts, m.Kind, hs(m.ID), m.Rule.Line())
			case "nodrop":
				// `drop: false` on the wire: the same no-op as a modification with nothing set
				parts = append(parts, "noop", hs(m.ID))
			default:
				parts = append(parts, m.Kind, hs(m.ID))
			}
		}
		return strings.Join(parts, " ")
	case "droprange":
		if o.Target == "pfx" {
			return "bt droprange " + hs(o.Name) + " pfx " + hx(o.Prefix)
		}
		return "bt droprange " + hs(o.Name) + " " + o.Target
	case "mutate":
		return "bt mutate " + hs(o.Name) + " " + hx(o.Key) + " " + mutsLine(o.Muts)
	case "mutaterows", "gcw":
		parts := []string{"bt " + o.Kind, hs(o.Name), fmt.Sprint(len(o.Entries))}
		for _, e := range o.Entries {
			parts = append(parts, hx(e.Key), mutsLine(e.Muts))
		}
		return strings.Join(parts, " ")
	case "cam":
		return "bt cam " + hs(o.Name) + " " + hx(o.Key) + " " + o.Pred.Line() + " " + mutsLine(o.TM) + " " + mutsLine(o.FM)
	case "rmw":
		parts := []string{"bt rmw", hs(o.Name), hx(o.Key), fmt.Sprint(len(o.Rules))}
		for _, r := range o.Rules {
			switch r.Kind {
			case "app":
				parts = append(parts, "app", hs(r.Fam), hx(r.Qual), hx(r.Val))
			case "inc":
				parts = append(parts, "inc", hs(r.Fam), hx(r.Qual), fmt.Sprint(r.Amt))
			default:
				parts = append(parts, "unk", hs(r.Fam), hx(r.Qual))
			}
		}
		return strings.Join(parts, " ")
	case "read":
		parts := []string{"bt read", hs(o.Name), fmt.Sprint(len(o.Keys))}
		if o.FailAt > 0 {
			parts = []string{"bt readf", hs(o.Name), fmt.Sprint(o.FailAt), fmt.Sprint(len(o.Keys))}
		}
		for _, k := range o.Keys {
			parts = append(parts, hx(k))
		}
		parts = append(parts, fmt.Sprint(len(o.Ranges)))
		for _, r := range o.Ranges {
			parts = append(parts, r[0].Line(), r[1].Line())
		}
		parts = append(parts, fmt.Sprint(o.Limit), o.Filter.Line())
		return strings.Join(parts, " ")
	}
	panic("op kind " + o.Kind)
}

// ---------- executor ----------

// Env is one fresh service instance.
type Env struct {
	svc    *bttest.VerifService
	now    int64
	tmpdir string
}

// Engines lists the three storage engines as configurations.
func Engines(which string) []core.Config {
	all := []core.Config{
		{Name: "btree", New: func() core.Impl { return NewEnv("btree", "") }},
		{Name: "leveldb-mem", New: func() core.Impl { return NewEnv("leveldb-mem", "") }},
		{Name: "leveldb-disk", New: func() core.Impl { return NewEnv("leveldb-disk", "") }},
	}
	if which == "" || which == "all" {
		return all
	}
	var out []core.Config
	for _, c := range all {
		if strings.Contains(","+which+",", ","+c.Name+",") {
			out = append(out, c)
		}
	}
	return out
}

func ScratchRoot() string {
	if d := os.Getenv("VERIF_SCRATCH"); d != "" {
		return d
	}
	return "/var/tmp"
}

func NewEnv(engine, dir string) *Env {
	e := &Env{}
	var st bttest.Storage
	switch engine {
	case "btree":
		st = bttest.BtreeStorage{}
	case "leveldb-mem":
		st = bttest.LeveldbMemStorage{}
	case "leveldb-disk":
		if dir == "" {
			d, err := os.MkdirTemp(ScratchRoot(), "verif-bt-")
			if err != nil {
				panic(err)
			}
			e.tmpdir = d
			dir = d
		}
		st = bttest.LeveldbDiskStorage{Root: dir}
	default:
		panic("engine " + engine)
	}
	e.svc = bttest.NewVerifService(st, func() bigtable.Timestamp { return bigtable.Timestamp(e.now) })
	return e
}

func (e *Env) Close() {
	// Close takes every table's lock: a lock leaked by the implementation must not wedge the harness
	// (the leak itself is reported where a request waits for it)
	done := make(chan struct{})
	go func() { e.svc.Close(); close(done) }()
	select {
	case <-done:
	case <-time.After(10 * time.Second):
	}
	if e.tmpdir != "" {
		os.RemoveAll(e.tmpdir)
	}
}

func errResp(err error) string {
	switch status.Code(err) {
	case codes.NotFound:
		return "err notfound"
	case codes.InvalidArgument:
		return "err invalid"
	case codes.AlreadyExists:
		return "err exists"
	default:
		return "err other"
	}
}

type fakeStream struct{ ctx context.Context }

func (f *fakeStream) SetHeader(metadata.MD) error  { return nil }
func (f *fakeStream) SendHeader(metadata.MD) error { return nil }
func (f *fakeStream) SetTrailer(metadata.MD)       {}
func (f *fakeStream) Context() context.Context     { return f.ctx }
func (f *fakeStream) SendMsg(m any) error          { return nil }
func (f *fakeStream) RecvMsg(m any) error          { return nil }

var _ grpc.ServerStream = (*fakeStream)(nil)

// ReadStream collects ReadRows responses; OnSend (if set) runs inside Send, i.e. exactly while the
// scan has released the table lock.
type ReadStream struct {
	fakeStream
	Msgs   []*btpb.ReadRowsResponse
	OnSend func(n int)
	FailAt int
	calls  int
}

func (s *ReadStream) Send(r *btpb.ReadRowsResponse) error {
	s.calls++
	if s.FailAt > 0 && s.calls == s.FailAt {
		return status.Error(codes.Unavailable, "injected transport failure")
	}
	s.Msgs = append(s.Msgs, r)
	if s.OnSend != nil {
		s.OnSend(len(s.Msgs))
	}
	return nil
}

type mutateRowsStream struct {
	fakeStream
	msgs []*btpb.MutateRowsResponse
}

func (s *mutateRowsStream) Send(r *btpb.MutateRowsResponse) error {
	s.msgs = append(s.msgs, r)
	return nil
}

type sampleStream struct {
	fakeStream
	msgs []*btpb.SampleRowKeysResponse
}

func (s *sampleStream) Send(r *btpb.SampleRowKeysResponse) error {
	s.msgs = append(s.msgs, r)
	return nil
}

// DCell / DRow are decoded rows.
type DCell struct {
	Fam    string
	Qual   []byte
	TS     int64
	Val    []byte
	Labels []string
}
type DRow struct {
	Key   []byte
	Cells []DCell
}

// DecodeChunks is the client-side state machine; it also checks that the stream is well formed.
func DecodeChunks(msgs []*btpb.ReadRowsResponse) ([]DRow, string) {
	var rows []DRow
	var cur *DRow
	var fam *string
	var qual []byte
	haveQual := false
	for _, m := range msgs {
		if len(m.Chunks) == 0 {
			return nil, "empty response message"
		}
		for _, c := range m.Chunks {
			if len(c.RowKey) > 0 {
				if cur != nil {
					return nil, "new row key before commit of the previous row"
				}
				cur = &DRow{Key: c.RowKey}
				fam, haveQual = nil, false
				if c.FamilyName == nil || c.Qualifier == nil {
					return nil, "row does not start with family and qualifier"
				}
			} else if cur == nil {
				return nil, "chunk belongs to no row"
			}
			if c.FamilyName != nil {
				v := c.FamilyName.Value
				fam = &v
				if c.Qualifier == nil {
					return nil, "family without qualifier"
				}
			}
			if c.Qualifier != nil {
				qual = c.Qualifier.Value
				haveQual = true
			}
			if fam == nil || !haveQual {
				return nil, "cell without family/qualifier"
			}
			if c.GetResetRow() {
				return nil, "unexpected reset_row"
			}
			cur.Cells = append(cur.Cells, DCell{Fam: *fam, Qual: qual, TS: c.TimestampMicros, Val: c.Value, Labels: c.Labels})
			if c.GetCommitRow() {
				rows = append(rows, *cur)
				cur = nil
			}
		}
	}
	if cur != nil {
		return nil, "last row has no commit"
	}
	return rows, ""
}

func labelsStr(ls []string) string {
	var parts []string
	for _, l := range ls {
		parts = append(parts, hs(l))
	}
	return strings.Join(parts, ",")
}

// ShowCells renders a row canonically: families by name, columns in emitted order (qualifier
// ascending is what the Model prescribes), equal-timestamp cells ordered by (value, labels).
func ShowCells(key []byte, cells []DCell) string {
	type col struct {
		fam   string
		qual  []byte
		cells []DCell
	}
	var cols []*col
	for _, c := range cells {
		if n := len(cols); n > 0 && cols[n-1].fam == c.Fam && string(cols[n-1].qual) == string(c.Qual) {
			cols[n-1].cells = append(cols[n-1].cells, c)
		} else {
			cols = append(cols, &col{fam: c.Fam, qual: c.Qual, cells: []DCell{c}})
		}
	}
	sort.SliceStable(cols, func(i, j int) bool { return cols[i].fam < cols[j].fam })
	var sb strings.Builder
	sb.WriteString(hx(key))
	for _, c := range cols {
		cs := append([]DCell{}, c.cells...)
		// stable insertion sort by the Model's cellLe
		le := func(a, b DCell) bool {
			if a.TS != b.TS {
				return a.TS >= b.TS
			}
			if string(a.Val) != string(b.Val) {
				return string(a.Val) <= string(b.Val)
			}
			return hexList(a.Labels) <= hexList(b.Labels)
		}
		sorted := make([]DCell, 0, len(cs))
		for i := len(cs) - 1; i >= 0; i-- { // mirrors sortBy (insert head into sorted tail)
			x := cs[i]
			k := 0
			for k < len(sorted) && le(sorted[k], x) {
				k++
			}
			sorted = append(sorted, DCell{})
			copy(sorted[k+1:], sorted[k:])
			sorted[k] = x
		}
		for _, cell := range sorted {
			fmt.Fprintf(&sb, " %s/%s@%d=%s#%s", hs(c.fam), hx(c.qual), cell.TS, hx(cell.Val), labelsStr(cell.Labels))
		}
	}
	return sb.String()
}

func hexList(ls []string) string {
	// comparison key compatible with Lean's `List String` order on hex renderings
	var parts []string
	for _, l := range ls {
		parts = append(parts, hs(l))
	}
	return strings.Join(parts, "\x00")
}

func rowToCells(r *btpb.Row) []DCell {
	var out []DCell
	for _, f := range r.GetFamilies() {
		for _, c := range f.Columns {
			for _, cell := range c.Cells {
				out = append(out, DCell{Fam: f.Name, Qual: c.Qualifier, TS: cell.TimestampMicros, Val: cell.Value, Labels: cell.Labels})
			}
		}
	}
	return out
}

func showSchema(t *btapb.Table) string {
	var names []string
	for n := range t.GetColumnFamilies() {
		names = append(names, n)
	}
	sort.Strings(names)
	var parts []string
	for _, n := range names {
		parts = append(parts, hs(n)+"="+ShowRule(t.ColumnFamilies[n].GetGcRule()))
	}
	return "schema " + strings.Join(parts, " ")
}

// ReadReq builds the real request for a read op.
func (o *Op) ReadReq() *btpb.ReadRowsRequest {
	req := &btpb.ReadRowsRequest{TableName: o.Name, RowsLimit: o.Limit, Filter: o.Filter.Proto()}
	if len(o.Keys)+len(o.Ranges) > 0 {
		rs := &btpb.RowSet{}
		for _, k := range o.Keys {
			rs.RowKeys = append(rs.RowKeys, append([]byte{}, k...))
		}
		for _, r := range o.Ranges {
			rr := &btpb.RowRange{}
			switch r[0].Kind {
			case 'o':
				rr.StartKey = &btpb.RowRange_StartKeyOpen{StartKeyOpen: append([]byte{}, r[0].K...)}
			case 'c':
				rr.StartKey = &btpb.RowRange_StartKeyClosed{StartKeyClosed: append([]byte{}, r[0].K...)}
			}
			switch r[1].Kind {
			case 'o':
				rr.EndKey = &btpb.RowRange_EndKeyOpen{EndKeyOpen: append([]byte{}, r[1].K...)}
			case 'c':
				rr.EndKey = &btpb.RowRange_EndKeyClosed{EndKeyClosed: append([]byte{}, r[1].K...)}
			}
			rs.RowRanges = append(rs.RowRanges, rr)
		}
		req.Rows = rs
	}
	return req
}

func ShowRows(rows []DRow) string {
	var sb strings.Builder
	fmt.Fprintf(&sb, "rows %d", len(rows))
	for _, r := range rows {
		sb.WriteString(" | ")
		sb.WriteString(ShowCells(r.Key, r.Cells))
	}
	return sb.String()
}

// Exec runs one op against the real service and renders the canonical response.
func (e *Env) Exec(cop core.Op) (resp string) {
	o := cop.(*Op)
	defer func() {
		if r := recover(); r != nil {
			resp = fmt.Sprintf("PANIC %v", r)
		}
	}()
	ctx := context.Background()
	data, admin := e.svc.Data(), e.svc.Admin()
	switch o.Kind {
	case "clock":
		e.now = o.N
		return "ok"
	case "rand":
		v := float64(o.N) / 1000
		bttest.VerifSetRandFloat(func() float64 { return v })
		return "ok"
	case "create":
		tbl := &btapb.Table{ColumnFamilies: map[string]*btapb.ColumnFamily{}}
		for _, f := range o.Fams {
			tbl.ColumnFamilies[f.Name] = &btapb.ColumnFamily{GcRule: f.Rule.Proto()}
		}
		t, err := admin.CreateTable(ctx, &btapb.CreateTableRequest{Parent: o.Parent, TableId: o.ID, Table: tbl})
		if err != nil {
			return errResp(err)
		}
		if t.Name != TableName(o.Parent, o.ID) {
			return "created-wrong-name " + t.Name
		}
		return showSchema(t)
	case "delete":
		if _, err := admin.DeleteTable(ctx, &btapb.DeleteTableRequest{Name: o.Name}); err != nil {
			return errResp(err)
		}
		return "ok"
	case "list":
		r, err := admin.ListTables(ctx, &btapb.ListTablesRequest{Parent: o.Name})
		if err != nil {
			return errResp(err)
		}
		var names []string
		for _, t := range r.Tables {
			names = append(names, t.Name)
		}
		sort.Strings(names)
		s := fmt.Sprintf("names %d", len(names))
		for _, n := range names {
			s += " " + hs(n)
		}
		return s
	case "get":
		t, err := admin.GetTable(ctx, &btapb.GetTableRequest{Name: o.Name})
		if err != nil {
			return errResp(err)
		}
		return showSchema(t)
	case "modify":
		req := &btapb.ModifyColumnFamiliesRequest{Name: o.Name}
		for _, m := range o.Mods {
			mod := &btapb.ModifyColumnFamiliesRequest_Modification{Id: m.ID}
			switch m.Kind {
			case "create":
				mod.Mod = &btapb.ModifyColumnFamiliesRequest_Modification_Create{Create: &btapb.ColumnFamily{GcRule: m.Rule.Proto()}}
			case "update":
				mod.Mod = &btapb.ModifyColumnFamiliesRequest_Modification_Update{Update: &btapb.ColumnFamily{GcRule: m.Rule.Proto()}}
			case "drop":
				mod.Mod = &btapb.ModifyColumnFamiliesRequest_Modification_Drop{Drop: true}
			case "nodrop":
				mod.Mod = &btapb.ModifyColumnFamiliesRequest_Modification_Drop{Drop: false}
			}
			req.Modifications = append(req.Modifications, mod)
		}
		t, err := admin.ModifyColumnFamilies(ctx, req)
		if err != nil {
			return errResp(err)
		}
		return showSchema(t)
	case "droprange":
		req := &btapb.DropRowRangeRequest{Name: o.Name}
		switch o.Target {
		case "all":
			req.Target = &btapb.DropRowRangeRequest_DeleteAllDataFromTable{DeleteAllDataFromTable: true}
		case "pfx":
			req.Target = &btapb.DropRowRangeRequest_RowKeyPrefix{RowKeyPrefix: append([]byte{}, o.Prefix...)}
		}
		if _, err := admin.DropRowRange(ctx, req); err != nil {
			return errResp(err)
		}
		return "ok"
	case "mutate":
		_, err := data.MutateRow(ctx, &btpb.MutateRowRequest{TableName: o.Name, RowKey: append([]byte{}, o.Key...), Mutations: mutsProto(o.Muts)})
		if err != nil {
			return errResp(err)
		}
		return "ok"
	case "mutaterows":
		req := &btpb.MutateRowsRequest{TableName: o.Name}
		for _, en := range o.Entries {
			req.Entries = append(req.Entries, &btpb.MutateRowsRequest_Entry{RowKey: append([]byte{}, en.Key...), Mutations: mutsProto(en.Muts)})
		}
		st := &mutateRowsStream{fakeStream: fakeStream{ctx}}
		if err := data.MutateRows(req, st); err != nil {
			return errResp(err)
		}
		flags := make([]string, len(req.Entries))
		seen := 0
		for _, m := range st.msgs {
			for _, en := range m.Entries {
				if en.Index < 0 || int(en.Index) >= len(flags) || flags[en.Index] != "" {
					return "malformed mutaterows response"
				}
				if en.Status.GetCode() == 0 {
					flags[en.Index] = "1"
				} else {
					flags[en.Index] = "0"
				}
				seen++
			}
		}
		if seen != len(flags) {
			return "malformed mutaterows response"
		}
		if len(flags) == 0 {
			return "st"
		}
		return "st " + strings.Join(flags, " ")
	case "cam":
		r, err := data.CheckAndMutateRow(ctx, &btpb.CheckAndMutateRowRequest{TableName: o.Name, RowKey: append([]byte{}, o.Key...),
			PredicateFilter: o.Pred.Proto(), TrueMutations: mutsProto(o.TM), FalseMutations: mutsProto(o.FM)})
		if err != nil {
			return errResp(err)
		}
		return fmt.Sprintf("matched %d", b2i(r.PredicateMatched))
	case "rmw":
		req := &btpb.ReadModifyWriteRowRequest{TableName: o.Name, RowKey: append([]byte{}, o.Key...)}
		for _, r := range o.Rules {
			rule := &btpb.ReadModifyWriteRule{FamilyName: r.Fam, ColumnQualifier: r.Qual}
			switch r.Kind {
			case "app":
				rule.Rule = &btpb.ReadModifyWriteRule_AppendValue{AppendValue: r.Val}
			case "inc":
				rule.Rule = &btpb.ReadModifyWriteRule_IncrementAmount{IncrementAmount: r.Amt}
			}
			req.Rules = append(req.Rules, rule)
		}
		r, err := data.ReadModifyWriteRow(ctx, req)
		if err != nil {
			return errResp(err)
		}
		return "row " + ShowCells(r.GetRow().GetKey(), rowToCells(r.GetRow()))
	case "read":
		st := &ReadStream{fakeStream: fakeStream{ctx}, FailAt: o.FailAt}
		if err := data.ReadRows(o.ReadReq(), st); err != nil {
			return errResp(err)
		}
		rows, bad := DecodeChunks(st.Msgs)
		Judges.Stream(st.Msgs, rows, bad)
		if bad != "" {
			return "malformed chunk stream: " + bad
		}
		return ShowRows(rows)
	case "keys":
		// SampleRowKeys draws at random (1 in 100 per row): ask many times, keep the distinct answers
		seen := map[string]bool{}
		var answers []string
		for i := 0; i < sampleCalls; i++ {
			st := &sampleStream{fakeStream: fakeStream{ctx}}
			if err := data.SampleRowKeys(&btpb.SampleRowKeysRequest{TableName: o.Name}, st); err != nil {
				return errResp(err)
			}
			s := fmt.Sprintf("sample %d", len(st.msgs))
			for _, m := range st.msgs {
				s += fmt.Sprintf(" %s:%d", hx(m.RowKey), m.OffsetBytes)
			}
			if !seen[s] {
				seen[s] = true
				answers = append(answers, s)
			}
		}
		sort.Strings(answers)
		return strings.Join(answers, " || ")
	case "gcw":
		// A GC pass during which the i-th lock reversal lets the i-th write through.
		next := 0
		var flags []string
		bttest.VerifYield = func(point string) {
			if point != "gc.unlocked" || next >= len(o.Entries) {
				return
			}
			en := o.Entries[next]
			next++
			_, err := data.MutateRow(ctx, &btpb.MutateRowRequest{TableName: o.Name, RowKey: append([]byte{}, en.Key...), Mutations: mutsProto(en.Muts)})
			if err != nil {
				flags = append(flags, "0")
			} else {
				flags = append(flags, "1")
			}
		}
		defer func() { bttest.VerifYield = nil }()
		if !e.svc.ForceGC(o.Name) {
			return "err notfound"
		}
		if len(flags) == 0 {
			return "st"
		}
		return "st " + strings.Join(flags, " ")
	case "gc":
		if !e.svc.ForceGC(o.Name) {
			return "err notfound"
		}
		return "ok"
	case "gentoken":
		r, err := admin.GenerateConsistencyToken(ctx, &btapb.GenerateConsistencyTokenRequest{Name: o.Name})
		if err != nil {
			return errResp(err)
		}
		return "ok " + hs(r.ConsistencyToken)
	case "checktoken":
		r, err := admin.CheckConsistency(ctx, &btapb.CheckConsistencyRequest{Name: o.Name, ConsistencyToken: string(o.Key)})
		if err != nil {
			return errResp(err)
		}
		if !r.Consistent {
			return "inconsistent"
		}
		return "ok"
	case "idle":
		// N nanoseconds pass for this table (its activity stamps are real time)
		if !e.svc.Idle(o.Name, time.Duration(o.N)) {
			return "err notfound"
		}
		return "ok"
	case "trygc":
		// the background loop's pass: only a table written and then left alone is collected
		if !e.svc.TryGC(o.Name) {
			return "err notfound"
		}
		return "ok"
	}
	panic("exec kind " + o.Kind)
}

// sampleCalls: how often one `keys` op asks SampleRowKeys (each row is drawn with probability 1/100).
const sampleCalls = 400

// Accept: string equality, except that SampleRowKeys is checked against its relation: each answer
// must be an answer of the Model's loop for some sequence of random draws (sampleExplained; the same
// verdict is asked of the Lean judge after the run).
func Accept(cop core.Op, impl, model string) bool {
	o := cop.(*Op)
	if o.Kind == "trygc" && impl == "ok" {
		// the Model adds whether the pass ran (visible in what is read afterwards, not in this answer)
		return model == "ok ran" || model == "ok skipped"
	}
	if o.Kind != "keys" || !strings.HasPrefix(impl, "sample ") || !strings.HasPrefix(model, "keys ") {
		return impl == model
	}
	rows := parseKS(strings.Fields(model)[2:])
	ok := true
	for _, ans := range strings.Split(impl, " || ") {
		f := strings.Fields(ans)
		if len(f) < 2 || f[0] != "sample" {
			return false
		}
		out := parseKS(f[2:])
		v := sampleExplained(rows, out)
		Judges.Sample(rows, out, v)
		ok = ok && v
	}
	return ok
}
