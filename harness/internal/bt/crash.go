package bt

import (
	"strings"
	"fmt"
	"io"
	"os"
	"path/filepath"

	"github.com/fullstorydev/emulators/bigtable/bttest"

	"verif/harness/internal/core"
)

// CrashProgram is tie T4 for C08: a request program on the disk engine; a point-in-time image of the
// directory is taken at every request boundary and at every instrumented point inside the
// persistence code, a fresh service is started on each image and its whole observable state is
// compared with the Model's state before / after the request in flight.
type CrashProgram struct {
	Ops []*Op `json:"ops"`
	// Restarts: after these op indices the service is killed and the program continues on a
	// fresh service started on the image (repeated crash-restart cycles).
	Restarts []int `json:"restarts"`
	// Kills: the process is killed INSIDE request Op, at the Nth instrumented point it passes (if it
	// passes that many), and the program continues on a fresh service started on the image taken
	// there — with the request either wholly present or wholly absent, whichever the image shows.
	Kills []Kill `json:"kills,omitempty"`
	// KilledAt is filled in by a run: where the kills took effect.
	KilledAt []string `json:"killed_at,omitempty"`
}

type Kill struct {
	Op  int `json:"op"`
	Nth int `json:"nth"`
}

// crashTables: every table a generated program can name.
func crashTables() (out []string) {
	for _, p := range Parents {
		for _, id := range append(append([]string{}, IDs...), Profiles["c08"].ExtraIDs...) {
			out = append(out, TableName(p, id))
		}
	}
	return
}

// DumpOps read everything a client can observe.
func DumpOps() []*Op {
	var ops []*Op
	for _, p := range Parents {
		ops = append(ops, &Op{Kind: "list", Name: p})
	}
	for _, t := range crashTables() {
		ops = append(ops, &Op{Kind: "get", Name: t}, &Op{Kind: "read", Name: t})
	}
	return ops
}

func copyDir(src, dst string) error {
	return filepath.Walk(src, func(path string, info os.FileInfo, err error) error {
		if err != nil {
			if os.IsNotExist(err) {
				return nil
			}
			return err
		}
		rel, _ := filepath.Rel(src, path)
		target := filepath.Join(dst, rel)
		if info.IsDir() {
			return os.MkdirAll(target, 0777)
		}
		in, err := os.Open(path)
		if err != nil {
			if os.IsNotExist(err) {
				return nil
			}
			return err
		}
		defer in.Close()
		out, err := os.Create(target)
		if err != nil {
			return err
		}
		defer out.Close()
		_, err = io.Copy(out, in)
		return err
	})
}

// recoverDump starts a fresh service on a copy of dir and dumps it; "" for a start-up failure text.
func recoverDump(dir string, now int64) (dump []string) {
	img, err := os.MkdirTemp(ScratchRoot(), "verif-bt-img-")
	if err != nil {
		return []string{"image: " + err.Error()}
	}
	defer os.RemoveAll(img)
	if err := copyDir(dir, img); err != nil {
		return []string{"image: " + err.Error()}
	}
	defer func() {
		if r := recover(); r != nil {
			dump = []string{fmt.Sprintf("START-UP FAILED on the image: %v", r)}
		}
	}()
	env := NewEnv("leveldb-disk", img)
	env.now = now
	defer env.svc.Close()
	for _, op := range DumpOps() {
		dump = append(dump, env.Exec(op))
	}
	return dump
}

type MidImage struct {
	Op    int      `json:"op"`
	Point string   `json:"point"`
	Dump  []string `json:"dump"`
}

// RunCrash executes the program; lines/impl interleave each request with the dump of the image
// taken right after it; mids are the images taken inside requests.
func RunCrash(p *CrashProgram) (lines, impl []string, mids []MidImage) {
	dir, err := os.MkdirTemp(ScratchRoot(), "verif-bt-crash-")
	if err != nil {
		panic(err)
	}
	dirs := []string{dir}
	defer func() {
		for _, d := range dirs {
			os.RemoveAll(d)
		}
	}()
	env := NewEnv("leveldb-disk", dir)
	p.KilledAt = nil
	cur := -1
	armed := false
	killAt := map[int]int{}
	for _, k := range p.Kills {
		killAt[k.Op] = k.Nth
	}
	nth := 0
	killImg, killPoint := "", ""
	var killDump []string
	bttest.VerifCrashPoint = func(point string) {
		if !armed || killImg != "" {
			// (after the kill the process no longer exists: what the rest of the request does is not an image)
			return
		}
		armed = false
		d := recoverDump(dir, env.now)
		mids = append(mids, MidImage{Op: cur, Point: point, Dump: d})
		if n, ok := killAt[cur]; ok && n == nth && killImg == "" {
			if img, err := os.MkdirTemp(ScratchRoot(), "verif-bt-crash-"); err == nil && copyDir(dir, img) == nil {
				dirs = append(dirs, img)
				killImg, killPoint, killDump = img, point, d
			}
		}
		nth++
		armed = true
	}
	defer func() { bttest.VerifCrashPoint = nil }()
	restart := map[int]bool{}
	for _, i := range p.Restarts {
		restart[i] = true
	}
	dumpLines := func() (out []string) {
		for _, op := range DumpOps() {
			out = append(out, op.Line())
		}
		return
	}()
	same := func(a, b []string) bool { return strings.Join(a, "\n") == strings.Join(b, "\n") }
	prevDump := recoverDump(dir, env.now)
	for i, op := range p.Ops {
		cur = i
		nth = 0
		killImg = ""
		armed = true
		r := env.Exec(op)
		armed = false
		after := recoverDump(dir, env.now)
		if killImg != "" {
			// killed inside the request: the client got no answer; what the image shows decides whether
			// the request happened (anything else is neither-nor, reported by the comparison of the dump)
			now := env.now
			env.Close()
			if same(killDump, prevDump) && !same(killDump, after) {
				lines = append(lines, fmt.Sprintf("bt clock %d", now)) // the request did not happen
				impl = append(impl, "ok")
			} else {
				lines = append(lines, op.Line())
				impl = append(impl, r)
			}
			p.KilledAt = append(p.KilledAt, fmt.Sprintf("request %d at %s", i, killPoint))
			lines = append(lines, dumpLines...)
			impl = append(impl, killDump...)
			prevDump = killDump
			dir = killImg
			env = NewEnv("leveldb-disk", dir)
			env.now = now
			continue
		}
		lines = append(lines, op.Line())
		impl = append(impl, r)
		// image at the request boundary
		lines = append(lines, dumpLines...)
		impl = append(impl, after...)
		prevDump = after
		if restart[i] {
			// kill: the process goes away without closing anything; continue on the image
			img, err := os.MkdirTemp(ScratchRoot(), "verif-bt-crash-")
			if err != nil {
				panic(err)
			}
			dirs = append(dirs, img)
			if err := copyDir(dir, img); err != nil {
				panic(err)
			}
			now := env.now
			env.svc.Close()
			dir = img
			env = NewEnv("leveldb-disk", dir)
			env.now = now
		}
	}
	env.svc.Close()
	return
}

// GenCrash draws a program for the disk engine.
func GenCrash(r *core.Rng) *CrashProgram {
	g := &Gen{R: r, P: Profiles["c08"]}
	p := &CrashProgram{}
	for _, op := range g.Program() {
		o := op.(*Op)
		if o.Kind == "rand" {
			continue
		}
		p.Ops = append(p.Ops, o)
	}
	for i := range p.Ops {
		if r.Chance(1, 8) {
			p.Restarts = append(p.Restarts, i)
		}
	}
	// kills inside the requests that rewrite what is on disk
	for i, o := range p.Ops {
		switch o.Kind {
		case "create", "delete", "modify", "droprange":
			if r.Chance(1, 4) {
				p.Kills = append(p.Kills, Kill{Op: i, Nth: r.Intn(3)})
			}
		}
	}
	return p
}
