package bt

import (
	"time"
	"context"
	"fmt"
	"strings"

	btpb "cloud.google.com/go/bigtable/apiv2/bigtablepb"

	"verif/harness/internal/core"
)

// ScanProgram is tie T3 for C18: a multi-message ReadRows scan with client writes issued from
// inside the harness's own stream.Send, i.e. exactly while the scan has given up the table lock.
type ScanProgram struct {
	Engine string     `json:"engine"`
	Seed   uint64     `json:"seed"`
	NRows  int        `json:"nrows"`
	Cells  int        `json:"cells"`
	Keys   [][]byte   `json:"keys"`
	Ranges [][2]Bound `json:"ranges"`
	// filled in by the run
	Flushes []ScanFlush `json:"flushes,omitempty"`
}

type ScanFlush struct {
	After  int   `json:"after"` // rows streamed when this Send happened
	Writes []*Op `json:"writes"`
}

const scanTable = "p/tables/big"

func scanKey(i int) []byte { return []byte(fmt.Sprintf("r%05d", i)) }

func (p *ScanProgram) setup() []*Op {
	ops := []*Op{{Kind: "rand", N: 500}, {Kind: "clock", N: 5000}}
	create := &Op{Kind: "create", Parent: "p", ID: "big"}
	for _, f := range Fams {
		create.Fams = append(create.Fams, FamDef{Name: f})
	}
	ops = append(ops, create)
	var entries []Entry
	for i := 0; i < p.NRows; i++ {
		var ms []Mut
		for c := 0; c < p.Cells; c++ {
			ms = append(ms, Mut{Kind: "set", Fam: Fams[c%2], Qual: []byte{byte('a' + c/2)}, TS: 1000, Val: []byte(fmt.Sprintf("v%d", i))})
		}
		entries = append(entries, Entry{Key: scanKey(i * 2), Muts: ms}) // even indices: odd ones are free for inserts
		if len(entries) == 500 {
			ops = append(ops, &Op{Kind: "mutaterows", Name: scanTable, Entries: entries})
			entries = nil
		}
	}
	if len(entries) > 0 {
		ops = append(ops, &Op{Kind: "mutaterows", Name: scanTable, Entries: entries})
	}
	return ops
}

// GenScan draws the request; the writes are drawn during the run, relative to the scan position.
func GenScan(r *core.Rng, engine string) *ScanProgram {
	p := &ScanProgram{Engine: engine, Seed: r.Next(), NRows: 1200 + r.Intn(1200), Cells: 2 + r.Intn(4)}
	switch r.Intn(4) {
	case 0: // whole table
	case 1:
		p.Ranges = [][2]Bound{{{Kind: 'c', K: scanKey(2 * r.Intn(200))}, {Kind: 'u'}}}
	case 2: // two or three disjoint ranges
		a := 2 * r.Intn(300)
		b := a + 2*(300+r.Intn(400))
		c := b + 2*(50+r.Intn(200))
		p.Ranges = [][2]Bound{{{Kind: 'c', K: scanKey(a)}, {Kind: 'o', K: scanKey(b)}}, {{Kind: 'o', K: scanKey(c)}, {Kind: 'u'}}}
		if r.Chance(1, 2) {
			p.Ranges = append(p.Ranges, [2]Bound{{Kind: 'u'}, {Kind: 'o', K: scanKey(a / 2)}})
		}
	default: // overlapping ranges and keys
		a := 2 * r.Intn(300)
		p.Ranges = [][2]Bound{{{Kind: 'c', K: scanKey(a)}, {Kind: 'c', K: scanKey(a + 1400)}}, {{Kind: 'o', K: scanKey(a + 1000)}, {Kind: 'u'}}}
		p.Keys = [][]byte{scanKey(0), scanKey(a + 2), scanKey(2 * 2390)}
	}
	return p
}

// writesAt draws client writes around the scan position `pos` (index of the last streamed key).
func writesAt(r *core.Rng, pos int, nrows int) []*Op {
	var ops []*Op
	n := 1 + r.Intn(4)
	target := func() int {
		switch r.Intn(6) {
		case 0:
			return pos - 2*r.Intn(20) // already streamed
		case 1:
			return pos // the row just streamed
		case 2:
			return pos + 2 // the very next row
		case 3:
			return pos + 2*(1+r.Intn(30)) // soon
		case 4:
			return pos + 1 // a key that does not exist yet, right after the position
		default:
			return 2 * r.Intn(nrows) // anywhere
		}
	}
	for i := 0; i < n; i++ {
		t := target()
		if t < 0 {
			t = 0
		}
		k := scanKey(t)
		switch r.Intn(6) {
		case 0, 1:
			ops = append(ops, &Op{Kind: "mutate", Name: scanTable, Key: k, Muts: []Mut{{Kind: "set", Fam: "f", Qual: []byte("a"), TS: int64(2000 + 1000*r.Intn(3)), Val: []byte(fmt.Sprintf("w%d", r.Intn(100)))}}})
		case 2:
			ops = append(ops, &Op{Kind: "mutate", Name: scanTable, Key: k, Muts: []Mut{{Kind: "delrow"}}})
		case 3:
			ops = append(ops, &Op{Kind: "rmw", Name: scanTable, Key: k, Rules: []RmwRule{{Kind: "app", Fam: "g", Qual: []byte("a"), Val: []byte("+")}}})
		case 4:
			// writes the service must refuse as a whole: a valid mutation followed by an invalid one (bulk
			// and single), a read-modify-write naming a family the table does not have
			switch r.Intn(3) {
			case 0:
				ops = append(ops, &Op{Kind: "mutaterows", Name: scanTable, Entries: []Entry{
					{Key: k, Muts: []Mut{{Kind: "delrow"}, {Kind: "set", Fam: "nofam", Qual: []byte("a"), TS: 1000, Val: []byte("x")}}},
					{Key: scanKey(target()), Muts: []Mut{{Kind: "set", Fam: "f", Qual: []byte("b"), TS: 1000, Val: []byte("ok")}}}}})
			case 1:
				ops = append(ops, &Op{Kind: "mutate", Name: scanTable, Key: k, Muts: []Mut{{Kind: "set", Fam: "f", Qual: []byte("a"), TS: 5000, Val: []byte("half")}, {Kind: "set", Fam: "f", Qual: []byte("a"), TS: 1, Val: []byte("bad-ts")}}})
			default:
				ops = append(ops, &Op{Kind: "rmw", Name: scanTable, Key: k, Rules: []RmwRule{{Kind: "app", Fam: "g", Qual: []byte("a"), Val: []byte("+")}, {Kind: "app", Fam: "nofam", Qual: []byte("a"), Val: []byte("+")}}})
			}
		default:
			k2 := scanKey(target())
			ops = append(ops, &Op{Kind: "mutaterows", Name: scanTable, Entries: []Entry{
				{Key: k, Muts: []Mut{{Kind: "delfam", Fam: "g"}}},
				{Key: k2, Muts: []Mut{{Kind: "set", Fam: "g", Qual: []byte("z"), TS: 3000, Val: []byte("z")}}}}})
		}
	}
	return ops
}

// RunScan executes the program on a fresh service; returns the protocol lines and the
// implementation's side of each.
func RunScan(p *ScanProgram) (lines []string, impl []string) {
	env := NewEnv(p.Engine, "")
	wedged := ""
	defer func() {
		if wedged == "" {
			env.Close()
		}
	}()
	// a request that does not return within 10 s is a hang (the lock it waits for is never released)
	execTimed := func(op *Op) string {
		ch := make(chan string, 1)
		go func() { ch <- env.Exec(op) }()
		select {
		case r := <-ch:
			return r
		case <-time.After(10 * time.Second):
			wedged = "a request let in during the scan never returned: " + op.Line()
			return "HANG"
		}
	}
	for _, op := range p.setup() {
		lines = append(lines, op.Line())
		impl = append(impl, env.Exec(op))
	}
	r := core.NewRng(p.Seed)
	req := (&Op{Kind: "read", Name: scanTable, Keys: p.Keys, Ranges: p.Ranges}).ReadReq()
	p.Flushes = nil
	st := &ReadStream{fakeStream: fakeStream{context.Background()}}
	var writeResp []string
	st.OnSend = func(n int) {
		rows, _ := DecodeChunks(st.Msgs)
		if len(rows) == 0 {
			return
		}
		last := rows[len(rows)-1].Key
		var pos int
		fmt.Sscanf(string(last), "r%05d", &pos)
		if wedged != "" {
			return
		}
		ws := writesAt(r, pos, p.NRows)
		var done []*Op
		for _, w := range ws {
			writeResp = append(writeResp, execTimed(w))
			done = append(done, w)
			if wedged != "" {
				break
			}
		}
		p.Flushes = append(p.Flushes, ScanFlush{After: len(rows), Writes: done})
	}
	resp := ""
	readDone := make(chan error, 1)
	go func() {
		readDone <- func() (err error) {
			defer func() {
				if p := recover(); p != nil {
					err = fmt.Errorf("PANIC in ReadRows (a server fault): %v", p)
				}
			}()
			return env.svc.Data().(interface {
				ReadRows(*btpb.ReadRowsRequest, btpb.Bigtable_ReadRowsServer) error
			}).ReadRows(req, st)
		}()
	}()
	var readErr error
	hung := false
	select {
	case readErr = <-readDone:
	case <-time.After(90 * time.Second):
		hung = true
		if wedged == "" {
			wedged = "ReadRows did not return"
		}
	}
	if hung || wedged != "" {
		resp = "HANG: the scan did not end normally (" + wedged + ")"
	} else if readErr != nil && strings.HasPrefix(readErr.Error(), "PANIC") {
		resp = readErr.Error()
	} else if err := readErr; err != nil {
		resp = errResp(err)
	} else {
		rows, bad := DecodeChunks(st.Msgs)
		if bad != "" {
			resp = "malformed chunk stream: " + bad
		} else {
			resp = ShowRows(rows)
		}
	}
	// the scanw line: request, then the flush points with the writes that were let in there
	rd := (&Op{Kind: "read", Name: scanTable, Keys: p.Keys, Ranges: p.Ranges}).Line()
	rd = strings.TrimPrefix(rd, "bt read ")
	rd = strings.TrimSuffix(rd, " 0 nil")
	parts := []string{"scanw", rd, fmt.Sprint(len(p.Flushes))}
	for _, f := range p.Flushes {
		parts = append(parts, fmt.Sprint(f.After), fmt.Sprint(len(f.Writes)))
		for _, w := range f.Writes {
			parts = append(parts, strings.TrimPrefix(w.Line(), "bt "))
		}
	}
	lines = append(lines, strings.Join(parts, " "))
	impl = append(impl, resp)
	// afterwards the table must still take a write (a lock left behind by a request of the window would
	// block it) and serve what is stored
	probe := &Op{Kind: "mutate", Name: scanTable, Key: []byte("zz-probe"), Muts: []Mut{{Kind: "set", Fam: "f", Qual: []byte("p"), TS: 1000, Val: []byte("p")}}}
	final := &Op{Kind: "read", Name: scanTable}
	for _, op := range []*Op{probe, final} {
		lines = append(lines, op.Line())
		if wedged != "" {
			impl = append(impl, "HANG (the service is wedged)")
		} else {
			impl = append(impl, execTimed(op))
		}
	}
	return
}
