// Package bt is the Bigtable side of the differential harness: request ASTs that print both as
// protocol lines for the Lean Model and as real protobuf requests, an executor against the real
// service (in-process), and generators.
package bt

import (
	"fmt"
	"strings"

	btapb "cloud.google.com/go/bigtable/admin/apiv2/adminpb"
	btpb "cloud.google.com/go/bigtable/apiv2/bigtablepb"
	"google.golang.org/protobuf/types/known/durationpb"

	"verif/harness/internal/core"
)

var hx = core.Hex

func hs(s string) string { return core.HexS(s) }

// ---------- regex ----------

type Regex struct {
	Kind   string // eps b any dot cls cat alt star
	B      byte
	Neg    bool
	Ranges [][2]byte
	X, Y   *Regex
	Sugar  string // "plus" / "opt": printing only; the AST is already expanded
}

func (r *Regex) Line() string {
	switch r.Kind {
	case "eps":
		return "eps"
	case "b":
		return fmt.Sprintf("b %d", r.B)
	case "any":
		return "any"
	case "dot":
		return "dot"
	case "cls":
		s := fmt.Sprintf("cls %d %d", b2i(r.Neg), len(r.Ranges))
		for _, rg := range r.Ranges {
			s += fmt.Sprintf(" %d %d", rg[0], rg[1])
		}
		return s
	case "cat":
		return "cat " + r.X.Line() + " " + r.Y.Line()
	case "alt":
		return "alt " + r.X.Line() + " " + r.Y.Line()
	case "star":
		return "star " + r.X.Line()
	}
	panic("regex kind " + r.Kind)
}

func reByte(b byte) []byte {
	switch {
	case b >= 'a' && b <= 'z', b >= 'A' && b <= 'Z', b >= '0' && b <= '9':
		return []byte{b}
	case b > 127:
		return []byte{b} // raw: exercises escapeUTF
	default:
		return []byte(fmt.Sprintf("\\x%02x", b))
	}
}

func clsByte(b byte) []byte {
	if b > 127 {
		return []byte{b}
	}
	return []byte(fmt.Sprintf("\\x%02x", b))
}

// Pattern prints RE2 syntax (as bytes: bytes above 127 are emitted raw).
func (r *Regex) Pattern() []byte {
	switch r.Kind {
	case "eps":
		return []byte("(?:)")
	case "b":
		return reByte(r.B)
	case "any":
		return []byte(`\C`)
	case "dot":
		return []byte(".")
	case "cls":
		out := []byte("[")
		if r.Neg {
			out = append(out, '^')
		}
		for _, rg := range r.Ranges {
			out = append(out, clsByte(rg[0])...)
			if rg[1] != rg[0] {
				out = append(out, '-')
				out = append(out, clsByte(rg[1])...)
			}
		}
		return append(out, ']')
	case "cat":
		if r.Sugar == "plus" {
			return append(append([]byte("(?:"), r.X.Pattern()...), []byte(")+")...)
		}
		return append(append(append([]byte("(?:"), r.X.Pattern()...), []byte(")(?:")...), append(r.Y.Pattern(), ')')...)
	case "alt":
		if r.Sugar == "opt" {
			return append(append([]byte("(?:"), r.X.Pattern()...), []byte(")?")...)
		}
		return append(append(append([]byte("(?:"), r.X.Pattern()...), '|'), append(r.Y.Pattern(), ')')...)
	case "star":
		return append(append([]byte("(?:"), r.X.Pattern()...), []byte(")*")...)
	}
	panic("regex kind " + r.Kind)
}

// Rx is a pattern argument: an AST, or raw text known not to compile.
type Rx struct {
	Re  *Regex
	Bad []byte
	// Plain: write the pattern the way people do (`.*`, `a|bc`, `[a-c]+x`), with parentheses only
	// where precedence needs them, instead of one group per operator
	Plain bool `json:",omitempty"`
}

func (x *Rx) Line() string {
	if x.Re == nil {
		return "bad"
	}
	return "re " + x.Re.Line()
}

func (x *Rx) Pattern() []byte {
	if x.Re == nil {
		return x.Bad
	}
	if x.Plain {
		return x.Re.plain(0)
	}
	return x.Re.Pattern()
}

// plain renders with minimal parentheses; min is the binding strength the context needs
// (0 alternation, 1 concatenation, 2 repetition operand).
func (r *Regex) plain(min int) []byte {
	var out []byte
	prec := 3
	switch r.Kind {
	case "eps", "b", "any", "dot", "cls":
		return r.Pattern()
	case "star":
		prec = 2
		out = append(r.X.plain(3), '*')
	case "cat":
		if r.Sugar == "plus" {
			prec = 2
			out = append(r.X.plain(3), '+')
		} else {
			prec = 1
			out = append(r.X.plain(1), r.Y.plain(1)...)
		}
	case "alt":
		if r.Sugar == "opt" {
			prec = 2
			out = append(r.X.plain(3), '?')
		} else {
			prec = 0
			out = append(append(r.X.plain(0), '|'), r.Y.plain(0)...)
		}
	default:
		panic("regex kind " + r.Kind)
	}
	if prec < min {
		return append(append([]byte("(?:"), out...), ')')
	}
	return out
}

// ---------- bounds ----------

type Bound struct {
	Kind byte // 'u' unset, 'o' open, 'c' closed
	K    []byte
}

func (b Bound) Line() string {
	if b.Kind == 'u' {
		return "u"
	}
	return string(b.Kind) + " " + hx(b.K)
}

// ---------- filters ----------

type Filter struct {
	Kind    string
	Flag    bool
	Subs    []*Filter
	P, T, F *Filter
	Rx      *Rx
	Fam     string
	SB, EB  Bound
	S, E    int64
	N       int64
	Label   string
	PMilli  int64
}

func b2i(b bool) int {
	if b {
		return 1
	}
	return 0
}

func (f *Filter) Line() string {
	if f == nil {
		return "nil"
	}
	switch f.Kind {
	case "pass", "block":
		return fmt.Sprintf("%s %d", f.Kind, b2i(f.Flag))
	case "chain", "inter":
		parts := []string{f.Kind, fmt.Sprint(len(f.Subs))}
		for _, s := range f.Subs {
			parts = append(parts, s.Line())
		}
		return strings.Join(parts, " ")
	case "cond":
		return "cond " + f.P.Line() + " " + f.T.Line() + " " + f.F.Line()
	case "rowre", "famre", "qualre", "valre":
		return f.Kind + " " + f.Rx.Line()
	case "colrange":
		return "colrange " + hs(f.Fam) + " " + f.SB.Line() + " " + f.EB.Line()
	case "valrange":
		return "valrange " + f.SB.Line() + " " + f.EB.Line()
	case "ts":
		return fmt.Sprintf("ts %d %d", f.S, f.E)
	case "rowlim", "rowoff", "collim":
		return fmt.Sprintf("%s %d", f.Kind, f.N)
	case "strip":
		return "strip"
	case "label":
		return "label " + hs(f.Label)
	case "sample":
		return fmt.Sprintf("sample %d", f.PMilli)
	case "other":
		return "other"
	}
	panic("filter kind " + f.Kind)
}

func (f *Filter) Proto() *btpb.RowFilter {
	if f == nil {
		return nil
	}
	switch f.Kind {
	case "pass":
		return &btpb.RowFilter{Filter: &btpb.RowFilter_PassAllFilter{PassAllFilter: f.Flag}}
	case "block":
		return &btpb.RowFilter{Filter: &btpb.RowFilter_BlockAllFilter{BlockAllFilter: f.Flag}}
	case "chain":
		var subs []*btpb.RowFilter
		for _, s := range f.Subs {
			subs = append(subs, s.Proto())
		}
		return &btpb.RowFilter{Filter: &btpb.RowFilter_Chain_{Chain: &btpb.RowFilter_Chain{Filters: subs}}}
	case "inter":
		var subs []*btpb.RowFilter
		for _, s := range f.Subs {
			subs = append(subs, s.Proto())
		}
		return &btpb.RowFilter{Filter: &btpb.RowFilter_Interleave_{Interleave: &btpb.RowFilter_Interleave{Filters: subs}}}
	case "cond":
		return &btpb.RowFilter{Filter: &btpb.RowFilter_Condition_{Condition: &btpb.RowFilter_Condition{
			PredicateFilter: f.P.Proto(), TrueFilter: f.T.Proto(), FalseFilter: f.F.Proto()}}}
	case "rowre":
		return &btpb.RowFilter{Filter: &btpb.RowFilter_RowKeyRegexFilter{RowKeyRegexFilter: f.Rx.Pattern()}}
	case "famre":
		return &btpb.RowFilter{Filter: &btpb.RowFilter_FamilyNameRegexFilter{FamilyNameRegexFilter: string(f.Rx.Pattern())}}
	case "qualre":
		return &btpb.RowFilter{Filter: &btpb.RowFilter_ColumnQualifierRegexFilter{ColumnQualifierRegexFilter: f.Rx.Pattern()}}
	case "valre":
		return &btpb.RowFilter{Filter: &btpb.RowFilter_ValueRegexFilter{ValueRegexFilter: f.Rx.Pattern()}}
	case "colrange":
		cr := &btpb.ColumnRange{FamilyName: f.Fam}
		switch f.SB.Kind {
		case 'o':
			cr.StartQualifier = &btpb.ColumnRange_StartQualifierOpen{StartQualifierOpen: f.SB.K}
		case 'c':
			cr.StartQualifier = &btpb.ColumnRange_StartQualifierClosed{StartQualifierClosed: f.SB.K}
		}
		switch f.EB.Kind {
		case 'o':
			cr.EndQualifier = &btpb.ColumnRange_EndQualifierOpen{EndQualifierOpen: f.EB.K}
		case 'c':
			cr.EndQualifier = &btpb.ColumnRange_EndQualifierClosed{EndQualifierClosed: f.EB.K}
		}
		return &btpb.RowFilter{Filter: &btpb.RowFilter_ColumnRangeFilter{ColumnRangeFilter: cr}}
	case "valrange":
		vr := &btpb.ValueRange{}
		switch f.SB.Kind {
		case 'o':
			vr.StartValue = &btpb.ValueRange_StartValueOpen{StartValueOpen: f.SB.K}
		case 'c':
			vr.StartValue = &btpb.ValueRange_StartValueClosed{StartValueClosed: f.SB.K}
		}
		switch f.EB.Kind {
		case 'o':
			vr.EndValue = &btpb.ValueRange_EndValueOpen{EndValueOpen: f.EB.K}
		case 'c':
			vr.EndValue = &btpb.ValueRange_EndValueClosed{EndValueClosed: f.EB.K}
		}
		return &btpb.RowFilter{Filter: &btpb.RowFilter_ValueRangeFilter{ValueRangeFilter: vr}}
	case "ts":
		return &btpb.RowFilter{Filter: &btpb.RowFilter_TimestampRangeFilter{TimestampRangeFilter: &btpb.TimestampRange{
			StartTimestampMicros: f.S, EndTimestampMicros: f.E}}}
	case "rowlim":
		return &btpb.RowFilter{Filter: &btpb.RowFilter_CellsPerRowLimitFilter{CellsPerRowLimitFilter: int32(f.N)}}
	case "rowoff":
		return &btpb.RowFilter{Filter: &btpb.RowFilter_CellsPerRowOffsetFilter{CellsPerRowOffsetFilter: int32(f.N)}}
	case "collim":
		return &btpb.RowFilter{Filter: &btpb.RowFilter_CellsPerColumnLimitFilter{CellsPerColumnLimitFilter: int32(f.N)}}
	case "strip":
		return &btpb.RowFilter{Filter: &btpb.RowFilter_StripValueTransformer{StripValueTransformer: true}}
	case "label":
		return &btpb.RowFilter{Filter: &btpb.RowFilter_ApplyLabelTransformer{ApplyLabelTransformer: f.Label}}
	case "sample":
		return &btpb.RowFilter{Filter: &btpb.RowFilter_RowSampleFilter{RowSampleFilter: float64(f.PMilli) / 1000}}
	case "other":
		return &btpb.RowFilter{Filter: &btpb.RowFilter_Sink{Sink: true}}
	}
	panic("filter kind " + f.Kind)
}

// ---------- mutations ----------

type Mut struct {
	Kind     string // set delcol delfam delrow unknown
	Fam      string
	Qual     []byte
	TS       int64
	Val      []byte
	HasRange bool
	S, E     int64
}

func (m Mut) Line() string {
	switch m.Kind {
	case "set":
		return fmt.Sprintf("set %s %s %d %s", hs(m.Fam), hx(m.Qual), m.TS, hx(m.Val))
	case "delcol":
		if m.HasRange {
			return fmt.Sprintf("delcol %s %s range %d %d", hs(m.Fam), hx(m.Qual), m.S, m.E)
		}
		return fmt.Sprintf("delcol %s %s all", hs(m.Fam), hx(m.Qual))
	case "delfam":
		return "delfam " + hs(m.Fam)
	case "delrow":
		return "delrow"
	case "unknown":
		return "unknown"
	}
	panic("mut kind " + m.Kind)
}

func (m Mut) Proto() *btpb.Mutation {
	switch m.Kind {
	case "set":
		return &btpb.Mutation{Mutation: &btpb.Mutation_SetCell_{SetCell: &btpb.Mutation_SetCell{
			FamilyName: m.Fam, ColumnQualifier: m.Qual, TimestampMicros: m.TS, Value: m.Val}}}
	case "delcol":
		d := &btpb.Mutation_DeleteFromColumn{FamilyName: m.Fam, ColumnQualifier: m.Qual}
		if m.HasRange {
			d.TimeRange = &btpb.TimestampRange{StartTimestampMicros: m.S, EndTimestampMicros: m.E}
		}
		return &btpb.Mutation{Mutation: &btpb.Mutation_DeleteFromColumn_{DeleteFromColumn: d}}
	case "delfam":
		return &btpb.Mutation{Mutation: &btpb.Mutation_DeleteFromFamily_{DeleteFromFamily: &btpb.Mutation_DeleteFromFamily{FamilyName: m.Fam}}}
	case "delrow":
		return &btpb.Mutation{Mutation: &btpb.Mutation_DeleteFromRow_{DeleteFromRow: &btpb.Mutation_DeleteFromRow{}}}
	case "unknown":
		return &btpb.Mutation{}
	}
	panic("mut kind " + m.Kind)
}

func mutsLine(ms []Mut) string {
	parts := []string{fmt.Sprint(len(ms))}
	for _, m := range ms {
		parts = append(parts, m.Line())
	}
	return strings.Join(parts, " ")
}

func mutsProto(ms []Mut) []*btpb.Mutation {
	var out []*btpb.Mutation
	for _, m := range ms {
		out = append(out, m.Proto())
	}
	return out
}

// ---------- GC rules ----------

type Rule struct {
	Kind  string // none v a u o
	N     int64
	Sec   int64
	Nanos int32
	Subs  []*Rule
}

func (r *Rule) Line() string {
	if r == nil {
		return "none"
	}
	switch r.Kind {
	case "none":
		return "none"
	case "v":
		return fmt.Sprintf("v %d", r.N)
	case "a":
		return fmt.Sprintf("a %d %d", r.Sec, r.Nanos)
	case "o":
		return "o"
	case "u":
		parts := []string{"u", fmt.Sprint(len(r.Subs))}
		for _, s := range r.Subs {
			parts = append(parts, s.Line())
		}
		return strings.Join(parts, " ")
	}
	panic("rule kind " + r.Kind)
}

func (r *Rule) Proto() *btapb.GcRule {
	if r == nil || r.Kind == "none" {
		return nil
	}
	switch r.Kind {
	case "v":
		return &btapb.GcRule{Rule: &btapb.GcRule_MaxNumVersions{MaxNumVersions: int32(r.N)}}
	case "a":
		return &btapb.GcRule{Rule: &btapb.GcRule_MaxAge{MaxAge: &durationpb.Duration{Seconds: r.Sec, Nanos: r.Nanos}}}
	case "o":
		return &btapb.GcRule{Rule: &btapb.GcRule_Intersection_{Intersection: &btapb.GcRule_Intersection{}}}
	case "u":
		var subs []*btapb.GcRule
		for _, s := range r.Subs {
			subs = append(subs, s.Proto())
		}
		return &btapb.GcRule{Rule: &btapb.GcRule_Union_{Union: &btapb.GcRule_Union{Rules: subs}}}
	}
	panic("rule kind " + r.Kind)
}

// ShowRule renders a real GcRule the way the driver prints the Model's.
func ShowRule(g *btapb.GcRule) string {
	if g == nil {
		return "none"
	}
	switch r := g.Rule.(type) {
	case *btapb.GcRule_MaxNumVersions:
		return fmt.Sprintf("v%d", r.MaxNumVersions)
	case *btapb.GcRule_MaxAge:
		return fmt.Sprintf("a%d.%d", r.MaxAge.GetSeconds(), r.MaxAge.GetNanos())
	case *btapb.GcRule_Union_:
		var parts []string
		for _, s := range r.Union.GetRules() {
			parts = append(parts, ShowRule(s))
		}
		return "u(" + strings.Join(parts, ",") + ")"
	default:
		return "o"
	}
}
