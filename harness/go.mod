module verif/harness

go 1.23.0

require (
	cloud.google.com/go/bigtable v1.36.0
	github.com/fullstorydev/emulators/bigtable v0.0.0
	github.com/fullstorydev/emulators/storage v0.0.0
	google.golang.org/grpc v1.71.1
	google.golang.org/protobuf v1.36.6
)

require (
	cel.dev/expr v0.19.2 // indirect
	cloud.google.com/go v0.120.0 // indirect
	cloud.google.com/go/auth v0.15.0 // indirect
	cloud.google.com/go/auth/oauth2adapt v0.2.8 // indirect
	cloud.google.com/go/compute/metadata v0.6.0 // indirect
	cloud.google.com/go/iam v1.5.0 // indirect
	cloud.google.com/go/longrunning v0.6.6 // indirect
	cloud.google.com/go/monitoring v1.24.1 // indirect
	cloud.google.com/go/storage v1.51.0 // indirect
	github.com/GoogleCloudPlatform/opentelemetry-operations-go/detectors/gcp v1.25.0 // indirect
	github.com/GoogleCloudPlatform/opentelemetry-operations-go/exporter/metric v0.51.0 // indirect
	github.com/GoogleCloudPlatform/opentelemetry-operations-go/internal/resourcemapping v0.51.0 // indirect
	github.com/bluele/gcache v0.0.2 // indirect
	github.com/cespare/xxhash/v2 v2.3.0 // indirect
	github.com/cncf/xds/go v0.0.0-20250121191232-2f005788dc42 // indirect
	github.com/envoyproxy/go-control-plane/envoy v1.32.4 // indirect
	github.com/envoyproxy/protoc-gen-validate v1.2.1 // indirect
	github.com/felixge/httpsnoop v1.0.4 // indirect
	github.com/go-logr/logr v1.4.2 // indirect
	github.com/go-logr/stdr v1.2.2 // indirect
	github.com/golang/protobuf v1.5.4 // indirect
	github.com/golang/snappy v0.0.4 // indirect
	github.com/google/btree v1.1.3 // indirect
	github.com/google/s2a-go v0.1.9 // indirect
	github.com/google/uuid v1.6.0 // indirect
	github.com/googleapis/enterprise-certificate-proxy v0.3.6 // indirect
	github.com/googleapis/gax-go/v2 v2.14.1 // indirect
	github.com/syndtr/goleveldb v1.0.0 // indirect
	go.opentelemetry.io/auto/sdk v1.1.0 // indirect
	go.opentelemetry.io/contrib/detectors/gcp v1.34.0 // indirect
	go.opentelemetry.io/contrib/instrumentation/google.golang.org/grpc/otelgrpc v0.59.0 // indirect
	go.opentelemetry.io/contrib/instrumentation/net/http/otelhttp v0.59.0 // indirect
	go.opentelemetry.io/otel v1.35.0 // indirect
	go.opentelemetry.io/otel/metric v1.35.0 // indirect
	go.opentelemetry.io/otel/sdk v1.35.0 // indirect
	go.opentelemetry.io/otel/sdk/metric v1.35.0 // indirect
	go.opentelemetry.io/otel/trace v1.35.0 // indirect
	golang.org/x/crypto v0.36.0 // indirect
	golang.org/x/net v0.38.0 // indirect
	golang.org/x/oauth2 v0.29.0 // indirect
	golang.org/x/sync v0.13.0 // indirect
	golang.org/x/sys v0.31.0 // indirect
	golang.org/x/text v0.23.0 // indirect
	golang.org/x/time v0.11.0 // indirect
	google.golang.org/api v0.228.0 // indirect
	google.golang.org/genproto v0.0.0-20250303144028-a0af3efb3deb // indirect
	google.golang.org/genproto/googleapis/api v0.0.0-20250313205543-e70fdf4c4cb4 // indirect
	google.golang.org/genproto/googleapis/rpc v0.0.0-20250313205543-e70fdf4c4cb4 // indirect
	rsc.io/binaryregexp v0.2.0 // indirect
)

replace github.com/fullstorydev/emulators/bigtable => /repo/bigtable

replace github.com/fullstorydev/emulators/storage => /repo/storage
