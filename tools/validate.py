#!/usr/bin/env python3
"""Validates MANIFEST.json and every evidence file against the given schemas (uses the tooling venv)."""
import json, sys, glob, jsonschema
ev = json.load(open('/root/.vp/EVIDENCE.schema.json'))
jsonschema.validate(json.load(open('/verif/MANIFEST.json')), json.load(open('/root/.vp/MANIFEST.schema.json')))
print('MANIFEST.json valid')
for f in sorted(glob.glob('/verif/evidence/*.json')):
    e = json.load(open(f)); jsonschema.validate(e, ev)
    c = e['coverage']; print(f.split('/')[-1], 'valid', e['tier'], 'obl', c.get('obligations'), 'dis', c.get('discharged'), 'eval', c.get('evaluations'), 'viol', e.get('violations'))
