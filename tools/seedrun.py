#!/usr/bin/env python3
"""
seedrun.py confirm <ID> <mN>          confirm a sub-agent's seeded change in its scratch worktree
seedrun.py detect  <ID> <mN> [props]  apply it to /repo, run the quick checks, undo it
seedrun.py table                      print the catch matrix from seeded/*/meta.json

Layout produced by the sub-agents: /tmp/seed/<ID> (scratch worktree), /tmp/seed/out/<ID>/<mN>/
{patch.diff, *_test.go, notes.md}.  Everything kept goes to /verif/seeded/<ID>-<mN>/.
"""
import glob, json, os, re, shutil, subprocess, sys, time

ENV = dict(os.environ, GOFLAGS="-mod=mod", GOPROXY="off", GOSUMDB="off", GOTOOLCHAIN="local")
PKGDIR = {"bttest": "bigtable/bttest", "gcsemu": "storage/gcsemu", "gcsutil": "storage/gcsutil",
          "bttest_test": "bigtable/bttest", "gcsemu_test": "storage/gcsemu", "gcsutil_test": "storage/gcsutil"}


def sh(cmd, cwd=None, timeout=1800):
    p = subprocess.run(cmd, shell=True, cwd=cwd, env=ENV, stdout=subprocess.PIPE, stderr=subprocess.STDOUT, text=True, timeout=timeout)
    return p.returncode, p.stdout


def dest(pid, m):
    return "/verif/seeded/%s-%s" % (pid, m)


def demos(src):
    out = []
    for f in sorted(glob.glob(os.path.join(src, "*_test.go"))):
        txt = open(f).read()
        pk = re.search(r"^package (\w+)", txt, re.M).group(1)
        tests = re.findall(r"^func (Test\w+)\(", txt, re.M)
        tagged = bool(re.search(r"^//go:build.*\bverif\b", txt, re.M))
        out.append({"file": f, "pkgdir": PKGDIR[pk], "tests": tests, "verif_tag": tagged})
    return out


def run_demo(wt, ds):
    """returns (all_passed, output)"""
    ok, outs = True, []
    for d in ds:
        dst = os.path.join(wt, d["pkgdir"], "zz_seed_" + os.path.basename(d["file"]))
        shutil.copy(d["file"], dst)
    try:
        for d in ds:
            mod, rel = d["pkgdir"].split("/", 1)
            tags = "-tags verif " if d["verif_tag"] else ""
            rc, out = sh("go test %s-vet=off -count=1 -run '^(%s)$' ./%s/ 2>&1 | tail -25" % (tags, "|".join(d["tests"]), rel), cwd=os.path.join(wt, mod))
            passed = re.search(r"^ok\s", out, re.M) is not None and "FAIL" not in out
            ok = ok and passed
            outs.append(out[-1500:])
    finally:
        for d in ds:
            os.remove(os.path.join(wt, d["pkgdir"], "zz_seed_" + os.path.basename(d["file"])))
    return ok, "\n".join(outs)


def confirm(pid, m):
    wt, src = "/tmp/seed/" + pid, "/tmp/seed/out/%s/%s" % (pid, m)
    patch = os.path.join(src, "patch.diff")
    meta = {"property": pid, "variant": m, "confirmed": {}, "ran": []}
    sh("git checkout -- . && git clean -fdq", cwd=wt)
    ds = demos(src)
    meta["demo"] = [{"file": os.path.basename(d["file"]), "package_dir": d["pkgdir"], "tests": d["tests"], "needs_tag_verif": d["verif_tag"]} for d in ds]
    rc, out = sh("git apply --check %s" % patch, cwd=wt)
    meta["confirmed"]["patch_applies"] = rc == 0
    touched = sorted(set(re.findall(r"^\+\+\+ b/(\S+)", open(patch).read(), re.M)))
    meta["touched"] = touched
    meta["confirmed"]["touches_only_non_test_sources"] = all(not t.endswith("_test.go") for t in touched)
    ok, out = run_demo(wt, ds)
    meta["confirmed"]["demo_passes_without_change"] = ok
    meta["ran"].append("demo on unchanged worktree: " + ("pass" if ok else "FAIL\n" + out))
    sh("git apply %s" % patch, cwd=wt)
    mods = sorted({t.split("/")[0] for t in touched})
    suite_ok = True
    for mod in mods:
        rc, out = sh("go build ./... && go build -tags verif ./... && go test -vet=off -count=1 ./... 2>&1 | tail -15", cwd=os.path.join(wt, mod))
        good = rc == 0 and "FAIL" not in out
        if not good:  # one retry: the storage suite has a rare timing-dependent failure unrelated to any patch
            rc, out = sh("go test -vet=off -count=1 ./... 2>&1 | tail -15", cwd=os.path.join(wt, mod))
            good = rc == 0 and "FAIL" not in out
        suite_ok = suite_ok and good
        meta["ran"].append("existing suite of module %s with the change (and build with/without -tags verif): %s" % (mod, "pass" if good else "FAIL\n" + out[-1500:]))
    meta["confirmed"]["compiles_and_existing_suite_passes_with_change"] = suite_ok
    ok2, out2 = run_demo(wt, ds)
    meta["confirmed"]["demo_fails_with_change"] = not ok2
    meta["ran"].append("demo with the change: " + ("fail (as required)\n" + out2[-1200:] if not ok2 else "PASS (not a demonstration)"))
    sh("git checkout -- . && git clean -fdq", cwd=wt)
    meta["all_confirmed"] = all(meta["confirmed"].values())
    d = dest(pid, m)
    os.makedirs(d, exist_ok=True)
    shutil.copy(patch, os.path.join(d, "patch.diff"))
    for x in ds:
        shutil.copy(x["file"], os.path.join(d, os.path.basename(x["file"])))
    if os.path.exists(os.path.join(src, "notes.md")):
        shutil.copy(os.path.join(src, "notes.md"), os.path.join(d, "notes.md"))
        meta["needs_in_order_to_manifest"] = "see notes.md (written by the sub-agent that produced the change)"
    json.dump(meta, open(os.path.join(d, "meta.json"), "w"), indent=1)
    print(pid, m, "confirmed" if meta["all_confirmed"] else "NOT CONFIRMED", meta["confirmed"])


def detect(pid, m, props):
    d = dest(pid, m)
    meta = json.load(open(os.path.join(d, "meta.json")))
    rc, out = sh("git status --short", cwd="/repo")
    if out.strip():
        print("refusing: /repo has local changes:\n" + out)
        sys.exit(2)
    pf = os.path.join(d, "patch.diff")
    if os.path.exists(os.path.join(d, "patch.rebased.diff")):  # same change, re-made by hand on the current tree after hook/fix commits moved its context
        pf = os.path.join(d, "patch.rebased.diff")
        meta["applied_to_repo_with"] = "patch.rebased.diff (the sub-agent's change re-made on the current tree)"
    rc, out = sh("git apply %s" % pf, cwd="/repo")
    if rc != 0:  # the hook commits added lines next to some patched lines: retry with less context
        rc, out = sh("git apply -C1 --recount %s" % pf, cwd="/repo")
        meta["applied_to_repo_with"] = "git apply -C1 --recount (context drift from later hook commits)"
    if rc != 0:
        sh("git checkout HEAD -- . && git reset -q", cwd="/repo")
        rc, out = sh("patch -p1 -F3 --no-backup-if-mismatch < %s" % pf, cwd="/repo")
        meta["applied_to_repo_with"] = "patch -p1 -F3"
    meta.setdefault("checks", {})
    try:
        if rc != 0:
            print("patch does not apply to /repo:", out)
            return
        for p in props:
            t0 = time.time()
            rc, out = sh("./check %s --tier quick" % p, cwd="/verif", timeout=1800)
            lines = [l for l in out.splitlines() if l.startswith(("VIOLATION", "KNOWN-FINDING", "MACHINERY-ERROR", "HYPOTHESIS"))]
            res = {"exit": rc, "detected": rc == 1 and any(l.startswith("VIOLATION") for l in lines), "lines": lines[:6], "wall_s": round(time.time() - t0, 1),
                   "checked_at_verif_commit": sh("git rev-parse --short HEAD", cwd="/verif")[1].strip()}
            # keep a short excerpt of the first replay
            mrep = re.search(r"replay=(\S+)", "\n".join(lines))
            if mrep and os.path.exists(mrep.group(1)):
                r = json.load(open(mrep.group(1)))
                res["replay_excerpt"] = {k: (r.get(k)[-4:] if isinstance(r.get(k), list) else r.get(k)) for k in ("config", "ops", "impl", "model", "broken", "no_failing_input_found") if k in r}
            meta["checks"][p] = res
            print(pid, m, p, "DETECTED" if res["detected"] else "missed (exit %d)" % rc, lines[:2])
    finally:
        sh("git checkout HEAD -- . && git reset -q && git clean -fdq -e test-out", cwd="/repo")
        sh("rm -f /verif/replays/*", cwd="/verif")
        sh("git checkout -- evidence", cwd="/verif")  # evidence written while /repo was patched is not evidence about /repo
    meta["detected_by"] = sorted(p for p, r in meta["checks"].items() if r.get("detected"))
    json.dump(meta, open(os.path.join(d, "meta.json"), "w"), indent=1)


def table():
    for f in sorted(glob.glob("/verif/seeded/*/meta.json")):
        m = json.load(open(f))
        print("%-8s confirmed=%-5s detected_by=%s missed=%s" % (os.path.basename(os.path.dirname(f)), m.get("all_confirmed"),
              m.get("detected_by"), sorted(p for p, r in m.get("checks", {}).items() if not r.get("detected"))))


if __name__ == "__main__":
    if sys.argv[1] == "confirm":
        confirm(sys.argv[2], sys.argv[3])
    elif sys.argv[1] == "detect":
        detect(sys.argv[2], sys.argv[3], sys.argv[4:] or [sys.argv[2]])
    else:
        table()
