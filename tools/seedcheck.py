#!/usr/bin/env python3
"""
seedcheck.py <worktree> <variant A|B> <property> [more properties to also run]

1. Confirms a seeded change in its scratch worktree: patch applies, module builds and vets, the
   existing tests pass with it, the demonstration fails with it and passes without it.
2. Applies the patch to /repo, runs ./check <property> --tier quick (and the extra ones), undoes it.
3. Records everything under /verif/seeded/<property>-<variant>/ (patch.diff, demo, meta.json).
"""
import json, os, re, shutil, subprocess, sys, time

ENV = dict(os.environ, GOFLAGS="-mod=mod", GOPROXY="off", GOSUMDB="off", GOTOOLCHAIN="local")

def sh(cmd, cwd=None, timeout=1800):
    p = subprocess.run(cmd, shell=True, cwd=cwd, env=ENV, stdout=subprocess.PIPE, stderr=subprocess.STDOUT, text=True, timeout=timeout)
    return p.returncode, p.stdout

def main():
    wt, var, prop = sys.argv[1], sys.argv[2], sys.argv[3]
    extra = sys.argv[4:]
    src = os.path.join(wt, "SEEDED", var)
    patch = os.path.join(src, "patch.diff")
    demo = os.path.join(src, "demo_test.go")
    first = open(demo).readline()
    m = re.search(r"((?:bigtable|storage)/[\w/]+)", first)
    demo_dir = m.group(1).rstrip("/") if m else None
    if demo_dir and demo_dir.endswith(".go"):
        demo_dir = os.path.dirname(demo_dir)
    mod = demo_dir.split("/")[0]
    meta = {"property": prop, "variant": var, "source_worktree": wt, "demo_dir": demo_dir, "confirmed": {}, "checks": {}}
    notes = os.path.join(src, "notes.md")
    if os.path.exists(notes):
        meta["needs_to_manifest"] = open(notes).read()[:3000]

    sh("git checkout -- . && git clean -fdq -e SEEDED", cwd=wt)
    rc, out = sh("git apply --check %s" % patch, cwd=wt); meta["confirmed"]["applies"] = rc == 0
    demo_dst = os.path.join(wt, demo_dir, "zz_seeded_demo_test.go")
    shutil.copy(demo, demo_dst)
    run_demo = "go test -count=1 -run 'Seed|seed|SEED' ./%s/ 2>&1 | tail -15" % os.path.relpath(demo_dir, mod)
    # the demonstration may use any test name: run the whole file's tests by listing them
    names = re.findall(r"^func (Test\w+)\(", open(demo).read(), re.M)
    run_demo = "go test -count=1 -run '^(%s)$' ./%s/ 2>&1 | tail -25" % ("|".join(names), os.path.relpath(demo_dir, mod))
    rc, out = sh(run_demo, cwd=os.path.join(wt, mod)); meta["confirmed"]["demo_passes_without"] = ("ok" in out and "FAIL" not in out)
    meta["confirmed"]["demo_without_tail"] = out[-400:]
    sh("git apply %s" % patch, cwd=wt)
    rc, out = sh("go build ./... && go vet ./...", cwd=os.path.join(wt, mod)); meta["confirmed"]["builds_and_vets"] = rc == 0
    rc, out = sh(run_demo, cwd=os.path.join(wt, mod)); meta["confirmed"]["demo_fails_with"] = "FAIL" in out
    meta["confirmed"]["demo_with_tail"] = out[-600:]
    os.remove(demo_dst)
    rc, out = sh("go test -count=1 ./... 2>&1 | tail -8", cwd=os.path.join(wt, mod), timeout=2400)
    meta["confirmed"]["existing_tests_pass_with"] = ("FAIL" not in out and "ok" in out)
    meta["confirmed"]["existing_tests_tail"] = out[-400:]
    sh("git checkout -- .", cwd=wt)

    # run the checks against /repo with the patch applied
    rc, out = sh("git -C /repo apply --check %s" % patch)
    meta["applies_to_repo"] = rc == 0
    if rc == 0:
        sh("git -C /repo apply %s" % patch)
        try:
            for p in [prop] + extra:
                t0 = time.time()
                rc, out = sh("./check %s --tier quick" % p, cwd="/verif", timeout=3000)
                viol = [l for l in out.splitlines() if l.startswith("VIOLATION")]
                meta["checks"][p] = {"exit": rc, "violations": viol[:5], "wall_s": round(time.time() - t0, 1), "tail": out[-300:]}
        finally:
            sh("git -C /repo checkout -- .")
    dst = os.path.join("/verif/seeded", "%s-%s" % (prop, var))
    os.makedirs(dst, exist_ok=True)
    shutil.copy(patch, os.path.join(dst, "patch.diff"))
    shutil.copy(demo, os.path.join(dst, "demo_test.go"))
    if os.path.exists(notes):
        shutil.copy(notes, os.path.join(dst, "notes.md"))
    meta["detected_by"] = [p for p, r in meta["checks"].items() if r["exit"] == 1]
    meta["what_was_run"] = "tools/seedcheck.py: confirmation in the scratch worktree (apply, build, vet, existing tests, demonstration with/without), then ./check <id> --tier quick on /repo with the patch applied, then git checkout"
    json.dump(meta, open(os.path.join(dst, "meta.json"), "w"), indent=1)
    c = meta["confirmed"]
    print("%s-%s confirmed=%s detected_by=%s" % (prop, var,
          all([c["applies"], c["demo_passes_without"], c["builds_and_vets"], c["demo_fails_with"], c["existing_tests_pass_with"]]), meta["detected_by"]))
    for k in ("applies", "demo_passes_without", "builds_and_vets", "demo_fails_with", "existing_tests_pass_with"):
        if not c[k]:
            print("   NOT CONFIRMED:", k)

main()
