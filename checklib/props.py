"""Per-property configuration of ./check (which theorems, which ties, which scenarios)."""

BT_TRUST = [
    "protobuf marshal/unmarshal is a deep copy that maps empty bytes to nil; goleveldb and google/btree are ordered maps under bytewise order (cross-checked by running every program on all three engines)",
    "rsc.io/binaryregexp agrees with the Lean derivative matcher on the generated regex fragment (cross-checked on every run)",
]

GCS_TRUST = [
    "encoding/json, mime/multipart, compress/gzip, crypto/md5, net/http and the filesystem behave as documented (the correspondence check drives the emulator through them)",
    "time.Now() is strictly increasing across successive writes and Chtimes/Stat keep nanoseconds (re-measured on every run; a failure is reported as a failed hypothesis)",
    "net/http's ServeMux redirects request paths containing '//' before the emulator sees them; such object names are outside the generated domain",
]

PROPS = {
    "C01": {
        "lean": "Emu.Props.C01",
        "diffs": [
            {"cmd": "bt", "scenario": "c01", "quick": 150, "thorough": 3000},
            {"cmd": "bt", "scenario": "c06", "quick": 60, "thorough": 1000, "no_corpus": True},
        ],
        "facts": [],
        "trusted": BT_TRUST,
        "assumptions": ["sequential clients; cell values far smaller than one gRPC message"],
    },
    "C03": {
        "lean": "Emu.Props.C03",
        "diffs": [
            {"cmd": "bt", "scenario": "c03x", "quick": 0, "thorough": 0, "args": {"all": []}, "exhaustive": True},
            {"cmd": "bt", "scenario": "c03", "quick": 80, "thorough": 2000, "args": {"quick": ["--judge-random", "500"], "thorough": ["--judge-random", "6000"]}},
            {"cmd": "bt", "scenario": "c03big", "quick": 10, "thorough": 200},
        ],
        "facts": [],
        "trusted": BT_TRUST,
        "assumptions": ["set bounds of a RowRange are non-empty (the code reads an empty bound as unbounded; the property is silent)",
                        "SampleRowKeys' random choices are not predicted: each `keys` request asks 400 times and every distinct answer must be an answer of the Model's loop for some sequence of draws (judged in Go while the program runs and again by the Lean function `sampleExplained`, proved exact in Props/C03)"],
    },
    "C05": {
        "lean": "Emu.Props.C05",
        "diffs": [
            {"cmd": "bt", "scenario": "c05x", "quick": 0, "thorough": 0, "exhaustive": True},
            {"cmd": "bt", "scenario": "c05", "quick": 80, "thorough": 2500},
        ],
        "facts": [],
        "trusted": BT_TRUST + ["Go's sort.Sort is unstable above 12 elements; generated interleave duplicates per column stay below that"],
        "assumptions": ["the row-sample filter's random draw is pinned through the verif hook"],
    },
    "C11": {
        "lean": "Emu.Props.C11",
        "diffs": [
            {"cmd": "gcs", "scenario": "c11x", "quick": 0, "thorough": 0, "exhaustive": True},
            {"cmd": "gcs", "scenario": "c11xmem", "quick": 0, "thorough": 0, "engines": "mem", "exhaustive": True},
            {"cmd": "gcs", "scenario": "c11", "quick": 60, "thorough": 1500},
            {"cmd": "gcs", "scenario": "c11mem", "quick": 40, "thorough": 1000, "engines": "mem"},
        ],
        "facts": [],
        "trusted": GCS_TRUST,
        "assumptions": ["object names are valid UTF-8 (the page token is a protobuf string)"],
    },
    "C12": {
        "lean": "Emu.Props.C12",
        "diffs": [{"cmd": "bt", "scenario": "c12", "quick": 120, "thorough": 3000}],
        "facts": [],
        "trusted": BT_TRUST,
        "assumptions": ["the row-sample filter's random draw is pinned through the verif hook"],
    },
    "C13": {
        "lean": "Emu.Props.C13",
        "diffs": [{"cmd": "bt", "scenario": "c13", "quick": 120, "thorough": 3000}],
        "facts": [],
        "trusted": BT_TRUST,
        "assumptions": [],
    },
    "C14": {
        "lean": "Emu.Props.C14",
        "diffs": [{"cmd": "bt", "scenario": "c14", "quick": 100, "thorough": 2500},
                  # "unreachable", "removes" and "starts empty" also hold for the next process: the crash programs of C08
                  {"cmd": "btcrash", "scenario": "c08", "quick": 12, "thorough": 200, "corpus": "btcrash"}],
        "facts": ["bt.server_rpc_methods", "bt.table_mutex"],
        "trusted": BT_TRUST + ["(crash stage) rename(2)/unlink(2) are atomic; a goleveldb row write is atomic and survives the death of the process; goleveldb recovers its journal; a copy of the directory taken at an instant is what a process killed at that instant leaves"],
        "assumptions": ["(crash stage) crash positions are the request boundaries and the verifCrashPoint hooks, as for C08"],
    },
    "C16": {
        "lean": "Emu.Props.C16",
        "diffs": [
            {"cmd": "bt", "scenario": "c16", "quick": 100, "thorough": 2500},
            {"cmd": "bt", "scenario": "c16w", "quick": 25, "thorough": 400},
            # the background loop's pass (non-forced) and the quiescence it waits for
            {"cmd": "bt", "scenario": "c16q", "quick": 80, "thorough": 2000},
        ],
        "facts": ["bt.table_mutex", "bt.gc_calls"],
        "trusted": BT_TRUST + ["the 15-60 s timer loop (gcloop) is not modelled; a pass is forced through the verif hook with the injected clock"],
        "assumptions": ["interleaved writes at the lock reversals are SetCells on rows that exist during the whole pass (whether a row inserted during a pass is visited by it is engine dependent and not fixed by the property)"],
    },
    "C17": {
        "lean": "Emu.Props.C17",
        "diffs": [
            {"cmd": "bt", "scenario": "c17", "quick": 120, "thorough": 3000},
            {"cmd": "bt", "scenario": "c03big", "quick": 12, "thorough": 200},
            {"cmd": "bt", "scenario": "c17big", "quick": 2, "thorough": 30, "no_corpus": True},
            {"cmd": "bt", "scenario": "c14", "quick": 40, "thorough": 800, "no_corpus": True},
        ],
        "facts": ["bt.iterator_result_discarded_in"],
        "trusted": BT_TRUST,
        "assumptions": ["every program runs on the btree, leveldb-memory and leveldb-disk engines and each is compared with the one Model"],
    },
    "C02": {
        "lean": "Emu.Props.C02",
        "diffs": [
            {"cmd": "gcs", "scenario": "c02", "quick": 120, "thorough": 3000},
            # a payload larger than every buffer size in sight (10 MiB + 4 KiB) through the upload protocols, read back
            {"cmd": "gcs", "scenario": "c02big", "quick": 1, "thorough": 8, "no_corpus": True},
        ],
        "facts": [],
        "trusted": GCS_TRUST,
        "assumptions": ["object names whose URL path would contain '//' or that embed another API path ('/b/x/o/') are not generated (DESIGN 5, B9)"],
    },
    "C04": {
        "lean": "Emu.Props.C04",
        "diffs": [
            {"cmd": "gcs", "scenario": "c04x", "quick": 0, "thorough": 0, "exhaustive": True},
            {"cmd": "gcs", "scenario": "c04", "quick": 100, "thorough": 3000},
            # conditioned writers of different kinds racing on one object: exactly one may pass its precondition
            {"cmd": "gcsconc", "scenario": "c07s", "quick": 15, "thorough": 300, "corpus": "gcsconc", "args": {"quick": ["--maxruns", "150"], "thorough": ["--maxruns", "2000"]}},
        ],
        "facts": ["gcs.lock_keys"],
        "trusted": GCS_TRUST,
        "assumptions": ["'supplied' means non-zero for the three parameters other than ifGenerationMatch (the code cannot tell =0 from unset there)"],
    },
    "C10": {
        "lean": "Emu.Props.C10",
        "diffs": [
            {"cmd": "gcs", "scenario": "c10", "quick": 100, "thorough": 2500},
            # the versioning laws under concurrent writers of one object (generations still only grow)
            {"cmd": "gcsconc", "scenario": "c07s", "quick": 15, "thorough": 300, "corpus": "gcsconc", "args": {"quick": ["--maxruns", "150"], "thorough": ["--maxruns", "2000"]}},
        ],
        "facts": ["gcs.lock_keys"],
        "trusted": GCS_TRUST,
        "assumptions": [],
    },
    "C15": {
        "lean": "Emu.Props.C15",
        "diffs": [
            {"cmd": "gcs", "scenario": "c15", "quick": 100, "thorough": 2500},
            {"cmd": "gcs", "scenario": "c15mem", "quick": 60, "thorough": 1500, "engines": "mem"},
        ],
        "facts": ["gcs.lock_keys"],
        "trusted": GCS_TRUST,
        "assumptions": [],
    },
    "C19": {
        "lean": "Emu.Props.C19",
        "diffs": [
            {"cmd": "lock", "scenario": "c19x", "quick": 0, "thorough": 0, "exhaustive": True, "no_corpus": True},
            {"cmd": "lock", "scenario": "c19", "quick": 300, "thorough": 6000, "no_corpus": True},
        ],
        "facts": ["lock.state_access_outside_map_mu"],
        "trusted": ["Go memory model: a sync.Mutex section is atomic, a send on a full one-slot channel blocks, a receive frees the slot, select takes a ready case (the runs exercise the real runtime; fairness of the scheduler is not modelled)"],
        "assumptions": ["the select's choice between two ready cases (context already ended AND slot free) cannot be forced from outside: the machine allows both outcomes, the runs take the one the implementation takes"],
    },
    "C06": {
        "lean": "Emu.Props.C06",
        "diffs": [
            {"cmd": "btconc", "scenario": "c06s", "quick": 24, "thorough": 600, "no_corpus": True, "args": {"quick": ["--maxruns", "250"], "thorough": ["--maxruns", "3000"]}},
            {"cmd": "bt", "scenario": "c06", "quick": 100, "thorough": 2500},
        ],
        "facts": ["bt.tables_access_outside_server_mu", "bt.table_mutex"],
        "trusted": BT_TRUST + ["sync.RWMutex gives mutual exclusion between a writer and everyone else (the interleaving runs exercise the real mutex; its fairness is not modelled)"],
        "assumptions": ["concurrent requests are parked only at the repository's yield points (before the table lock, inside it after each row fetch); code between two yield points runs as one step"],
    },
    "C07": {
        "lean": "Emu.Props.C07",
        "diffs": [
            {"cmd": "gcsconc", "scenario": "c07s", "quick": 40, "thorough": 800, "corpus": "gcsconc", "args": {"quick": ["--maxruns", "250"], "thorough": ["--maxruns", "3000"]}},
            {"cmd": "gcsconc", "scenario": "c07t", "quick": 6, "thorough": 120, "engines": "file", "corpus": "gcsconc"},
        ],
        "facts": ["gcs.filestore_fields", "lock.state_access_outside_map_mu", "gcs.lock_keys", "gcs.filestore_mutex"],
        "trusted": GCS_TRUST + ["the per-object lock is gcsutil.TransientLockMap (C19); sync.RWMutex of the file store and the memory store's mutex make each store operation atomic (the tear scenario parks a writer between the file store's two file writes to check exactly that)"],
        "assumptions": ["concurrent requests are parked only at the repository's yield points (before the object lock, just inside it, right after its release, and — tear scenario — between the file store's content write and sidecar write, and between a file-store read's sidecar read and content read)",
                        "symbolic conditions (generation = current) of the concurrent requests are resolved against the state after the sequential prefix, on both sides"],
    },
    "C18": {
        "lean": "Emu.Props.C18",
        "diffs": [
            {"cmd": "btscan", "scenario": "c18", "quick": 10, "thorough": 300, "no_corpus": True},
        ],
        "facts": ["bt.table_mutex"],
        "trusted": BT_TRUST + ["a goleveldb iterator is a snapshot of the store taken when it is created (this is what the correspondence run checks from outside: rows after the scan position keep their pre-write state within a range, later ranges see the writes)"],
        "assumptions": ["writes are issued from inside the harness's own stream.Send, i.e. exactly in the windows in which the scan has released the table lock; the btree engine is excluded (it documents that it does not offer this)"],
    },
    "C08": {
        "lean": "Emu.Props.C08",
        "diffs": [
            {"cmd": "btcrash", "scenario": "c08", "quick": 25, "thorough": 600, "corpus": "btcrash"},
        ],
        "facts": ["bt.table_mutex"],
        "trusted": BT_TRUST + ["rename(2)/unlink(2) are atomic; a goleveldb row write is atomic and survives the death of the process; goleveldb recovers its journal; a copy of the directory taken at an instant is what a process killed at that instant leaves (data written but not synced is in the page cache, which a copy and a restarted process both see; a machine crash is not modelled)"],
        "assumptions": ["crash positions are the request boundaries and the verifCrashPoint hooks inside SetTableMeta, newDiskDb(nuke) and leveldbRows.Clear, as the property's quantifier says; a crash in the middle of a multi-row request (MutateRows, prefix drop, purge) is outside it"],
    },
    "C09": {
        "lean": "Emu.Props.C09",
        "diffs": [
            {"cmd": "gcs", "scenario": "c09", "quick": 100, "thorough": 2500},
            {"cmd": "gcs", "scenario": "c09r", "quick": 80, "thorough": 2000, "engines": "file"},
            {"cmd": "gcs", "scenario": "c09p", "quick": 60, "thorough": 1500, "engines": "file", "no_corpus": True},
        ],
        "facts": ["gcs.filestore_fields", "gcs.filestore_mutex"],
        "trusted": GCS_TRUST + ["object name <-> file path is one-to-one for names representable as files (the directory structure is not modelled; the generated names are representable)"],
        "assumptions": ["a restart is a new GcsEmu on the same directory (the filestore struct has no field besides the directory name and a mutex — fact gcs.filestore_fields — so a kill between requests leaves nothing else to lose); resumable upload sessions live in the emulator, not in the store, and do not survive a restart"],
    },
    "C20": {
        "lean": "Emu.Props.C20",
        "diffs": [
            {"cmd": "robust", "scenario": "c20", "quick": 600, "thorough": 20000, "no_corpus": True},
        ],
        "facts": ["bt.partial_ops", "gcs.partial_ops", "bt.tables_access_outside_server_mu", "lock.state_access_outside_map_mu", "bt.server_rpc_methods", "gcs.handlers", "bt.table_mutex", "gcs.filestore_mutex", "gcs.lock_keys"],
        "trusted": ["net/http, gRPC and the Go runtime behave as documented; requests reach the Bigtable service as the wire can carry them (every generated message is encoded and decoded once before the call)"],
        "assumptions": ["PARTIAL: the theorems cover the sequential slicing/indexing sites only; panics elsewhere, data races, fatal runtime errors, hangs and leaks are searched for (request perturbation, concurrent mix in a child process, race detector in the thorough tier), not proved absent"],
    },
}
