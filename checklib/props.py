"""Per-property configuration of ./check (which theorems, which ties, which scenarios)."""

BT_TRUST = [
    "protobuf marshal/unmarshal is a deep copy that maps empty bytes to nil; goleveldb and google/btree are ordered maps under bytewise order (cross-checked by running every program on all three engines)",
    "rsc.io/binaryregexp agrees with the Lean derivative matcher on the generated regex fragment (cross-checked on every run)",
]

PROPS = {
    "C01": {
        "lean": "Emu.Props.C01",
        "diffs": [
            {"cmd": "bt", "scenario": "c01", "quick": 150, "thorough": 3000},
            {"cmd": "bt", "scenario": "c06", "quick": 60, "thorough": 1000, "no_corpus": True},
        ],
        "facts": [],
        "trusted": BT_TRUST,
        "assumptions": ["sequential clients; cell values far smaller than one gRPC message"],
    },
}
