"""Texts of MANIFEST.json, one entry per property claimed."""

NOTES = ("Technique family: machine-checked proof in Lean 4. Every claimed property has theorems in lean/Emu/Props/<id>.lean about "
         "the Lean Model of the code and a correspondence check that runs the compiled Model and the real code on the same "
         "generated request programs. See DESIGN.md.")

COMMON_NOTE = ("Trusted: Lean 4.33.0 kernel and the axioms listed per theorem in the evidence (at most propext, Quot.sound, Classical.choice); "
               "the hand-written Lean Model (modelled, not verified: its tie to /repo is the regenerated constants/facts and the differential "
               "correspondence, whose reach is bounded by the generators whose distribution is printed in the evidence); factx, the Go harness, the "
               "canonicaliser and the orchestrator; external libraries as stated in DESIGN 2.6.")

TEXT = {
    "C01": {
        "level": "Theorems (unbounded, by induction over mutation lists and request programs) that the Model's stored rows stay well formed, "
                 "that a successful MutateRow is the fold of the data-model semantics and that an invalid element leaves the store unchanged; "
                 "the Model is tied to the code by running generated mutation programs with reads after every request on all three engines.",
        "note": COMMON_NOTE,
        "technique": "Lean 4 proof (invariant + refinement) of the Model; differential correspondence Model vs code",
    },
    "C03": {
        "level": "Theorem: for every sorted store and every RowSet (any keys and ranges, open/closed/unbounded, overlapping, inverted, duplicated) the ranges produced by "
                 "mergeRowRanges have the same union, are pairwise separated and ordered, and scanning them in turn visits exactly rows.filter(inRowSet), hence each row once in "
                 "ascending order (successor lemma k<x <-> k++[0]<=x, merge-loop invariants, flatMap-over-separated-ranges lemma); empty RowSet = whole table; inverted range rejected; "
                 "rows_limit = take. Tied to the code by the complete enumeration the property asks for (every set of <=2 ranges x <=1 key over the 7 adversarial keys, 3 engines) "
                 "plus random programs and multi-message tables. The merge phase works in place (write pointer trailing the read index): that array loop, written with Go's reads/writes/re-slice, is proved to compute exactly the functional fold, and the loop's three closures (endCmp, the sort.Slice comparator, merge) are regenerated from the Go text on every run and proved equal to the Model's endLt, srLess, merge1. Chunk stream: decode (encode rows) = rows for every list of rows (decoder = the client state machine: key/family/qualifier on a row's first chunk, one commit, no orphan chunk), messages concatenate to the stream and are never empty. SampleRowKeys: for EVERY sequence of random draws the answer is a subsequence of the stored keys ending with the last, offsets non-decreasing; the judge used on the implementation's answers (400 calls per request) is proved exact and is evaluated in Lean on every answer and every chunk stream seen. keysOutOfRange and messageOnInvalidKeyRanges are regenerated from the Go text on every run and proved equal to the Model's.",
        "note": COMMON_NOTE,
        "technique": "Lean 4 proof (order lemmas, loop invariants, induction over sorted rows); exhaustive + random differential correspondence",
    },
    "C05": {
        "level": "Theorems on the flat (family, qualifier, cell) view of a row: the derivative regex matcher decides the declarative language (whole-field, bytewise); row limit = take, "
                 "offset = drop, per-cell filters = filter+map with their admission tests, column limit per column, chain = left-to-right composition, condition = branch by "
                 "'predicate yields a cell', interleave = multiset union of matching branches per column, sample = all or nothing; every invalid argument at any depth makes the "
                 "request InvalidArgument before any row is looked at. Tied to the code by the complete leaf basis and all depth-2 compositions, plus random trees to depth 4. validateFilter's, includeCell's and modifyCell's Go text (the type switches over the filter oneof, their checks, the recursion, the open/closed/unset range bounds, the cell literals of the transformers) is regenerated into Lean on every run and proved equal to the Model's validFilter (every filter tree), includeCell and modifyCell (every validated filter).",
        "note": COMMON_NOTE,
        "technique": "Lean 4 proof (structural induction, mutual recursion over the filter tree, Brzozowski derivatives); exhaustive + random differential correspondence",
    },
    "C11": {
        "level": "Theorem `full_statement`: for EVERY sorted set of non-empty names, every prefix, every delimiter (none, one byte, several bytes) and every page size >= 1, following nextPageToken "
                 "until it is empty yields as items exactly the names that start with the prefix and have no delimiter after it, each once, in ascending order; as prefixes exactly the distinct "
                 "rolled-up prefixes, each once; no page holds more than maxResults entries; the last page has no token. (Proof: what `collapse` computes depends only on the bytes up to the end of "
                 "the first delimiter; names that roll up into one prefix are contiguous in a sorted list; a page consumes an initial segment made of whole blocks; the next cursor sits at a block "
                 "end, so the skip rule drops nothing; induction over the number of names beyond the cursor.) Plus per-page soundness, and item metadata = the stored record. Tied to the code by "
                 "the exhaustive enumeration of two 9-name universes (all subsets x all prefixes x 4 delimiters x 4 page sizes, both stores) and random programs.",
        "note": COMMON_NOTE + " Names are assumed to be valid UTF-8 (the page token is a protobuf string) and non-empty.",
        "technique": "Lean 4 proof (first-occurrence lemmas for multi-byte delimiters, block structure of sorted names, fold decomposition, induction over pages); exhaustive differential correspondence on both stores",
    },
    "C12": {
        "level": "Theorems: CheckAndMutateRow is, for every valid predicate tree, row state and pair of mutation lists, exactly 'matched = predicate yields a cell; apply the selected list "
                 "with MutateRow semantics'; invalid predicate => InvalidArgument, invalid mutation in the selected branch => error, other branch irrelevant, frame for other rows, and "
                 "matched agrees with what ReadRows with the same filter emits. Tied to the code by random predicates x mutation-list pairs over histories on three engines. validateFilter's, includeCell's and modifyCell's Go text (the type switches over the filter oneof, their checks, the recursion, the open/closed/unset range bounds, the cell literals of the transformers) is regenerated into Lean on every run and proved equal to the Model's validFilter (every filter tree), includeCell and modifyCell (every validated filter).",
        "note": COMMON_NOTE,
        "technique": "Lean 4 proof (decision logic stated outright + frame); differential correspondence",
    },
    "C13": {
        "level": "Theorems: big-endian int64 decode(encode v) = v on the whole int64 range, wrap-around sum is an int64 congruent mod 2^64, and a complete rule semantics (accepted iff "
                 "family known and an existing newest cell is 8 bytes for increments; written value and timestamp; older versions kept; other columns untouched; failure changes nothing). "
                 "Tied to the code by rule lists with extreme amounts, future cells, 0/7/8/9-byte values and injected clocks on three engines.",
        "note": COMMON_NOTE,
        "technique": "Lean 4 proof (arithmetic round trip with omega; rule semantics by cases); differential correspondence",
    },
    "C14": {
        "level": "Theorems over the registry/table Model: create/exists, delete => NotFound, frame for other tables; ModifyColumnFamilies all-or-nothing; a family drop purges exactly that family's "
                 "cells (scrub lemma); DropRowRange(prefix) — modelled as the code's scan-from-prefix-until-first-non-prefix — deletes exactly the rows with that prefix (prefix-block lemma on the "
                 "bytewise order, for all sorted stores); the consistency requests (GenerateConsistencyToken, CheckConsistency) answer NotFound on a missing or deleted table whatever token is shown, and accept exactly the table's own token otherwise. Tied to the code by admin/data programs (incl. tokens kept across a delete) with full dumps on three engines, and by C08's crash programs on the disk engine (a deleted table, emptied rows, a dropped family stay so for the next process).",
        "note": COMMON_NOTE,
        "technique": "Lean 4 proof (order lemma + induction over rows); differential correspondence; structural fact on the RPC method set",
    },
    "C16": {
        "level": "Theorems: for every GC rule tree (mutual induction) applyGC retains exactly the first keep(rule) cells of the descending column; max-age retains exactly ts >= now-age; union = shortest "
                 "member prefix; unsupported rules and rule-less families untouched; emptied rows removed; other tables untouched; the pass collects the row as stored at visit time; the background loop's (non-forced) pass leaves a table alone unless its activity stamps say quiet, and quiet <-> written (or created) since the last pass and neither read nor written for quiesceNanos, stated over the table's history — so a request less than five minutes ago keeps the pass away; applyGC's own Go text (type switch over the rule oneof, cut-off arithmetic, the binary search sort.Search, slicing, the loop over a union's members) is regenerated into Lean on every run and proved equal to the Model's applyGC on every descending cell list, with the binary search's specification (first index of a monotone predicate) proved for the standard library's loop. "
                 "Tied to the code by forced passes with an injected clock at the boundaries, and by passes interleaved with client writes at every lock reversal (yield hook), and by the loop's own pass tried after controlled amounts of idle time (hooks Idle/TryGC) between valid and rejected requests.",
        "note": COMMON_NOTE + " The timer that decides when a pass runs is not modelled.",
        "technique": "Lean 4 proof (mutual structural induction over rule trees); differential correspondence incl. hook-driven interleavings",
    },
    "C17": {
        "level": "The Model has no engine parameter; every generated program (incl. scans whose Send fails part-way, limits, drops, clears, re-created tables) runs on all three "
                 "engines and each is compared with that one Model, so the engines agree by transitivity. Theorems cover the caller side of the Rows interface: the ReadRows "
                 "callback loop yields the same rows whether or not the iteration honours the callback's stop request, and equals the declarative scan (first N emitting rows); "
                 "likewise DropRowRange's collect-until-first-mismatch. A structural fact checks that no Rows implementation discards the iterator's result.",
        "note": COMMON_NOTE,
        "technique": "Lean 4 proof (loop equivalence by induction); 3-engine differential correspondence; go/types structural fact",
    },
    "C02": {
        "level": "Theorems: the chunking law of resumable uploads (for every payload and every request sequence carrying parts of it the buffer stays a prefix "
                 "and every completion hands over exactly the payload — induction over the request list), upload-then-read round trip, rejected MD5 mismatch, "
                 "whole-object overwrite, delete and frame; tied to the code by driving all upload protocols, URL forms and both stores with real HTTP requests.",
        "note": COMMON_NOTE + " URL parsing, multipart and gzip decoding are exercised by the correspondence check, not modelled.",
        "technique": "Lean 4 proof (induction, round-trip laws) of the Model; differential correspondence over real HTTP handlers",
    },
    "C04": {
        "level": "Theorems stating the decision logic outright: validateConds passes iff every supplied condition holds, 304 only for a failed not-match, 412 only for a "
                 "failed match/must-not-exist, absent objects, unparsable values, and a frame theorem over every request kind (any failure response leaves buckets and clock "
                 "unchanged); tied to the code by condition combinations inside random histories on both stores.",
        "note": COMMON_NOTE,
        "technique": "Lean 4 proof (decision logic + frame theorem by cases on all ops); differential correspondence",
    },
    "C10": {
        "level": "Theorems over all histories: an invariant (every stored generation <= logical clock) preserved by every request, clock monotonicity, hence a new generation exceeds "
                 "every generation any object had in any earlier state; patch keeps generation/content/MD5 and adds one to metageneration; a classification of all possible store "
                 "changes (Evolves). Tied to the code by histories with back-to-back writes on both stores, comparing all reporting places.",
        "note": COMMON_NOTE + " The Model's generation is a logical clock; real generations are compared by rank.",
        "technique": "Lean 4 proof (invariant by induction over request programs); differential correspondence",
    },
    "C15": {
        "level": "Theorems: composed content is the in-order concatenation of the sources' pre-state contents (induction over the source list), missing source and >32 sources fail, "
                 "destination-among-sources, frame for all other objects; copy clones content/MD5/metadata with a fresh generation and leaves the source. Tied to the code on both stores.",
        "note": COMMON_NOTE,
        "technique": "Lean 4 proof (induction over source lists, frame lemmas); differential correspondence",
    },
    "C19": {
        "level": "Theorems about the lock map as a small-step machine with one step per map-mutex section and per channel operation, for ANY number of goroutines, keys and steps "
                 "(induction over schedules): the invariant refcount = goroutines between ++ and --, entry present iff refcount > 0, slot full iff exactly one owner; hence mutual "
                 "exclusion; Lock fails only after cancellation and then owns nothing; a free key can always be acquired by a waiter (no lost wake-up at the level of the machine); the "
                 "holder can always unlock; other keys are untouched; stray unlock panics without changing state; quiescent map is empty. Tied to the code by running the real "
                 "TransientLockMap through schedules that take EVERY transition of the machine's reachable graph for 2x2x2, 3x2x1 and 3 goroutines x 2 keys x 2 rounds with "
                 "cancellation (the configuration the property names), comparing program counter, refcount and slot after every step, plus random walks with 2-6 goroutines in "
                 "which waiters really block in the select; a go/types fact checks that locks/refcount are only touched under the map mutex.",
        "note": COMMON_NOTE + " Go runtime primitives (mutex, channel, select) are assumed to follow the Go memory model; scheduler fairness is not modelled.",
        "technique": "Lean 4 proof (invariant by induction over schedules, countP arithmetic); transition-covering schedule replay of the real lock map against the machine",
    },
    "C06": {
        "level": "Theorem (generic one-lock machine, any number of goroutines, any interleaving): at most one request is inside its critical section, the shared state is the sequential "
                 "run of the requests in critical-section order, every response is that run's response, the order respects real time, each request is linearised once; N increments add "
                 "exactly N; failure atomicity of MutateRow / MutateRows entry / CheckAndMutateRow / ReadModifyWriteRow on the sequential Model. Tied to the code by running 2-4 real "
                 "concurrent requests parked at the repository's yield points through every interleaving (stateless DFS, incl. attempts to enter while another request is inside) and "
                 "replaying each run on the Lean machine instantiated with the sequential Bigtable Model; a disagreement is then decided by searching all serial orders.",
        "note": COMMON_NOTE + " sync.RWMutex semantics are assumed; fairness is not modelled; preemption is explored at the yield points only.",
        "technique": "Lean 4 proof (one-lock linearizability theorem by invariant over schedules); exhaustive interleaving replay of the real RPCs against the machine",
    },
    "C07": {
        "level": "Theorems: the one-lock machine theorem instantiated with the sequential GCS Model (any number of requests on one object, any interleaving: state = serial run in critical-section "
                 "order, each request once); on that Model, of N writers conditioned on the same generation or on non-existence exactly the first in any serial order succeeds; a "
                 "metageneration-conditioned patch applies only to a state it matched and a refused one changes nothing; a read returns one stored record; a compose, whose sources are read before its destination is validated and written, is the one-step compose of the Model whenever no source changed in between, which uploads, copies, patches and composes targeting other objects guarantee (and, stated so that it is not mistaken for covered, it is not one step next to a writer of a source: a concrete non-serialisable outcome, outside the property since the two requests target different objects). Tied to the code by running 2-3 real "
                 "concurrent HTTP requests (upload, patch, delete, compose, copy, metadata and media GETs, with generation / must-not-exist / metageneration conditions) on overlapping names through "
                 "every interleaving of the repository's yield points on both stores; each run must be explained by the Lean Model under some serial order compatible with real time (first "
                 "candidate: the order of lock releases). A tear scenario parks a file-store writer between its content write and its sidecar write while readers run.",
        "note": COMMON_NOTE + " Mutex / channel semantics of the Go runtime are assumed; fairness is not modelled; preemption is explored at the yield points only.",
        "technique": "Lean 4 proof (one-lock linearizability theorem + exactly-one-winner lemmas on the sequential Model); exhaustive interleaving replay of real HTTP handlers with serial-order search through the Model",
    },
    "C18": {
        "level": "Theorems about the scan as a machine (open a range = take a snapshot, visit its rows, close; a concurrent write may occur between ANY two steps — a superset of the code's windows), "
                 "for every run: what has been visited is, range by range, the rows of that range in the snapshot the range was given, and every snapshot is a state the table really had; hence "
                 "keys strictly ascending and no duplicates (merged ranges are separated, C03; states are sorted), every returned row is a row of one real table state (never a mixture), rows that "
                 "were in every state are returned, writers can always write and the scan always has an enabled step (ends OK), and without writes it is the sequential scan of C03. Tied to the code "
                 "by multi-message scans over 1200-2400 rows on both leveldb engines with SetCell / DeleteFromRow / ReadModifyWrite / MutateRows issued from inside stream.Send on rows before, at, "
                 "right after and far after the scan position; the streamed rows must equal the machine's.",
        "note": COMMON_NOTE + " goleveldb's iterator-is-a-snapshot property is assumed by the machine and checked from outside by the correspondence run.",
        "technique": "Lean 4 proof (invariant over all interleavings of scan steps and writes); write-injecting scan replay against the machine",
    },
    "C08": {
        "level": "Theorems about the disk storage as a machine of atomic disk steps (write temp definition, rename, remove / open the database directory, one row write, remove definition) with "
                 "`view` = what a service started on the disk serves: for ANY disk meeting only the request's precondition (so: after any earlier program and crashes), after EVERY prefix of the "
                 "step list of CreateTable / DeleteTable / SetTableMeta / Clear / a family drop, the table's view is the one before or the one after the request and all other tables are "
                 "untouched; the temp file is never served; a restart changes nothing (hence any number of crash-restart cycles); plus the negative theorem that the pre-repair Create order "
                 "served leftovers. Tied to the code by copying the real directory at every request boundary and at every verifCrashPoint hit, starting a fresh service on each image and "
                 "comparing ListTables/GetTable/ReadRows of every table with the Lean Model's state before/after the request; some runs continue on the image (repeated cycles).",
        "note": COMMON_NOTE + " Atomic rename/unlink and goleveldb durability/recovery are assumed; machine crashes (lost page cache, torn sectors) are not modelled.",
        "technique": "Lean 4 proof (crash-prefix case analysis over disk-step plans, for arbitrary leftover disk states); crash-image replay of the real on-disk engine against the Model",
    },
    "C09": {
        "level": "Theorems: the abstraction from what the file store keeps on disk (content file with its modification time, optional .emumeta sidecar) to the memory store's object list commutes "
                 "with lookup, Add, UpdateMeta, Delete and Copy, hence with every sequence of store operations (induction over programs): both stores hold the same objects up to the concrete "
                 "generation numbers; a content file without sidecar is served with derived metadata. Persistence: the on-disk data is all the state (structural fact on the filestore struct, "
                 "checked on every run). Tied to the code by running every generated program on both stores against the one Model, with re-opens of the directory at request boundaries and "
                 "hand-planted sidecar-less files.",
        "note": COMMON_NOTE + " The name<->path mapping and the directory structure are not modelled (representable names only).",
        "technique": "Lean 4 proof (refinement: abstraction function commutes with every store operation; induction over programs); two-store differential correspondence with restarts",
    },
    "C20": {
        "level": "PARTIAL. Theorems: Go's partial operations (slice, index, sort.Search) are modelled explicitly and the emulators' functions that slice or index with bounds computed from request "
                 "data (DeleteFromColumn range removal, GC max-age / max-versions, the three cell-count filters, the 8-byte RMW decode, prefix comparison, resumable truncation, compose / rewrite "
                 "path splitting, batch Content-ID, the in-place merge of mergeSimpleRanges and the in-place compaction of scrubRow/scrubFam — also proved equal to the Model's folds —, escapeUTF's table lookups, the last-chunk and file-extension lookups) are proved never to fault for EVERY input (negative counts do fault: that is why they are validated up front). The inventory of such sites is "
                 "regenerated from the source on every run and compared. Everything a sequential model cannot exhibit is SEARCHED, not proved: structure-aware perturbation of valid requests to "
                 "every endpoint / RPC with a probe after each (no panic, no hang, well-formed response, stored data intact), batch parts compared with the same requests sent alone, a concurrent "
                 "admin/data mix in a child process built with the race detector (a fatal runtime error or a data race kills it; abandoned scans, opposite-direction rewrites and schema changes of a table being created are in the mix), plus the lock-discipline facts (lock key per handler, Lock/Unlock sequence per function). A request that never returns, or a crash of the whole process, is reported as a violation with the program in flight as the replay.",
        "note": COMMON_NOTE + " This property is claimed as partial: absence of races, hangs and leaks is not a theorem.",
        "technique": "Lean 4 proof of fault-freedom for the modelled partial operations + regenerated site inventory; structure-aware fuzzing and concurrent mix as search (not proof)",
    },
}

NOT_APPLICABLE = {("C%02d" % i): "check not built yet in this session (work in progress; see DESIGN.md section 8)" for i in range(1, 21)}
