"""Texts of MANIFEST.json, one entry per property claimed."""

NOTES = ("Technique family: machine-checked proof in Lean 4. Every claimed property has theorems in lean/Emu/Props/<id>.lean about "
         "the Lean Model of the code and a correspondence check that runs the compiled Model and the real code on the same "
         "generated request programs. See DESIGN.md.")

COMMON_NOTE = ("Trusted: Lean 4.33.0 kernel and the axioms listed per theorem in the evidence (at most propext, Quot.sound, Classical.choice); "
               "the hand-written Lean Model (modelled, not verified: its tie to /repo is the regenerated constants/facts and the differential "
               "correspondence, whose reach is bounded by the generators whose distribution is printed in the evidence); factx, the Go harness, the "
               "canonicaliser and the orchestrator; external libraries as stated in DESIGN 2.6.")

TEXT = {
    "C01": {
        "level": "Theorems (unbounded, by induction over mutation lists and request programs) that the Model's stored rows stay well formed, "
                 "that a successful MutateRow is the fold of the data-model semantics and that an invalid element leaves the store unchanged; "
                 "the Model is tied to the code by running generated mutation programs with reads after every request on all three engines.",
        "note": COMMON_NOTE,
        "technique": "Lean 4 proof (invariant + refinement) of the Model; differential correspondence Model vs code",
    },
}

NOT_APPLICABLE = {("C%02d" % i): "check not built yet in this session (work in progress; see DESIGN.md section 8)" for i in range(1, 21)}
