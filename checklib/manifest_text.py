"""Texts of MANIFEST.json, one entry per property claimed."""

NOTES = ("Technique family: machine-checked proof in Lean 4. Every claimed property has theorems in lean/Emu/Props/<id>.lean about "
         "the Lean Model of the code and a correspondence check that runs the compiled Model and the real code on the same "
         "generated request programs. See DESIGN.md.")

COMMON_NOTE = ("Trusted: Lean 4.33.0 kernel and the axioms listed per theorem in the evidence (at most propext, Quot.sound, Classical.choice); "
               "the hand-written Lean Model (modelled, not verified: its tie to /repo is the regenerated constants/facts and the differential "
               "correspondence, whose reach is bounded by the generators whose distribution is printed in the evidence); factx, the Go harness, the "
               "canonicaliser and the orchestrator; external libraries as stated in DESIGN 2.6.")

TEXT = {
    "C01": {
        "level": "Theorems (unbounded, by induction over mutation lists and request programs) that the Model's stored rows stay well formed, "
                 "that a successful MutateRow is the fold of the data-model semantics and that an invalid element leaves the store unchanged; "
                 "the Model is tied to the code by running generated mutation programs with reads after every request on all three engines.",
        "note": COMMON_NOTE,
        "technique": "Lean 4 proof (invariant + refinement) of the Model; differential correspondence Model vs code",
    },
    "C02": {
        "level": "Theorems: the chunking law of resumable uploads (for every payload and every request sequence carrying parts of it the buffer stays a prefix "
                 "and every completion hands over exactly the payload — induction over the request list), upload-then-read round trip, rejected MD5 mismatch, "
                 "whole-object overwrite, delete and frame; tied to the code by driving all upload protocols, URL forms and both stores with real HTTP requests.",
        "note": COMMON_NOTE + " URL parsing, multipart and gzip decoding are exercised by the correspondence check, not modelled.",
        "technique": "Lean 4 proof (induction, round-trip laws) of the Model; differential correspondence over real HTTP handlers",
    },
    "C04": {
        "level": "Theorems stating the decision logic outright: validateConds passes iff every supplied condition holds, 304 only for a failed not-match, 412 only for a "
                 "failed match/must-not-exist, absent objects, unparsable values, and a frame theorem over every request kind (any failure response leaves buckets and clock "
                 "unchanged); tied to the code by condition combinations inside random histories on both stores.",
        "note": COMMON_NOTE,
        "technique": "Lean 4 proof (decision logic + frame theorem by cases on all ops); differential correspondence",
    },
    "C10": {
        "level": "Theorems over all histories: an invariant (every stored generation <= logical clock) preserved by every request, clock monotonicity, hence a new generation exceeds "
                 "every generation any object had in any earlier state; patch keeps generation/content/MD5 and adds one to metageneration; a classification of all possible store "
                 "changes (Evolves). Tied to the code by histories with back-to-back writes on both stores, comparing all reporting places.",
        "note": COMMON_NOTE + " The Model's generation is a logical clock; real generations are compared by rank.",
        "technique": "Lean 4 proof (invariant by induction over request programs); differential correspondence",
    },
    "C15": {
        "level": "Theorems: composed content is the in-order concatenation of the sources' pre-state contents (induction over the source list), missing source and >32 sources fail, "
                 "destination-among-sources, frame for all other objects; copy clones content/MD5/metadata with a fresh generation and leaves the source. Tied to the code on both stores.",
        "note": COMMON_NOTE,
        "technique": "Lean 4 proof (induction over source lists, frame lemmas); differential correspondence",
    },
}

NOT_APPLICABLE = {("C%02d" % i): "check not built yet in this session (work in progress; see DESIGN.md section 8)" for i in range(1, 21)}
