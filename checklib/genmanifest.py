#!/usr/bin/env python3
"""Regenerates MANIFEST.json from checklib/props.py and checklib/manifest_text.py."""
import json, os, sys, subprocess
ROOT = os.path.dirname(os.path.dirname(os.path.abspath(__file__)))
sys.path.insert(0, os.path.join(ROOT, "checklib"))
from props import PROPS
from manifest_text import TEXT, NOT_APPLICABLE, NOTES

BASELINE = json.load(open("/root/.vp/BASELINE.json"))["cmd"]
commits = subprocess.run(["git", "-C", "/repo", "log", "--format=%H %s"], capture_output=True, text=True).stdout.splitlines()
hook_commits = [l.split()[0] for l in commits if l.split(" ", 1)[1].startswith("verif hooks")]

checks = []
for pid in sorted(PROPS):
    t = TEXT[pid]
    checks.append({
        "property_id": pid,
        "quick_cmd": "./check %s --tier quick" % pid,
        "thorough_cmd": "./check %s --tier thorough" % pid,
        "evidence_file": "evidence/%s.json" % pid,
        "replay_cmd_template": "./check --replay {path}",
        "engine": "lean4-proof+correspondence",
        "level_claimed": {"category": "proof", "text": t["level"], "design_ref": t.get("design_ref", "DESIGN.md section 4")},
        "level_note": t["note"],
        "technique": t["technique"],
    })
m = {
    "version": 1,
    "setup_cmd": "./check --setup",
    "hooks": {
        "guard": "verif",
        "enable": "go build -tags verif (the harness module replaces the repository modules by /repo and is rebuilt on every check)",
        "baseline_off_cmd": BASELINE,
        "source_commits": hook_commits,
        "add_only": True,
    },
    "engines": [
        {"name": "lean4-proof+correspondence", "path": "lean/ harness/ factx/ check",
         "serves_properties": sorted(PROPS),
         "kind_free_text": "Lean 4 theorems about an executable Model of the code (lake project Emu), tied to /repo on every run by regenerated constants and structural facts (factx) and by a differential correspondence check of the compiled Model against the real code (harness/vh)"},
    ],
    "checks": checks,
    "not_applicable": [{"property_id": k, "reason": v} for k, v in sorted(NOT_APPLICABLE.items()) if k not in PROPS],
    "notes": NOTES,
}
json.dump(m, open(os.path.join(ROOT, "MANIFEST.json"), "w"), indent=1)
print("MANIFEST.json written:", len(checks), "checks,", len(m["not_applicable"]), "not claimed")
