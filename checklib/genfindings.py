#!/usr/bin/env python3
"""Regenerates known_findings.json: 'fixed' entries from /repo's fix: commits (table below) plus
the hand-written 'finding' entries (defects recorded rather than repaired)."""
import json, os, subprocess
ROOT = os.path.dirname(os.path.dirname(os.path.abspath(__file__)))

# commit subject (prefix) -> (id, properties, what failed, corpus witness)
FIXED = {
 "fix: MutateRows must not store": ("A3", ["C06", "C01"], "a MutateRows entry whose status is not OK still had the valid prefix of its mutations stored", "corpus/bt (found by scenario c01/c06)"),
 "fix: DeleteFromColumn validates": ("A7", ["C01"], "DeleteFromColumn with an invalid or inverted time range was accepted when the column did not exist", None),
 "fix: DeleteFromFamily rejects": ("A8", ["C01"], "DeleteFromFamily on a family that is not in the schema reported success", None),
 "fix: validate row filters up front": ("A1+A15", ["C05", "C12", "C20"], "invalid filter arguments were accepted when no cell reached them; negative cell counts panicked", "corpus/bt/A15-invalid-filter-unreached-1.json, corpus/bt/A1-negative-count-panic.json"),
 "fix: cells_per_row_offset_filter": ("A2", ["C05"], "cells_per_row_offset subtracted 0 for every skipped column", "corpus/bt/A2-A12-offset-condition.json"),
 "fix: condition filter takes": ("A12", ["C05"], "a condition whose predicate left no cell still took the true branch", "corpus/bt/A2-A12-offset-condition.json"),
 "fix: rows_limit counts only": ("A10", ["C03"], "rows_limit counted rows that produced no output", "corpus/bt/A10-rows-limit-counts-empty.json"),
 "fix: ModifyColumnFamilies applies all": ("A4", ["C14"], "ModifyColumnFamilies applied (and purged data for) the modifications before a rejected one", "corpus/bt/A4-modify-families-partial.json"),
 "fix: dropping a column family deletes rows": ("A9a", ["C14", "C03"], "a family drop left rows without cells, still reported by SampleRowKeys", None),
 "fix: ReadModifyWriteRow increment fails": ("A5", ["C13"], "increment on an existing empty value was treated as 0", "corpus/bt/A5-increment-on-empty-value.json"),
 "fix: ReadModifyWriteRow with no rules": ("A9b", ["C13", "C03"], "an RMW with no rules stored a row without cells", None),
 "fix: leveldb row iteration stops": ("A2'", ["C17"], "leveldb engines ignored the scan callback's stop request: a scan whose Send failed ended OK where btree reports the error", "corpus/bt/A2p-leveldb-ignores-stop.json"),
 "fix: applyGC ignores a negative": ("A13", ["C16", "C20"], "negative max_num_versions made the GC pass panic", "corpus/bt/A13-negative-max-versions-panic.json"),
 "fix: a GC pass re-reads each row": ("A11", ["C16"], "a write acknowledged while a GC pass had released the table lock was reverted", "corpus/bt/A11-gc-reverts-write.json"),
 "fix: a GC pass deletes rows": ("A9c", ["C16"], "a GC pass that removed a row's last cell stored a row without cells", "corpus/bt/A9-gc-leaves-empty-row.json"),
 "fix: GenerateConsistencyToken and CheckConsistency": ("A16a", ["C20"], "table registry read without the server mutex (fact T5(i) found CheckConsistency and GenerateConsistencyToken)", None),
 "fix: a metadata patch cannot overwrite": ("B6", ["C10"], "a patch body carrying computed fields overwrote md5Hash and (memory store) generation", "corpus/gcs/B6-patch-overwrites-md5.json"),
 "fix: bucket listing with a delimiter": ("B1", ["C11"], "delimiter listings repeated prefixes across pages and lost names after a page whose tail was rolled up", "corpus/gcs/B1-list-prefix-repeats.json"),
 "fix: the memory store does not hand out": ("N1", ["C15", "C10", "C04"], "patching a copy changed the source's user metadata (shared map); a failed patch could alter the stored object", "corpus/gcs/N1-memstore-metadata-map-aliased.json"),
 "fix: the file store walks a bucket": ("B7", ["C11", "C09"], "file store listed 'b/d.e' before 'b.c'; page 2 and prefix queries lost entries", "corpus/gcs/B7-filestore-walk-order.json"),
 "fix: rewrite (copy) parses": ("B2", ["C15", "C20"], "copy to a destination containing '/o/' wrote to the truncated name; a destination without '/o/' panicked", "corpus/gcs/B2-copy-dest-with-o.json"),
 "fix: the file store makes each object operation atomic": ("B8", ["C07", "C09"], "file store: a read overlapping an upload/compose/copy of the same object was served new content with old or no metadata (torn read)", "corpus/gcsconc/B8-filestore-torn-read.json"),
 "fix: upload and patch read the metadata they respond with": ("D1", ["C07", "C10", "C20"], "upload/patch built their response from a metadata read taken after releasing the object lock: it could describe a concurrent writer's object, and panicked if the object had just been deleted", "corpus/gcsconc/D1-upload-response-after-unlock-foreign.json"),
 "fix: DeleteTable removes the table's definition": ("A6", ["C08", "C14"], "disk storage: a deleted table (with its rows) was served again after a restart; rows left by a deleted table could be served under a re-created one", "corpus/btcrash/A6-deleted-table-reappears.json"),
 "fix: ModifyColumnFamilies persists the new definition": ("A14", ["C08"], "disk storage: a restart at the instrumented points of a family drop served the old families with their data already purged (neither before nor after)", "corpus/btcrash/A14-family-drop-half-applied.json"),
 "fix: compose rejects a null entry": ("R1", ["C20"], "compose with {\"sourceObjects\":[null]} panicked (nil dereference)", "harness/internal/robust/gcs.go Directed()"),
 "fix: media download of an object marked gzip": ("B4", ["C20"], "media GET of an object marked contentEncoding gzip whose bytes are not gzip panicked (nil gzip reader)", "harness/internal/robust/gcs.go Directed()"),
 "fix: a metadata patch whose body is the JSON value null": ("R2", ["C20"], "PATCH with the body null panicked (nil object)", "harness/internal/robust/gcs.go Directed()"),
 "fix: GetTable, CreateTable and ModifyColumnFamilies return a copy": ("A16b", ["C20"], "schema changes while fetching the schema: the live definition was encoded while ModifyColumnFamilies changed it — fatal 'concurrent map iteration and map write'", "robustmix (concurrent mix child process)"),
 "fix: rows are not rewritten while a scan over them is in progress": ("A17", ["C14", "C16", "C17"], "btree engine: ModifyColumnFamilies (drop) and the GC pass rewrote rows from inside the scan; with a row count that fills a btree node exactly (31, 47, 63, ... rows inserted in key order) the first rewrite split the node and the scan ended early: the remaining rows kept the dropped family's cells, or were skipped by the pass", "corpus/bt/A17-family-drop-on-a-full-btree-node.json, corpus/bt/A17-gc-pass-on-a-full-btree-node.json"),
 "fix: CreateTable copies the definition for its response before": ("A16c", ["C20"], "CreateTable copied the stored definition for its response after releasing the server lock, while a ModifyColumnFamilies on the new table could already write the family map — concurrent map read and write (data race; fatal when it hits)", "robustmix (concurrent mix child process, -race build): creator/deleter against a modifier of the same table"),
 "fix: page tokens for object names that are not valid UTF-8": ("B5", ["C20", "C11"], "a listing that has to continue after an object whose name is not valid UTF-8 panicked in EncodePageToken (the token is a protobuf string field); found by reading by a sub-agent, reproduced over HTTP: the connection is dropped", "harness/internal/robust/gcs.go Directed()"),
 "fix: the memory store creates and fetches a bucket": ("B11", ["C20"], "memory store: an upload or copy racing a bucket deletion dereferenced a nil bucket", "robustmix (concurrent mix child process)"),
 "fix: an upload whose bucket is deleted": ("R3", ["C20"], "an upload whose bucket was deleted before the response was built dereferenced nil metadata", "robustmix (concurrent mix child process)"),
 "fix: compose without a destination": ("B3", ["C15", "C20"], "compose without a destination resource panicked (nil dereference)", "corpus/gcs/B3-compose-without-destination.json"),
}

def main():
    log = subprocess.run(["git", "-C", "/repo", "log", "--format=%H %s"], capture_output=True, text=True).stdout.splitlines()
    out = []
    for line in reversed(log):
        sha, subj = line.split(" ", 1)
        if not subj.startswith("fix:"):
            continue
        hit = [v for k, v in FIXED.items() if subj.startswith(k)]
        if not hit:
            raise SystemExit("fix commit without an entry in genfindings.py: " + subj)
        fid, props, what, witness = hit[0]
        out.append({"kind": "fixed", "id": fid, "property": props[0], "properties": props, "commit": sha,
                    "what": what, "witness": witness,
                    "line": "fixed: property=%s %s %s" % (props[0], sha[:12], what)})
    findings = json.load(open(os.path.join(ROOT, "checklib", "findings_open.json")))
    out += findings
    json.dump(out, open(os.path.join(ROOT, "known_findings.json"), "w"), indent=1)
    print("known_findings.json:", len([e for e in out if e['kind']=='fixed']), "fixed,", len(findings), "open findings")

main()
