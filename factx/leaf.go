package main

// Leaf translator (tie T1, second half): a literal translation of a few straight-line predicates
// of the repository into Lean (lean/Emu/Generated/Leaf.lean). `Emu/Proofs/LeafTie.lean` proves each
// translated function equal to the hand-written Model function, so a change of the Go text changes
// the generated definition and the proof is re-checked against it.
//
// Subset: a body made of `if c { return e }`, `if p == nil { … }` on a pointer parameter,
// expression-less `switch` with `return` arms, and a final `return e`; expressions over integer,
// string, []byte and bool parameters: literals, package constants, len, comparisons, && || !,
// + - * %, bytes.Compare, x[:n] / x[n:], fields of struct parameters, comparison with package-level
// struct values, calls of fmtErrorfCode(http.StatusX, …) (an error is translated to its HTTP code,
// nil to 0). Anything else makes the function "unavailable" (its previous translation is kept).

import (
	"fmt"
	"go/ast"
	"go/constant"
	"go/token"
	"go/types"
	"os"
	"sort"
	"strings"

	"golang.org/x/tools/go/packages"
)

type leafTr struct {
	p       *packages.Package
	ptrs    map[string]bool            // pointer parameters (translated to Option)
	structs map[string]map[string]string // struct name -> field -> Lean type (fields actually used)
	globals map[string]string          // package-level struct values used -> Lean term
	deps    map[string]bool            // other translated functions called
	index   map[string]string          // `xs[i]` -> the Lean variable that stands for it (closure translation)
	locals  map[string]bool            // sibling closures that may be called
	optRet  bool                       // results (T, bool) read as Option T
	err     error
}

func indexKey(x *ast.IndexExpr) string { return exprString(x.X) + "[" + exprString(x.Index) + "]" }

func (t *leafTr) fail(format string, a ...any) string {
	if t.err == nil {
		t.err = fmt.Errorf(format, a...)
	}
	return "sorryUnavailable"
}

var leanKeywords = map[string]bool{"end": true, "prefix": true, "infix": true, "postfix": true, "at": true, "from": true, "have": true, "show": true, "fun": true, "by": true, "in": true, "do": true, "then": true, "else": true, "match": true, "with": true, "open": true, "section": true, "namespace": true, "def": true, "theorem": true, "where": true, "instance": true, "structure": true, "class": true, "let": true, "if": true, "Type": true, "Prop": true, "Sort": true, "macro": true, "syntax": true, "notation": true, "universe": true, "variable": true, "example": true, "local": true, "private": true, "protected": true, "set": true}

// ident makes a Go identifier usable as a Lean one
func ident(n string) string {
	if leanKeywords[n] {
		return n + "_"
	}
	return n
}

func leanType(ty types.Type) (string, bool) {
	switch u := ty.Underlying().(type) {
	case *types.Basic:
		switch {
		case u.Info()&types.IsInteger != 0:
			return "Int", true
		case u.Info()&types.IsString != 0:
			return "List Nat", true
		case u.Info()&types.IsBoolean != 0:
			return "Bool", true
		}
	case *types.Slice:
		if b, ok := u.Elem().Underlying().(*types.Basic); ok && b.Kind() == types.Byte {
			return "List Nat", true
		}
	}
	return "", false
}

func structName(ty types.Type) (string, *types.Struct, bool) {
	if p, ok := ty.(*types.Pointer); ok {
		ty = p.Elem()
	}
	n, ok := ty.(*types.Named)
	if !ok {
		return "", nil, false
	}
	s, ok := n.Underlying().(*types.Struct)
	if !ok {
		return "", nil, false
	}
	return "G" + n.Obj().Name(), s, true
}

func bytesLit(s string) string {
	parts := make([]string, len(s))
	for i := 0; i < len(s); i++ {
		parts[i] = fmt.Sprint(s[i])
	}
	return "([" + strings.Join(parts, ", ") + "] : List Nat)"
}

func (t *leafTr) useField(sname string, st *types.Struct, field string) {
	for i := 0; i < st.NumFields(); i++ {
		if st.Field(i).Name() == field {
			lt, ok := leanType(st.Field(i).Type())
			if !ok {
				t.fail("field %s.%s has an untranslatable type", sname, field)
				return
			}
			if t.structs[sname] == nil {
				t.structs[sname] = map[string]string{}
			}
			t.structs[sname][field] = lt
			return
		}
	}
	t.fail("no field %s in %s", field, sname)
}

// expr translates a Go expression to a Lean term of the corresponding type.
func (t *leafTr) expr(e ast.Expr) string {
	ti := t.p.TypesInfo
	if tv, ok := ti.Types[e]; ok && tv.Value != nil { // constant expression
		switch tv.Value.Kind() {
		case constant.Int:
			return "(" + tv.Value.ExactString() + " : Int)"
		case constant.String:
			return bytesLit(constant.StringVal(tv.Value))
		case constant.Bool:
			return fmt.Sprint(constant.BoolVal(tv.Value))
		}
	}
	switch x := e.(type) {
	case *ast.ParenExpr:
		return t.expr(x.X)
	case *ast.Ident:
		if x.Name == "true" || x.Name == "false" {
			return x.Name
		}
		if obj, ok := ti.Uses[x].(*types.Var); ok && obj.Parent() == t.p.Types.Scope() {
			// package-level value: only struct values with a composite-literal initialiser
			return t.global(obj)
		}
		return ident(x.Name)
	case *ast.SelectorExpr:
		if id, ok := x.X.(*ast.Ident); ok {
			if sname, st, ok := structName(ti.TypeOf(id)); ok {
				t.useField(sname, st, x.Sel.Name)
				return "(" + ident(id.Name) + "." + ident(x.Sel.Name) + ")"
			}
		}
		if ix, ok := x.X.(*ast.IndexExpr); ok {
			if v, ok := t.index[indexKey(ix)]; ok {
				if sname, st, ok := structName(ti.TypeOf(ix)); ok {
					t.useField(sname, st, x.Sel.Name)
					return "(" + v + "." + ident(x.Sel.Name) + ")"
				}
			}
		}
		return t.fail("selector %s", exprString(e))
	case *ast.IndexExpr:
		if v, ok := t.index[indexKey(x)]; ok {
			return v
		}
		return t.fail("index expression %s", indexKey(x))
	case *ast.CompositeLit:
		// T{field: value, …} of a struct type (an omitted field is its zero value)
		if sname, st, ok := structName(ti.TypeOf(x)); ok {
			var fs []string
			for _, el := range x.Elts {
				kv, ok := el.(*ast.KeyValueExpr)
				if !ok {
					return t.fail("positional struct literal")
				}
				k := exprString(kv.Key)
				t.useField(sname, st, k)
				fs = append(fs, ident(k)+" := "+t.expr(kv.Value))
			}
			return "({ " + strings.Join(fs, ", ") + " } : " + sname + ")"
		}
		return t.fail("composite literal %s", exprString(x.Type))
	case *ast.UnaryExpr:
		if x.Op == token.NOT {
			return "(!" + t.expr(x.X) + ")"
		}
		if x.Op == token.SUB {
			return "(-" + t.expr(x.X) + ")"
		}
	case *ast.CallExpr:
		fn := exprString(x.Fun)
		switch fn {
		case "len":
			return "((" + t.expr(x.Args[0]) + ").length : Int)"
		case "bytes.Compare":
			return "(bytesCompare " + t.expr(x.Args[0]) + " " + t.expr(x.Args[1]) + ")"
		case "bytes.Equal":
			return "(decide (" + t.expr(x.Args[0]) + " = " + t.expr(x.Args[1]) + "))"
		case "fmtErrorfCode":
			return t.expr(x.Args[0]) // an error is represented by its HTTP status code
		case "int", "int64":
			return t.expr(x.Args[0])
		}
		if id, ok := x.Fun.(*ast.Ident); ok && t.locals[id.Name] {
			parts := []string{ident(id.Name)}
			for _, a := range x.Args {
				parts = append(parts, t.expr(a))
			}
			return "(" + strings.Join(parts, " ") + ")"
		}
		// a call of another translated function of the same package
		if id, ok := x.Fun.(*ast.Ident); ok {
			if _, isFunc := ti.Uses[id].(*types.Func); isFunc && isLeafTarget(id.Name) {
				t.deps[id.Name] = true
				parts := []string{id.Name}
				for _, a := range x.Args {
					parts = append(parts, t.expr(a))
				}
				return "(" + strings.Join(parts, " ") + ")"
			}
		}
		return t.fail("call of %s", fn)
	case *ast.SliceExpr:
		if x.Slice3 {
			return t.fail("3-index slice")
		}
		base := t.expr(x.X)
		if x.Low == nil && x.High != nil {
			return "((" + base + ").take (" + t.expr(x.High) + ").toNat)"
		}
		if x.Low != nil && x.High == nil {
			return "((" + base + ").drop (" + t.expr(x.Low) + ").toNat)"
		}
		return t.fail("slice form %s", exprString(e))
	case *ast.BinaryExpr:
		switch x.Op {
		case token.LAND:
			return "(" + t.expr(x.X) + " && " + t.expr(x.Y) + ")"
		case token.LOR:
			return "(" + t.expr(x.X) + " || " + t.expr(x.Y) + ")"
		case token.ADD, token.SUB, token.MUL:
			return "(" + t.expr(x.X) + " " + x.Op.String() + " " + t.expr(x.Y) + ")"
		case token.REM:
			return "(Int.tmod " + t.expr(x.X) + " " + t.expr(x.Y) + ")"
		case token.EQL, token.NEQ, token.LSS, token.GTR, token.LEQ, token.GEQ:
			// nil comparison of a pointer parameter
			if id, ok := x.X.(*ast.Ident); ok && t.ptrs[id.Name] && exprString(x.Y) == "nil" {
				if x.Op == token.EQL {
					return "(" + ident(id.Name) + ".isNone)"
				}
				return "(" + ident(id.Name) + ".isSome)"
			}
			a, b := t.expr(x.X), t.expr(x.Y)
			switch x.Op {
			case token.EQL:
				return "(decide (" + a + " = " + b + "))"
			case token.NEQ:
				return "(!decide (" + a + " = " + b + "))"
			case token.LSS:
				return "(decide (" + a + " < " + b + "))"
			case token.GTR:
				return "(decide (" + b + " < " + a + "))"
			case token.LEQ:
				return "(decide (" + a + " ≤ " + b + "))"
			default:
				return "(decide (" + b + " ≤ " + a + "))"
			}
		}
	}
	return t.fail("expression %s", exprString(e))
}

// global translates a package-level struct value initialised by a composite literal.
func (t *leafTr) global(v *types.Var) string {
	if _, ok := t.globals[v.Name()]; ok {
		return v.Name()
	}
	sname, st, ok := structName(v.Type())
	if !ok {
		return t.fail("package-level value %s is not a struct", v.Name())
	}
	for _, f := range t.p.Syntax {
		for _, d := range f.Decls {
			gd, ok := d.(*ast.GenDecl)
			if !ok || gd.Tok != token.VAR {
				continue
			}
			for _, sp := range gd.Specs {
				vs := sp.(*ast.ValueSpec)
				for i, n := range vs.Names {
					if n.Name != v.Name() || i >= len(vs.Values) {
						continue
					}
					cl, ok := vs.Values[i].(*ast.CompositeLit)
					if !ok {
						return t.fail("initialiser of %s is not a composite literal", v.Name())
					}
					var fields []string
					for _, el := range cl.Elts {
						kv, ok := el.(*ast.KeyValueExpr)
						if !ok {
							return t.fail("positional composite literal for %s", v.Name())
						}
						fname := exprString(kv.Key)
						t.useField(sname, st, fname)
						fields = append(fields, fname+" := "+t.expr(kv.Value))
					}
					// every field of the struct matters for ==: declare them all
					for k := 0; k < st.NumFields(); k++ {
						t.useField(sname, st, st.Field(k).Name())
					}
					t.globals[v.Name()] = "def " + v.Name() + " : " + sname + " := { " + strings.Join(fields, ", ") + " }"
					return v.Name()
				}
			}
		}
	}
	return t.fail("no initialiser found for %s", v.Name())
}

func (t *leafTr) retExpr(r *ast.ReturnStmt, errRet bool) string {
	if t.optRet {
		if len(r.Results) != 2 {
			return t.fail("return with %d results", len(r.Results))
		}
		switch exprString(r.Results[1]) {
		case "true":
			return "(some " + t.expr(r.Results[0]) + ")"
		case "false":
			return "none"
		}
		return t.fail("second result %s", exprString(r.Results[1]))
	}
	if len(r.Results) != 1 {
		return t.fail("return with %d results", len(r.Results))
	}
	if errRet && exprString(r.Results[0]) == "nil" {
		return "(0 : Int)"
	}
	return t.expr(r.Results[0])
}

// stmts translates a statement list that ends every path with a return.
func (t *leafTr) stmts(ss []ast.Stmt, errRet bool) string {
	if len(ss) == 0 {
		return t.fail("a path without return")
	}
	switch s := ss[0].(type) {
	case *ast.ReturnStmt:
		return t.retExpr(s, errRet)
	case *ast.DeclStmt:
		// var v T; if c { v = A } else { v = B }   ==>   let v := if c then A else B
		gd, ok := s.Decl.(*ast.GenDecl)
		if !ok || gd.Tok != token.VAR || len(gd.Specs) != 1 || len(ss) < 2 {
			return t.fail("declaration")
		}
		vs, ok := gd.Specs[0].(*ast.ValueSpec)
		if !ok || len(vs.Names) != 1 || len(vs.Values) != 0 {
			return t.fail("declaration")
		}
		v := vs.Names[0].Name
		is, ok := ss[1].(*ast.IfStmt)
		if !ok || is.Init != nil || is.Else == nil {
			return t.fail("a declared variable that is not assigned by the next if/else")
		}
		eb, ok := is.Else.(*ast.BlockStmt)
		if !ok {
			return t.fail("a declared variable that is not assigned by the next if/else")
		}
		one := func(b *ast.BlockStmt) (ast.Expr, bool) {
			if len(b.List) != 1 {
				return nil, false
			}
			as, ok := b.List[0].(*ast.AssignStmt)
			if !ok || as.Tok != token.ASSIGN || len(as.Lhs) != 1 || len(as.Rhs) != 1 || exprString(as.Lhs[0]) != v {
				return nil, false
			}
			return as.Rhs[0], true
		}
		a, ok1 := one(is.Body)
		b, ok2 := one(eb)
		if !ok1 || !ok2 {
			return t.fail("a declared variable that is not assigned by the next if/else")
		}
		return "(let " + ident(v) + " := (if " + t.expr(is.Cond) + " then " + t.expr(a) + " else " + t.expr(b) + ");\n  " + t.stmts(ss[2:], errRet) + ")"
	case *ast.IfStmt:
		if s.Init != nil {
			// if v := E; c { … } else …   ==>   let v := E; if c …
			as, ok := s.Init.(*ast.AssignStmt)
			if !ok || as.Tok != token.DEFINE || len(as.Lhs) != 1 || len(as.Rhs) != 1 {
				return t.fail("if with init")
			}
			bare := *s
			bare.Init = nil
			return "(let " + ident(exprString(as.Lhs[0])) + " := " + t.expr(as.Rhs[0]) + ";\n  " + t.stmts(append([]ast.Stmt{&bare}, ss[1:]...), errRet) + ")"
		}
		// `if p == nil { … }` on a pointer parameter: a match, so that p's fields are available afterwards
		if be, ok := s.Cond.(*ast.BinaryExpr); ok && be.Op == token.EQL && exprString(be.Y) == "nil" {
			if id, ok := be.X.(*ast.Ident); ok && t.ptrs[id.Name] && s.Else == nil {
				return "(match " + ident(id.Name) + " with\n  | none => " + t.stmts(s.Body.List, errRet) + "\n  | some " + ident(id.Name) + " => " + t.stmts(ss[1:], errRet) + ")"
			}
		}
		then := t.stmts(s.Body.List, errRet)
		var els string
		if s.Else != nil {
			if b, ok := s.Else.(*ast.BlockStmt); ok {
				els = t.stmts(b.List, errRet)
			} else {
				// else-if: when neither branch is taken control goes on with what follows
				els = t.stmts(append([]ast.Stmt{s.Else}, ss[1:]...), errRet)
			}
		} else {
			els = t.stmts(ss[1:], errRet)
		}
		return "(if " + t.expr(s.Cond) + " then " + then + "\n  else " + els + ")"
	case *ast.SwitchStmt:
		if s.Tag != nil || s.Init != nil {
			return t.fail("switch with a tag")
		}
		var arms []*ast.CaseClause
		var def *ast.CaseClause
		for _, c := range s.Body.List {
			cc := c.(*ast.CaseClause)
			if cc.List == nil {
				def = cc
			} else {
				arms = append(arms, cc)
			}
		}
		rest := ""
		if def != nil {
			rest = t.stmts(def.Body, errRet)
		} else {
			rest = t.stmts(ss[1:], errRet)
		}
		for i := len(arms) - 1; i >= 0; i-- {
			var cs []string
			for _, c := range arms[i].List {
				cs = append(cs, t.expr(c))
			}
			rest = "(if " + strings.Join(cs, " || ") + " then " + t.stmts(arms[i].Body, errRet) + "\n  else " + rest + ")"
		}
		return rest
	}
	return t.fail("statement %T", ss[0])
}

// translateLeaf returns the Lean definition of the function (without the supporting structures).
func translateLeaf(p *packages.Package, recv, name string) (def string, t *leafTr, err error) {
	fd := funcDecl(p, recv, name)
	if fd == nil || fd.Body == nil {
		return "", nil, fmt.Errorf("function %s.%s not found", recv, name)
	}
	t = &leafTr{p: p, ptrs: map[string]bool{}, structs: map[string]map[string]string{}, globals: map[string]string{}, deps: map[string]bool{}}
	var params []string
	for _, f := range fd.Type.Params.List {
		ty := p.TypesInfo.TypeOf(f.Type)
		for _, n := range f.Names {
			if lt, ok := leanType(ty); ok {
				params = append(params, "("+ident(n.Name)+" : "+lt+")")
			} else if sname, _, ok := structName(ty); ok {
				if _, isPtr := ty.(*types.Pointer); isPtr {
					t.ptrs[n.Name] = true
					params = append(params, "("+ident(n.Name)+" : Option "+sname+")")
				} else {
					params = append(params, "("+ident(n.Name)+" : "+sname+")")
				}
			} else {
				return "", nil, fmt.Errorf("parameter %s of %s has an untranslatable type", n.Name, name)
			}
		}
	}
	if fd.Type.Results == nil || len(fd.Type.Results.List) != 1 {
		return "", nil, fmt.Errorf("%s does not return exactly one value", name)
	}
	rty := p.TypesInfo.TypeOf(fd.Type.Results.List[0].Type)
	errRet := rty.String() == "error"
	ret := "Int"
	if !errRet {
		var ok bool
		ret, ok = leanType(rty)
		if !ok {
			return "", nil, fmt.Errorf("%s has an untranslatable result type", name)
		}
	}
	body := t.stmts(fd.Body.List, errRet)
	if t.err != nil {
		return "", nil, t.err
	}
	return "def " + name + " " + strings.Join(params, " ") + " : " + ret + " :=\n  " + body, t, nil
}

type leafTarget struct{ pkg, recv, name string }

func isLeafTarget(name string) bool {
	for _, tg := range leafTargets {
		if tg.name == name && tg.recv == "" {
			return true
		}
	}
	return false
}

func leafFile(name string) string { return strings.ToUpper(name[:1]) + name[1:] }

var leafTargets = []leafTarget{
	{"bt", "table", "validTimestamp"},
	{"bt", "", "keysOutOfRange"},
	{"bt", "", "messageOnInvalidKeyRanges"},
	{"bt", "", "maxTimestamp"},
	{"gcs", "", "greaterThanPrefix"},
	{"gcs", "", "lessThanPrefix"},
	{"gcs", "", "validateConds"},
}


// writeLeaf regenerates Emu/Generated/Leaf/<Name>.lean, one file per translated function (so that
// a function whose text changed re-checks only its own tie).  A function that cannot be translated
// any more keeps its previous file and is reported as unavailable.
func writeLeaf(dir string, pkgs map[string]*packages.Package, f *Facts) {
	os.MkdirAll(dir, 0755)
	writeIfChanged(dir+"/Base.lean", "/- GENERATED by /verif/factx (leaf translator). Do not edit.  `bytes.Compare` / string comparison as a three-way result. -/\nnamespace Emu.Generated.Leaf\n\ndef bytesCompare (a b : List Nat) : Int := if a < b then -1 else if a = b then 0 else 1\n\nend Emu.Generated.Leaf\n")
	for _, tg := range leafTargets {
		p := pkgs[tg.pkg]
		var def string
		var t *leafTr
		var err error
		if p == nil {
			err = fmt.Errorf("package not loaded")
		} else {
			def, t, err = translateLeaf(p, tg.recv, tg.name)
		}
		if err != nil {
			f.Unavailable = append(f.Unavailable, "leaf "+tg.name+" ("+err.Error()+")")
			continue
		}
		var sb strings.Builder
		sb.WriteString("/- GENERATED by /verif/factx (leaf translator) from /repo's current source on every run. Do not edit.\n   Literal translation of `" + tg.name + "`; `Emu/Proofs/LeafTie/` proves it equal to the Model's function. -/\nimport Emu.Generated.Leaf.Base\n")
		var deps []string
		for d := range t.deps {
			deps = append(deps, d)
		}
		sort.Strings(deps)
		for _, d := range deps {
			sb.WriteString("import Emu.Generated.Leaf." + leafFile(d) + "\n")
		}
		sb.WriteString("namespace Emu.Generated.Leaf\n\n")
		var names []string
		for s := range t.structs {
			names = append(names, s)
		}
		sort.Strings(names)
		for _, s := range names {
			var fs []string
			for k := range t.structs[s] {
				fs = append(fs, k)
			}
			sort.Strings(fs)
			sb.WriteString("structure " + s + " where\n")
			for _, k := range fs {
				dflt := "0"
				if t.structs[s][k] == "Bool" {
					dflt = "false"
				} else if t.structs[s][k] == "List Nat" {
					dflt = "[]"
				}
				sb.WriteString("  " + ident(k) + " : " + t.structs[s][k] + " := " + dflt + "\n")
			}
			sb.WriteString("deriving DecidableEq, Repr\n\n")
		}
		var gs []string
		for k := range t.globals {
			gs = append(gs, k)
		}
		sort.Strings(gs)
		for _, k := range gs {
			sb.WriteString(t.globals[k] + "\n")
		}
		if len(gs) > 0 {
			sb.WriteString("\n")
		}
		sb.WriteString(def + "\n\nend Emu.Generated.Leaf\n")
		writeIfChanged(dir+"/"+leafFile(tg.name)+".lean", sb.String())
	}
}

func writeIfChanged(path, text string) {
	if old, _ := os.ReadFile(path); string(old) != text {
		os.WriteFile(path, []byte(text), 0644)
	}
}
