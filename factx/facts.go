package main

import (
	"fmt"
	"go/ast"
	"go/token"
	"go/types"
	"sort"
	"strings"

	"golang.org/x/tools/go/packages"
)

// fieldOf reports whether sel selects field `field` of named struct type `typ` (resolved through
// go/types, so local renames do not matter).
func fieldOf(p *packages.Package, sel *ast.SelectorExpr, typ, field string) bool {
	s, ok := p.TypesInfo.Selections[sel]
	if !ok || s.Kind() != types.FieldVal || s.Obj().Name() != field {
		return false
	}
	t := s.Recv()
	if pt, ok := t.(*types.Pointer); ok {
		t = pt.Elem()
	}
	n, ok := t.(*types.Named)
	return ok && n.Obj().Name() == typ
}

type event struct {
	pos  token.Pos
	kind string // lock unlock access
	what string
}

// guardEvents collects, for one function body (not descending into nested function literals),
// the lock/unlock calls on `<x>.mu` of struct `typ` and the accesses to the given fields.
func guardEvents(p *packages.Package, body ast.Node, typ string, fields map[string]string) []event {
	var evs []event
	// an Unlock directly followed by `return` in the same block ends that path only
	exitUnlock := map[token.Pos]bool{}
	ast.Inspect(body, func(m ast.Node) bool {
		bl, ok := m.(*ast.BlockStmt)
		if !ok {
			return true
		}
		for i := 0; i+1 < len(bl.List); i++ {
			es, ok := bl.List[i].(*ast.ExprStmt)
			if !ok {
				continue
			}
			if _, isRet := bl.List[i+1].(*ast.ReturnStmt); isRet {
				exitUnlock[es.X.Pos()] = true
			}
		}
		return true
	})
	var walk func(n ast.Node, deferred bool)
	walk = func(n ast.Node, deferred bool) {
		ast.Inspect(n, func(m ast.Node) bool {
			if m == nil {
				return true
			}
			if fl, ok := m.(*ast.FuncLit); ok && m != body {
				_ = fl
				return false // analysed on its own
			}
			if ds, ok := m.(*ast.DeferStmt); ok {
				walk(ds.Call, true)
				return false
			}
			if call, ok := m.(*ast.CallExpr); ok {
				if sel, ok := call.Fun.(*ast.SelectorExpr); ok {
					if inner, ok := sel.X.(*ast.SelectorExpr); ok && fieldOf(p, inner, typ, "mu") {
						switch sel.Sel.Name {
						case "Lock", "RLock":
							if !deferred {
								evs = append(evs, event{call.Pos(), "lock", ""})
							}
						case "Unlock", "RUnlock":
							if !deferred && !exitUnlock[call.Pos()] {
								evs = append(evs, event{call.Pos(), "unlock", ""})
							}
						}
					}
				}
			}
			if sel, ok := m.(*ast.SelectorExpr); ok {
				for ftyp, field := range fields {
					t := strings.SplitN(ftyp, ".", 2)
					if fieldOf(p, sel, t[0], field) {
						evs = append(evs, event{sel.Pos(), "access", t[0] + "." + field})
					}
				}
			}
			return true
		})
	}
	walk(body, false)
	sort.Slice(evs, func(i, j int) bool { return evs[i].pos < evs[j].pos })
	return evs
}

// unguarded lists accesses that are not preceded (in source order, within the same function
// body) by a Lock with no Unlock in between.
func unguarded(p *packages.Package, typ string, fields map[string]string, whitelist map[string]bool) []string {
	var out []string
	for _, f := range p.Syntax {
		for _, d := range f.Decls {
			fd, ok := d.(*ast.FuncDecl)
			if !ok || fd.Body == nil || whitelist[fd.Name.Name] {
				continue
			}
			var bodies []ast.Node
			bodies = append(bodies, fd.Body)
			ast.Inspect(fd.Body, func(n ast.Node) bool {
				if fl, ok := n.(*ast.FuncLit); ok {
					bodies = append(bodies, fl.Body)
				}
				return true
			})
			for _, b := range bodies {
				held := false
				for _, e := range guardEvents(p, b, typ, fields) {
					switch e.kind {
					case "lock":
						held = true
					case "unlock":
						held = false
					case "access":
						if !held {
							out = append(out, fd.Name.Name+":"+e.what)
						}
					}
				}
			}
		}
	}
	sort.Strings(out)
	return dedup(out)
}

func dedup(xs []string) []string {
	var out []string
	for i, x := range xs {
		if i == 0 || xs[i-1] != x {
			out = append(out, x)
		}
	}
	if out == nil {
		out = []string{}
	}
	return out
}

func methodsOf(p *packages.Package, typ string, exportedOnly bool, prefix string) []string {
	var out []string
	for _, f := range p.Syntax {
		for _, d := range f.Decls {
			fd, ok := d.(*ast.FuncDecl)
			if !ok || fd.Recv == nil || len(fd.Recv.List) != 1 {
				continue
			}
			t := fd.Recv.List[0].Type
			if s, ok := t.(*ast.StarExpr); ok {
				t = s.X
			}
			id, ok := t.(*ast.Ident)
			if !ok || id.Name != typ {
				continue
			}
			if exportedOnly && !fd.Name.IsExported() {
				continue
			}
			if prefix != "" && !strings.HasPrefix(fd.Name.Name, prefix) {
				continue
			}
			out = append(out, fd.Name.Name)
		}
	}
	sort.Strings(out)
	return dedup(out)
}

func structFields(p *packages.Package, typ string) ([]string, bool) {
	obj := p.Types.Scope().Lookup(typ)
	if obj == nil {
		return nil, false
	}
	st, ok := obj.Type().Underlying().(*types.Struct)
	if !ok {
		return nil, false
	}
	out := []string{}
	for i := 0; i < st.NumFields(); i++ {
		out = append(out, st.Field(i).Name()+" "+types.TypeString(st.Field(i).Type(), func(*types.Package) string { return "" }))
	}
	return out, true
}

// discardedIteratorResults lists functions in which a call of a value of type RowIterator is used
// as a statement (its boolean result thrown away).
func discardedIteratorResults(p *packages.Package) []string {
	var out []string
	for _, f := range p.Syntax {
		for _, d := range f.Decls {
			fd, ok := d.(*ast.FuncDecl)
			if !ok || fd.Body == nil {
				continue
			}
			ast.Inspect(fd.Body, func(n ast.Node) bool {
				es, ok := n.(*ast.ExprStmt)
				if !ok {
					return true
				}
				call, ok := es.X.(*ast.CallExpr)
				if !ok {
					return true
				}
				if tv, ok := p.TypesInfo.Types[call.Fun]; ok {
					if sig, ok := tv.Type.Underlying().(*types.Signature); ok && sig.Results().Len() == 1 && sig.Params().Len() == 1 {
						if types.TypeString(sig.Results().At(0).Type(), nil) == "bool" && strings.HasSuffix(types.TypeString(sig.Params().At(0).Type(), nil), "bigtablepb.Row") {
							if _, isIdent := call.Fun.(*ast.Ident); isIdent {
								out = append(out, fd.Name.Name)
							}
						}
					}
				}
				return true
			})
		}
	}
	sort.Strings(out)
	return dedup(out)
}

// partialOps counts Go's partial operations (slice expressions, index expressions on slices or
// strings with a non-constant index, single-value type assertions, explicit panics) per function.
func partialOps(p *packages.Package, skipFiles func(string) bool) []string {
	var out []string
	for _, f := range p.Syntax {
		name := p.Fset.Position(f.Pos()).Filename
		if skipFiles(name) {
			continue
		}
		for _, d := range f.Decls {
			fd, ok := d.(*ast.FuncDecl)
			if !ok || fd.Body == nil {
				continue
			}
			cnt := map[string]int{}
			commaOk := map[ast.Node]bool{}
			ast.Inspect(fd.Body, func(n ast.Node) bool {
				switch x := n.(type) {
				case *ast.AssignStmt:
					if len(x.Lhs) == 2 && len(x.Rhs) == 1 {
						commaOk[x.Rhs[0]] = true
					}
				case *ast.ValueSpec:
					if len(x.Names) == 2 && len(x.Values) == 1 {
						commaOk[x.Values[0]] = true
					}
				case *ast.SliceExpr:
					cnt["slice"]++
				case *ast.IndexExpr:
					if tv, ok := p.TypesInfo.Types[x.X]; ok {
						switch tv.Type.Underlying().(type) {
						case *types.Slice, *types.Basic, *types.Array:
							if iv, ok := p.TypesInfo.Types[x.Index]; ok && iv.Value == nil {
								cnt["index"]++
							}
						}
					}
				case *ast.TypeAssertExpr:
					if x.Type != nil && !commaOk[x] {
						cnt["assert"]++
					}
				case *ast.CallExpr:
					if id, ok := x.Fun.(*ast.Ident); ok && id.Name == "panic" {
						cnt["panic"]++
					}
				}
				return true
			})
			recv := ""
			if fd.Recv != nil && len(fd.Recv.List) == 1 {
				t := fd.Recv.List[0].Type
				if s, ok := t.(*ast.StarExpr); ok {
					t = s.X
				}
				if id, ok := t.(*ast.Ident); ok {
					recv = id.Name + "."
				}
			}
			var kinds []string
			for k := range cnt {
				kinds = append(kinds, k)
			}
			sort.Strings(kinds)
			for _, k := range kinds {
				out = append(out, fmt.Sprintf("%s%s:%s:%d", recv, fd.Name.Name, k, cnt[k]))
			}
		}
	}
	sort.Strings(out)
	return out
}

func isHookOrGenerated(name string) bool {
	return strings.HasSuffix(name, "verif_on.go") || strings.HasSuffix(name, "verif_off.go") || strings.HasSuffix(name, ".pb.go")
}

// callsOf lists, per function, every call of a method named `name` with its argument text.
func callsOf(p *packages.Package, name string) []string {
	var out []string
	for _, file := range p.Syntax {
		fn := p.Fset.Position(file.Pos()).Filename
		if strings.HasSuffix(fn, "_test.go") || isHookOrGenerated(fn) {
			continue
		}
		for _, d := range file.Decls {
			fd, ok := d.(*ast.FuncDecl)
			if !ok || fd.Body == nil {
				continue
			}
			ast.Inspect(fd.Body, func(n ast.Node) bool {
				call, ok := n.(*ast.CallExpr)
				if !ok {
					return true
				}
				if sel, ok := call.Fun.(*ast.SelectorExpr); ok && sel.Sel.Name == name {
					var args []string
					for _, a := range call.Args {
						args = append(args, exprString(a))
					}
					out = append(out, fd.Name.Name+": "+exprString(sel.X)+"."+name+"("+strings.Join(args, ", ")+")")
				}
				return true
			})
		}
	}
	sort.Strings(out)
	return out
}

func btFacts(p *packages.Package, f *Facts) {
	// who runs garbage collection, and whether forced: the background loop must leave the decision
	// (quiet or not) to table.gc itself
	f.Facts["bt.gc_calls"] = callsOf(p, "gc")
	f.Facts["bt.table_mutex"] = mutexDiscipline(p, "mu")
	f.Facts["bt.tables_access_outside_server_mu"] = unguarded(p, "server",
		map[string]string{"server.t": "tables"},
		map[string]bool{"NewServerWithOptions": true, "NewVerifService": true})
	f.Facts["bt.server_rpc_methods"] = methodsOf(p, "server", true, "")
	f.Facts["bt.iterator_result_discarded_in"] = discardedIteratorResults(p)
	f.Facts["bt.partial_ops"] = partialOps(p, isHookOrGenerated)
}

// lockKeys lists, per function, the key expression of every `<x>.locks.Run(ctx, KEY, …)` call: the
// per-object lock is only a lock if every handler computes the key of an object in the same way.
func lockKeys(p *packages.Package) []string {
	var out []string
	for _, file := range p.Syntax {
		name := p.Fset.Position(file.Pos()).Filename
		if strings.HasSuffix(name, "_test.go") || isHookOrGenerated(name) {
			continue
		}
		for _, d := range file.Decls {
			fd, ok := d.(*ast.FuncDecl)
			if !ok || fd.Body == nil {
				continue
			}
			ast.Inspect(fd.Body, func(n ast.Node) bool {
				call, ok := n.(*ast.CallExpr)
				if !ok || len(call.Args) < 2 {
					return true
				}
				if sel, ok := call.Fun.(*ast.SelectorExpr); ok && sel.Sel.Name == "Run" && strings.HasSuffix(exprString(sel.X), ".locks") {
					out = append(out, fd.Name.Name+": "+exprString(call.Args[1]))
				}
				return true
			})
		}
	}
	sort.Strings(out)
	return out
}

// mutexDiscipline lists, per function, the calls on `<x>.<field>` (Lock, Unlock, RLock, RUnlock) in
// source order, marking deferred ones: a request that takes a lock it does not release on some path,
// or releases one it does not hold, changes this text.
func mutexDiscipline(p *packages.Package, field string) []string {
	var out []string
	for _, file := range p.Syntax {
		name := p.Fset.Position(file.Pos()).Filename
		if strings.HasSuffix(name, "_test.go") || isHookOrGenerated(name) {
			continue
		}
		for _, d := range file.Decls {
			fd, ok := d.(*ast.FuncDecl)
			if !ok || fd.Body == nil {
				continue
			}
			var seq []string
			deferred := map[*ast.CallExpr]bool{}
			ast.Inspect(fd.Body, func(n ast.Node) bool {
				if ds, ok := n.(*ast.DeferStmt); ok {
					deferred[ds.Call] = true
				}
				call, ok := n.(*ast.CallExpr)
				if !ok {
					return true
				}
				sel, ok := call.Fun.(*ast.SelectorExpr)
				if !ok {
					return true
				}
				switch sel.Sel.Name {
				case "Lock", "Unlock", "RLock", "RUnlock":
					if inner, ok := sel.X.(*ast.SelectorExpr); ok && inner.Sel.Name == field {
						tag := sel.Sel.Name
						if deferred[call] {
							tag = "defer " + tag
						}
						seq = append(seq, tag)
					}
				}
				return true
			})
			if len(seq) > 0 {
				fn := fd.Name.Name
				if fd.Recv != nil && len(fd.Recv.List) > 0 {
					fn = strings.TrimPrefix(exprString(fd.Recv.List[0].Type), "*") + "." + fn
				}
				out = append(out, fn+": "+strings.Join(seq, ", "))
			}
		}
	}
	sort.Strings(out)
	return out
}

func gcsFacts(p *packages.Package, f *Facts) {
	f.Facts["gcs.lock_keys"] = lockKeys(p)
	f.Facts["gcs.filestore_mutex"] = mutexDiscipline(p, "mu")
	if fs, ok := structFields(p, "filestore"); ok {
		f.Facts["gcs.filestore_fields"] = fs
	} else {
		f.Unavailable = append(f.Unavailable, "gcs.filestore_fields")
	}
	f.Facts["gcs.handlers"] = methodsOf(p, "GcsEmu", false, "handleGcs")
	f.Facts["gcs.partial_ops"] = partialOps(p, isHookOrGenerated)
}

func lockFacts(p *packages.Package, f *Facts) {
	f.Facts["lock.state_access_outside_map_mu"] = unguarded(p, "TransientLockMap",
		map[string]string{"TransientLockMap.l": "locks", "countedLock.r": "refcount"},
		map[string]bool{"NewTransientLockMap": true, "newCountedLock": true})
}
