package main

// A translator specialised to includeCell (bttest/inmem.go): the per-cell filters (family / qualifier /
// value regex, column range, value range, timestamp range).  Like vfilter.go it reads the type switch
// over the RowFilter oneof and writes a Lean function over the Model's `Emu.Bt.Filter`; the tie theorem
// (lean/Emu/Proofs/LeafTie/IncludeCell.lean) proves it equal to the Model's `includeCell`.  The function
// builds its range tests as closures that an inner type switch over the bound's oneof replaces; that
// idiom is read as a `match` on the Model's `Bound`.  Anything else makes the translation fail (a
// broken tie).

import (
	"fmt"
	"go/ast"
	"go/token"
	"os"
	"strings"

	"golang.org/x/tools/go/packages"
)

type boundSpec struct {
	lean  string            // the Bound variable
	cases map[string]string // oneof wrapper type -> "opened" | "closed"
}

type icCase struct {
	pattern string
	fields  map[string]string
	bounds  map[string]boundSpec // Go expression of a bound oneof -> spec
}

var icArgs = map[string]string{"fam": "fam", "col": "qual", "cell.Value": "c.value", "cell.TimestampMicros": "c.ts", "nil": "([] : Bytes)", "[]byte{}": "([] : Bytes)"}

var icCases = map[string]icCase{
	"RowFilter_CellsPerColumnLimitFilter": {".colLimit _", nil, nil},
	"RowFilter_RowKeyRegexFilter":         {".rowKeyRegex _", nil, nil},
	"RowFilter_StripValueTransformer":     {".stripValue", nil, nil},
	"RowFilter_ApplyLabelTransformer":     {".applyLabel _", nil, nil},
	"RowFilter_FamilyNameRegexFilter":     {".familyRegex r", map[string]string{"f.FamilyNameRegexFilter": "r"}, nil},
	"RowFilter_ColumnQualifierRegexFilter": {".qualRegex r", map[string]string{"f.ColumnQualifierRegexFilter": "r"}, nil},
	"RowFilter_ValueRegexFilter":          {".valueRegex r", map[string]string{"f.ValueRegexFilter": "r"}, nil},
	"RowFilter_ColumnRangeFilter": {".columnRange fm s e", map[string]string{"f.ColumnRangeFilter.FamilyName": "fm"}, map[string]boundSpec{
		"f.ColumnRangeFilter.StartQualifier": {"s", map[string]string{"ColumnRange_StartQualifierOpen": "opened", "ColumnRange_StartQualifierClosed": "closed"}},
		"f.ColumnRangeFilter.EndQualifier":   {"e", map[string]string{"ColumnRange_EndQualifierOpen": "opened", "ColumnRange_EndQualifierClosed": "closed"}},
	}},
	"RowFilter_ValueRangeFilter": {".valueRange s e", nil, map[string]boundSpec{
		"f.ValueRangeFilter.StartValue": {"s", map[string]string{"ValueRange_StartValueOpen": "opened", "ValueRange_StartValueClosed": "closed"}},
		"f.ValueRangeFilter.EndValue":   {"e", map[string]string{"ValueRange_EndValueOpen": "opened", "ValueRange_EndValueClosed": "closed"}},
	}},
	"RowFilter_TimestampRangeFilter": {".tsRange s e", map[string]string{"f.TimestampRangeFilter.StartTimestampMicros": "s", "f.TimestampRangeFilter.EndTimestampMicros": "e"}, nil},
}

type icTr struct {
	p        *packages.Package
	c        icCase
	alias    map[string]string // local variable -> Lean term
	closures map[string]string // closure variable -> Lean Bool expression
	rx       string            // the compiled-regex variable and the Lean Option Regex it stands for
	rxLean   string
	err      error
}

func (t *icTr) fail(format string, a ...any) string {
	if t.err == nil {
		t.err = fmt.Errorf(format, a...)
	}
	return "false"
}

func (t *icTr) bytesVal(e ast.Expr) string {
	s := goText(e)
	if cl, ok := e.(*ast.CompositeLit); ok && len(cl.Elts) == 0 {
		s = "[]byte{}"
	}
	if m, ok := t.alias[s]; ok {
		return m
	}
	if m, ok := t.c.fields[s]; ok {
		return m
	}
	if m, ok := icArgs[s]; ok {
		return m
	}
	return t.fail("byte-string value %s", s)
}

func (t *icTr) intVal(e ast.Expr) string {
	if tv, ok := t.p.TypesInfo.Types[e]; ok && tv.Value != nil {
		return "(" + tv.Value.ExactString() + " : Int)"
	}
	s := goText(e)
	if m, ok := t.c.fields[s]; ok {
		return m
	}
	if m, ok := icArgs[s]; ok {
		return m
	}
	if be, ok := e.(*ast.BinaryExpr); ok && be.Op == token.REM {
		return "(Int.tmod " + t.intVal(be.X) + " " + t.intVal(be.Y) + ")"
	}
	return t.fail("integer value %s", s)
}

func (t *icTr) boolExpr(e ast.Expr) string {
	switch x := e.(type) {
	case *ast.ParenExpr:
		return t.boolExpr(x.X)
	case *ast.Ident:
		if x.Name == "true" || x.Name == "false" {
			return x.Name
		}
	case *ast.CallExpr:
		if id, ok := x.Fun.(*ast.Ident); ok && len(x.Args) == 0 {
			if c, ok := t.closures[id.Name]; ok {
				return c
			}
		}
		fn := exprString(x.Fun)
		if t.rx != "" && (fn == t.rx+".MatchString" || fn == t.rx+".Match") && len(x.Args) == 1 {
			return "(reMatch " + t.rxLean + " " + t.bytesVal(x.Args[0]) + ")"
		}
	case *ast.BinaryExpr:
		switch x.Op {
		case token.LAND:
			return "(" + t.boolExpr(x.X) + " && " + t.boolExpr(x.Y) + ")"
		case token.LOR:
			return "(" + t.boolExpr(x.X) + " || " + t.boolExpr(x.Y) + ")"
		}
		// bytes.Compare(A, B) <op> 0
		if call, ok := x.X.(*ast.CallExpr); ok && exprString(call.Fun) == "bytes.Compare" && len(call.Args) == 2 && exprString(x.Y) == "*ast.BasicLit" {
			a, b := t.bytesVal(call.Args[0]), t.bytesVal(call.Args[1])
			switch x.Op {
			case token.GEQ:
				return "(decide (" + b + " ≤ " + a + "))"
			case token.GTR:
				return "(decide (" + b + " < " + a + "))"
			case token.LEQ:
				return "(decide (" + a + " ≤ " + b + "))"
			case token.LSS:
				return "(decide (" + a + " < " + b + "))"
			}
		}
		// string (in)equality of the family name
		if x.Op == token.NEQ || x.Op == token.EQL {
			if _, isStr := t.c.fields[goText(x.Y)]; isStr && goText(x.X) == "fam" {
				eq := "(decide (" + t.bytesVal(x.X) + " = " + t.bytesVal(x.Y) + "))"
				if x.Op == token.NEQ {
					return "(!" + eq + ")"
				}
				return eq
			}
		}
		a, b := t.intVal(x.X), t.intVal(x.Y)
		switch x.Op {
		case token.EQL:
			return "(decide (" + a + " = " + b + "))"
		case token.NEQ:
			return "(!decide (" + a + " = " + b + "))"
		case token.LSS:
			return "(decide (" + a + " < " + b + "))"
		case token.GEQ:
			return "(decide (" + b + " ≤ " + a + "))"
		}
	}
	return t.fail("condition %s", exprString(e))
}

// closureBody: `func() bool { return E }` -> E
func (t *icTr) closureBody(e ast.Expr) (string, bool) {
	fl, ok := e.(*ast.FuncLit)
	if !ok || len(fl.Body.List) != 1 {
		return "", false
	}
	r, ok := fl.Body.List[0].(*ast.ReturnStmt)
	if !ok || len(r.Results) != 1 {
		return "", false
	}
	return t.boolExpr(r.Results[0]), true
}

func (t *icTr) stmts(ss []ast.Stmt) string {
	if len(ss) == 0 {
		return t.fail("a path without return")
	}
	rest := func() string { return t.stmts(ss[1:]) }
	switch s := ss[0].(type) {
	case *ast.ExprStmt:
		if c, ok := s.X.(*ast.CallExpr); ok && exprString(c.Fun) == "log.Printf" {
			return rest()
		}
	case *ast.ReturnStmt:
		if len(s.Results) == 2 && exprString(s.Results[1]) == "nil" {
			return t.boolExpr(s.Results[0])
		}
	case *ast.IfStmt:
		// if COND { return false, <anything> }
		if s.Init == nil && s.Else == nil && len(s.Body.List) == 1 {
			if r, ok := s.Body.List[0].(*ast.ReturnStmt); ok && len(r.Results) == 2 && exprString(r.Results[0]) == "false" {
				if goText(s.Cond) == "err!=nil" || func() bool {
					be, ok := s.Cond.(*ast.BinaryExpr)
					return ok && be.Op == token.NEQ && exprString(be.X) == "err" && exprString(be.Y) == "nil"
				}() {
					// the regex did not compile: `reMatch none _ = false` covers it
					return rest()
				}
				return "(if " + t.boolExpr(s.Cond) + " then false else " + rest() + ")"
			}
		}
	case *ast.AssignStmt:
		if s.Tok == token.DEFINE && len(s.Lhs) == 2 && len(s.Rhs) == 1 {
			// rx, err := newRegexp(ARG)
			if call, ok := s.Rhs[0].(*ast.CallExpr); ok && exprString(call.Fun) == "newRegexp" && len(call.Args) == 1 && exprString(s.Lhs[1]) == "err" {
				if m, ok := t.c.fields[goText(call.Args[0])]; ok {
					t.rx, t.rxLean = exprString(s.Lhs[0]), m
					return rest()
				}
			}
		}
		if len(s.Lhs) == 1 && len(s.Rhs) == 1 {
			name := exprString(s.Lhs[0])
			if body, ok := t.closureBody(s.Rhs[0]); ok && s.Tok == token.DEFINE {
				t.closures[name] = body
				return rest()
			}
			if s.Tok == token.DEFINE {
				if m, ok := icArgs[goText(s.Rhs[0])]; ok {
					t.alias[name] = m
					return rest()
				}
			}
		}
	case *ast.TypeSwitchStmt:
		// switch v := BOUND.(type) { case *T: NAME = func() bool { return E } … }
		as, ok := s.Assign.(*ast.AssignStmt)
		if !ok || len(as.Rhs) != 1 {
			break
		}
		ta, ok := as.Rhs[0].(*ast.TypeAssertExpr)
		if !ok {
			break
		}
		spec, ok := t.c.bounds[goText(ta.X)]
		if !ok {
			return t.fail("type switch over %s, which is not a range bound the translator knows", goText(ta.X))
		}
		v := exprString(as.Lhs[0])
		arms := map[string]string{}
		closure := ""
		for _, c := range s.Body.List {
			cc := c.(*ast.CaseClause)
			if len(cc.List) != 1 || len(cc.Body) != 1 {
				return t.fail("a bound case that is not a single assignment")
			}
			tn := strings.TrimPrefix(strings.TrimPrefix(exprString(cc.List[0]), "*"), "btpb.")
			kind, ok := spec.cases[tn]
			if !ok {
				return t.fail("bound case %s", tn)
			}
			asg, ok := cc.Body[0].(*ast.AssignStmt)
			if !ok || asg.Tok != token.ASSIGN || len(asg.Lhs) != 1 || len(asg.Rhs) != 1 {
				return t.fail("a bound case that is not a single assignment")
			}
			name := exprString(asg.Lhs[0])
			if closure != "" && closure != name {
				return t.fail("bound cases assign different closures")
			}
			closure = name
			// v.<Field> is the bound's key `k`
			field := strings.SplitN(tn, "_", 2)[1]
			t.alias[v+"."+field] = "k"
			body, ok := t.closureBody(asg.Rhs[0])
			delete(t.alias, v+"."+field)
			if !ok {
				return t.fail("a bound case that does not assign a closure")
			}
			arms[kind] = body
		}
		def, ok := t.closures[closure]
		if !ok {
			return t.fail("closure %s has no default", closure)
		}
		m := "(match " + spec.lean + " with"
		for _, kind := range []string{"opened", "closed"} {
			if b, ok := arms[kind]; ok {
				m += " | ." + kind + " k => " + b
			} else {
				m += " | ." + kind + " _ => " + def
			}
		}
		m += " | .unset => " + def + ")"
		t.closures[closure] = m
		return rest()
	}
	return t.fail("statement %T", ss[0])
}

func writeIncludeCell(dir string, p *packages.Package, f *Facts) {
	fail := func(why string) {
		f.Unavailable = append(f.Unavailable, "leaf includeCell ("+why+")")
	}
	fd := funcDecl(p, "", "includeCell")
	if fd == nil || fd.Body == nil || len(fd.Body.List) != 2 {
		fail("function not found or not of the shape nil-check; type switch")
		return
	}
	ts, ok := fd.Body.List[1].(*ast.TypeSwitchStmt)
	if !ok {
		fail("second statement is not a type switch")
		return
	}
	var arms []string
	def := ""
	for _, c := range ts.Body.List {
		cc := c.(*ast.CaseClause)
		if cc.List == nil {
			t := &icTr{p: p, alias: map[string]string{}, closures: map[string]string{}}
			def = t.stmts(cc.Body)
			if t.err != nil {
				fail("default case: " + t.err.Error())
				return
			}
			continue
		}
		if len(cc.List) != 1 {
			fail("a case with several types")
			return
		}
		name := strings.TrimPrefix(strings.TrimPrefix(exprString(cc.List[0]), "*"), "btpb.")
		spec, ok := icCases[name]
		if !ok {
			fail("a case for " + name + ", which the translator does not know")
			return
		}
		t := &icTr{p: p, c: spec, alias: map[string]string{}, closures: map[string]string{}}
		body := t.stmts(cc.Body)
		if t.err != nil {
			fail("case " + name + ": " + t.err.Error())
			return
		}
		arms = append(arms, "  | "+spec.pattern+" => "+body)
	}
	if def == "" {
		fail("no default case")
		return
	}
	var sb strings.Builder
	sb.WriteString("/- GENERATED by /verif/factx (vinclude.go) from /repo's current source on every run. Do not edit.\n   `includeCell` (bttest/inmem.go) read as a function over the Model's filters;\n   `Emu/Proofs/LeafTie/IncludeCell.lean` proves it equal to the Model's `includeCell`. -/\nimport Emu.Bt.Filter\nnamespace Emu.Generated.Leaf\nopen Emu.Bt\n\ndef includeCell (f : Filter) (fam qual : Bytes) (c : Cell) : Bool :=\n  match f with\n  | .absent => true\n")
	sb.WriteString(strings.Join(arms, "\n") + "\n  | _ => " + def + "\n\nend Emu.Generated.Leaf\n")
	os.MkdirAll(dir, 0755)
	writeIfChanged(dir+"/IncludeCell.lean", sb.String())
}
