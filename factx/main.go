// factx reads /repo's current source (type-checked with -tags verif) and regenerates
//   - lean/Emu/Generated/Consts.lean : constants the Lean Model and its theorems mention (tie T1)
//   - a facts JSON                   : structural facts compared with facts/expected.json (tie T5)
//
// A lookup that finds nothing is reported as "unavailable" (the previous value is kept and the
// property then rests on the dynamic ties); a value that is found and differs is written out, so
// that `lake build` re-checks every theorem against what the code says now.
package main

import (
	"encoding/json"
	"flag"
	"fmt"
	"go/ast"
	"go/constant"
	"go/token"
	"go/types"
	"os"
	"regexp"
	"sort"
	"strings"

	"golang.org/x/tools/go/packages"
)

type Facts struct {
	Consts      map[string]string   `json:"consts"`
	Unavailable []string            `json:"unavailable"`
	Facts       map[string][]string `json:"facts"`
	Errors      []string            `json:"errors,omitempty"`
}

func load(dir, pattern string) (*packages.Package, error) {
	cfg := &packages.Config{
		Mode:       packages.NeedName | packages.NeedTypes | packages.NeedSyntax | packages.NeedTypesInfo | packages.NeedFiles,
		Dir:        dir,
		BuildFlags: []string{"-tags=verif"},
		Env:        append(os.Environ(), "GOFLAGS=-mod=mod", "GOPROXY=off", "GOSUMDB=off", "GOTOOLCHAIN=local"),
	}
	pkgs, err := packages.Load(cfg, pattern)
	if err != nil {
		return nil, err
	}
	if len(pkgs) != 1 {
		return nil, fmt.Errorf("%s: %d packages", pattern, len(pkgs))
	}
	if len(pkgs[0].Errors) > 0 {
		return nil, fmt.Errorf("%s: %v", pattern, pkgs[0].Errors[0])
	}
	return pkgs[0], nil
}

func pkgConst(p *packages.Package, name string) (string, bool) {
	obj := p.Types.Scope().Lookup(name)
	c, ok := obj.(*types.Const)
	if !ok {
		return "", false
	}
	if c.Val().Kind() == constant.String {
		return constant.StringVal(c.Val()), true
	}
	return c.Val().ExactString(), true
}

func funcDecl(p *packages.Package, recv, name string) *ast.FuncDecl {
	for _, f := range p.Syntax {
		for _, d := range f.Decls {
			fd, ok := d.(*ast.FuncDecl)
			if !ok || fd.Name.Name != name {
				continue
			}
			if recv == "" && fd.Recv == nil {
				return fd
			}
			if recv != "" && fd.Recv != nil && len(fd.Recv.List) == 1 {
				t := fd.Recv.List[0].Type
				if s, ok := t.(*ast.StarExpr); ok {
					t = s.X
				}
				if id, ok := t.(*ast.Ident); ok && id.Name == recv {
					return fd
				}
			}
		}
	}
	return nil
}

func constVal(p *packages.Package, e ast.Expr) (string, bool) {
	tv, ok := p.TypesInfo.Types[e]
	if !ok || tv.Value == nil {
		return "", false
	}
	return tv.Value.ExactString(), true
}

func exprString(e ast.Expr) string {
	switch x := e.(type) {
	case *ast.Ident:
		return x.Name
	case *ast.SelectorExpr:
		return exprString(x.X) + "." + x.Sel.Name
	case *ast.CallExpr:
		var args []string
		for _, a := range x.Args {
			args = append(args, exprString(a))
		}
		return exprString(x.Fun) + "(" + strings.Join(args, ",") + ")"
	case *ast.StarExpr:
		return "*" + exprString(x.X)
	case *ast.UnaryExpr:
		return x.Op.String() + exprString(x.X)
	}
	return fmt.Sprintf("%T", e)
}

// localConst finds `const name = …` inside a function body.
func localConst(p *packages.Package, fd *ast.FuncDecl, name string) (string, bool) {
	var out string
	found := false
	ast.Inspect(fd, func(n ast.Node) bool {
		vs, ok := n.(*ast.ValueSpec)
		if !ok {
			return true
		}
		for i, id := range vs.Names {
			if id.Name == name && i < len(vs.Values) {
				if v, ok := constVal(p, vs.Values[i]); ok {
					out, found = v, true
				}
			}
		}
		return true
	})
	return out, found
}

// binaryRHS finds the constant right operand of the first `lhs op <const>` in fd.
func binaryRHS(p *packages.Package, fd *ast.FuncDecl, lhs string, op token.Token) (string, bool) {
	var out string
	found := false
	ast.Inspect(fd, func(n ast.Node) bool {
		be, ok := n.(*ast.BinaryExpr)
		if !ok || found || be.Op != op || exprString(be.X) != lhs {
			return true
		}
		if v, ok := constVal(p, be.Y); ok {
			out, found = v, true
		}
		return true
	})
	return out, found
}

// assignConst finds `name := <const>` in fd.
func assignConst(p *packages.Package, fd *ast.FuncDecl, name string) (string, bool) {
	var out string
	found := false
	ast.Inspect(fd, func(n ast.Node) bool {
		as, ok := n.(*ast.AssignStmt)
		if !ok || found || as.Tok != token.DEFINE {
			return true
		}
		for i, l := range as.Lhs {
			if id, ok := l.(*ast.Ident); ok && id.Name == name && i < len(as.Rhs) {
				if v, ok := constVal(p, as.Rhs[i]); ok {
					out, found = v, true
				}
			}
		}
		return true
	})
	return out, found
}

func main() {
	repo := flag.String("repo", "/repo", "repository root")
	leanOut := flag.String("lean", "/verif/lean/Emu/Generated/Consts.lean", "generated Lean file")
	leafOut := flag.String("leaf", "", "directory of generated Lean files of translated leaf predicates (default: Leaf/ next to -lean)")
	factsOut := flag.String("facts", "-", "facts JSON path")
	flag.Parse()

	f := &Facts{Consts: map[string]string{}, Facts: map[string][]string{}}
	set := func(name string, v string, ok bool) {
		if ok {
			f.Consts[name] = v
		} else {
			f.Unavailable = append(f.Unavailable, name)
		}
	}

	leafPkgs := map[string]*packages.Package{}
	if bt, err := load(*repo+"/bigtable", "./bttest"); err != nil {
		f.Errors = append(f.Errors, err.Error())
	} else {
		leafPkgs["bt"] = bt
		v, ok := pkgConst(bt, "maxValidMilliSeconds")
		set("maxValidMilliSeconds", v, ok)
		v, ok = pkgConst(bt, "minValidMilliSeconds")
		set("minValidMilliSeconds", v, ok)
		if gc := funcDecl(bt, "table", "gc"); gc != nil {
			v, ok = localConst(bt, gc, "quiesceNanos")
			set("quiesceNanos", v, ok)
			v, ok = binaryRHS(bt, gc, "i", token.REM)
			set("gcLockReversalPeriod", v, ok)
		} else {
			f.Unavailable = append(f.Unavailable, "quiesceNanos", "gcLockReversalPeriod")
		}
		if rr := funcDecl(bt, "server", "ReadRows"); rr != nil {
			v, ok = binaryRHS(bt, rr, "len(cb.chunks)", token.GTR)
			set("chunkBatch", v, ok)
		} else {
			f.Unavailable = append(f.Unavailable, "chunkBatch")
		}
		btFacts(bt, f)
	}
	if gcs, err := load(*repo+"/storage", "./gcsemu"); err != nil {
		f.Errors = append(f.Errors, err.Error())
	} else {
		leafPkgs["gcs"] = gcs
		v, ok := pkgConst(gcs, "gcsMaxComposeSources")
		set("gcsMaxComposeSources", v, ok)
		v, ok = pkgConst(gcs, "metaExtention")
		set("metaExtension", v, ok)
		if lb := funcDecl(gcs, "GcsEmu", "handleGcsListBucket"); lb != nil {
			v, ok = assignConst(gcs, lb, "maxResults")
			set("defaultMaxResults", v, ok)
		} else {
			f.Unavailable = append(f.Unavailable, "defaultMaxResults")
		}
		gcsFacts(gcs, f)
	}
	if lk, err := load(*repo+"/storage", "./gcsutil"); err != nil {
		f.Errors = append(f.Errors, err.Error())
	} else {
		lockFacts(lk, f)
	}

	writeLean(*leanOut, f)
	if *leafOut == "" {
		*leafOut = strings.TrimSuffix(*leanOut, "Consts.lean") + "Leaf"
	}
	if strings.HasSuffix(*leanOut, ".lean") {
		writeLeaf(*leafOut, leafPkgs, f)
		if bt := leafPkgs["bt"]; bt != nil {
			writeValidateFilter(*leafOut, bt, f)
			writeIncludeCell(*leafOut, bt, f)
			writeApplyGC(*leafOut, bt, f)
			writeModifyCell(*leafOut, bt, f)
			writeRangeClosures(*leafOut, bt, f)
		}
	}
	sort.Strings(f.Unavailable)
	b, _ := json.MarshalIndent(f, "", " ")
	if *factsOut == "-" {
		fmt.Println(string(b))
	} else if err := os.WriteFile(*factsOut, b, 0644); err != nil {
		fmt.Fprintln(os.Stderr, err)
		os.Exit(2)
	}
	if len(f.Errors) > 0 {
		os.Exit(3)
	}
}

var defRe = regexp.MustCompile(`(?m)^def (\w+) : (\w+) := (.*)$`)

// writeLean rewrites the generated file, keeping the previous value of anything unavailable and
// leaving the file untouched (mtime included) when nothing changed.
func writeLean(path string, f *Facts) {
	old, _ := os.ReadFile(path)
	prev := map[string]string{}
	for _, m := range defRe.FindAllStringSubmatch(string(old), -1) {
		prev[m[1]] = m[3]
	}
	type def struct{ name, typ string }
	defs := []def{
		{"maxValidMilliSeconds", "Int"}, {"minValidMilliSeconds", "Int"}, {"gcsMaxComposeSources", "Nat"},
		{"chunkBatch", "Nat"}, {"gcLockReversalPeriod", "Nat"}, {"quiesceNanos", "Int"}, {"defaultMaxResults", "Nat"},
		{"metaExtension", "String"},
	}
	var sb strings.Builder
	sb.WriteString("/- GENERATED by /verif/factx from /repo's current source on every run. Do not edit. -/\nnamespace Emu.Generated\n\n")
	for _, d := range defs {
		v, ok := f.Consts[d.name]
		if ok && d.typ == "String" {
			v = fmt.Sprintf("%q", v)
		}
		if !ok {
			v, ok = prev[d.name]
			if !ok {
				continue
			}
		}
		fmt.Fprintf(&sb, "def %s : %s := %s\n", d.name, d.typ, v)
	}
	sb.WriteString("\nend Emu.Generated\n")
	if sb.String() != string(old) {
		os.WriteFile(path, []byte(sb.String()), 0644)
	}
}
