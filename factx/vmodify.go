package main

// A translator specialised to modifyCell (bttest/inmem.go): the two transformers that change a
// cell (strip the value, apply a label).  The type switch over the RowFilter oneof becomes a Lean
// function over the Model's `Emu.Bt.Filter` that returns `Except Unit Cell` (an error return of the Go
// function is `.error ()`); cell literals `&btpb.Cell{…}` are read field by field, an omitted field
// being the zero value.  The tie theorem (lean/Emu/Proofs/LeafTie/ModifyCell.lean) proves it equal to
// the Model's `modifyCell` on every validated filter.  Anything else makes the translation fail (a
// broken tie).

import (
	"fmt"
	"go/ast"
	"go/token"
	"os"
	"strings"

	"golang.org/x/tools/go/packages"
)

type mcCase struct {
	pattern string
	fields  map[string]string // Go expression -> Lean term (Bytes)
}

var mcCases = map[string]mcCase{
	"RowFilter_StripValueTransformer": {".stripValue", nil},
	"RowFilter_ApplyLabelTransformer": {".applyLabel l", map[string]string{"filter.ApplyLabelTransformer": "l"}},
}

var mcOrder = []string{"RowFilter_StripValueTransformer", "RowFilter_ApplyLabelTransformer"}

type mcTr struct {
	c   mcCase
	err error
}

func (t *mcTr) fail(format string, a ...any) string {
	if t.err == nil {
		t.err = fmt.Errorf(format, a...)
	}
	return ".ok c"
}

// cell: `c` | &btpb.Cell{Field: value, …}
func (t *mcTr) cell(e ast.Expr) string {
	if id, ok := e.(*ast.Ident); ok && id.Name == "c" {
		return "c"
	}
	u, ok := e.(*ast.UnaryExpr)
	if !ok || u.Op != token.AND {
		return t.fail("cell expression %s", exprString(e))
	}
	cl, ok := u.X.(*ast.CompositeLit)
	if !ok || exprString(cl.Type) != "btpb.Cell" {
		return t.fail("cell expression %s", exprString(e))
	}
	ts, value, labels := "(0 : Int)", "([] : Bytes)", "([] : List Bytes)"
	for _, el := range cl.Elts {
		kv, ok := el.(*ast.KeyValueExpr)
		if !ok {
			return t.fail("positional cell literal")
		}
		switch exprString(kv.Key) {
		case "TimestampMicros":
			if exprString(kv.Value) != "c.TimestampMicros" {
				return t.fail("timestamp %s", exprString(kv.Value))
			}
			ts = "c.ts"
		case "Value":
			if exprString(kv.Value) != "c.Value" {
				return t.fail("value %s", exprString(kv.Value))
			}
			value = "c.value"
		case "Labels":
			// []string{X}
			l, ok := kv.Value.(*ast.CompositeLit)
			if !ok || len(l.Elts) != 1 {
				return t.fail("labels %s", exprString(kv.Value))
			}
			m, ok := t.c.fields[exprString(l.Elts[0])]
			if !ok {
				return t.fail("label %s", exprString(l.Elts[0]))
			}
			labels = "[" + m + "]"
		default:
			return t.fail("cell field %s", exprString(kv.Key))
		}
	}
	return "⟨" + ts + ", " + value + ", " + labels + "⟩"
}

func (t *mcTr) ret(r *ast.ReturnStmt) string {
	if len(r.Results) != 2 {
		return t.fail("return with %d results", len(r.Results))
	}
	if exprString(r.Results[1]) == "nil" {
		return ".ok " + t.cell(r.Results[0])
	}
	return ".error ()"
}

func (t *mcTr) stmts(ss []ast.Stmt) string {
	if len(ss) == 0 {
		return t.fail("a path without return")
	}
	switch s := ss[0].(type) {
	case *ast.ReturnStmt:
		return t.ret(s)
	case *ast.IfStmt:
		// if !validLabelTransformer.MatchString(X) { return …, err }
		if s.Init == nil && s.Else == nil && len(s.Body.List) == 1 {
			r, ok := s.Body.List[0].(*ast.ReturnStmt)
			u, ok2 := s.Cond.(*ast.UnaryExpr)
			if ok && ok2 && u.Op == token.NOT {
				if call, ok := u.X.(*ast.CallExpr); ok && exprString(call.Fun) == "validLabelTransformer.MatchString" && len(call.Args) == 1 {
					if m, ok := t.c.fields[exprString(call.Args[0])]; ok {
						return "if !(validLabel " + m + ") then " + t.ret(r) + " else " + t.stmts(ss[1:])
					}
				}
			}
		}
	}
	return t.fail("statement %T", ss[0])
}

func writeModifyCell(dir string, p *packages.Package, f *Facts) {
	fail := func(why string) {
		f.Unavailable = append(f.Unavailable, "leaf modifyCell ("+why+")")
	}
	fd := funcDecl(p, "", "modifyCell")
	if fd == nil || fd.Body == nil || len(fd.Body.List) != 2 {
		fail("function not found or not of the shape nil-check; type switch")
		return
	}
	// if f == nil { return c, nil }
	is, ok := fd.Body.List[0].(*ast.IfStmt)
	if !ok || is.Init != nil || is.Else != nil {
		fail("first statement is not the nil check")
		return
	}
	be, ok := is.Cond.(*ast.BinaryExpr)
	if !ok || be.Op != token.EQL || exprString(be.X) != "f" || exprString(be.Y) != "nil" {
		fail("first statement is not `if f == nil`")
		return
	}
	nt := &mcTr{}
	nilArm := nt.stmts(is.Body.List)
	if nt.err != nil {
		fail("nil case: " + nt.err.Error())
		return
	}
	ts, ok := fd.Body.List[1].(*ast.TypeSwitchStmt)
	if !ok {
		fail("second statement is not a type switch")
		return
	}
	if as, ok := ts.Assign.(*ast.AssignStmt); !ok || len(as.Rhs) != 1 || exprString(as.Lhs[0]) != "filter" {
		fail("the type switch does not bind `filter`")
		return
	} else if ta, ok := as.Rhs[0].(*ast.TypeAssertExpr); !ok || exprString(ta.X) != "f.Filter" {
		fail("the type switch is not over f.Filter")
		return
	}
	arms := map[string]string{}
	def := ""
	for _, c := range ts.Body.List {
		cc := c.(*ast.CaseClause)
		if cc.List == nil {
			t := &mcTr{}
			def = t.stmts(cc.Body)
			if t.err != nil {
				fail("default case: " + t.err.Error())
				return
			}
			continue
		}
		if len(cc.List) != 1 {
			fail("a case with several types")
			return
		}
		name := strings.TrimPrefix(strings.TrimPrefix(exprString(cc.List[0]), "*"), "btpb.")
		spec, ok := mcCases[name]
		if !ok {
			fail("a case for " + name + ", which the translator does not know")
			return
		}
		t := &mcTr{c: spec}
		body := t.stmts(cc.Body)
		if t.err != nil {
			fail("case " + name + ": " + t.err.Error())
			return
		}
		arms[name] = "  | " + spec.pattern + " => " + body
	}
	if def == "" {
		fail("no default case")
		return
	}
	var sb strings.Builder
	sb.WriteString("/- GENERATED by /verif/factx (vmodify.go) from /repo's current source on every run. Do not edit.\n   `modifyCell` (bttest/inmem.go) read as a function over the Model's filters;\n   `Emu/Proofs/LeafTie/ModifyCell.lean` proves it equal to the Model's `modifyCell`. -/\nimport Emu.Bt.Filter\nnamespace Emu.Generated.Leaf\nopen Emu.Bt\n\ndef modifyCell (f : Filter) (c : Cell) : Except Unit Cell :=\n  match f with\n  | .absent => " + nilArm + "\n")
	for _, n := range mcOrder {
		if a, ok := arms[n]; ok {
			sb.WriteString(a + "\n")
		}
	}
	sb.WriteString("  | _ => " + def + "\n\nend Emu.Generated.Leaf\n")
	os.MkdirAll(dir, 0755)
	writeIfChanged(dir+"/ModifyCell.lean", sb.String())
}
