package main

// A translator specialised to applyGC (bttest/inmem.go): the type switch over the GcRule oneof, the
// cut-off arithmetic, `sort.Search`, the slicing of the cell list and the loop over a union's rules,
// written as a Lean function over the Model's `Emu.Bt.GcRule`; the tie theorem
// (lean/Emu/Proofs/LeafTie/ApplyGC.lean) proves it equal to the Model's `applyGC` on cells in
// descending timestamp order.  Logging is not behaviour and is skipped; integers are read as
// unbounded (the Model's), so an overflowing `Seconds * 1e6` is outside what the tie says.
// Anything else makes the translation fail (a broken tie).

import (
	"fmt"
	"go/ast"
	"go/token"
	"os"
	"strings"

	"golang.org/x/tools/go/packages"
)

type gcCase struct {
	pattern string
	ints    map[string]string // Go expression (after stripping integer conversions) -> Lean Int term
	rules   map[string]string // Go expression of a rule list -> Lean term
}

var gcCases = map[string]gcCase{
	"GcRule_Union_":         {".union rs", nil, map[string]string{"rule.Union.Rules": "rs"}},
	"GcRule_MaxAge":         {".maxAge sec nanos", map[string]string{"rule.MaxAge.Seconds": "sec", "rule.MaxAge.Nanos": "nanos"}, nil},
	"GcRule_MaxNumVersions": {".maxVersions n", map[string]string{"rule.MaxNumVersions": "n"}, nil},
}

// the order the arms are written in (the tie's proof does not depend on it)
var gcOrder = []string{"GcRule_Union_", "GcRule_MaxAge", "GcRule_MaxNumVersions"}

type gcTr struct {
	p    *packages.Package
	c    gcCase
	ints map[string]bool // local Int variables
	nats map[string]bool // local Nat variables (results of sort.Search)
	tail []ast.Stmt      // what follows the switch
	err  error
}

func (t *gcTr) fail(format string, a ...any) string {
	if t.err == nil {
		t.err = fmt.Errorf(format, a...)
	}
	return "cells"
}

func stripIntConv(e ast.Expr) ast.Expr {
	for {
		switch x := e.(type) {
		case *ast.ParenExpr:
			e = x.X
			continue
		case *ast.CallExpr:
			if id, ok := x.Fun.(*ast.Ident); ok && len(x.Args) == 1 && (id.Name == "int64" || id.Name == "int" || id.Name == "int32") {
				e = x.Args[0]
				continue
			}
		}
		return e
	}
}

// intExpr: an Int-valued expression; inClosure names the closure's index parameter (a Nat)
func (t *gcTr) intExpr(e ast.Expr, idx string) string {
	e = stripIntConv(e)
	if tv, ok := t.p.TypesInfo.Types[e]; ok && tv.Value != nil {
		s := tv.Value.ExactString()
		if strings.ContainsAny(s, "./e") {
			return t.fail("constant %s is not an integer", s)
		}
		return s
	}
	switch x := e.(type) {
	case *ast.Ident:
		if x.Name == "now" {
			return "now"
		}
		if t.ints[x.Name] {
			return x.Name
		}
		if t.nats[x.Name] {
			return "(" + x.Name + " : Int)"
		}
	case *ast.SelectorExpr:
		if m, ok := t.c.ints[exprString(x)]; ok {
			return m
		}
		// cells[i].TimestampMicros
		if ix, ok := x.X.(*ast.IndexExpr); ok && x.Sel.Name == "TimestampMicros" && exprString(ix.X) == "cells" && idx != "" && exprString(ix.Index) == idx {
			return "(cells.getD " + idx + " default).ts"
		}
	case *ast.CallExpr:
		if id, ok := x.Fun.(*ast.Ident); ok && id.Name == "len" && len(x.Args) == 1 && exprString(x.Args[0]) == "cells" {
			return "(cells.length : Int)"
		}
	case *ast.BinaryExpr:
		a, b := t.intExpr(x.X, idx), t.intExpr(x.Y, idx)
		switch x.Op {
		case token.MUL:
			return "(" + a + " * " + b + ")"
		case token.SUB:
			return "(" + a + " - " + b + ")"
		case token.ADD:
			return "(" + a + " + " + b + ")"
		case token.QUO:
			return "(Int.tdiv " + a + " " + b + ")"
		}
	}
	return t.fail("integer expression %s", exprString(e))
}

func (t *gcTr) cond(e ast.Expr, idx string) string {
	if b, ok := e.(*ast.BinaryExpr); ok {
		a, c := t.intExpr(b.X, idx), t.intExpr(b.Y, idx)
		switch b.Op {
		case token.LSS:
			return a + " < " + c
		case token.GTR:
			return a + " > " + c
		case token.LEQ:
			return a + " ≤ " + c
		case token.GEQ:
			return a + " ≥ " + c
		}
	}
	return t.fail("condition %s", exprString(e))
}

// listExpr: cells | cells[:v] | applyGC(cells, sub, now)
func (t *gcTr) listExpr(e ast.Expr) string {
	switch x := e.(type) {
	case *ast.Ident:
		if x.Name == "cells" {
			return "cells"
		}
	case *ast.SliceExpr:
		if exprString(x.X) == "cells" && x.Low == nil && x.High != nil && x.Max == nil {
			if id, ok := x.High.(*ast.Ident); ok {
				if t.nats[id.Name] {
					return "cells.take " + id.Name
				}
				if t.ints[id.Name] {
					// Go panics on a negative bound; every path to here is behind a `< 0` return
					return "cells.take " + id.Name + ".toNat"
				}
			}
		}
	}
	return t.fail("list expression %s", exprString(e))
}

func isLogging(s ast.Stmt) bool {
	es, ok := s.(*ast.ExprStmt)
	if !ok {
		return false
	}
	call, ok := es.X.(*ast.CallExpr)
	if !ok {
		return false
	}
	f := exprString(call.Fun)
	return f == "log.Printf" || f == "gcTypeWarn.Do"
}

func onlyLogging(b *ast.BlockStmt) bool {
	for _, s := range b.List {
		if !isLogging(s) {
			return false
		}
	}
	return true
}

func (t *gcTr) stmts(ss []ast.Stmt) string {
	if len(ss) == 0 {
		if t.tail == nil {
			return t.fail("control reaches the end of the function")
		}
		tail := t.tail
		t.tail = nil
		return t.stmts(tail)
	}
	rest := func() string { return t.stmts(ss[1:]) }
	switch s := ss[0].(type) {
	case *ast.ExprStmt:
		if isLogging(s) {
			return rest()
		}
	case *ast.ReturnStmt:
		if len(s.Results) == 1 {
			return t.listExpr(s.Results[0])
		}
	case *ast.AssignStmt:
		if len(s.Lhs) != 1 || len(s.Rhs) != 1 {
			break
		}
		name := exprString(s.Lhs[0])
		switch s.Tok {
		case token.DEFINE:
			// si := sort.Search(len(cells), func(i int) bool { return COND })
			if call, ok := s.Rhs[0].(*ast.CallExpr); ok && exprString(call.Fun) == "sort.Search" && len(call.Args) == 2 {
				if exprString(call.Args[0]) != "len(cells)" {
					return t.fail("sort.Search over %s", exprString(call.Args[0]))
				}
				fl, ok := call.Args[1].(*ast.FuncLit)
				if !ok || len(fl.Type.Params.List) != 1 || len(fl.Type.Params.List[0].Names) != 1 || len(fl.Body.List) != 1 {
					return t.fail("sort.Search predicate")
				}
				ret, ok := fl.Body.List[0].(*ast.ReturnStmt)
				if !ok || len(ret.Results) != 1 {
					return t.fail("sort.Search predicate")
				}
				idx := fl.Type.Params.List[0].Names[0].Name
				c := t.cond(ret.Results[0], idx)
				t.nats[name] = true
				return "let " + name + " := Emu.GoSem.goSearch cells.length (fun " + idx + " => decide (" + c + ")); " + rest()
			}
			v := t.intExpr(s.Rhs[0], "")
			t.ints[name] = true
			return "let " + name + " := " + v + "; " + rest()
		case token.SUB_ASSIGN:
			if !t.ints[name] {
				break
			}
			return "let " + name + " := " + name + " - " + t.intExpr(s.Rhs[0], "") + "; " + rest()
		case token.ASSIGN:
			if name == "cells" {
				return "let cells := " + t.listExpr(s.Rhs[0]) + "; " + rest()
			}
		}
	case *ast.IfStmt:
		if s.Init != nil || s.Else != nil {
			break
		}
		if onlyLogging(s.Body) {
			return rest()
		}
		if len(s.Body.List) == 1 {
			switch b := s.Body.List[0].(type) {
			case *ast.ReturnStmt:
				if len(b.Results) == 1 {
					return "if " + t.cond(s.Cond, "") + " then " + t.listExpr(b.Results[0]) + " else " + rest()
				}
			case *ast.AssignStmt:
				if b.Tok == token.ASSIGN && len(b.Lhs) == 1 && len(b.Rhs) == 1 && exprString(b.Lhs[0]) == "cells" {
					return "let cells := (if " + t.cond(s.Cond, "") + " then " + t.listExpr(b.Rhs[0]) + " else cells); " + rest()
				}
			}
		}
	case *ast.RangeStmt:
		// for _, sub := range RULES { cells = applyGC(cells, sub, now) }
		rs, ok := t.c.rules[exprString(s.X)]
		if !ok || s.Value == nil || len(s.Body.List) != 1 {
			break
		}
		if k, ok := s.Key.(*ast.Ident); !ok || k.Name != "_" {
			break
		}
		sub := exprString(s.Value)
		as, ok := s.Body.List[0].(*ast.AssignStmt)
		if !ok || as.Tok != token.ASSIGN || len(as.Lhs) != 1 || len(as.Rhs) != 1 || exprString(as.Lhs[0]) != "cells" {
			break
		}
		if exprString(as.Rhs[0]) != "applyGC(cells,"+sub+",now)" {
			return t.fail("loop body %s", exprString(as.Rhs[0]))
		}
		return "let cells := applyGCs cells " + rs + " now; " + rest()
	}
	return t.fail("statement %T", ss[0])
}

func writeApplyGC(dir string, p *packages.Package, f *Facts) {
	fail := func(why string) {
		f.Unavailable = append(f.Unavailable, "leaf applyGC ("+why+")")
	}
	fd := funcDecl(p, "", "applyGC")
	if fd == nil || fd.Body == nil || len(fd.Body.List) < 2 {
		fail("function not found or not of the shape type switch; return")
		return
	}
	var params []string
	for _, fl := range fd.Type.Params.List {
		for _, n := range fl.Names {
			params = append(params, n.Name)
		}
	}
	if strings.Join(params, ",") != "cells,rule,now" {
		fail("parameters are " + strings.Join(params, ",") + ", not cells,rule,now")
		return
	}
	ts, ok := fd.Body.List[0].(*ast.TypeSwitchStmt)
	if !ok {
		fail("first statement is not a type switch")
		return
	}
	if as, ok := ts.Assign.(*ast.AssignStmt); !ok || len(as.Rhs) != 1 || exprString(as.Lhs[0]) != "rule" {
		fail("the type switch does not bind `rule`")
		return
	} else if ta, ok := as.Rhs[0].(*ast.TypeAssertExpr); !ok || exprString(ta.X) != "rule.Rule" {
		fail("the type switch is not over rule.Rule")
		return
	}
	tail := fd.Body.List[1:]
	arms := map[string]string{}
	def := ""
	for _, c := range ts.Body.List {
		cc := c.(*ast.CaseClause)
		if cc.List == nil {
			t := &gcTr{p: p, ints: map[string]bool{}, nats: map[string]bool{}, tail: tail}
			def = t.stmts(cc.Body)
			if t.err != nil {
				fail("default case: " + t.err.Error())
				return
			}
			continue
		}
		if len(cc.List) != 1 {
			fail("a case with several types")
			return
		}
		name := strings.TrimPrefix(strings.TrimPrefix(exprString(cc.List[0]), "*"), "btapb.")
		spec, ok := gcCases[name]
		if !ok {
			fail("a case for " + name + ", which the translator does not know")
			return
		}
		t := &gcTr{p: p, c: spec, ints: map[string]bool{}, nats: map[string]bool{}, tail: tail}
		body := t.stmts(cc.Body)
		if t.err != nil {
			fail("case " + name + ": " + t.err.Error())
			return
		}
		arms[name] = "  | " + spec.pattern + " => (" + body + ")"
	}
	if def == "" {
		fail("no default case")
		return
	}
	var sb strings.Builder
	sb.WriteString("/- GENERATED by /verif/factx (vgc.go) from /repo's current source on every run. Do not edit.\n   `applyGC` (bttest/inmem.go) read as a function over the Model's GC rules;\n   `Emu/Proofs/LeafTie/ApplyGC.lean` proves it equal to the Model's `applyGC` on descending cells. -/\nimport Emu.Bt.Types\nimport Emu.Basic.GoSem\nnamespace Emu.Generated.Leaf\nopen Emu.Bt\n\nmutual\ndef applyGC (cells : List Cell) (rule : GcRule) (now : Int) : List Cell :=\n  match rule with\n")
	for _, n := range gcOrder {
		if a, ok := arms[n]; ok {
			sb.WriteString(a + "\n")
		}
	}
	sb.WriteString("  | _ => " + def + "\ndef applyGCs (cells : List Cell) (rules : List GcRule) (now : Int) : List Cell :=\n  match rules with\n  | [] => cells\n  | sub :: rest => applyGCs (applyGC cells sub now) rest now\nend\n\nend Emu.Generated.Leaf\n")
	os.MkdirAll(dir, 0755)
	writeIfChanged(dir+"/ApplyGC.lean", sb.String())
}
