package main

// A translator specialised to one function: validateFilter (bttest/validation.go), the argument
// validation of the whole filter tree.  It reads the type switch over the RowFilter oneof and writes
// a Lean function over the Model's `Emu.Bt.Filter` with the same decisions; the tie theorem
// (lean/Emu/Proofs/LeafTie/ValidateFilter.lean) proves it equal to the Model's `validFilter` for
// every filter tree.  The correspondence between the proto wrappers' fields and the constructor
// arguments of `Filter` is the table below (trusted, like the Model's reading of the proto); every
// statement or expression shape that is not listed here makes the translation fail, which `check`
// reports as a broken tie.

import (
	"fmt"
	"go/ast"
	"go/constant"
	"go/token"
	"os"
	"strings"

	"golang.org/x/tools/go/packages"
)

type vfCase struct {
	pattern string            // Lean pattern
	fields  map[string]string // Go expression text -> Lean term ("<nonnil>": a sub-message the Model has no nil for)
}

var vfCases = map[string]vfCase{
	"RowFilter_BlockAllFilter":            {".blockAll b", map[string]string{"f.BlockAllFilter": "b"}},
	"RowFilter_PassAllFilter":             {".passAll b", map[string]string{"f.PassAllFilter": "b"}},
	"RowFilter_Chain_":                    {".chain fs", map[string]string{"f.Chain.GetFilters()": "fs", "f.Chain.Filters": "fs"}},
	"RowFilter_Interleave_":               {".interleave fs", map[string]string{"f.Interleave.GetFilters()": "fs", "f.Interleave.Filters": "fs"}},
	"RowFilter_Condition_":                {".condition p t e", map[string]string{"f.Condition": "<nonnil>", "f.Condition.PredicateFilter": "p", "f.Condition.TrueFilter": "t", "f.Condition.FalseFilter": "e"}},
	"RowFilter_RowKeyRegexFilter":         {".rowKeyRegex r", map[string]string{"f.RowKeyRegexFilter": "r"}},
	"RowFilter_FamilyNameRegexFilter":     {".familyRegex r", map[string]string{"f.FamilyNameRegexFilter": "r"}},
	"RowFilter_ColumnQualifierRegexFilter": {".qualRegex r", map[string]string{"f.ColumnQualifierRegexFilter": "r"}},
	"RowFilter_ValueRegexFilter":          {".valueRegex r", map[string]string{"f.ValueRegexFilter": "r"}},
	"RowFilter_ColumnRangeFilter":         {".columnRange _ _ _", map[string]string{"f.ColumnRangeFilter": "<nonnil>"}},
	"RowFilter_ValueRangeFilter":          {".valueRange _ _", map[string]string{"f.ValueRangeFilter": "<nonnil>"}},
	"RowFilter_TimestampRangeFilter":      {".tsRange s e", map[string]string{"f.TimestampRangeFilter": "<nonnil>", "f.TimestampRangeFilter.StartTimestampMicros": "s", "f.TimestampRangeFilter.EndTimestampMicros": "e"}},
	"RowFilter_CellsPerRowLimitFilter":    {".rowLimit n", map[string]string{"f.CellsPerRowLimitFilter": "n"}},
	"RowFilter_CellsPerRowOffsetFilter":   {".rowOffset n", map[string]string{"f.CellsPerRowOffsetFilter": "n"}},
	"RowFilter_CellsPerColumnLimitFilter": {".colLimit n", map[string]string{"f.CellsPerColumnLimitFilter": "n"}},
	"RowFilter_RowSampleFilter":           {".sample p", map[string]string{"f.RowSampleFilter": "p"}},
	"RowFilter_ApplyLabelTransformer":     {".applyLabel l", map[string]string{"f.ApplyLabelTransformer": "l"}},
	"RowFilter_StripValueTransformer":     {".stripValue", map[string]string{}},
}

// every constructor of Emu.Bt.Filter, in declaration order, with the pattern used when the Go switch has no case for it
var vfAll = []struct{ oneof, pattern string }{
	{"", ".absent"}, {"RowFilter_PassAllFilter", ".passAll b"}, {"RowFilter_BlockAllFilter", ".blockAll b"}, {"RowFilter_Chain_", ".chain fs"},
	{"RowFilter_Interleave_", ".interleave fs"}, {"RowFilter_Condition_", ".condition p t e"}, {"RowFilter_RowKeyRegexFilter", ".rowKeyRegex r"},
	{"RowFilter_FamilyNameRegexFilter", ".familyRegex r"}, {"RowFilter_ColumnQualifierRegexFilter", ".qualRegex r"}, {"RowFilter_ValueRegexFilter", ".valueRegex r"},
	{"RowFilter_ColumnRangeFilter", ".columnRange _ _ _"}, {"RowFilter_ValueRangeFilter", ".valueRange _ _"}, {"RowFilter_TimestampRangeFilter", ".tsRange s e"},
	{"RowFilter_CellsPerRowLimitFilter", ".rowLimit n"}, {"RowFilter_CellsPerRowOffsetFilter", ".rowOffset n"}, {"RowFilter_CellsPerColumnLimitFilter", ".colLimit n"},
	{"RowFilter_StripValueTransformer", ".stripValue"}, {"RowFilter_ApplyLabelTransformer", ".applyLabel l"}, {"RowFilter_RowSampleFilter", ".sample p"}, {"*", ".other"},
}

type vfTr struct {
	p   *packages.Package
	c   vfCase
	err error
}

func (t *vfTr) fail(format string, a ...any) string {
	if t.err == nil {
		t.err = fmt.Errorf(format, a...)
	}
	return "false"
}

func goText(e ast.Expr) string {
	switch x := e.(type) {
	case *ast.ParenExpr:
		return goText(x.X)
	case *ast.CallExpr:
		// conversions to []byte / string are the identity on the Model's byte strings
		if len(x.Args) == 1 {
			if at, ok := x.Fun.(*ast.ArrayType); ok && exprString(at.Elt) == "byte" {
				return goText(x.Args[0])
			}
			if id, ok := x.Fun.(*ast.Ident); ok && id.Name == "string" {
				return goText(x.Args[0])
			}
		}
	}
	return exprString(e)
}

// val translates an integer- or list-valued expression
func (t *vfTr) val(e ast.Expr) string {
	if tv, ok := t.p.TypesInfo.Types[e]; ok && tv.Value != nil {
		switch tv.Value.Kind() {
		case constant.Int:
			return "(" + tv.Value.ExactString() + " : Int)"
		case constant.Float:
			// probabilities are carried in thousandths by the Model
			f, _ := constant.Float64Val(tv.Value)
			return fmt.Sprintf("(%d : Int)", int64(f*1000+0.5))
		}
	}
	if m, ok := t.c.fields[goText(e)]; ok && m != "<nonnil>" {
		return m
	}
	switch x := e.(type) {
	case *ast.ParenExpr:
		return t.val(x.X)
	case *ast.BinaryExpr:
		if x.Op == token.REM {
			return "(Int.tmod " + t.val(x.X) + " " + t.val(x.Y) + ")"
		}
	case *ast.CallExpr:
		if exprString(x.Fun) == "len" && len(x.Args) == 1 {
			return "((" + t.val(x.Args[0]) + ").length : Int)"
		}
	}
	return t.fail("value %s", exprString(e))
}

// cond translates a boolean expression
func (t *vfTr) cond(e ast.Expr) string {
	switch x := e.(type) {
	case *ast.ParenExpr:
		return t.cond(x.X)
	case *ast.UnaryExpr:
		if x.Op == token.NOT {
			return "(!" + t.cond(x.X) + ")"
		}
	case *ast.SelectorExpr, *ast.Ident:
		if m, ok := t.c.fields[goText(e)]; ok && m != "<nonnil>" {
			return m
		}
	case *ast.CallExpr:
		if exprString(x.Fun) == "validLabelTransformer.MatchString" && len(x.Args) == 1 {
			return "(Emu.Bt.validLabel " + t.val(x.Args[0]) + ")"
		}
	case *ast.BinaryExpr:
		switch x.Op {
		case token.LOR:
			return "(" + t.cond(x.X) + " || " + t.cond(x.Y) + ")"
		case token.LAND:
			return "(" + t.cond(x.X) + " && " + t.cond(x.Y) + ")"
		case token.EQL, token.NEQ:
			if exprString(x.Y) == "nil" {
				if m, ok := t.c.fields[goText(x.X)]; ok && m == "<nonnil>" {
					// the Model has no nil sub-message here (the wire form of an empty one is not nil either)
					if x.Op == token.EQL {
						return "false"
					}
					return "true"
				}
				return t.fail("nil test of %s", exprString(x.X))
			}
			a, b := t.val(x.X), t.val(x.Y)
			if x.Op == token.EQL {
				return "(decide (" + a + " = " + b + "))"
			}
			return "(!decide (" + a + " = " + b + "))"
		case token.LSS:
			return "(decide (" + t.val(x.X) + " < " + t.val(x.Y) + "))"
		case token.LEQ:
			return "(decide (" + t.val(x.X) + " ≤ " + t.val(x.Y) + "))"
		case token.GTR:
			return "(decide (" + t.val(x.Y) + " < " + t.val(x.X) + "))"
		case token.GEQ:
			return "(decide (" + t.val(x.Y) + " ≤ " + t.val(x.X) + "))"
		}
	}
	return t.fail("condition %s", exprString(e))
}

func isErrReturn(s ast.Stmt) bool {
	r, ok := s.(*ast.ReturnStmt)
	if !ok || len(r.Results) != 1 {
		return false
	}
	if id, ok := r.Results[0].(*ast.Ident); ok && id.Name == "err" {
		return true
	}
	c, ok := r.Results[0].(*ast.CallExpr)
	return ok && (exprString(c.Fun) == "status.Errorf" || exprString(c.Fun) == "status.Error")
}

// stmts: the list is valid (reaches the end) iff …
func (t *vfTr) stmts(ss []ast.Stmt) string {
	if len(ss) == 0 {
		return "true"
	}
	rest := func() string { return t.stmts(ss[1:]) }
	switch s := ss[0].(type) {
	case *ast.DeclStmt:
		// local constants are folded by the type checker
		if gd, ok := s.Decl.(*ast.GenDecl); ok && gd.Tok == token.CONST {
			return rest()
		}
	case *ast.IfStmt:
		if s.Else != nil || len(s.Body.List) != 1 || !isErrReturn(s.Body.List[0]) {
			return t.fail("if statement that is not `if … { return <error> }`")
		}
		if s.Init == nil {
			return "(if " + t.cond(s.Cond) + " then false else " + rest() + ")"
		}
		// if _, err := newRegexp(X); err != nil { return … }
		if as, ok := s.Init.(*ast.AssignStmt); ok && len(as.Rhs) == 1 {
			if call, ok := as.Rhs[0].(*ast.CallExpr); ok && exprString(call.Fun) == "newRegexp" && len(call.Args) == 1 {
				if be, ok := s.Cond.(*ast.BinaryExpr); ok && be.Op == token.NEQ && exprString(be.X) == "err" && exprString(be.Y) == "nil" {
					return "(if (" + t.val(call.Args[0]) + ").isSome then " + rest() + " else false)"
				}
			}
		}
		return t.fail("if statement with an initialiser other than a newRegexp call")
	case *ast.RangeStmt:
		// for _, sub := range LIST { if err := validateFilter(sub); err != nil { return err } }
		if len(s.Body.List) == 1 {
			if is, ok := s.Body.List[0].(*ast.IfStmt); ok && is.Else == nil && len(is.Body.List) == 1 && isErrReturn(is.Body.List[0]) {
				if as, ok := is.Init.(*ast.AssignStmt); ok && len(as.Rhs) == 1 {
					if call, ok := as.Rhs[0].(*ast.CallExpr); ok && exprString(call.Fun) == "validateFilter" && len(call.Args) == 1 && exprString(call.Args[0]) == exprString(s.Value) {
						if be, ok := is.Cond.(*ast.BinaryExpr); ok && be.Op == token.NEQ && exprString(be.X) == "err" && exprString(be.Y) == "nil" {
							if cl, ok := s.X.(*ast.CompositeLit); ok {
								var parts []string
								for _, el := range cl.Elts {
									parts = append(parts, "validateFilter "+t.val(el))
								}
								return "(" + strings.Join(append(parts, rest()), " && ") + ")"
							}
							return "(validateFilters " + t.val(s.X) + " && " + rest() + ")"
						}
					}
				}
			}
		}
		return t.fail("range loop that is not the validation of every sub-filter")
	}
	return t.fail("statement %T", ss[0])
}

func writeValidateFilter(dir string, p *packages.Package, f *Facts) {
	fail := func(why string) {
		f.Unavailable = append(f.Unavailable, "leaf validateFilter ("+why+")")
	}
	fd := funcDecl(p, "", "validateFilter")
	if fd == nil || fd.Body == nil || len(fd.Body.List) != 3 {
		fail("function not found or not of the shape nil-check; type switch; return nil")
		return
	}
	// if f == nil { return nil }
	nilCheck := false
	if is, ok := fd.Body.List[0].(*ast.IfStmt); ok && is.Init == nil && is.Else == nil && len(is.Body.List) == 1 {
		if be, ok := is.Cond.(*ast.BinaryExpr); ok && be.Op == token.EQL && exprString(be.X) == "f" && exprString(be.Y) == "nil" {
			if r, ok := is.Body.List[0].(*ast.ReturnStmt); ok && len(r.Results) == 1 && exprString(r.Results[0]) == "nil" {
				nilCheck = true
			}
		}
	}
	if !nilCheck {
		fail("first statement is not `if f == nil { return nil }`")
		return
	}
	ts, ok := fd.Body.List[1].(*ast.TypeSwitchStmt)
	if !ok {
		fail("second statement is not a type switch")
		return
	}
	if r, ok := fd.Body.List[2].(*ast.ReturnStmt); !ok || len(r.Results) != 1 || exprString(r.Results[0]) != "nil" {
		fail("does not end with `return nil`")
		return
	}
	bodies := map[string]string{}
	for _, c := range ts.Body.List {
		cc := c.(*ast.CaseClause)
		if len(cc.List) != 1 {
			fail("a case with several types (or a default case)")
			return
		}
		name := strings.TrimPrefix(strings.TrimPrefix(exprString(cc.List[0]), "*"), "btpb.")
		spec, ok := vfCases[name]
		if !ok {
			fail("a case for " + name + ", which the translator does not know")
			return
		}
		t := &vfTr{p: p, c: spec}
		body := t.stmts(cc.Body)
		if t.err != nil {
			fail("case " + name + ": " + t.err.Error())
			return
		}
		bodies[name] = body
	}
	var sb strings.Builder
	sb.WriteString("/- GENERATED by /verif/factx (vfilter.go) from /repo's current source on every run. Do not edit.\n   `validateFilter` (bttest/validation.go) read as a function over the Model's filter trees;\n   `Emu/Proofs/LeafTie/ValidateFilter.lean` proves it equal to the Model's `validFilter`. -/\nimport Emu.Bt.Filter\nnamespace Emu.Generated.Leaf\nopen Emu.Bt\n\nmutual\ndef validateFilter : Filter → Bool\n")
	for _, c := range vfAll {
		body, ok := bodies[c.oneof]
		pat := c.pattern
		if !ok {
			body = "true"
			// no case in the Go switch: arguments unused
			pat = strings.NewReplacer(" b", " _", " fs", " _", " p t e", " _ _ _", " r", " _", " s e", " _ _", " n", " _", " l", " _", " p", " _").Replace(pat)
		}
		sb.WriteString("  | " + pat + " => " + body + "\n")
	}
	sb.WriteString("def validateFilters : List Filter → Bool\n  | [] => true\n  | f :: fs => validateFilter f && validateFilters fs\nend\n\nend Emu.Generated.Leaf\n")
	os.MkdirAll(dir, 0755)
	writeIfChanged(dir+"/ValidateFilter.lean", sb.String())
}
