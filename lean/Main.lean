/-
  emu-driver: reads one operation per line on stdin, writes one canonical response per line.
  `bt …` lines drive the Bigtable Model; `reset` starts from fresh state.
-/
import Emu.Driver.Bt
import Emu.Bt.Activity
import Emu.Driver.Gcs
import Emu.Driver.Lock
import Emu.Driver.Conc
import Emu.Driver.Scan

open Emu Emu.Driver

structure St where
  bt : Emu.Bt.Server := {}
  /-- activity stamps of the Bigtable tables (`Emu.Bt.Activity`) -/
  btAct : Emu.Bt.ActMap := []
  gcs : Emu.Gcs.Store := {}
  lock : LockSt := {}
  conc : ConcSt := {}

def handle (st : St) (line : String) : St × String :=
  match tokens line with
  | [] => (st, "")
  | "reset" :: _ => ({}, "ok")
  | ["bt", "idle", n, d] =>
    match Bytes.ofHex n, d.toNat? with
    | some n, some d =>
      let (y, r) := Emu.Bt.xstep ⟨st.bt, st.btAct⟩ (.idle n d)
      ({ st with bt := y.srv, btAct := y.act }, showResp r)
    | _, _ => (st, "bad-op")
  | ["bt", "trygc", n] =>
    match Bytes.ofHex n with
    | some n =>
      let y0 : Emu.Bt.Sys := ⟨st.bt, st.btAct⟩
      let (y, r) := Emu.Bt.xstep y0 (.tryGc n)
      -- the implementation cannot say whether its pass ran; the Model's answer does (for the evidence)
      let ran := (y0.srv.find n).isSome && (y0.activity n).quiet
      ({ st with bt := y.srv, btAct := y.act }, showResp r ++ (if showResp r == "ok" then (if ran then " ran" else " skipped") else ""))
    | none => (st, "bad-op")
  | ["bt", "gentoken", n] =>
    match Bytes.ofHex n with
    | some n =>
      let (_, r) := Emu.Bt.xstep ⟨st.bt, st.btAct⟩ (.genToken n)
      (st, showResp r ++ (if showResp r == "ok" then " " ++ Bytes.toHex (Emu.Bt.consistencyToken n) else ""))
    | none => (st, "bad-op")
  | ["bt", "checktoken", n, t] =>
    match Bytes.ofHex n, Bytes.ofHex t with
    | some n, some t => (st, showResp (Emu.Bt.xstep ⟨st.bt, st.btAct⟩ (.checkToken n t)).2)
    | _, _ => (st, "bad-op")
  | "bt" :: rest =>
    match (do let op ← pBtOp; atEnd; pure op : P Emu.Bt.Op).run rest with
    | some (op, _) =>
      let (y, r) := Emu.Bt.xstep ⟨st.bt, st.btAct⟩ (.base op)
      ({ st with bt := y.srv, btAct := y.act }, showResp r)
    | none => (st, "bad-op")
  | ["gcs", "plant", b, n, c] =>
    match Bytes.ofHex b, Bytes.ofHex n, Bytes.ofHex c with
    | some b, some n, some c => ({ st with gcs := plant st.gcs b n c }, "planted")
    | _, _, _ => (st, "bad-op")
  | "gcs" :: rest =>
    match (do let op ← pGcsOp st.gcs; atEnd; pure op : P Emu.Gcs.Op).run rest with
    | some (op, _) =>
      let (s', r) := Emu.Gcs.step st.gcs op
      ({ st with gcs := s' }, showGcsResp r)
    | none => (st, "bad-op")
  | "judge" :: rest => (st, handleJudge rest)
  | "scanw" :: rest =>
    let (bt', r) := handleScanW st.bt rest
    ({ st with bt := bt' }, r)
  | "conc" :: rest =>
    let (c', bt', gcs', r) := handleConc st.conc st.bt st.gcs rest
    ({ st with conc := c', bt := bt', gcs := gcs' }, r)
  | "lock" :: rest =>
    let (l', r) := handleLock st.lock rest
    ({ st with lock := l' }, r)
  | _ => (st, "bad-op")

partial def loop (h : IO.FS.Stream) (out : IO.FS.Stream) (st : St) : IO Unit := do
  let line ← h.getLine
  if line.isEmpty then return ()
  let line := String.ofList (line.toList.filter (fun c => c != '\n' && c != '\r'))
  let (st', resp) := handle st line
  out.putStrLn resp
  loop h out st'

def main : IO Unit := do
  let stdin ← IO.getStdin
  let stdout ← IO.getStdout
  loop stdin stdout {}
