/-
  Axiom audit: for every theorem whose name starts with `Emu.Props.`, print the axioms its proof
  depends on.  Run with `lake env lean tools/Audit.lean` after `lake build Emu`.
  Output lines:  THEOREM <name> AXIOMS <a1,a2,...>
-/
import Lean
import Emu

open Lean Elab Command

elab "#audit_props" : command => do
  let env ← getEnv
  let mut names : Array Name := #[]
  for (n, ci) in env.constants.toList do
    if (`Emu.Props).isPrefixOf n then
      match ci with
      | .thmInfo _ =>
        if !n.isInternal then names := names.push n
      | _ => pure ()
  let sorted := names.qsort (fun a b => a.toString < b.toString)
  for n in sorted do
    let axs ← collectAxioms n
    let axs := axs.qsort (fun a b => a.toString < b.toString)
    IO.println s!"THEOREM {n} AXIOMS {String.intercalate "," (axs.toList.map toString)}"

#audit_props
