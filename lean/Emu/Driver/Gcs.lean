/-
  Line protocol for the GCS Model.  Condition arguments arrive symbolically (`cur`, `other`, …) and
  are resolved against the Model's own state here, because real generations are timestamps.
-/
import Emu.Driver.Parse
import Emu.Gcs.Server

namespace Emu.Driver
open Emu.Gcs

inductive SymCond
  | unset | cur | other | zero | bad
deriving Inhabited

def pSymCond : P SymCond := do
  let t ← tok
  match t with
  | "u" => pure .unset
  | "cur" => pure .cur
  | "other" => pure .other
  | "zero" => pure .zero
  | "bad" => pure .bad
  | _ => fail

structure SymConds where
  gm : SymCond
  gnm : SymCond
  mm : SymCond
  mnm : SymCond
deriving Inhabited

def pSymConds : P SymConds := do
  let a ← pSymCond; let b ← pSymCond; let c ← pSymCond; let d ← pSymCond
  pure ⟨a, b, c, d⟩

def resolve1 (cur : Option Nat) : SymCond → CondArg
  | .unset => .unset
  | .bad => .bad
  | .zero => .num 0
  | .cur => .num ((cur.getD 7 : Nat) : Int)
  | .other => .num (((cur.getD 7 : Nat) : Int) + 1000003)

def resolve (o : Option Obj) (c : SymConds) : RawConds :=
  { gm := resolve1 (o.map (·.gen)) c.gm, gnm := resolve1 (o.map (·.gen)) c.gnm,
    mm := resolve1 (o.map (·.metagen)) c.mm, mnm := resolve1 (o.map (·.metagen)) c.mnm }

def pOptBytes : P (Option Bytes) := do
  let t ← tok
  match t with
  | "-" => pure none
  | "=" => do let b ← pBytes; pure (some b)
  | _ => fail

def pKV : P (Bytes × Bytes) := do let k ← pBytes; let v ← pBytes; pure (k, v)

def sortKV (l : List (Bytes × Bytes)) : List (Bytes × Bytes) :=
  sortBy (fun (a b : Bytes × Bytes) => decide (a.1 ≤ b.1)) l

def pMeta : P Meta := do
  let ct ← pBytes; let cc ← pBytes; let um ← pList pKV; let md5 ← pBytes
  pure { contentType := ct, cacheControl := cc, userMeta := sortKV um, md5 := md5 }

def pDeclared : P (Option (Bool × Bool)) := do
  let t ← tok
  match t with
  | "none" => pure none
  | "ok" => pure (some (true, true))
  | "wrong" => pure (some (true, false))
  | "garbage" => pure (some (false, false))
  | _ => fail

def pRange : P (Option ByteRange) := do
  let t ← tok
  match t with
  | "badrange" => pure none
  | "range" => do let lo ← pInt; let hi ← pInt; let sz ← pInt; pure (some ⟨lo, hi, sz⟩)
  | _ => fail

/-- Parse a `gcs …` line into an op, resolving symbolic conditions against the store. -/
def pGcsOp (s : Store) : P Op := do
  let t ← tok
  match t with
  | "mkbucket" => do let b ← pBytes; pure (.mkBucket b)
  | "getbucket" => do let b ← pBytes; pure (.getBucket b)
  | "upload" => do
    let b ← pBytes; let n ← pBytes; let c ← pBytes; let m ← pMeta; let d ← pDeclared
    let sc ← pSymConds
    pure (.upload b n c m d (resolve (s.obj? b n) sc))
  | "resinit" => do
    let b ← pBytes; let n ← pBytes; let m ← pMeta; let d ← pDeclared; let sc ← pSymConds
    pure (.resumeInit b n m d (resolve (s.obj? b n) sc))
  | "reschunk" => do
    let idx ← pNat; let r ← pRange; let body ← pBytes
    pure (.resumeChunk idx r body)
  | "getmeta" => do let b ← pBytes; let n ← pBytes; pure (.getMeta b n)
  | "getmedia" => do let b ← pBytes; let n ← pBytes; pure (.getMedia b n)
  | "patch" => do
    let b ← pBytes; let n ← pBytes; let sc ← pSymConds
    let ct ← pOptBytes; let cc ← pOptBytes; let um ← pList pKV
    let computed ← pBool; let malformed ← pBool
    pure (.patch b n (resolve (s.obj? b n) sc) ⟨ct, cc, um, computed, malformed⟩)
  | "delete" => do
    let b ← pBytes; let n ← pBytes; let sc ← pSymConds
    pure (.delete b n (resolve (if n.isEmpty then none else s.obj? b n) sc))
  | "compose" => do
    let b ← pBytes; let dst ← pBytes; let sc ← pSymConds
    let srcs ← pList (do
      let n ← pBytes; let c ← pSymCond
      let gm : Int := match resolve1 ((s.obj? b n).map (·.gen)) c with
        | .num k => k
        | _ => 0
      pure (ComposeSrc.mk n gm))
    let k ← tok
    let m ← match k with
      | "nometa" => pure none
      | "meta" => do let m ← pMeta; pure (some m)
      | _ => fail
    pure (.compose b dst (resolve (s.obj? b dst) sc) srcs m)
  | "copy" => do
    let b1 ← pBytes; let n1 ← pBytes; let b2 ← pBytes; let n2 ← pBytes
    pure (.copy b1 n1 b2 n2)
  | "listall" => do
    let b ← pBytes; let p ← pBytes; let d ← pBytes; let max ← pNat
    pure (.listAll b p d max)
  | "listbad" => do let b ← pBytes; pure (.listBad b)
  | "reopen" => pure .reopen
  | _ => fail

def showKV (l : List (Bytes × Bytes)) : String :=
  String.intercalate "," (l.map fun (k, v) => Bytes.toHex k ++ ":" ++ Bytes.toHex v)

def showObj (b : Bytes) (o : Obj) : String :=
  s!"b={Bytes.toHex b} name={Bytes.toHex o.name} size={o.content.length} md5={Bytes.toHex o.meta.md5} ct={Bytes.toHex o.meta.contentType} cc={Bytes.toHex o.meta.cacheControl} gen=#{o.gen} mg={o.metagen} um={showKV o.meta.userMeta} cmp={o.meta.componentCount}"

def showStatus : Status → String
  | .ok => "200"
  | .noContent => "204"
  | .resume => "308"
  | .badRequest => "400"
  | .notFound => "404"
  | .precondition => "412"
  | .notModified => "304"
  | .serverError => "500"

def showGcsResp : Resp → String
  | .status s => "status " ++ showStatus s
  | .condFail a b => "cond " ++ String.intercalate "|" ((if a then ["412"] else []) ++ (if b then ["304"] else []))
  | .object b o => "obj " ++ showObj b o
  | .media o => s!"media name={Bytes.toHex o.name} ct={Bytes.toHex o.meta.contentType} gen=#{o.gen} mg={o.metagen} data={Bytes.toHex o.content}"
  | .more k => s!"more {k}"
  | .pages b ps trunc =>
    s!"pages {ps.length}{if trunc then " TRUNCATED" else ""}" ++ String.join (ps.map fun (items, pfx) =>
      " | items " ++ String.intercalate " ; " (items.map (showObj b)) ++ " prefixes " ++
        String.intercalate "," (pfx.map Bytes.toHex))
  | .bucket b => "bucket " ++ Bytes.toHex b
  | .rewrite b o => s!"rewrite done size={o.content.length} " ++ showObj b o
  | .uploadId k => s!"uploadid {k}"

/-- `gcs plant <bucket> <name> <content>`: a content file put into the file store's directory by
    hand, without a sidecar (C09: such files are still served) — on the abstract store that is an
    object with a fresh generation, metageneration 0 and empty metadata (`Emu.Gcs.File.absObj`). -/
def plant (s : Store) (b n content : Bytes) : Store :=
  let g := s.clock + 1
  let os := (s.bucket? b).getD []
  { s.setBucket b (os.put ⟨n, content, g, 0, {}⟩) with clock := g }

end Emu.Driver
