/-
  Token parser for the line protocol (driver only; nothing here is used in a theorem).
  A line is a space-separated token list; byte strings are `x<hex>`, integers decimal, lists are a
  count followed by the elements.
-/
import Emu.Basic.Bytes

namespace Emu.Driver

abbrev P := StateT (List String) Option

def tok : P String := fun ts =>
  match ts with
  | [] => none
  | t :: rest => some (t, rest)

def fail {α} : P α := fun _ => none

def pBytes : P Bytes := do
  let t ← tok
  match Bytes.ofHex t with
  | some b => pure b
  | none => fail

def pInt : P Int := do
  let t ← tok
  match t.toInt? with
  | some i => pure i
  | none => fail

def pNat : P Nat := do
  let t ← tok
  match t.toNat? with
  | some i => pure i
  | none => fail

def pBool : P Bool := do
  let t ← tok
  match t with
  | "1" => pure true
  | "0" => pure false
  | _ => fail

def pRep {α} (p : P α) : Nat → P (List α)
  | 0 => pure []
  | n + 1 => do
    let x ← p
    let xs ← pRep p n
    pure (x :: xs)

def pList {α} (p : P α) : P (List α) := do
  let n ← pNat
  pRep p n

def atEnd : P Unit := fun ts =>
  match ts with
  | [] => some ((), [])
  | _ => none

def tokens (line : String) : List String :=
  (line.splitOn " ").filter (· ≠ "")

end Emu.Driver
