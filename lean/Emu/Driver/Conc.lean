/-
  Line protocol for the one-lock machine (`Emu.Conc`), used by tie T3 for C06 / C07 / C16.

    conc begin bt|gcs          a new system on the current Bigtable / GCS Model state, no goroutines yet
    conc op <bt … | gcs …>     declare the next goroutine's request (numbered 0, 1, … in order)
    conc step <i> <act>        one step of goroutine i: invoke | acquire | work | release | respond
                               ⇒ `ok` (`ok <response>` for work) | `disabled`
    conc end                   the shared state becomes the Model state again

  The machine is `Emu.Conc.step`, the one the linearizability theorems are about; `f i` is the
  sequential Model's `step` on goroutine i's request.
-/
import Emu.Driver.Bt
import Emu.Driver.Gcs
import Emu.Conc.Lin

namespace Emu.Driver
open Emu.Conc

structure ConcSt where
  which : String := ""
  btOps : Array Emu.Bt.Op := #[]
  gcsOps : Array Emu.Gcs.Op := #[]
  btSys : Sys Emu.Bt.Server String := { st := {}, ths := [] }
  gcsSys : Sys Emu.Gcs.Store String := { st := {}, ths := [] }

def btF (ops : Array Emu.Bt.Op) (i : Nat) (s : Emu.Bt.Server) : Emu.Bt.Server × String :=
  match ops[i]? with
  | some op => let r := Emu.Bt.step s op; (r.1, showResp r.2)
  | none => (s, "?")

def gcsF (ops : Array Emu.Gcs.Op) (i : Nat) (s : Emu.Gcs.Store) : Emu.Gcs.Store × String :=
  match ops[i]? with
  | some op => let r := Emu.Gcs.step s op; (r.1, showGcsResp r.2)
  | none => (s, "?")

def pAct : String → Option Act
  | "invoke" => some .invoke
  | "acquire" => some .acquire
  | "work" => some .work
  | "release" => some .release
  | "respond" => some .respond
  | _ => none

def showStep {σ : Type} (s' : Option (Sys σ String)) (i : Nat) (a : Act) : String :=
  match s' with
  | none => "disabled"
  | some s =>
    match a, s.ths[i]? with
    | .work, some th => "ok " ++ (th.res.getD "?")
    | _, _ => "ok"

/-- returns the new driver-side state, the (possibly updated) Model states and the response -/
def handleConc (c : ConcSt) (bt : Emu.Bt.Server) (gcs : Emu.Gcs.Store) (rest : List String) :
    ConcSt × Emu.Bt.Server × Emu.Gcs.Store × String :=
  match rest with
  | ["begin", "bt"] => ({ which := "bt", btSys := { st := bt, ths := [] } }, bt, gcs, "ok")
  | ["begin", "gcs"] => ({ which := "gcs", gcsSys := { st := gcs, ths := [] } }, bt, gcs, "ok")
  | "op" :: "bt" :: r =>
    match (do let op ← pBtOp; atEnd; pure op : P Emu.Bt.Op).run r with
    | some (op, _) =>
      ({ c with btOps := c.btOps.push op, btSys := { c.btSys with ths := c.btSys.ths ++ [{}] } }, bt, gcs, "ok")
    | none => (c, bt, gcs, "bad-op")
  | "op" :: "gcs" :: r =>
    match (do let op ← pGcsOp c.gcsSys.st; atEnd; pure op : P Emu.Gcs.Op).run r with
    | some (op, _) =>
      ({ c with gcsOps := c.gcsOps.push op, gcsSys := { c.gcsSys with ths := c.gcsSys.ths ++ [{}] } }, bt, gcs, "ok")
    | none => (c, bt, gcs, "bad-op")
  | ["step", i, a] =>
    match i.toNat?, pAct a with
    | some i, some a =>
      if c.which == "bt" then
        let s' := step (btF c.btOps) c.btSys i a
        ({ c with btSys := s'.getD c.btSys }, bt, gcs, showStep s' i a)
      else
        let s' := step (gcsF c.gcsOps) c.gcsSys i a
        ({ c with gcsSys := s'.getD c.gcsSys }, bt, gcs, showStep s' i a)
    | _, _ => (c, bt, gcs, "bad-op")
  | ["end"] =>
    if c.which == "bt" then ({}, c.btSys.st, gcs, "ok") else ({}, bt, c.gcsSys.st, "ok")
  | _ => (c, bt, gcs, "bad-op")

end Emu.Driver
