/-
  Line protocol for the scan machine (`Emu.Bt.Scan`), tie T3 for C18.

    scanw <table> <keys…> <ranges…> <flushes…>
      flushes = list of (n, writes): after the scan has visited n rows (i.e. while the message that
      ends with the n-th row is being streamed and the table lock is released) the listed requests
      are executed; the answer is the rows the scan streams.

  The driver steps `Emu.Bt.Scan.step` — the machine the C18 theorems are about — and applies the
  writes with the sequential Model's `Emu.Bt.step`.
-/
import Emu.Driver.Bt
import Emu.Bt.Scan

namespace Emu.Driver
open Emu.Bt

structure ScanReq where
  name : Bytes
  keys : List Bytes
  ranges : List RowRange
  flushes : List (Nat × List Op)

def pScanW : P ScanReq := do
  let n ← pBytes
  let keys ← pList pBytes
  let ranges ← pList (do let s ← pBound; let e ← pBound; pure (RowRange.mk s e))
  let flushes ← pList (do let k ← pNat; let ws ← pList pBtOp; pure (k, ws))
  pure ⟨n, keys, ranges, flushes⟩

def tableRows (srv : Server) (name : Bytes) : Rows :=
  match srv.find name with
  | some t => t.rows
  | none => []

/-- run the machine to the end, letting the writes in at their flush points -/
def scanLoop (name : Bytes) : Nat → Server → Scan.St → List (Nat × List Op) → Server × Scan.St
  | 0, srv, st, _ => (srv, st)
  | fuel + 1, srv, st, flushes =>
    match flushes with
    | (n, ws) :: rest =>
      if st.visited.length == n && n > 0 then
        let srv' := (Emu.Bt.run srv ws).1
        match Scan.step st (.write (tableRows srv' name)) with
        | some st' => scanLoop name fuel srv' st' rest
        | none => (srv', st)
      else advance name fuel srv st flushes
    | [] => advance name fuel srv st flushes
where
  advance (name : Bytes) (fuel : Nat) (srv : Server) (st : Scan.St) (flushes : List (Nat × List Op)) : Server × Scan.St :=
    let act : Option Scan.Act :=
      match st.snap, st.todo with
      | none, [] => none
      | none, _ :: _ => some .openRange
      | some [], _ => some .closeRange
      | some (_ :: _), _ => some .row
    match act with
    | none => (srv, st)
    | some a =>
      match Scan.step st a with
      | some st' => scanLoop name fuel srv st' flushes
      | none => (srv, st)

def handleScanW (srv : Server) (rest : List String) : Server × String :=
  match (do let r ← pScanW; atEnd; pure r : P ScanReq).run rest with
  | none => (srv, "bad-op")
  | some (req, _) =>
    match srv.find req.name with
    | none => (srv, "err notfound")
    | some t =>
      if !validRowRanges req.ranges then (srv, "err invalid") else
      let srs := scanRanges req.keys req.ranges
      let fuel := 4 * (t.rows.length + 10) * (srs.length + 2) + 1000000
      let (srv', st) := scanLoop req.name fuel srv (Scan.init t.rows srs) req.flushes
      let out := st.visited.filterMap (emitRow t.schema srv.rnd .absent)
      (srv', showResp (.rows out))

end Emu.Driver
