/-
  Line protocol for the Bigtable Model: parse an op, print a canonical response.
-/
import Emu.Driver.Parse
import Emu.Bt.Server
import Emu.Gcs.Token

namespace Emu.Driver
open Emu.Bt

partial def pRegex : P Regex := do
  let t ← tok
  match t with
  | "eps" => pure .empty
  | "never" => pure .never
  | "b" => do let n ← pNat; pure (.byte n)
  | "any" => pure .anyByte
  | "dot" => pure .dot
  | "cls" => do
    let neg ← pBool
    let rs ← pList (do let lo ← pNat; let hi ← pNat; pure (lo, hi))
    pure (.cls neg rs)
  | "cat" => do let a ← pRegex; let b ← pRegex; pure (.cat a b)
  | "alt" => do let a ← pRegex; let b ← pRegex; pure (.alt a b)
  | "star" => do let a ← pRegex; pure (.star a)
  | _ => fail

def pRx : P (Option Regex) := do
  let t ← tok
  match t with
  | "bad" => pure none
  | "re" => do let r ← pRegex; pure (some r)
  | _ => fail

def pBound : P Bound := do
  let t ← tok
  match t with
  | "u" => pure .unset
  | "o" => do let b ← pBytes; pure (.opened b)
  | "c" => do let b ← pBytes; pure (.closed b)
  | _ => fail

partial def pFilter : P Filter := do
  let t ← tok
  match t with
  | "nil" => pure .absent
  | "pass" => do let b ← pBool; pure (.passAll b)
  | "block" => do let b ← pBool; pure (.blockAll b)
  | "chain" => do let fs ← pList pFilter; pure (.chain fs)
  | "inter" => do let fs ← pList pFilter; pure (.interleave fs)
  | "cond" => do let p ← pFilter; let a ← pFilter; let b ← pFilter; pure (.condition p a b)
  | "rowre" => do let r ← pRx; pure (.rowKeyRegex r)
  | "famre" => do let r ← pRx; pure (.familyRegex r)
  | "qualre" => do let r ← pRx; pure (.qualRegex r)
  | "valre" => do let r ← pRx; pure (.valueRegex r)
  | "colrange" => do let f ← pBytes; let s ← pBound; let e ← pBound; pure (.columnRange f s e)
  | "valrange" => do let s ← pBound; let e ← pBound; pure (.valueRange s e)
  | "ts" => do let s ← pInt; let e ← pInt; pure (.tsRange s e)
  | "rowlim" => do let n ← pInt; pure (.rowLimit n)
  | "rowoff" => do let n ← pInt; pure (.rowOffset n)
  | "collim" => do let n ← pInt; pure (.colLimit n)
  | "strip" => pure .stripValue
  | "label" => do let l ← pBytes; pure (.applyLabel l)
  | "sample" => do let p ← pInt; pure (.sample p)
  | "other" => pure .other
  | _ => fail

partial def pRule : P (Option GcRule) := do
  let t ← tok
  match t with
  | "none" => pure none
  | "v" => do let n ← pInt; pure (some (.maxVersions n))
  | "a" => do let s ← pInt; let n ← pInt; pure (some (.maxAge s n))
  | "o" => pure (some .other)
  | "u" => do
    let rs ← pList pRule
    pure (some (.union (rs.map fun r => r.getD .other)))
  | _ => fail

def pMutation : P Mutation := do
  let t ← tok
  match t with
  | "set" => do
    let f ← pBytes; let q ← pBytes; let ts ← pInt; let v ← pBytes
    pure (.setCell f q ts v)
  | "delcol" => do
    let f ← pBytes; let q ← pBytes
    let k ← tok
    match k with
    | "all" => pure (.deleteFromColumn f q false 0 0)
    | "range" => do let s ← pInt; let e ← pInt; pure (.deleteFromColumn f q true s e)
    | _ => fail
  | "delfam" => do let f ← pBytes; pure (.deleteFromFamily f)
  | "delrow" => pure .deleteFromRow
  | "unknown" => pure .unknown
  | _ => fail

def pRmwRule : P RmwRule := do
  let t ← tok
  match t with
  | "app" => do let f ← pBytes; let q ← pBytes; let v ← pBytes; pure (.append f q v)
  | "inc" => do let f ← pBytes; let q ← pBytes; let a ← pInt; pure (.increment f q a)
  | "unk" => do let f ← pBytes; let q ← pBytes; pure (.unknown f q)
  | _ => fail

def pFamMod : P FamMod := do
  let t ← tok
  match t with
  | "create" => do let id ← pBytes; let r ← pRule; pure (.create id r)
  | "update" => do let id ← pBytes; let r ← pRule; pure (.update id r)
  | "drop" => do let id ← pBytes; pure (.drop id)
  | "noop" => do let id ← pBytes; pure (.noop id)
  | _ => fail

def pBtOp : P Op := do
  let t ← tok
  match t with
  | "clock" => do let n ← pInt; pure (.clock n)
  | "rand" => do let n ← pInt; pure (.rand n)
  | "create" => do
    let parent ← pBytes; let id ← pBytes
    let fams ← pList (do let f ← pBytes; let r ← pRule; pure (f, r))
    pure (.create parent id fams)
  | "delete" => do let n ← pBytes; pure (.delete n)
  | "list" => do let n ← pBytes; pure (.list n)
  | "get" => do let n ← pBytes; pure (.get n)
  | "modify" => do let n ← pBytes; let ms ← pList pFamMod; pure (.modify n ms)
  | "droprange" => do
    let n ← pBytes
    let k ← tok
    match k with
    | "all" => pure (.dropRange n .all)
    | "pfx" => do let p ← pBytes; pure (.dropRange n (.pfx p))
    | "unset" => pure (.dropRange n .unset)
    | _ => fail
  | "mutate" => do let n ← pBytes; let k ← pBytes; let ms ← pList pMutation; pure (.mutate n k ms)
  | "mutaterows" => do
    let n ← pBytes
    let es ← pList (do let k ← pBytes; let ms ← pList pMutation; pure (k, ms))
    pure (.mutateRows n es)
  | "cam" => do
    let n ← pBytes; let k ← pBytes; let f ← pFilter
    let tm ← pList pMutation; let fm ← pList pMutation
    pure (.cam n k f tm fm)
  | "rmw" => do let n ← pBytes; let k ← pBytes; let rs ← pList pRmwRule; pure (.rmw n k rs)
  | "read" => do
    let n ← pBytes
    let keys ← pList pBytes
    let ranges ← pList (do let s ← pBound; let e ← pBound; pure (RowRange.mk s e))
    let limit ← pInt
    let f ← pFilter
    pure (.read n keys ranges limit f)
  | "readf" => do
    let n ← pBytes
    let failAt ← pNat
    let keys ← pList pBytes
    let ranges ← pList (do let s ← pBound; let e ← pBound; pure (RowRange.mk s e))
    let limit ← pInt
    let f ← pFilter
    pure (.readFail n failAt keys ranges limit f)
  | "keys" => do let n ← pBytes; pure (.keys n)
  | "gc" => do let n ← pBytes; pure (.gc n)
  | "gcw" => do
    let n ← pBytes
    let es ← pList (do let k ← pBytes; let ms ← pList pMutation; pure (k, ms))
    pure (.gcw n es)
  | _ => fail

/-! ### Canonical printing -/

def showLabels (ls : List Bytes) : String :=
  String.intercalate "," (ls.map Bytes.toHex)

def cellLe (a b : Cell) : Bool :=
  if a.ts != b.ts then decide (a.ts ≥ b.ts)
  else if a.value != b.value then decide (a.value ≤ b.value)
  else decide (a.labels.map Bytes.toHex ≤ b.labels.map Bytes.toHex)

/-- Families sorted by name; cells with equal timestamps sorted by (value, labels). -/
def showRow (r : Row) : String :=
  let fams := sortBy (fun a b => decide (a.name ≤ b.name)) r.fams
  let cells := fams.flatMap fun f => f.cols.flatMap fun c =>
    (sortBy cellLe c.cells).map fun cell =>
      s!" {Bytes.toHex f.name}/{Bytes.toHex c.qual}@{cell.ts}={Bytes.toHex cell.value}#{showLabels cell.labels}"
  Bytes.toHex r.key ++ String.join cells

partial def showRule : Option GcRule → String
  | none => "none"
  | some (.maxVersions n) => s!"v{n}"
  | some (.maxAge s n) => s!"a{s}.{n}"
  | some .other => "o"
  | some (.union rs) => "u(" ++ String.intercalate "," (rs.map fun r => showRule (some r)) ++ ")"

def showSchema (s : Schema) : String :=
  let fams := sortBy (fun (a b : Bytes × Option GcRule) => decide (a.1 ≤ b.1)) s
  String.intercalate " " (fams.map fun (n, r) => Bytes.toHex n ++ "=" ++ showRule r)

def showCode : Code → String
  | .notFound => "notfound"
  | .invalidArgument => "invalid"
  | .alreadyExists => "exists"
  | .other => "other"

def showResp : Resp → String
  | .ok => "ok"
  | .err c => "err " ++ showCode c
  | .rows rs => s!"rows {rs.length}" ++ String.join (rs.map fun r => " | " ++ showRow r)
  | .names ns =>
    let ns := sortBy (fun (a b : Bytes) => decide (a ≤ b)) ns
    s!"names {ns.length}" ++ String.join (ns.map fun n => " " ++ Bytes.toHex n)
  | .schema s => "schema " ++ showSchema s
  | .statuses sts => "st" ++ String.join (sts.map fun b => if b then " 1" else " 0")
  | .matched b => if b then "matched 1" else "matched 0"
  | .row r => "row " ++ showRow r
  | .keyList ks => s!"keys {ks.length}" ++ String.join (ks.map fun (k, n) => s!" {Bytes.toHex k}:{n}")

/-! ### Pure judges (no Model state): the decoder and the `SampleRowKeys` relation

    judge decode <m> (<n> (<key|-> <fam|-> <qual|-> <ts> <value> <labels…> <c|r|->)*n)*m
    judge sample <n> (<key> <size>)*n <k> (<key> <offset>)*k
-/

def pDashBytes : P (Option Bytes) := do
  let t ← tok
  if t == "-" then pure none else
  match Bytes.ofHex t with
  | some b => pure (some b)
  | none => fail

/-- a chunk and whether it carries `reset_row` -/
def pChunk : P (Chunk × Bool) := do
  let k ← pDashBytes
  let f ← pDashBytes
  let q ← pDashBytes
  let ts ← pInt
  let v ← pBytes
  let ls ← pList pBytes
  let fl ← tok
  match fl with
  | "c" => pure (⟨k, f, q, ts, v, ls, true⟩, false)
  | "r" => pure (⟨k, f, q, ts, v, ls, false⟩, true)
  | "-" => pure (⟨k, f, q, ts, v, ls, false⟩, false)
  | _ => fail

def showDRow (r : DRow) : String :=
  Bytes.toHex r.1 ++ String.join (r.2.map fun (f, q, c) =>
    s!" {Bytes.toHex f}/{Bytes.toHex q}@{c.ts}={Bytes.toHex c.value}#{showLabels c.labels}")

def judgeDecode (msgs : List (List (Chunk × Bool))) : String :=
  if msgs.any (·.isEmpty) then "malformed"
  else if msgs.any (·.any (·.2)) then "malformed"
  else match decode (msgs.flatMap (·.map (·.1))) with
    | none => "malformed"
    | some rows => s!"decoded {rows.length}" ++ String.join (rows.map fun r => " | " ++ showDRow r)

def handleJudge (rest : List String) : String :=
  match rest with
  | "decode" :: r =>
    match (do let ms ← pList (pList pChunk); atEnd; pure ms : P _).run r with
    | some (ms, _) => judgeDecode ms
    | none => "bad-op"
  | "sample" :: r =>
    match (do
        let rows ← pList (do let k ← pBytes; let n ← pNat; pure (k, n))
        let out ← pList (do let k ← pBytes; let n ← pNat; pure (k, n))
        atEnd
        pure (rows, out) : P _).run r with
    | some ((rows, out), _) =>
      -- a row of the given size: one cell whose value has that length
      let mk : Bytes × Nat → Row := fun (k, n) => ⟨k, [⟨[], [⟨[], [⟨0, List.replicate n 0, []⟩]⟩]⟩]⟩
      if sampleExplained (rows.map mk) out then "explained" else "unexplained"
    | none => "bad-op"
  | ["token", n] =>
    -- the page token of a name (wire form, before base64) and what decoding it gives back
    match Bytes.ofHex n with
    | some name =>
      let t := Emu.Gcs.Token.encode name
      match Emu.Gcs.Token.decode t with
      | some back => s!"token {Bytes.toHex t} back {Bytes.toHex back}"
      | none => s!"token {Bytes.toHex t} back malformed"
    | none => "bad-op"
  | ["untoken", b] =>
    match Bytes.ofHex b with
    | some bytes =>
      match Emu.Gcs.Token.decode bytes with
      | some name => s!"name {Bytes.toHex name}"
      | none => "other"
    | none => "bad-op"
  | _ => "bad-op"

end Emu.Driver
