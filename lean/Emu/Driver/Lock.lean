/-
  Line protocol for the lock-map machine (`Emu.Lock.Model`), used by tie T3 for C19.

    lock init <n> <K>            n idle goroutines, keys 0..K-1 are observed
    lock step <t> <action…>      one step of goroutine t  ⇒  `ok pc=<pc> ent=<…>` | `disabled`
    lock explore <n> <K> <r>     reachable graph of n goroutines × K keys × r rounds each (a round =
                                 one Lock or one stray Unlock), cancellation included; answers with
                                 schedules that together take every transition of that graph

  Nothing here is used in a theorem; the machine itself (`step`) is the one the theorems are about.
-/
import Emu.Driver.Parse
import Emu.Lock.Model
import Std.Data.HashMap

namespace Emu.Driver
open Emu.Lock

def pAction : P Action := do
  let t ← tok
  match t with
  | "enter" => do let k ← pNat; pure (.enter k)
  | "acquire" => pure .acquire
  | "giveUp" => pure .giveUp
  | "backOut" => pure .backOut
  | "find" => pure .find
  | "release" => pure .release
  | "leave" => pure .leave
  | "cancel" => pure .cancel
  | "again" => pure .again
  | "strayUnlock" => do let k ← pNat; pure (.strayUnlock k)
  | _ => fail

def showAction : Action → String
  | .enter k => s!"enter:{k}"
  | .acquire => "acquire"
  | .giveUp => "giveUp"
  | .backOut => "backOut"
  | .find => "find"
  | .release => "release"
  | .leave => "leave"
  | .cancel => "cancel"
  | .again => "again"
  | .strayUnlock k => s!"strayUnlock:{k}"

def showPC : PC → String
  | .idle => "idle"
  | .wait k => s!"wait:{k}"
  | .holding k => s!"holding:{k}"
  | .givingUp k => s!"givingUp:{k}"
  | .failed => "failed"
  | .found k => s!"found:{k}"
  | .released k => s!"released:{k}"
  | .panicked => "panicked"

def showEnt (K : Nat) (s : St) : String :=
  ",".intercalate ((List.range K).map fun k =>
    match s.ent k with
    | none => s!"{k}=-"
    | some e => s!"{k}={e.refcount}/{if e.full then 1 else 0}")

def lockObs (K : Nat) (s : St) (t : Nat) : String :=
  let pc := match s.threads[t]? with
    | some th => showPC th.pc
    | none => "?"
  s!"pc={pc} ent={showEnt K s}"

structure LockSt where
  s : St := {}
  K : Nat := 0

/-! ### Explorer -/

structure XState where
  s : St := {}
  used : List Nat := []
deriving Inhabited

def encPC : PC → Nat
  | .idle => 0
  | .failed => 1
  | .panicked => 2
  | .wait k => 3 + 5 * k
  | .holding k => 4 + 5 * k
  | .givingUp k => 5 + 5 * k
  | .found k => 6 + 5 * k
  | .released k => 7 + 5 * k

def xkey (K : Nat) (x : XState) : List Nat :=
  x.s.threads.flatMap (fun th => [encPC th.pc, if th.cancelled then 1 else 0])
  ++ (List.range K).flatMap (fun k =>
        match x.s.ent k with
        | none => [0, 0]
        | some e => [e.refcount + 1, if e.full then 1 else 0])
  ++ x.used

def candidates (K rounds : Nat) (th : Thread) (used : Nat) : List Action :=
  match th.pc with
  | .idle =>
    if used < rounds then
      (List.range K).flatMap (fun k => [Action.enter k, Action.strayUnlock k])
        ++ (if th.cancelled then [] else [Action.cancel])
    else []
  | .wait _ => [.acquire, .giveUp] ++ (if th.cancelled then [] else [.cancel])
  | .holding _ => [.find]
  | .givingUp _ => [.backOut]
  | .failed => [.again]
  | .found _ => [.release]
  | .released _ => [.leave]
  | .panicked => []

def xstep (x : XState) (t : Nat) (a : Action) : Option XState :=
  match step x.s t a with
  | none => none
  | some s' =>
    let used := match a with
      | .enter _ | .strayUnlock _ => x.used.set t (x.used.getD t 0 + 1)
      | _ => x.used
    some { s := s', used := used }

structure Trans where
  src : Nat
  t : Nat
  a : Action
  dst : Nat
deriving Inhabited

structure Graph where
  states : Array XState := #[]
  parent : Array (Option Nat) := #[]      -- index of the transition that discovered the state
  trans : Array Trans := #[]
  out : Array (Array Nat) := #[]          -- per state: indices into `trans`
  ids : Std.HashMap (List Nat) Nat := {}

partial def bfs (n K rounds : Nat) : Graph := Id.run do
  let x0 : XState := { s := init n, used := List.replicate n 0 }
  let mut g : Graph := { states := #[x0], parent := #[none], out := #[#[]], ids := ({} : Std.HashMap (List Nat) Nat).insert (xkey K x0) 0 }
  let mut i := 0
  while i < g.states.size do
    let x := g.states[i]!
    for t in List.range n do
      let th := x.s.threads.getD t {}
      for a in candidates K rounds th (x.used.getD t 0) do
        match xstep x t a with
        | none => pure ()
        | some x' =>
          let key := xkey K x'
          let ti := g.trans.size
          match g.ids[key]? with
          | some j =>
            g := { g with trans := g.trans.push ⟨i, t, a, j⟩, out := g.out.modify i (·.push ti) }
          | none =>
            let j := g.states.size
            g := { g with states := g.states.push x', parent := g.parent.push (some ti), out := (g.out.push #[]).modify i (·.push ti),
                          trans := g.trans.push ⟨i, t, a, j⟩, ids := g.ids.insert key j }
    i := i + 1
  return g

partial def pathTo (g : Graph) (sid : Nat) (acc : List Nat) : List Nat :=
  match g.parent[sid]! with
  | none => acc
  | some ti => pathTo g (g.trans[ti]!).src (ti :: acc)

/-- schedules (lists of transition indices) that together take every transition -/
partial def cover (g : Graph) : Array (List Nat) := Id.run do
  let mut covered : Array Bool := Array.replicate g.trans.size false
  let mut scheds : Array (List Nat) := #[]
  for i in List.range g.trans.size do
    if !covered[i]! then
      let mut sched := (pathTo g (g.trans[i]!).src []) ++ [i]
      for j in sched do covered := covered.set! j true
      let mut cur := (g.trans[i]!).dst
      let mut go := true
      let mut fuel := 400
      while go && fuel > 0 do
        fuel := fuel - 1
        match (g.out[cur]!).find? (fun j => !covered[j]!) with
        | some j =>
          covered := covered.set! j true
          sched := sched ++ [j]
          cur := (g.trans[j]!).dst
        | none => go := false
      scheds := scheds.push sched
  return scheds

def showSched (g : Graph) (l : List Nat) : String :=
  ",".intercalate (l.map fun ti => let tr := g.trans[ti]!; s!"{tr.t}:{showAction tr.a}")

def explore (n K rounds : Nat) : String :=
  let g := bfs n K rounds
  let sc := cover g
  s!"states={g.states.size} transitions={g.trans.size} schedules={sc.size} " ++ ";".intercalate (sc.toList.map (showSched g))

def handleLock (st : LockSt) (rest : List String) : LockSt × String :=
  match rest with
  | ["init", n, k] =>
    match n.toNat?, k.toNat? with
    | some n, some k => ({ s := init n, K := k }, "ok")
    | _, _ => (st, "bad-op")
  | ["explore", n, k, r] =>
    match n.toNat?, k.toNat?, r.toNat? with
    | some n, some k, some r => (st, explore n k r)
    | _, _, _ => (st, "bad-op")
  | "step" :: t :: act =>
    match t.toNat?, (do let a ← pAction; atEnd; pure a : P Action).run act with
    | some t, some (a, _) =>
      match step st.s t a with
      | none => (st, "disabled")
      | some s' => ({ st with s := s' }, "ok " ++ lockObs st.K s' t)
    | _, _ => (st, "bad-op")
  | _ => (st, "bad-op")

end Emu.Driver
