/-
  The on-disk Bigtable storage (`LeveldbDiskStorage`) as a machine of atomic disk steps (C08).

  Per table the disk holds: the definition file `<name>.table.proto`, possibly a temporary
  `<name>.table.proto.tmp` (written, then renamed over the definition), and the leveldb directory
  `<name>/`.  A restart reads every `*.table.proto` (never a `.tmp`) and opens — creating it if
  absent — the leveldb directory of each.  Every function of the storage layer is a list of the
  steps below; a crash can fall between any two of them.

  Trusted (not modelled): `rename(2)` and `unlink(2)` are atomic; a goleveldb write batch (one row
  put/delete) is atomic and survives the death of the process; goleveldb recovers its journal;
  removing the leveldb directory is treated as one step (a partly removed directory has no
  definition pointing at it in any plan below — see `planCreate`).
-/
import Emu.Bt.Server

namespace Emu.Bt.Disk
open Emu Emu.Bt

structure TDisk where
  /-- contents of `<name>.table.proto` -/
  defn : Option Schema := none
  /-- contents of `<name>.table.proto.tmp` -/
  tmp : Option Schema := none
  /-- the leveldb directory: `none` = absent -/
  db : Option Rows := none
deriving Inhabited

/-- the disk: one entry per table name -/
abbrev Disk := Bytes → TDisk

inductive DStep
  | writeTmp (n : Bytes) (sch : Schema)
  | rename (n : Bytes)
  | removeDb (n : Bytes)
  | openDb (n : Bytes)
  /-- one atomic leveldb write: the stored rows become `rows` -/
  | setRows (n : Bytes) (rows : Rows)
  | removeDef (n : Bytes)

def upd (d : Disk) (n : Bytes) (t : TDisk) : Disk := fun m => if m = n then t else d m

def apply (d : Disk) : DStep → Disk
  | .writeTmp n sch => upd d n { d n with tmp := some sch }
  | .rename n =>
    match (d n).tmp with
    | some sch => upd d n { d n with defn := some sch, tmp := none }
    | none => d
  | .removeDb n => upd d n { d n with db := none }
  | .openDb n => upd d n { d n with db := some ((d n).db.getD []) }
  | .setRows n rows => upd d n { d n with db := some rows }
  | .removeDef n => upd d n { d n with defn := none }

def applyAll (d : Disk) (l : List DStep) : Disk := l.foldl apply d

/-- What a service started on this disk serves for table `n` (`GetTables` + `Open`). -/
def view (d : Disk) (n : Bytes) : Option Table :=
  (d n).defn.map fun sch => ⟨sch, (d n).db.getD []⟩

/-! ### the storage layer's functions as step lists (in the order of the code) -/

/-- `LeveldbDiskStorage.Create`: clear leftovers, write the definition (temp + rename), then a
    fresh database. -/
def planCreate (n : Bytes) (sch : Schema) : List DStep :=
  [.removeDb n, .writeTmp n sch, .rename n, .removeDb n, .openDb n]

/-- the order before the repair: the definition became visible before leftovers were cleared -/
def planCreateOld (n : Bytes) (sch : Schema) : List DStep :=
  [.writeTmp n sch, .rename n, .removeDb n, .openDb n]

/-- `DeleteTable` on disk storage -/
def planDelete (n : Bytes) : List DStep := [.removeDef n]

/-- `SetTableMeta` -/
def planSetMeta (n : Bytes) (sch : Schema) : List DStep := [.writeTmp n sch, .rename n]

/-- `leveldbRows.Clear` (DropRowRange of the whole table): close, remove, reopen -/
def planClear (n : Bytes) : List DStep := [.removeDb n, .openDb n]

/-- a family drop: definition first, then the purge (one write per changed row; `mid` are the
    intermediate row states, `purged` the final one) -/
def planDropFamilies (n : Bytes) (sch' : Schema) (mid : List Rows) (purged : Rows) : List DStep :=
  planSetMeta n sch' ++ (mid.map (.setRows n)) ++ [.setRows n purged]

end Emu.Bt.Disk
