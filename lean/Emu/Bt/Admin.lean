/-
  Bigtable emulator Model — table registry, `ModifyColumnFamilies`, `DropRowRange`, garbage
  collection (`applyGC`, one sequential pass of `table.gc`).
-/
import Emu.Bt.Read
import Emu.Bt.Mutate

namespace Emu.Bt

structure Table where
  schema : Schema
  rows : Rows
deriving Inhabited

/-- `ModifyColumnFamiliesRequest_Modification` -/
inductive FamMod
  | create (id : Bytes) (rule : Option GcRule)
  | update (id : Bytes) (rule : Option GcRule)
  | drop (id : Bytes)
  /-- no oneof set (or `drop = false`): ignored by the emulator -/
  | noop (id : Bytes)
deriving Inhabited

inductive ModErr
  | alreadyExists
  | other
deriving DecidableEq, Repr

def Schema.erase (s : Schema) (id : Bytes) : Schema := s.filter (·.1 != id)
def Schema.set (s : Schema) (id : Bytes) (r : Option GcRule) : Schema :=
  if s.has id then s.map (fun e => if e.1 == id then (id, r) else e) else s ++ [(id, r)]

/-- Effect of one modification on the family map (`none` = rejected). -/
def applyModSchema (s : Schema) : FamMod → Except ModErr Schema
  | .create id rule => if s.has id then .error .alreadyExists else .ok (s.set id rule)
  | .drop id => if !s.has id then .error .other else .ok (s.erase id)
  | .update id rule => if !s.has id then .error .other else .ok (s.set id rule)
  | .noop _ => .ok s

/-- The validation pre-pass: all modifications applied to the family map only. -/
def applyModsSchema (s : Schema) : List FamMod → Except ModErr Schema
  | [] => .ok s
  | m :: ms =>
    match applyModSchema s m with
    | .error e => .error e
    | .ok s' => applyModsSchema s' ms

/-- Purge after a family drop: re-scrub every row, delete rows left without cells. -/
def purgeRows (s : Schema) (rows : Rows) : Rows :=
  rows.filterMap fun r =>
    let r' := scrubRow s r
    if r'.fams.isEmpty then none else some r'

/-- The apply pass (cannot fail once validated): a drop purges with the schema of that moment. -/
def applyMods : Table → List FamMod → Table
  | t, [] => t
  | t, m :: ms =>
    match applyModSchema t.schema m with
    | .error _ => applyMods t ms
    | .ok s' =>
      match m with
      | .drop _ => applyMods ⟨s', purgeRows s' t.rows⟩ ms
      | _ => applyMods ⟨s', t.rows⟩ ms

/-- `ModifyColumnFamilies`: all modifications or none. -/
def modifyColumnFamilies (t : Table) (mods : List FamMod) : Except ModErr Table :=
  match applyModsSchema t.schema mods with
  | .error e => .error e
  | .ok _ => .ok (applyMods t mods)

inductive DropTarget
  | all
  | pfx (p : Bytes)
  | unset
deriving DecidableEq, Repr, Inhabited

/-- The keys `DropRowRange` collects: it iterates from the prefix upwards
    (`AscendGreaterOrEqual(prefix)`) and stops at the first key that does not start with it. -/
def rowsToDelete (p : Bytes) (rows : Rows) : List Bytes :=
  ((rows.filter (fun r => decide (p ≤ r.key))).takeWhile (fun r => Bytes.hasPrefix r.key p)).map (·.key)

/-- … and then deletes them one by one. -/
def dropPrefixScan (p : Bytes) (rows : Rows) : Rows :=
  (rowsToDelete p rows).foldl Rows.delete rows

def dropRowRange (t : Table) : DropTarget → Option Table
  | .all => some { t with rows := [] }
  | .pfx p => some { t with rows := dropPrefixScan p t.rows }
  | .unset => none

/-! ### Garbage collection -/

-- `applyGC` on one column's cells (descending timestamps); `now` in microseconds.
mutual
def applyGC (now : Int) : GcRule → List Cell → List Cell
  | .maxVersions n, cs => if n ≥ 0 then cs.take n.toNat else cs
  | .maxAge sec nanos, cs =>
    let cutoff := now - sec * 1000000 - Int.tdiv nanos 1000
    cs.takeWhile fun c => decide (c.ts ≥ cutoff)
  | .union rs, cs => applyGCs now rs cs
  | .other, cs => cs
def applyGCs (now : Int) : List GcRule → List Cell → List Cell
  | [], cs => cs
  | r :: rs, cs => applyGCs now rs (applyGC now r cs)
end

def gcFamily (now : Int) (s : Schema) (f : Family) : Family :=
  match s.rule? f.name with
  | none => f
  | some rule => { f with cols := f.cols.map fun c => { c with cells := applyGC now rule c.cells } }

def gcRow (now : Int) (s : Schema) (r : Row) : Row :=
  { r with fams := r.fams.map (gcFamily now s) }

/-- One uninterrupted GC pass over a table. -/
def gcPass (now : Int) (t : Table) : Table :=
  if t.schema.all (·.2.isNone) then t else
  { t with rows := t.rows.filterMap fun r =>
      let r' := scrubRow t.schema (gcRow now t.schema r)
      if r'.fams.isEmpty then none else some r' }

/-! #### A pass interleaved with client writes

`table.gc` releases the table lock after every `gcLockReversalPeriod`-th visited row; a client
write can run exactly there.  The pass iterates the keys present when it started, re-reads each row
under the lock before collecting it, defers the deletion of rows it emptied to the end of the pass
and re-checks them there. -/

structure GcwState where
  rows : Rows
  emptied : List Bytes := []
  writes : List (Bytes × List Mutation)
  sts : List Bool := []
  visited : Nat := 0

/-- collect one row as stored now: `none` when it is left without cells -/
def gcStored (now : Int) (s : Schema) (rows : Rows) (k : Bytes) : Option (Option Row) :=
  match rows.get k with
  | none => none
  | some r =>
    let r' := scrubRow s (gcRow now s r)
    some (if r'.fams.isEmpty then none else some r')

def gcVisit (now : Int) (s : Schema) (st : GcwState) (k : Bytes) : GcwState :=
  let st1 : GcwState :=
    match gcStored now s st.rows k with
    | none => st
    | some none => { st with emptied := st.emptied ++ [k] }
    | some (some r') => { st with rows := st.rows.put r' }
  let n := st1.visited + 1
  if n % Generated.gcLockReversalPeriod = 0 then
    match st1.writes with
    | [] => { st1 with visited := n }
    | (wk, ms) :: ws =>
      match mutateRow s now st1.rows wk ms with
      | none => { st1 with visited := n, writes := ws, sts := st1.sts ++ [false] }
      | some rows => { st1 with visited := n, writes := ws, sts := st1.sts ++ [true], rows := rows }
  else { st1 with visited := n }

def gcFinish (now : Int) (s : Schema) (rows : Rows) (k : Bytes) : Rows :=
  match gcStored now s rows k with
  | none => rows
  | some none => rows.delete k
  | some (some r') => rows.put r'

/-- The pass with the given writes arriving at successive lock reversals; returns the table and
    the ok/error flag of each write that got to run. -/
def gcInterleaved (now : Int) (t : Table) (writes : List (Bytes × List Mutation)) :
    Table × List Bool :=
  if t.schema.all (·.2.isNone) then (t, []) else
  let st := (t.rows.map (·.key)).foldl (gcVisit now t.schema) { rows := t.rows, writes := writes }
  ({ t with rows := st.emptied.foldl (gcFinish now t.schema) st.rows }, st.sts)

/-- The quiescence test at the top of `table.gc` (`force = false`). -/
def shouldGC (lastWrite lastRead realNow : Int) : Bool :=
  !(lastWrite == 0 || decide (realNow - lastWrite < Generated.quiesceNanos)
      || decide (realNow - lastRead < Generated.quiesceNanos))

end Emu.Bt
