/-
  The Bigtable emulator's functions that slice or index with computed bounds, re-modelled with
  Go's partial operations (`Emu.GoSem`), line by line.  Cells are represented by their timestamps
  (all that the bounds depend on).
-/
import Emu.Basic.GoSem

namespace Emu.Bt.GoOps
open Emu.GoSem

/-- `DeleteFromColumn` with a time range (inmem.go: the two `sort.Search` calls, `copy`, re-slice) -/
def deleteRange (cs : List Int) (s e : Int) : Except Fault (List Int) := do
  let n := cs.length
  let ei := if s > 0 then goSearch n (fun i => decide (cs.getD i 0 < s)) else n
  let si := if e > 0 then goSearch n (fun i => decide (cs.getD i 0 < e)) else 0
  if si < ei then
    -- copy(cs[si:], cs[ei:]); cs = cs[:len(cs)-(ei-si)]
    let dst ← goSlice cs si n
    let src ← goSlice cs ei n
    let head ← goSlice cs 0 si
    let moved := head ++ src ++ dst.drop src.length
    goSlice moved 0 ((n : Int) - ((ei : Int) - (si : Int)))
  else pure cs

/-- `applyGC`, max-age case: `cells[:si]` -/
def gcMaxAge (cs : List Int) (cutoff : Int) : Except Fault (List Int) :=
  goSlice cs 0 (goSearch cs.length (fun i => decide (cs.getD i 0 < cutoff)))

/-- `applyGC`, max-versions case -/
def gcMaxVersions (cs : List Int) (n : Int) : Except Fault (List Int) :=
  if n < 0 then pure cs else if (cs.length : Int) > n then goSlice cs 0 n else pure cs

/-- `cells_per_column_limit_filter` on one column -/
def colLimit (cs : List Int) (lim : Int) : Except Fault (List Int) :=
  if (cs.length : Int) > lim then goSlice cs 0 lim else pure cs

/-- `cells_per_row_limit_filter` over the row's columns (the running `lim`) -/
def rowLimit : List (List Int) → Int → Except Fault (List (List Int))
  | [], _ => pure []
  | c :: rest, lim =>
    if (c.length : Int) > lim then do
      let c' ← goSlice c 0 lim
      let rest' ← rowLimit rest 0
      pure (c' :: rest')
    else do
      let rest' ← rowLimit rest (lim - c.length)
      pure (c :: rest')

/-- `cells_per_row_offset_filter` over the row's columns (the running `offset`) -/
def rowOffset : List (List Int) → Int → Except Fault (List (List Int))
  | [], _ => pure []
  | c :: rest, off =>
    if (c.length : Int) > off then do
      let c' ← goSlice c off c.length
      pure (c' :: rest)
    else do
      let c' ← goSlice c 0 0
      let rest' ← rowOffset rest (off - c.length)
      pure (c' :: rest')

/-- `ReadModifyWriteRow`, increment: `binary.BigEndian.Uint64(prevVal)` needs 8 bytes; the code
    checks `len(prevVal) != 8` first -/
def rmwDecode (prev : List Nat) : Except Fault (Option (List Nat)) :=
  if prev.length != 8 then pure none else do
    let b ← goSlice prev 0 8
    pure (some b)

/-- `escapeUTF`: `conv[c>>4]`, `conv[c&0xF]` into the 16-character table, for a byte `c` -/
def escapeNibbles (conv : List Nat) (c : Nat) : Except Fault (Nat × Nat) := do
  let h ← goIndex conv ((c / 16 : Nat) : Int)
  let l ← goIndex conv ((c % 16 : Nat) : Int)
  pure (h, l)

/-- `chunkBuilder.add`: `cb.chunks[len(cb.chunks)-1]` under `if len(cb.chunks) > 0` -/
def lastChunk {α} (chunks : List α) : Except Fault (Option α) :=
  if chunks.length > 0 then do
    let c ← goIndex chunks ((chunks.length : Int) - 1)
    pure (some c)
  else pure none

end Emu.Bt.GoOps
