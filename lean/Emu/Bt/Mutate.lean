/-
  Bigtable emulator Model — `applyMutations`, `MutateRow`, `MutateRows`, `ReadModifyWriteRow`
  (row-level parts).  Errors are a single value: the properties only say "an error".
-/
import Emu.Bt.Types

namespace Emu.Bt

inductive Mutation
  | setCell (fam qual : Bytes) (ts : Int) (value : Bytes)
  /-- `hasRange = false` is a nil `TimeRange` (delete every version). -/
  | deleteFromColumn (fam qual : Bytes) (hasRange : Bool) (s e : Int)
  | deleteFromFamily (fam : Bytes)
  | deleteFromRow
  /-- a `Mutation` whose oneof is unset -/
  | unknown
deriving DecidableEq, Repr, Inhabited

/-- The time-range checks of `DeleteFromColumn` (`e = 0` means unbounded). -/
def validDeleteRange (s e : Int) : Bool :=
  validTimestamp s && (e == 0 || validTimestamp e) && !(decide (s ≥ e) && e != 0)

/-- Is `ts` inside the half-open delete interval `[s, e)` (`s ≤ 0`: from the beginning,
    `e ≤ 0`: unbounded)?  This is what the two `sort.Search` calls compute on a descending list. -/
def inDeleteRange (s e : Int) (ts : Int) : Bool :=
  (decide (s ≤ 0) || decide (ts ≥ s)) && (decide (e ≤ 0) || decide (ts < e))

/-- `-1` (bigtable.ServerTime) means "the server's clock in whole milliseconds". -/
def resolveTs (now ts : Int) : Int := if ts = -1 then truncMs now else ts

/-- One mutation applied to a private copy of the row (`none` = error). -/
def applyMutation (sch : Schema) (now : Int) (r : Row) : Mutation → Option Row
  | .unknown => none
  | .setCell fam q ts v =>
    if !sch.has fam then none else
    if !validTimestamp (resolveTs now ts) then none else
    some (r.setCells fam q fun cs => appendOrReplaceCell cs ⟨resolveTs now ts, v, []⟩)
  | .deleteFromColumn fam q hasRange s e =>
    if !sch.has fam then none else
    if hasRange && !validDeleteRange s e then none else
    match r.getFamily fam with
    | none => some r
    | some f =>
      match f.getColumn q with
      | none => some r
      | some _ =>
        some (r.setCells fam q fun cs =>
          if hasRange then cs.filter (fun c => !inDeleteRange s e c.ts) else [])
  | .deleteFromFamily fam =>
    if !sch.has fam then none else
    some { r with fams := modifyFirst (·.name == fam) (fun f => { f with cols := [] }) r.fams }
  | .deleteFromRow => some { r with fams := [] }

/-- `applyMutations`: left to right, first error aborts. -/
def applyMutations (sch : Schema) (now : Int) (r : Row) : List Mutation → Option Row
  | [] => some r
  | m :: ms =>
    match applyMutation sch now r m with
    | none => none
    | some r' => applyMutations sch now r' ms

/-- `MutateRow` on an existing table: `none` = error and the store is unchanged. -/
def mutateRow (sch : Schema) (now : Int) (rows : Rows) (key : Bytes) (ms : List Mutation) :
    Option Rows :=
  match applyMutations sch now (rows.getOrCreate key) ms with
  | none => none
  | some r => some (Rows.update sch rows r)

/-- `MutateRows`: every entry is applied independently with one clock reading; the result carries
    one ok/error flag per entry. -/
def mutateRows (sch : Schema) (now : Int) : Rows → List (Bytes × List Mutation) → Rows × List Bool
  | rows, [] => (rows, [])
  | rows, (k, ms) :: es =>
    match mutateRow sch now rows k ms with
    | none => let (rows', st) := mutateRows sch now rows es; (rows', false :: st)
    | some rows1 => let (rows', st) := mutateRows sch now rows1 es; (rows', true :: st)

/-! ### ReadModifyWriteRow -/

inductive RmwRule
  | append (fam qual : Bytes) (v : Bytes)
  | increment (fam qual : Bytes) (amount : Int)
  /-- rule whose oneof is unset -/
  | unknown (fam qual : Bytes)
deriving DecidableEq, Repr, Inhabited

def RmwRule.fam : RmwRule → Bytes
  | .append f _ _ | .increment f _ _ | .unknown f _ => f
def RmwRule.qual : RmwRule → Bytes
  | .append _ q _ | .increment _ q _ | .unknown _ q => q

/-- big-endian decode of (up to) 8 bytes as an unsigned number -/
def beDecodeU (b : Bytes) : Nat := b.foldl (fun acc x => acc * 256 + x) 0

/-- two's complement reading of a 64-bit unsigned value -/
def toInt64 (n : Nat) : Int :=
  let m : Nat := n % 2^64
  if m < 2^63 then (m : Int) else (m : Int) - (2^64 : Int)

/-- `int64(binary.BigEndian.Uint64(b))` -/
def beDecode (b : Bytes) : Int := toInt64 (beDecodeU b)

def beEncodeU : Nat → Nat → Bytes
  | 0, _ => []
  | k + 1, n => beEncodeU k (n / 256) ++ [n % 256]

/-- `binary.BigEndian.PutUint64(uint64(v))` -/
def beEncode (v : Int) : Bytes := beEncodeU 8 (v % (2^64 : Int)).toNat

/-- 64-bit wrap-around addition (`v += amount` on `int64`). -/
def wrap64 (v : Int) : Int := toInt64 (v % (2^64 : Int)).toNat

/-- One RMW rule: returns the updated row and the cell written (`none` = error). -/
def applyRmwRule (sch : Schema) (now : Int) (r : Row) (rule : RmwRule) : Option (Row × Cell) :=
  if !sch.has rule.fam then none else
  let prev := r.cellsOf rule.fam rule.qual
  let ts := match prev.head? with
    | none => truncMs now
    | some c => max (truncMs now) c.ts
  let newVal : Option Bytes :=
    match rule with
    | .unknown _ _ => none
    | .append _ _ v =>
      some ((match prev.head? with | none => [] | some c => c.value) ++ v)
    | .increment _ _ amt =>
      match prev.head? with
      | none => some (beEncode (wrap64 amt))
      | some c =>
        if c.value.length != 8 then none
        else some (beEncode (wrap64 (beDecode c.value + amt)))
  match newVal with
  | none => none
  | some v =>
    let cell : Cell := ⟨ts, v, []⟩
    some (r.setCells rule.fam rule.qual (fun cs => appendOrReplaceCell cs cell), cell)

/-- The rule loop: the working row and the result row (last written cell per column). -/
def applyRmwRules (sch : Schema) (now : Int) : Row → Row → List RmwRule → Option (Row × Row)
  | r, res, [] => some (r, res)
  | r, res, rule :: rules =>
    match applyRmwRule sch now r rule with
    | none => none
    | some (r', cell) =>
      applyRmwRules sch now r' (res.setCells rule.fam rule.qual fun _ => [cell]) rules

/-- `ReadModifyWriteRow`: new store and the response row. -/
def readModifyWrite (sch : Schema) (now : Int) (rows : Rows) (key : Bytes)
    (rules : List RmwRule) : Option (Rows × Row) :=
  match applyRmwRules sch now (rows.getOrCreate key) ⟨key, []⟩ rules with
  | none => none
  | some (r, res) => some (Rows.update sch rows r, scrubRow sch res)

end Emu.Bt
