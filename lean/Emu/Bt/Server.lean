/-
  Bigtable emulator Model — the service as a sequential state machine: one `Op` per RPC,
  `step : Server → Op → Server × Resp`.
-/
import Emu.Bt.Admin
import Emu.Bt.Chunks
import Emu.Basic.Assoc

namespace Emu.Bt

structure Server where
  tables : List (Bytes × Table) := []
  /-- injected clock, microseconds -/
  now : Int := 0
  /-- pinned `randFloat()` in thousandths -/
  rnd : Int := 0
deriving Inhabited

inductive Code
  | notFound
  | invalidArgument
  | alreadyExists
  | other
deriving DecidableEq, Repr, Inhabited

inductive Op
  | create (parent id : Bytes) (fams : Schema)
  | delete (name : Bytes)
  | list (parent : Bytes)
  | get (name : Bytes)
  | modify (name : Bytes) (mods : List FamMod)
  | dropRange (name : Bytes) (target : DropTarget)
  | mutate (name key : Bytes) (ms : List Mutation)
  | mutateRows (name : Bytes) (entries : List (Bytes × List Mutation))
  | cam (name key : Bytes) (pred : Filter) (tm fm : List Mutation)
  | rmw (name key : Bytes) (rules : List RmwRule)
  | read (name : Bytes) (keys : List Bytes) (ranges : List RowRange) (limit : Int) (f : Filter)
  /-- a read whose `failAt`-th `stream.Send` fails (harness-injected transport error) -/
  | readFail (name : Bytes) (failAt : Nat) (keys : List Bytes) (ranges : List RowRange)
      (limit : Int) (f : Filter)
  | keys (name : Bytes)
  | gc (name : Bytes)
  /-- a GC pass with client writes arriving at its successive lock reversals -/
  | gcw (name : Bytes) (writes : List (Bytes × List Mutation))
  | clock (now : Int)
  | rand (r : Int)
deriving Inhabited

inductive Resp
  | ok
  | err (c : Code)
  | rows (rs : List Row)
  | names (ns : List Bytes)
  | schema (s : Schema)
  | statuses (sts : List Bool)
  | matched (b : Bool)
  | row (r : Row)
  /-- the stored keys in order, each with its `rowsize` -/
  | keyList (ks : List (Bytes × Nat))
deriving Inhabited

def tablesInfix : Bytes := Bytes.ofString "/tables/"

def Server.find (s : Server) (name : Bytes) : Option Table := aget s.tables name

def Server.setTable (s : Server) (name : Bytes) (t : Table) : Server :=
  { s with tables := aset s.tables name t }

/-- Run `k` on an existing table; `NotFound` otherwise. -/
def Server.withTable (s : Server) (name : Bytes) (k : Table → Server × Resp) : Server × Resp :=
  match s.find name with
  | none => (s, .err .notFound)
  | some t => k t

def checkAndMutate (sch : Schema) (now rnd : Int) (rows : Rows) (key : Bytes) (pred : Filter)
    (tm fm : List Mutation) : Except Code (Rows × Bool) :=
  if !validFilter pred then .error .invalidArgument else
  let r := rows.getOrCreate key
  let which :=
    if pred.isAbsent then !r.isEmpty
    else
      let res := filterRow rnd pred r
      res.1 && !res.2.isEmpty
  match applyMutations sch now r (if which then tm else fm) with
  | none => .error .other
  | some r' => .ok (Rows.update sch rows r', which)

def readRows (t : Table) (rnd : Int) (keys : List Bytes) (ranges : List RowRange) (limit : Int)
    (f : Filter) : Except Code (List Row) :=
  if !validRowRanges ranges then .error .invalidArgument
  else if !validFilter f then .error .invalidArgument
  else .ok (scan t.schema rnd t.rows keys ranges limit f)

def step (s : Server) : Op → Server × Resp
  | .clock n => ({ s with now := n }, .ok)
  | .rand r => ({ s with rnd := r }, .ok)
  | .create parent id fams =>
    let name := parent ++ tablesInfix ++ id
    match s.find name with
    | some _ => (s, .err .alreadyExists)
    | none => (s.setTable name ⟨fams, []⟩, .schema fams)
  | .delete name =>
    s.withTable name fun _ => ({ s with tables := adel s.tables name }, .ok)
  | .list parent =>
    (s, .names ((s.tables.map (·.1)).filter (Bytes.hasPrefix · (parent ++ tablesInfix))))
  | .get name => s.withTable name fun t => (s, .schema t.schema)
  | .modify name mods =>
    s.withTable name fun t =>
      match modifyColumnFamilies t mods with
      | .error .alreadyExists => (s, .err .alreadyExists)
      | .error .other => (s, .err .other)
      | .ok t' => (s.setTable name t', .schema t'.schema)
  | .dropRange name target =>
    s.withTable name fun t =>
      match dropRowRange t target with
      | none => (s, .err .other)
      | some t' => (s.setTable name t', .ok)
  | .mutate name key ms =>
    s.withTable name fun t =>
      match mutateRow t.schema s.now t.rows key ms with
      | none => (s, .err .other)
      | some rows => (s.setTable name { t with rows := rows }, .ok)
  | .mutateRows name entries =>
    s.withTable name fun t =>
      let (rows, sts) := mutateRows t.schema s.now t.rows entries
      (s.setTable name { t with rows := rows }, .statuses sts)
  | .cam name key pred tm fm =>
    s.withTable name fun t =>
      match checkAndMutate t.schema s.now s.rnd t.rows key pred tm fm with
      | .error c => (s, .err c)
      | .ok (rows, b) => (s.setTable name { t with rows := rows }, .matched b)
  | .rmw name key rules =>
    s.withTable name fun t =>
      match readModifyWrite t.schema s.now t.rows key rules with
      | none => (s, .err .other)
      | some (rows, res) => (s.setTable name { t with rows := rows }, .row res)
  | .read name keys ranges limit f =>
    s.withTable name fun t =>
      match readRows t s.rnd keys ranges limit f with
      | .error c => (s, .err c)
      | .ok rs => (s, .rows rs)
  | .readFail name failAt keys ranges limit f =>
    s.withTable name fun t =>
      match readRows t s.rnd keys ranges limit f with
      | .error c => (s, .err c)
      | .ok rs => if failAt > 0 && sendCount 0 rs ≥ failAt then (s, .err .other) else (s, .rows rs)
  | .keys name => s.withTable name fun t => (s, .keyList (t.rows.map fun r => (r.key, r.size)))
  | .gc name => s.withTable name fun t => (s.setTable name (gcPass s.now t), .ok)
  | .gcw name writes =>
    s.withTable name fun t =>
      let (t', sts) := gcInterleaved s.now t writes
      (s.setTable name t', .statuses sts)

def run (s : Server) : List Op → Server × List Resp
  | [] => (s, [])
  | op :: ops =>
    let (s1, r) := step s op
    let (s2, rs) := run s1 ops
    (s2, r :: rs)

end Emu.Bt
