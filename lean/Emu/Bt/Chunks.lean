/-
  The client side of a `ReadRows` stream: the state machine that turns `CellChunk`s back into rows
  (the one every Bigtable client runs; the harness's `DecodeChunks` is the same machine in Go and is
  checked against this one on every stream the implementation produces), the batching of chunks
  into response messages, and the `SampleRowKeys` loop with its random draws as a parameter.
-/
import Emu.Bt.Read

namespace Emu.Bt

/-! ### Decoder -/

abbrev Triple := Bytes × Bytes × Cell

/-- a decoded row: its key and its cells in stream order, each with family and qualifier -/
abbrev DRow := Bytes × List Triple

/-- the wire cannot tell an empty `row_key` from an absent one -/
def Chunk.hasKey (c : Chunk) : Bool :=
  match c.rowKey with
  | some (_ :: _) => true
  | _ => false

/-- family / qualifier tracking for one chunk: `none` = malformed (a family name without a
    qualifier, or a cell before any family or qualifier is known) -/
def cellStep (fam qual : Option Bytes) (c : Chunk) : Option (Triple × Option Bytes × Option Bytes) :=
  if c.family.isSome && c.qual.isNone then none else
  let fam' := c.family.or fam
  let qual' := c.qual.or qual
  match fam', qual' with
  | some f, some q => some ((f, q, ⟨c.ts, c.value, c.labels⟩), fam', qual')
  | _, _ => none

structure DState where
  rows : List DRow := []
  cur : Option DRow := none
  fam : Option Bytes := none
  qual : Option Bytes := none
deriving DecidableEq, Repr, Inhabited

/-- one chunk; `none` = the stream is malformed -/
def decodeStep (st : DState) (c : Chunk) : Option DState :=
  -- a chunk with a key starts a row: only between rows, and it must name family and qualifier
  let start : Option (DRow × Option Bytes × Option Bytes) :=
    if c.hasKey then
      match st.cur with
      | some _ => none
      | none => if c.family.isSome && c.qual.isSome then some ((c.rowKey.getD [], []), none, none) else none
    else
      match st.cur with
      | none => none                                     -- a chunk that belongs to no row
      | some r => some (r, st.fam, st.qual)
  match start with
  | none => none
  | some (r, fam, qual) =>
    match cellStep fam qual c with
    | none => none
    | some (t, fam', qual') =>
      let r' : DRow := (r.1, r.2 ++ [t])
      if c.commit then some { rows := st.rows ++ [r'], cur := none, fam := fam', qual := qual' }
      else some { rows := st.rows, cur := some r', fam := fam', qual := qual' }

def decodeFrom : DState → List Chunk → Option DState
  | st, [] => some st
  | st, c :: cs =>
    match decodeStep st c with
    | none => none
    | some st' => decodeFrom st' cs

/-- the whole stream: every row must have been committed at the end -/
def decode (cs : List Chunk) : Option (List DRow) :=
  match decodeFrom {} cs with
  | none => none
  | some st => if st.cur.isNone then some st.rows else none

/-! ### Messages -/

/-- `ReadRows`' batching: a message is sent as soon as more than `batch` chunks are buffered after a
    row was added, and once more at the end if anything is left. -/
def messagesFrom (batch : Nat) : List Chunk → List Row → List (List Chunk)
  | buf, [] => if buf.isEmpty then [] else [buf]
  | buf, r :: rs =>
    let b := buf ++ rowChunks r
    if b.length > batch then b :: messagesFrom batch [] rs else messagesFrom batch b rs

def messages (rs : List Row) : List (List Chunk) := messagesFrom Generated.chunkBatch [] rs

/-! ### SampleRowKeys -/

/-- `rowsize`: total length of the cell values -/
def Row.size (r : Row) : Nat :=
  (r.fams.flatMap fun f => f.cols.flatMap fun c => c.cells.map (·.value.length)).sum

/-- The loop of `SampleRowKeys`.  `coins` are the outcomes of `rand.Int31n(100) == 0`, one per row
    (missing = `false`); `last` is the pending `lastRow` with the offset at which it starts. -/
def sampleFrom : List Row → List Bool → Nat → Option (Bytes × Nat) → List (Bytes × Nat)
  | [], _, _, last => last.toList
  | r :: rs, coins, off, _ =>
    if coins.headD false then (r.key, off) :: sampleFrom rs coins.tail (off + r.size) none
    else sampleFrom rs coins.tail (off + r.size) (some (r.key, off))

def sampleRowKeys (rows : List Row) (coins : List Bool) : List (Bytes × Nat) := sampleFrom rows coins 0 none

/-- Is `out` an answer of the loop for some sequence of draws?  The draws are read off the answer:
    a row was drawn iff its key is in it (for the last row either draw gives the same answer). -/
def sampleExplained (rows : List Row) (out : List (Bytes × Nat)) : Bool :=
  sampleRowKeys rows (rows.map fun r => out.any (·.1 == r.key)) == out

end Emu.Bt
