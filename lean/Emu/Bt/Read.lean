/-
  Bigtable emulator Model — RowSets (`validateRowRanges`, `mergeRowRanges`, `mergeSimpleRanges`),
  the `ReadRows` scan loop with `rows_limit`, the chunk encoder (`chunkBuilder.add`) and a
  reference chunk decoder (the client-side state machine).
-/
import Emu.Bt.Filter

namespace Emu.Bt

/-- `btpb.RowRange`: start and end are each unset, open or closed. -/
structure RowRange where
  s : Bound
  e : Bound
deriving DecidableEq, Repr, Inhabited

/-- `simpleRange`: `[start, stop)`, an empty bound meaning "unbounded". -/
structure SimpleRange where
  start : Bytes
  stop : Bytes
deriving DecidableEq, Repr, Inhabited

def Bound.closedKey : Bound → Bytes
  | .closed b => b
  | _ => []
def Bound.openKey : Bound → Bytes
  | .opened b => b
  | _ => []

def keysOutOfRange (s e : Bytes) : Bool :=
  if s.isEmpty && e.isEmpty then false
  else if s.isEmpty || e.isEmpty then false
  else decide (e < s)

/-- `messageOnInvalidKeyRanges ≠ ""`.  (The two "both set" cases cannot arise from a oneof.) -/
def invalidRowRange (rr : RowRange) : Bool :=
  keysOutOfRange rr.s.closedKey rr.e.closedKey
  || keysOutOfRange rr.s.openKey rr.e.openKey
  || keysOutOfRange rr.s.closedKey rr.e.openKey
  || keysOutOfRange rr.s.openKey rr.e.closedKey

def validRowRanges (rrs : List RowRange) : Bool := rrs.all (!invalidRowRange ·)

def RowRange.toSimple (rr : RowRange) : SimpleRange :=
  { start := match rr.s with
      | .closed k => k
      | .opened k => k ++ [0]
      | .unset => []
    stop := match rr.e with
      | .closed k => k ++ [0]
      | .opened k => k
      | .unset => [] }

def keyRange (k : Bytes) : SimpleRange := ⟨k, k ++ [0]⟩

/-- `endCmp a b < 0` -/
def endLt (a b : SimpleRange) : Bool :=
  if a.stop.isEmpty && b.stop.isEmpty then false
  else if b.stop.isEmpty then true
  else if a.stop.isEmpty then false
  else decide (a.stop < b.stop)

/-- the `sort.Slice` comparator -/
def srLess (a b : SimpleRange) : Bool :=
  if a.start < b.start then true
  else if b.start < a.start then false
  else endLt a b

/-- the `merge` closure: `none` when `a` and `b` are disjoint -/
def merge1 (a b : SimpleRange) : Option SimpleRange :=
  if !a.stop.isEmpty && decide (a.stop < b.start) then none
  else some ⟨a.start, if endLt a b then b.stop else a.stop⟩

/-- the `last`-pointer loop -/
def mergeLoop : SimpleRange → List SimpleRange → List SimpleRange
  | last, [] => [last]
  | last, x :: xs =>
    match merge1 last x with
    | some m => mergeLoop m xs
    | none => last :: mergeLoop x xs

def mergeSimpleRanges (srs : List SimpleRange) : List SimpleRange :=
  match sortBy (fun a b => !srLess b a) srs with
  | [] => []
  | x :: xs => mergeLoop x xs

def mergeRowRanges (keys : List Bytes) (rrs : List RowRange) : List SimpleRange :=
  mergeSimpleRanges (keys.map keyRange ++ rrs.map RowRange.toSimple)

/-- Membership of a key in a simple range (the four `Ascend*` cases). -/
def SimpleRange.contains (sr : SimpleRange) (k : Bytes) : Bool :=
  (sr.start.isEmpty || decide (sr.start ≤ k)) && (sr.stop.isEmpty || decide (k < sr.stop))

/-- The ranges `ReadRows` traverses. -/
def scanRanges (keys : List Bytes) (rrs : List RowRange) : List SimpleRange :=
  if keys.length + rrs.length > 0 then mergeRowRanges keys rrs else [⟨[], []⟩]

/-- What one stored row contributes to the stream: `none` when it yields no chunk. -/
def emitRow (sch : Schema) (rnd : Int) (f : Filter) (r : Row) : Option Row :=
  if r.fams.isEmpty then none else
  let res := filterRow rnd f r
  if !res.1 then none else
  let out := scrubRow sch res.2
  if out.fams.isEmpty then none else some out

/-- Rows visited by the scan, in visiting order. -/
def scanVisit (srs : List SimpleRange) (rows : Rows) : List Row :=
  srs.flatMap fun sr => rows.filter (sr.contains ·.key)

def applyLimit (limit : Int) (l : List Row) : List Row :=
  if limit > 0 then l.take limit.toNat else l

/-- The rows `ReadRows` streams (after validation). -/
def scan (sch : Schema) (rnd : Int) (rows : Rows) (keys : List Bytes) (rrs : List RowRange)
    (limit : Int) (f : Filter) : List Row :=
  applyLimit limit ((scanVisit (scanRanges keys rrs) rows).filterMap (emitRow sch rnd f))

/-- Number of `stream.Send` calls a scan makes: a message is flushed as soon as more than
    `chunkBatch` chunks are buffered, and once more at the end if anything is left. -/
def sendCount : Nat → List Row → Nat
  | buffered, [] => if buffered > 0 then 1 else 0
  | buffered, r :: rs =>
    let b := buffered + r.cellCount
    if b > Generated.chunkBatch then 1 + sendCount 0 rs else sendCount b rs

/-! ### Chunk stream -/

structure Chunk where
  rowKey : Option Bytes
  family : Option Bytes
  qual : Option Bytes
  ts : Int
  value : Bytes
  labels : List Bytes
  commit : Bool
deriving DecidableEq, Repr, Inhabited

/-- flat (family, qualifier, cell) triples of a row in emission order -/
def Row.flat (r : Row) : List (Bytes × Bytes × Cell) :=
  r.fams.flatMap fun f => f.cols.flatMap fun c => c.cells.map fun cell => (f.name, c.qual, cell)

def colChunks (c : Column) : List Chunk :=
  match c.cells with
  | [] => []
  | x :: xs =>
    ⟨none, none, some c.qual, x.ts, x.value, x.labels, false⟩ ::
      xs.map fun y => ⟨none, none, none, y.ts, y.value, y.labels, false⟩

def setFam (n : Bytes) : List Chunk → List Chunk
  | [] => []
  | c :: cs => { c with family := some n } :: cs

/-- chunks of one family; the first chunk carries the family name -/
def famChunks (f : Family) : List Chunk := setFam f.name (f.cols.flatMap colChunks)

def setKey (k : Bytes) : List Chunk → List Chunk
  | [] => []
  | c :: cs => { c with rowKey := some k } :: cs

def setCommit : List Chunk → List Chunk
  | [] => []
  | [c] => [{ c with commit := true }]
  | c :: cs => c :: setCommit cs

/-- `chunkBuilder.add` for an already scrubbed row -/
def rowChunks (r : Row) : List Chunk :=
  setCommit (setKey r.key (r.fams.flatMap famChunks))

end Emu.Bt
