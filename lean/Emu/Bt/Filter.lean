/-
  Bigtable emulator Model — row filters (`filterRow`, `filterCells`, `includeCell`, `modifyCell`)
  and the up-front argument validation (`validateFilter`).

  A nil `*RowFilter` is the constructor `.absent`.  The row-sample filter's random draw is a
  parameter (`rnd`, in thousandths): the harness pins the package variable `randFloat` to the same
  value through the verif hook.
-/
import Emu.Bt.Types
import Emu.Basic.Regex

namespace Emu.Bt

inductive Bound
  | unset
  | opened (b : Bytes)
  | closed (b : Bytes)
deriving DecidableEq, Repr, Inhabited

inductive Filter
  | absent
  | passAll (b : Bool)
  | blockAll (b : Bool)
  | chain (fs : List Filter)
  | interleave (fs : List Filter)
  | condition (p t f : Filter)
  /-- `none` = a pattern that does not compile -/
  | rowKeyRegex (r : Option Regex)
  | familyRegex (r : Option Regex)
  | qualRegex (r : Option Regex)
  | valueRegex (r : Option Regex)
  | columnRange (fam : Bytes) (s e : Bound)
  | valueRange (s e : Bound)
  | tsRange (s e : Int)
  | rowLimit (n : Int)
  | rowOffset (n : Int)
  | colLimit (n : Int)
  | stripValue
  | applyLabel (l : Bytes)
  /-- probability in thousandths -/
  | sample (pMilli : Int)
  /-- any filter kind the emulator does not implement (sink, unset oneof): passes cells through -/
  | other
deriving Repr, Inhabited

/-- `validLabelTransformer = [a-z0-9\-]{1,15}` used with the *unanchored* `MatchString`:
    a label is accepted iff it contains at least one byte of the class. -/
def validLabel (l : Bytes) : Bool :=
  l.any fun b => (97 ≤ b && b ≤ 122) || (48 ≤ b && b ≤ 57) || b == 45

-- Argument validation for the whole tree (`validateFilter`), independent of any row.
mutual
def validFilter : Filter → Bool
  | .absent => true
  | .passAll b => b
  | .blockAll b => b
  | .chain fs => decide (fs.length ≥ 2) && validFilters fs
  | .interleave fs => decide (fs.length ≥ 2) && validFilters fs
  | .condition p t f => validFilter p && validFilter t && validFilter f
  | .rowKeyRegex r => r.isSome
  | .familyRegex r => r.isSome
  | .qualRegex r => r.isSome
  | .valueRegex r => r.isSome
  | .columnRange _ _ _ => true
  | .valueRange _ _ => true
  | .tsRange s e => decide (s % 1000 = 0) && decide (e % 1000 = 0)
  | .rowLimit n => decide (n ≥ 0)
  | .rowOffset n => decide (n ≥ 0)
  | .colLimit n => decide (n ≥ 0)
  | .stripValue => true
  | .applyLabel l => validLabel l
  | .sample p => decide (0 < p) && decide (p < 1000)
  | .other => true
def validFilters : List Filter → Bool
  | [] => true
  | f :: fs => validFilter f && validFilters fs
end

def inBounds (s e : Bound) (x : Bytes) : Bool :=
  (match s with
   | .unset => true
   | .opened b => decide (b < x)
   | .closed b => decide (b ≤ x)) &&
  (match e with
   | .unset => true
   | .opened b => decide (x < b)
   | .closed b => decide (x ≤ b))

def reMatch (r : Option Regex) (x : Bytes) : Bool :=
  match r with
  | some r => r.matches x
  | none => false

/-- `includeCell` for the per-cell filters; every other kind includes the cell. -/
def includeCell (f : Filter) (fam qual : Bytes) (c : Cell) : Bool :=
  match f with
  | .familyRegex r => reMatch r fam
  | .qualRegex r => reMatch r qual
  | .valueRegex r => reMatch r c.value
  | .columnRange fm s e => fam == fm && inBounds s e qual
  | .valueRange s e => inBounds s e c.value
  | .tsRange s e => decide (c.ts ≥ s) && (e == 0 || decide (c.ts < e))
  | _ => true

/-- `modifyCell` -/
def modifyCell (f : Filter) (c : Cell) : Cell :=
  match f with
  | .stripValue => ⟨c.ts, [], []⟩
  | .applyLabel l => ⟨c.ts, c.value, [l]⟩
  | _ => c

def filterCells (f : Filter) (fam qual : Bytes) (cs : List Cell) : List Cell :=
  (cs.filter (includeCell f fam qual)).map (modifyCell f)

/-- The per-cell tail of `filterRow`. -/
def filterPerCell (f : Filter) (r : Row) : Bool × Row :=
  let r' : Row := { r with fams := r.fams.map fun fm =>
    { fm with cols := fm.cols.map fun c => { c with cells := filterCells f fm.name c.qual c.cells } } }
  (decide (r'.cellCount > 0), r')

/-- `cells_per_column_limit_filter` -/
def colLimitRow (n : Nat) (r : Row) : Row :=
  { r with fams := r.fams.map fun fm =>
    { fm with cols := fm.cols.map fun c => { c with cells := c.cells.take n } } }

/-- `cells_per_row_limit_filter` over one family's columns: remaining budget is threaded. -/
def rowLimitCols : Nat → List Column → Nat × List Column
  | lim, [] => (lim, [])
  | lim, c :: cs =>
    let (lim', cs') := rowLimitCols (lim - c.cells.length) cs
    (lim', { c with cells := c.cells.take lim } :: cs')

def rowLimitFams : Nat → List Family → List Family
  | _, [] => []
  | lim, f :: fs =>
    let (lim', cols') := rowLimitCols lim f.cols
    { f with cols := cols' } :: rowLimitFams lim' fs

/-- `cells_per_row_offset_filter`: skip the first `n` cells of the row. -/
def rowOffsetCols : Nat → List Column → Nat × List Column
  | off, [] => (off, [])
  | off, c :: cs =>
    let (off', cs') := rowOffsetCols (off - c.cells.length) cs
    (off', { c with cells := c.cells.drop off } :: cs')

def rowOffsetFams : Nat → List Family → List Family
  | _, [] => []
  | off, f :: fs =>
    let (off', cols') := rowOffsetCols off f.cols
    { f with cols := cols' } :: rowOffsetFams off' fs

/-- `getOrCreateFamily` without touching columns. -/
def Row.ensureFamily (r : Row) (name : Bytes) : Row :=
  if r.fams.any (·.name == name) then r else { r with fams := r.fams ++ [⟨name, []⟩] }

/-- Interleave's merge of one branch result into the accumulator. -/
def mergeInto (acc : Row) (br : Row) : Row :=
  br.fams.foldl (fun acc fm =>
    fm.cols.foldl (fun acc c => acc.setCells fm.name c.qual (· ++ c.cells)) (acc.ensureFamily fm.name))
    acc

def sortCellsDesc (r : Row) : Row :=
  { r with fams := r.fams.map fun fm =>
    { fm with cols := fm.cols.map fun c =>
      { c with cells := stableSortBy (fun a b => decide (a.ts ≥ b.ts)) c.cells } } }

/-- Interleave: merge the matching branches, re-sort every column, match iff any cell. -/
def mergeBranches (key : Bytes) (brs : List (Bool × Row)) : Bool × Row :=
  let merged := (brs.filter (·.1)).foldl (fun acc b => mergeInto acc b.2) ⟨key, []⟩
  let r := sortCellsDesc merged
  (decide (r.cellCount > 0), r)

/-- chain: stop at the first sub-filter that does not match. -/
def chainStep (res : Bool × Row) (k : Row → Bool × Row) : Bool × Row :=
  if res.1 then k res.2 else (false, res.2)

/-- condition: the predicate runs on a copy; the branch is taken iff it left at least one cell;
    a missing branch yields no match. -/
def condSel (pred : Bool × Row) (tAbsent fAbsent : Bool) (r : Row)
    (t f : Bool × Row) : Bool × Row :=
  if pred.1 && !pred.2.isEmpty then
    (if tAbsent then (false, r) else t)
  else
    (if fAbsent then (false, r) else f)

def Filter.isAbsent : Filter → Bool
  | .absent => true
  | _ => false

-- `filterRow`; `rnd` is the pinned value of `randFloat()` in thousandths.
mutual
def filterRow (rnd : Int) : Filter → Row → Bool × Row
  | .absent, r => (true, r)
  | .passAll _, r => (true, r)
  | .blockAll _, r => (false, r)
  | .chain fs, r => filterChain rnd fs r
  | .interleave fs, r => mergeBranches r.key (filterBranches rnd fs r)
  | .condition p t f, r =>
    condSel (filterRow rnd p r) t.isAbsent f.isAbsent r (filterRow rnd t r) (filterRow rnd f r)
  | .rowKeyRegex re, r => if reMatch re r.key then filterPerCell (.rowKeyRegex re) r else (false, r)
  | .colLimit n, r => (true, colLimitRow n.toNat r)
  | .rowLimit n, r => (true, { r with fams := rowLimitFams n.toNat r.fams })
  | .rowOffset n, r => (true, { r with fams := rowOffsetFams n.toNat r.fams })
  | .sample p, r => (decide (rnd < p), r)
  | .familyRegex re, r => filterPerCell (.familyRegex re) r
  | .qualRegex re, r => filterPerCell (.qualRegex re) r
  | .valueRegex re, r => filterPerCell (.valueRegex re) r
  | .columnRange fm s e, r => filterPerCell (.columnRange fm s e) r
  | .valueRange s e, r => filterPerCell (.valueRange s e) r
  | .tsRange s e, r => filterPerCell (.tsRange s e) r
  | .stripValue, r => filterPerCell .stripValue r
  | .applyLabel l, r => filterPerCell (.applyLabel l) r
  | .other, r => filterPerCell .other r
def filterChain (rnd : Int) : List Filter → Row → Bool × Row
  | [], r => (true, r)
  | f :: fs, r => chainStep (filterRow rnd f r) (filterChain rnd fs)
def filterBranches (rnd : Int) : List Filter → Row → List (Bool × Row)
  | [], _ => []
  | f :: fs, r => filterRow rnd f r :: filterBranches rnd fs r
end

/-- The cells a filter yields for a row: what `ReadRows` streams after the final scrub. -/
def filterOutput (sch : Schema) (rnd : Int) (f : Filter) (r : Row) : Row :=
  let (m, r') := filterRow rnd f r
  if m then scrubRow sch r' else { r with fams := [] }

end Emu.Bt
