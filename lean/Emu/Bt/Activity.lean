/-
  The activity stamps of a table (`lastReadNanos`, `lastWriteNanos`) and the decision of the
  background loop's pass, `gc(now, done, force=false)`: it runs only on a table that has been written
  since its last pass and has seen neither a read nor a write for `quiesceNanos`.

  The stamps are real time in the code.  Here time is what the harness can control: `idle d` lets `d`
  nanoseconds pass for one table (the hook shifts that table's stamps back by `d`); requests take no
  time.  So a stamp is kept as "how long ago".
-/
import Emu.Bt.Server

namespace Emu.Bt

structure Activity where
  /-- nanoseconds since the last `tbl.read()` (or the table's creation) -/
  sinceRead : Nat := 0
  /-- nanoseconds since the last `tbl.write()` (or the creation); `none` = `lastWriteNanos == 0`,
      the mark a pass leaves: nothing written since -/
  sinceWrite : Option Nat := some 0
deriving DecidableEq, Repr, Inhabited

abbrev ActMap := List (Bytes × Activity)

/-- the test at the head of `table.gc` for `force == false` -/
def Activity.quiet (a : Activity) : Bool :=
  match a.sinceWrite with
  | none => false
  | some w => decide (Generated.quiesceNanos ≤ (w : Int)) && decide (Generated.quiesceNanos ≤ (a.sinceRead : Int))

def Activity.read (a : Activity) : Activity := { a with sinceRead := 0 }
def Activity.write (a : Activity) : Activity := { a with sinceWrite := some 0 }
def Activity.wait (a : Activity) (d : Nat) : Activity :=
  { sinceRead := a.sinceRead + d, sinceWrite := a.sinceWrite.map (· + d) }
/-- a pass that got past the test ends with `lastWriteNanos = 0` -/
def Activity.passed (a : Activity) : Activity := { a with sinceWrite := none }

structure Sys where
  srv : Server := {}
  act : ActMap := []
deriving Inhabited

def Sys.activity (y : Sys) (name : Bytes) : Activity := (aget y.act name).getD {}

def Sys.setAct (y : Sys) (name : Bytes) (a : Activity) : Sys := { y with act := aset y.act name a }

inductive XOp
  | base (op : Op)
  /-- `d` nanoseconds pass for this table -/
  | idle (name : Bytes) (d : Nat)
  /-- the background loop's pass: `gc(now, done, false)` -/
  | tryGc (name : Bytes)
  /-- `GenerateConsistencyToken` -/
  | genToken (name : Bytes)
  /-- `CheckConsistency` -/
  | checkToken (name token : Bytes)
deriving Inhabited

/-- the token `GenerateConsistencyToken` hands out for a table -/
def consistencyToken (name : Bytes) : Bytes := Bytes.ofString "TokenFor-" ++ name

/-- which stamp a request leaves, given the state it arrived in -/
def stampOf (s : Server) : Op → Option (Bytes × (Activity → Activity))
  | .mutate name _ _ | .mutateRows name _ | .rmw name _ _ =>
    if (s.find name).isSome then some (name, Activity.write) else none
  | .cam name _ pred _ _ =>
    -- `defer tbl.write()` comes after the predicate's validation
    if (s.find name).isSome && validFilter pred then some (name, Activity.write) else none
  | .read name _ ranges _ f | .readFail name _ _ ranges _ f =>
    -- `defer tbl.read()` comes after the two validations
    if (s.find name).isSome && validRowRanges ranges && validFilter f then some (name, Activity.read) else none
  | .gc name | .gcw name _ =>
    if (s.find name).isSome then some (name, Activity.passed) else none
  | _ => none

def xstep (y : Sys) : XOp → Sys × Resp
  | .base op =>
    let (s', r) := step y.srv op
    let y' : Sys := { y with srv := s' }
    match op with
    | .create parent id _ =>
      -- a new table starts with both stamps at "now"
      let name := parent ++ tablesInfix ++ id
      if (y.srv.find name).isNone then (y'.setAct name {}, r) else (y', r)
    | .delete name => ({ y' with act := adel y'.act name }, r)
    | _ =>
      match stampOf y.srv op with
      | some (name, f) => (y'.setAct name (f (y.activity name)), r)
      | none => (y', r)
  | .idle name d =>
    match y.srv.find name with
    | none => (y, .err .notFound)
    | some _ => (y.setAct name ((y.activity name).wait d), .ok)
  | .tryGc name =>
    match y.srv.find name with
    | none => (y, .err .notFound)
    | some t =>
      if (y.activity name).quiet then
        ({ y with srv := y.srv.setTable name (gcPass y.srv.now t) }.setAct name (y.activity name).passed, .ok)
      else (y, .ok)
  | .genToken name =>
    match y.srv.find name with
    | none => (y, .err .notFound)
    | some _ => (y, .ok)   -- the token is `consistencyToken name`
  | .checkToken name token =>
    match y.srv.find name with
    | none => (y, .err .notFound)
    | some _ => if token = consistencyToken name then (y, .ok) else (y, .err .invalidArgument)

/-! ### The history of one table, and what the stamps say about it -/

inductive Ev
  | read
  | write
  | wait (d : Nat)
  /-- a pass that got past the test (forced, or found the table quiet) -/
  | pass
deriving DecidableEq, Repr

def Activity.apply (a : Activity) : Ev → Activity
  | .read => a.read
  | .write => a.write
  | .wait d => a.wait d
  | .pass => a.passed

/-- the stamps after a history that starts with the table's creation -/
def Activity.after (h : List Ev) : Activity := h.foldl Activity.apply {}

/-! The same, read off the history: walking back from now (`h` most recent first). -/

def Ev.span : Ev → Nat
  | .wait d => d
  | _ => 0

/-- time since the most recent event satisfying `p`, or since the creation -/
def backSince (p : Ev → Bool) : List Ev → Nat
  | [] => 0
  | e :: older => if p e then 0 else e.span + backSince p older

/-- is there a write (or the creation itself) more recent than every pass? -/
def backDirty : List Ev → Bool
  | [] => true
  | .write :: _ => true
  | .pass :: _ => false
  | _ :: older => backDirty older

end Emu.Bt
