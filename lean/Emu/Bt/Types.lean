/-
  Bigtable emulator Model — data types and the row-level helpers of `bttest/inmem.go`
  (`getFamily`, `getOrCreateFamily`, `getColumn`, `getOrCreateColumn`, `appendOrReplaceCell`,
  `scrubRow`, `scrubFam`, `isEmpty`, `copyRow` is the identity on immutable values).
-/
import Emu.Basic.Bytes
import Emu.Basic.Sort
import Emu.Generated.Consts

namespace Emu.Bt

structure Cell where
  ts : Int
  value : Bytes
  labels : List Bytes := []
deriving DecidableEq, Repr, Inhabited

structure Column where
  qual : Bytes
  cells : List Cell
deriving DecidableEq, Repr, Inhabited

structure Family where
  name : Bytes
  cols : List Column
deriving DecidableEq, Repr, Inhabited

structure Row where
  key : Bytes
  fams : List Family
deriving DecidableEq, Repr, Inhabited

/-- GC rules (`btapb.GcRule`).  `other` stands for every rule kind the emulator does not
    implement (intersection, unset oneof). -/
inductive GcRule
  | maxVersions (n : Int)
  | maxAge (seconds : Int) (nanos : Int)
  | union (rules : List GcRule)
  | other
deriving Inhabited

/-- Column families of a table: name ↦ optional GC rule (a Go map; order is irrelevant). -/
abbrev Schema := List (Bytes × Option GcRule)

def Schema.has (s : Schema) (fam : Bytes) : Bool := s.any (·.1 == fam)
def Schema.rule? (s : Schema) (fam : Bytes) : Option GcRule :=
  match s.find? (·.1 == fam) with
  | some (_, r) => r
  | none => none

/-- Apply `g` to the first element satisfying `p` (Go: mutate through the pointer returned by a
    linear search). -/
def modifyFirst {α} (p : α → Bool) (g : α → α) : List α → List α
  | [] => []
  | x :: xs => if p x then g x :: xs else x :: modifyFirst p g xs

def Row.getFamily (r : Row) (name : Bytes) : Option Family := r.fams.find? (·.name == name)
def Family.getColumn (f : Family) (q : Bytes) : Option Column := f.cols.find? (·.qual == q)

/-- `getOrCreateColumn` followed by an assignment to `col.Cells`. -/
def Family.setCells (f : Family) (q : Bytes) (g : List Cell → List Cell) : Family :=
  if f.cols.any (·.qual == q) then
    { f with cols := modifyFirst (·.qual == q) (fun c => { c with cells := g c.cells }) f.cols }
  else
    { f with cols := f.cols ++ [⟨q, g []⟩] }

/-- `getOrCreateFamily` + `getOrCreateColumn` + assignment to the column's cells. -/
def Row.setCells (r : Row) (fam q : Bytes) (g : List Cell → List Cell) : Row :=
  if r.fams.any (·.name == fam) then
    { r with fams := modifyFirst (·.name == fam) (fun f => f.setCells q g) r.fams }
  else
    { r with fams := r.fams ++ [(Family.mk fam []).setCells q g] }

/-- Cells of a column (empty when family or column is missing). -/
def Row.cellsOf (r : Row) (fam q : Bytes) : List Cell :=
  match r.getFamily fam with
  | none => []
  | some f => match f.getColumn q with
    | none => []
    | some c => c.cells

/-- `appendOrReplaceCell`: replace the first cell with the same timestamp, otherwise append; then
    sort by descending timestamp. -/
def appendOrReplaceCell (cs : List Cell) (c : Cell) : List Cell :=
  if cs.any (·.ts == c.ts) then
    sortBy (fun a b => decide (a.ts ≥ b.ts)) (modifyFirst (·.ts == c.ts) (fun _ => c) cs)
  else
    sortBy (fun a b => decide (a.ts ≥ b.ts)) (cs ++ [c])

/-- `scrubFam`: drop columns without cells, sort the rest by qualifier. -/
def scrubFam (f : Family) : Family :=
  { f with cols := sortBy (fun a b => decide (a.qual ≤ b.qual)) (f.cols.filter (!·.cells.isEmpty)) }

/-- `scrubRow`: drop families that are not in the schema, scrub the others, drop the ones left
    without columns. -/
def scrubRow (s : Schema) (r : Row) : Row :=
  { r with fams := ((r.fams.filter (s.has ·.name)).map scrubFam).filter (!·.cols.isEmpty) }

def Row.isEmpty (r : Row) : Bool := r.fams.all fun f => f.cols.all fun c => c.cells.isEmpty

def Row.cellCount (r : Row) : Nat :=
  (r.fams.map fun f => (f.cols.map (·.cells.length)).sum).sum

def validTimestamp (ts : Int) : Bool :=
  decide (Generated.minValidMilliSeconds ≤ ts) && decide (ts ≤ Generated.maxValidMilliSeconds)
    && decide (ts % 1000 = 0)

/-- `bigtable.Timestamp.TruncateToMilliseconds` (Go `%` truncates toward zero). -/
def truncMs (now : Int) : Int := if now = -1 then -1 else now - Int.tmod now 1000

/-! ### The row store: an association list kept sorted by key (btree / leveldb). -/

abbrev Rows := List Row

def Rows.get (rows : Rows) (k : Bytes) : Option Row := rows.find? (·.key == k)

def Rows.delete (rows : Rows) (k : Bytes) : Rows := rows.filter (·.key != k)

/-- `ReplaceOrInsert`, keeping ascending key order. -/
def Rows.put : Rows → Row → Rows
  | [], r => [r]
  | x :: xs, r =>
    if r.key < x.key then r :: x :: xs
    else if r.key = x.key then r :: xs
    else x :: Rows.put xs r

def Rows.getOrCreate (rows : Rows) (k : Bytes) : Row :=
  match rows.get k with
  | some r => r
  | none => ⟨k, []⟩

/-- `table.updateRow`: scrub, then delete the row if nothing is left, else store it. -/
def Rows.update (s : Schema) (rows : Rows) (r : Row) : Rows :=
  let r' := scrubRow s r
  if r'.fams.isEmpty then rows.delete r'.key else rows.put r'

end Emu.Bt
