/-
  A ReadRows scan on a leveldb-backed table while the table is being written (C18).

  `ReadRows` walks the merged ranges in order.  For each range it calls `tbl.rows.Ascend*`, which
  (leveldb engines) creates an iterator: a snapshot of the store taken at that moment, under the
  table's read lock, hence a state between two atomic writes.  While a response message is being
  streamed the lock is released and writers run; the snapshot is not affected.  The next range
  takes a new snapshot.

  The machine below is more permissive than the code: a write may happen between any two steps of
  the scan (in the code only while a message is streamed), so what is proved for every run of the
  machine holds for every run of the code.  Ghost fields (`hist`, `opened`) record every state the
  table had and which snapshot each range saw.  Trusted: a goleveldb iterator is a snapshot taken
  at creation.
-/
import Emu.Bt.Read

namespace Emu.Bt.Scan
open Emu.Bt

structure St where
  /-- the table now -/
  cur : Rows
  /-- ghost: every state the table had since the scan began, oldest first -/
  hist : List Rows
  /-- ranges still to be scanned -/
  todo : List SimpleRange
  /-- rows of the open range's snapshot not yet visited (`none`: no range is open) -/
  snap : Option (List Row) := none
  /-- rows handed to the per-row callback so far, in order -/
  visited : List Row := []
  /-- ghost: the ranges opened so far, each with the snapshot it was given -/
  opened : List (SimpleRange × Rows) := []

inductive Act
  | openRange
  | row
  | closeRange
  /-- an atomic write by a concurrent client: the table becomes `rows'` -/
  | write (rows' : Rows)

def step (s : St) : Act → Option St
  | .openRange =>
    match s.snap, s.todo with
    | none, sr :: rest =>
      some { s with todo := rest, snap := some (s.cur.filter (sr.contains ·.key)), opened := s.opened ++ [(sr, s.cur)] }
    | _, _ => none
  | .row =>
    match s.snap with
    | some (r :: more) => some { s with snap := some more, visited := s.visited ++ [r] }
    | _ => none
  | .closeRange =>
    match s.snap with
    | some [] => some { s with snap := none }
    | _ => none
  | .write rows' => some { s with cur := rows', hist := s.hist ++ [rows'] }

def run (s : St) : List Act → Option St
  | [] => some s
  | a :: rest =>
    match step s a with
    | none => none
    | some s' => run s' rest

def init (rows : Rows) (srs : List SimpleRange) : St := { cur := rows, hist := [rows], todo := srs }

/-- the scan has walked every range -/
def St.finished (s : St) : Prop := s.todo = [] ∧ s.snap = none

/-- rows of the open range that are still to come -/
def St.pending (s : St) : List Row := s.snap.getD []

/-- what the ranges opened so far were given -/
def St.seen (s : St) : List Row := s.opened.flatMap fun p => p.2.filter (p.1.contains ·.key)

end Emu.Bt.Scan
