/-
  `gcsutil.TransientLockMap` as a small-step machine.

  Every step is one mutex-guarded section of the map (`l.mu`) or one channel operation of a
  `countedLock`; the structural fact T5(vi) checks that `locks` and `refcount` are only touched
  inside `l.mu` sections, which is what makes those sections atomic steps.

    Lock(ctx,k):   enter   : [l.mu] lookup-or-create entry k; refcount++
                   acquire : send on the entry's 1-slot channel        (enabled iff the slot is empty)
                   giveUp  : ctx is done                               (enabled iff the call was cancelled)
                   backOut : [l.mu] refcount--; delete entry if 0      (then Lock returns false)
    Unlock(k):     find    : [l.mu] lookup entry k                     (panic if absent)
                   release : receive from the channel                  (panic if the slot is empty)
                   leave   : [l.mu] refcount--; delete entry if 0
-/
namespace Emu.Lock

abbrev Key := Nat

/-- program counter of one client goroutine -/
inductive PC
  | idle
  | wait (k : Key)        -- between `enter` and the select
  | holding (k : Key)     -- Lock returned true
  | givingUp (k : Key)    -- select chose ctx.Done(); before `backOut`
  | failed                -- Lock returned false
  | found (k : Key)       -- Unlock: entry looked up
  | released (k : Key)    -- Unlock: channel slot emptied; before `leave`
  | panicked
deriving DecidableEq, Repr, Inhabited

structure Thread where
  pc : PC := .idle
  cancelled : Bool := false
deriving DecidableEq, Repr, Inhabited

structure Entry where
  refcount : Nat
  full : Bool
deriving DecidableEq, Repr, Inhabited

structure St where
  ent : Key → Option Entry := fun _ => none
  threads : List Thread := []

inductive Action
  | enter (k : Key)
  | acquire
  | giveUp
  | backOut
  | find
  | release
  | leave
  | cancel          -- environment: the caller's context ends
  | again           -- a failed / finished caller starts over with a fresh context
  /-- Unlock(k) by a caller that holds nothing -/
  | strayUnlock (k : Key)
deriving DecidableEq, Repr, Inhabited

def setEnt (ent : Key → Option Entry) (k : Key) (v : Option Entry) : Key → Option Entry :=
  fun k' => if k' = k then v else ent k'

/-- `refcount--; delete if 0` -/
def dropRef (ent : Key → Option Entry) (k : Key) : Key → Option Entry :=
  match ent k with
  | none => ent
  | some e => if e.refcount ≤ 1 then setEnt ent k none else setEnt ent k (some { e with refcount := e.refcount - 1 })

def setThread (s : St) (t : Nat) (th : Thread) : St := { s with threads := s.threads.set t th }

/-- One step of thread `t`; `none` = not enabled (the goroutine is blocked, or the action does not
    apply at its program counter). -/
def step (s : St) (t : Nat) (a : Action) : Option St :=
  match s.threads[t]? with
  | none => none
  | some th =>
    match th.pc, a with
    | .idle, .enter k =>
      let e := (s.ent k).getD ⟨0, false⟩
      some { ent := setEnt s.ent k (some { e with refcount := e.refcount + 1 }),
             threads := s.threads.set t { th with pc := .wait k } }
    | .wait k, .acquire =>
      match s.ent k with
      | some e => if e.full then none
                  else some { ent := setEnt s.ent k (some { e with full := true }),
                              threads := s.threads.set t { th with pc := .holding k } }
      | none => none
    | .wait k, .giveUp => if th.cancelled then some (setThread s t { th with pc := .givingUp k }) else none
    | .givingUp k, .backOut => some { ent := dropRef s.ent k, threads := s.threads.set t { th with pc := .failed } }
    | .holding k, .find =>
      match s.ent k with
      | some _ => some (setThread s t { th with pc := .found k })
      | none => some (setThread s t { th with pc := .panicked })
    | .found k, .release =>
      match s.ent k with
      | some e => if e.full then some { ent := setEnt s.ent k (some { e with full := false }),
                                        threads := s.threads.set t { th with pc := .released k } }
                  else some (setThread s t { th with pc := .panicked })
      | none => some (setThread s t { th with pc := .panicked })
    | .released k, .leave => some { ent := dropRef s.ent k, threads := s.threads.set t { th with pc := .idle } }
    | .failed, .again => some (setThread s t { pc := .idle, cancelled := false })
    | .idle, .strayUnlock k =>
      match s.ent k with
      | none => some (setThread s t { th with pc := .panicked })
      | some e => if e.full then none   -- held by someone else: not "a key that is not held"
                  else some (setThread s t { th with pc := .panicked })
    | _, .cancel => some (setThread s t { th with cancelled := true })
    | _, _ => none

/-- run a schedule; stops at the first step that is not enabled -/
def run (s : St) : List (Nat × Action) → Option St
  | [] => some s
  | (t, a) :: rest =>
    match step s t a with
    | none => none
    | some s' => run s' rest

def init (n : Nat) : St := { threads := List.replicate n {} }

end Emu.Lock
