/-
  The atomic-section argument, once and for all.

  `n` client goroutines each perform one operation `f i : σ → σ × ρ` on a shared state, bracketed
  by one lock:   invoke ; acquire ; work (the whole effect of `f i`) ; release ; respond.
  Any number of goroutines, any interleaving of their steps.  Ghost state records the order in
  which goroutines did their `work` (`lin`), and, for each goroutine, how long `lin` was when it
  invoked (`snap`) so that real-time order can be stated.

  Instantiated by: the per-table `sync.RWMutex` of the Bigtable emulator (C06, C16, C18; readers are
  operations that leave the state unchanged) and the per-object lock of the GCS emulator (C07).
-/
namespace Emu.Conc

inductive Pc
  | notStarted | ready | inside | worked | released | finished
deriving DecidableEq, Repr, Inhabited

structure Th (ρ : Type) where
  pc : Pc := .notStarted
  res : Option ρ := none
  /-- length of `lin` when the goroutine invoked -/
  snap : Nat := 0
  /-- the goroutines that had already responded when this one invoked -/
  before : List Nat := []
deriving Inhabited

structure Sys (σ ρ : Type) where
  st : σ
  holder : Option Nat := none
  ths : List (Th ρ)
  /-- goroutines in the order of their linearisation points (`work`) -/
  lin : List Nat := []

inductive Act
  | invoke | acquire | work | release | respond
deriving DecidableEq, Repr

variable {σ ρ : Type}

def step (f : Nat → σ → σ × ρ) (s : Sys σ ρ) (i : Nat) (a : Act) : Option (Sys σ ρ) :=
  match s.ths[i]? with
  | none => none
  | some th =>
    match th.pc, a with
    | .notStarted, .invoke =>
      some { s with ths := s.ths.set i { th with pc := .ready, snap := s.lin.length,
                                                  before := (List.range s.ths.length).filter fun j =>
                                                    match s.ths[j]? with
                                                    | some tj => tj.pc == .finished
                                                    | none => false } }
    | .ready, .acquire =>
      match s.holder with
      | some _ => none
      | none => some { s with holder := some i, ths := s.ths.set i { th with pc := .inside } }
    | .inside, .work =>
      let r := f i s.st
      some { s with st := r.1, lin := s.lin ++ [i], ths := s.ths.set i { th with pc := .worked, res := some r.2 } }
    | .worked, .release => some { s with holder := none, ths := s.ths.set i { th with pc := .released } }
    | .released, .respond => some { s with ths := s.ths.set i { th with pc := .finished } }
    | _, _ => none

def run (f : Nat → σ → σ × ρ) (s : Sys σ ρ) : List (Nat × Act) → Option (Sys σ ρ)
  | [] => some s
  | (i, a) :: rest =>
    match step f s i a with
    | none => none
    | some s' => run f s' rest

def init (st0 : σ) (n : Nat) : Sys σ ρ := { st := st0, ths := List.replicate n {} }

/-- sequential execution of the operations of `order`, collecting each result -/
def seqRun (f : Nat → σ → σ × ρ) (st : σ) : List Nat → σ × List (Nat × ρ)
  | [] => (st, [])
  | i :: rest =>
    let r := f i st
    let (stf, rs) := seqRun f r.1 rest
    (stf, (i, r.2) :: rs)

end Emu.Conc
