/-
  Association lists with first-match lookup and replace-or-append update (Go maps whose iteration
  order the Model never depends on, and small keyed collections).
-/
namespace Emu

def aget {α β} [BEq α] : List (α × β) → α → Option β
  | [], _ => none
  | (k', v) :: rest, k => if k' == k then some v else aget rest k

def aset {α β} [BEq α] : List (α × β) → α → β → List (α × β)
  | [], k, v => [(k, v)]
  | (k', v') :: rest, k, v => if k' == k then (k, v) :: rest else (k', v') :: aset rest k v

def adel {α β} [BEq α] : List (α × β) → α → List (α × β)
  | [], _ => []
  | (k', v') :: rest, k => if k' == k then adel rest k else (k', v') :: adel rest k

section
variable {α β : Type} [BEq α] [LawfulBEq α]

@[simp] theorem aget_aset_self (l : List (α × β)) (k : α) (v : β) : aget (aset l k v) k = some v := by
  induction l with
  | nil => simp [aset, aget]
  | cons x xs ih =>
    obtain ⟨k', v'⟩ := x
    simp only [aset]
    split
    · simp [aget]
    · rename_i h; simp [aget, h, ih]

theorem aget_aset_other (l : List (α × β)) (k k' : α) (v : β) (h : k' ≠ k) :
    aget (aset l k v) k' = aget l k' := by
  induction l with
  | nil =>
    have : (k == k') = false := by simp [beq_eq_false_iff_ne]; exact fun e => h e.symm
    simp [aset, aget, this]
  | cons x xs ih =>
    obtain ⟨k0, v0⟩ := x
    simp only [aset]
    split
    · rename_i h0
      have e : k0 = k := by simpa using h0
      have : (k == k') = false := by simp [beq_eq_false_iff_ne]; exact fun e => h e.symm
      simp [aget, e, this]
    · simp only [aget]
      split
      · rfl
      · exact ih

@[simp] theorem aget_adel_self (l : List (α × β)) (k : α) : aget (adel l k) k = none := by
  induction l with
  | nil => rfl
  | cons x xs ih =>
    obtain ⟨k0, v0⟩ := x
    simp only [adel]
    split
    · exact ih
    · rename_i h; simp [aget, h, ih]

theorem aget_adel_other (l : List (α × β)) (k k' : α) (h : k' ≠ k) :
    aget (adel l k) k' = aget l k' := by
  induction l with
  | nil => rfl
  | cons x xs ih =>
    obtain ⟨k0, v0⟩ := x
    simp only [adel]
    split
    · rename_i h0
      have e : k0 = k := by simpa using h0
      have : (k == k') = false := by simp [beq_eq_false_iff_ne]; exact fun e => h e.symm
      simp [aget, e, this, ih]
    · simp only [aget]
      split
      · rfl
      · exact ih

end
end Emu
