/-
  Byte regular expressions with a Brzozowski-derivative matcher.

  The emulator compiles every filter pattern as `^(?:pat)$` with `rsc.io/binaryregexp`, i.e. a
  whole-field, bytewise match.  The harness generates patterns as ASTs, prints RE2 syntax for Go and
  sends the AST to this Model, so no RE2 parser is needed (or trusted) on the Lean side.
  `Lang` is the declarative meaning; `matches_iff` (in Proofs/Regex) ties the matcher to it.
-/
import Emu.Basic.Bytes

namespace Emu

inductive Regex
  | empty                                    -- ε
  | never                                    -- ∅
  | byte (b : Nat)
  | anyByte                                  -- `\C`
  | dot                                      -- `.` : any byte but `\n`
  | cls (neg : Bool) (ranges : List (Nat × Nat))   -- `[a-z0-9]`, `[^…]`
  | cat (a b : Regex)
  | alt (a b : Regex)
  | star (a : Regex)
deriving Repr, Inhabited, DecidableEq

namespace Regex

def inRanges (rs : List (Nat × Nat)) (b : Nat) : Bool := rs.any fun (lo, hi) => lo ≤ b && b ≤ hi

/-- single-byte test of the leaf constructors -/
def byteOk : Regex → Nat → Bool
  | byte c, b => b == c
  | anyByte, _ => true
  | dot, b => b != 10
  | cls neg rs, b => inRanges rs b != neg
  | _, _ => false

def nullable : Regex → Bool
  | empty => true
  | never => false
  | byte _ => false
  | anyByte => false
  | dot => false
  | cls _ _ => false
  | cat a b => nullable a && nullable b
  | alt a b => nullable a || nullable b
  | star _ => true

def deriv (x : Nat) : Regex → Regex
  | empty => never
  | never => never
  | byte c => if x == c then empty else never
  | anyByte => empty
  | dot => if x != 10 then empty else never
  | cls neg rs => if inRanges rs x != neg then empty else never
  | cat a b => if nullable a then alt (cat (deriv x a) b) (deriv x b) else cat (deriv x a) b
  | alt a b => alt (deriv x a) (deriv x b)
  | star a => cat (deriv x a) (star a)

/-- whole-string match -/
def «matches» (r : Regex) : Bytes → Bool
  | [] => nullable r
  | x :: xs => «matches» (deriv x r) xs

/-- Declarative language of a regex. -/
inductive Lang : Regex → Bytes → Prop
  | empty : Lang .empty []
  | byte (c : Nat) : Lang (.byte c) [c]
  | anyByte (b : Nat) : Lang .anyByte [b]
  | dot (b : Nat) : b ≠ 10 → Lang .dot [b]
  | cls (neg : Bool) (rs : List (Nat × Nat)) (b : Nat) :
      (inRanges rs b != neg) = true → Lang (.cls neg rs) [b]
  | cat {a b : Regex} {s t : Bytes} : Lang a s → Lang b t → Lang (.cat a b) (s ++ t)
  | altL {a b : Regex} {s : Bytes} : Lang a s → Lang (.alt a b) s
  | altR {a b : Regex} {s : Bytes} : Lang b s → Lang (.alt a b) s
  | starNil {a : Regex} : Lang (.star a) []
  | starCons {a : Regex} {s t : Bytes} : Lang a s → Lang (.star a) t → Lang (.star a) (s ++ t)

end Regex
end Emu
