/-
  Byte strings and the bytewise order used everywhere in the two emulators
  (`bytes.Compare`, Go string `<`, leveldb's default comparer, btree `Less`).

  `Bytes` is `List Nat`; the order is core Lean's lexicographic order on lists, which core
  already proves to be a linear order.  A byte-range invariant (`< 256`) is carried only where
  width matters (big-endian int64 in the RMW model).
-/
namespace Emu

abbrev Bytes := List Nat

namespace Bytes

/-- `bytes.HasPrefix k p` / `strings.HasPrefix`. -/
def hasPrefix (k p : Bytes) : Bool := p.isPrefixOf k

/-- three-way `bytes.Compare`. -/
def cmp (a b : Bytes) : Ordering :=
  if a < b then .lt else if a = b then .eq else .gt

def hexDigit (n : Nat) : Char :=
  if n < 10 then Char.ofNat (48 + n) else Char.ofNat (87 + n)

def toHex (b : Bytes) : String :=
  "x" ++ String.ofList (b.flatMap fun n => [hexDigit (n / 16 % 16), hexDigit (n % 16)])

def hexVal (c : Char) : Option Nat :=
  if '0' ≤ c ∧ c ≤ '9' then some (c.toNat - 48)
  else if 'a' ≤ c ∧ c ≤ 'f' then some (c.toNat - 87)
  else if 'A' ≤ c ∧ c ≤ 'F' then some (c.toNat - 55)
  else none

def ofHexChars : List Char → Option Bytes
  | [] => some []
  | [_] => none
  | a :: b :: rest => do
    let x ← hexVal a
    let y ← hexVal b
    let r ← ofHexChars rest
    pure ((x * 16 + y) :: r)

/-- Parse the wire form `x<hex>` (so the empty string is `x`). -/
def ofHex (s : String) : Option Bytes :=
  match s.toList with
  | 'x' :: cs => ofHexChars cs
  | _ => none

def ofString (s : String) : Bytes := s.toUTF8.toList.map (·.toNat)

end Bytes

/-! ### Order facts used by the range, listing and drop-range proofs -/

theorem Bytes.lt_irrefl' (a : Bytes) : ¬ a < a := List.lt_irrefl a

/-- **Successor lemma**: `k ++ [0]` is the immediate successor of `k` in the bytewise order.
    This is why `mergeRowRanges` may encode an open start / closed end as `append(key, 0)`. -/
theorem Bytes.lt_iff_succ_le (k x : Bytes) : k < x ↔ k ++ [0] ≤ x := by
  induction k generalizing x with
  | nil =>
    cases x with
    | nil => simp
    | cons b t =>
      simp only [List.nil_append, List.nil_lt_cons, true_iff]
      rw [List.cons_le_cons_iff]
      rcases Nat.eq_zero_or_pos b with h | h
      · right; exact ⟨h.symm, List.nil_le _⟩
      · left; exact h
  | cons a k ih =>
    cases x with
    | nil => simp
    | cons b t =>
      simp only [List.cons_append]
      rw [List.cons_lt_cons_iff, List.cons_le_cons_iff, ih]

theorem Bytes.le_iff_lt_succ (k x : Bytes) : x ≤ k ↔ x < k ++ [0] := by
  have h := Bytes.lt_iff_succ_le k x
  grind

end Emu
