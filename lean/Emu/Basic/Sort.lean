/-
  A tiny insertion sort with an explicit "less-or-equal" test, used wherever the Go code calls
  `sort.Slice` / `sort.Sort`.  Go's sorts are unstable, the Model's is stable; on inputs whose keys
  are pairwise distinct (the only ones the properties fix an order for) both give the unique sorted
  permutation.  Where keys may repeat (interleave duplicates) the harness canonicalises equal-key
  groups before comparing.
-/
namespace Emu

/-- Insert `x` after every element `y` with `le y x` (stable). -/
def insertBy {α} (le : α → α → Bool) (x : α) : List α → List α
  | [] => [x]
  | y :: ys => if le y x then y :: insertBy le x ys else x :: y :: ys

def sortBy {α} (le : α → α → Bool) : List α → List α
  | [] => []
  | x :: xs => insertBy le x (sortBy le xs)

/-- Stable variant that processes left to right (equal keys keep their input order). -/
def stableSortBy {α} (le : α → α → Bool) (l : List α) : List α :=
  l.foldl (fun acc x => insertBy le x acc) []

theorem length_insertBy {α} (le : α → α → Bool) (x : α) (l : List α) :
    (insertBy le x l).length = l.length + 1 := by
  induction l with
  | nil => rfl
  | cons y ys ih => simp only [insertBy]; split <;> simp [ih]

theorem mem_insertBy {α} (le : α → α → Bool) (x a : α) (l : List α) :
    a ∈ insertBy le x l ↔ a = x ∨ a ∈ l := by
  induction l with
  | nil => simp [insertBy]
  | cons y ys ih =>
    simp only [insertBy]; split
    · simp only [List.mem_cons, ih]; grind
    · simp only [List.mem_cons]

theorem mem_sortBy {α} (le : α → α → Bool) (a : α) (l : List α) :
    a ∈ sortBy le l ↔ a ∈ l := by
  induction l with
  | nil => simp [sortBy]
  | cons y ys ih => simp only [sortBy, mem_insertBy, ih, List.mem_cons]

end Emu

namespace Emu

theorem perm_insertBy {α} (le : α → α → Bool) (x : α) (l : List α) : (insertBy le x l).Perm (x :: l) := by
  induction l with
  | nil => exact List.Perm.refl _
  | cons y ys ih =>
    simp only [insertBy]
    split
    · exact (List.Perm.cons y ih).trans (List.Perm.swap x y ys)
    · exact List.Perm.refl _

theorem perm_sortBy {α} (le : α → α → Bool) (l : List α) : (sortBy le l).Perm l := by
  induction l with
  | nil => exact List.Perm.refl _
  | cons x xs ih => exact (perm_insertBy le x _).trans (List.Perm.cons x ih)

theorem length_sortBy {α} (le : α → α → Bool) (l : List α) : (sortBy le l).length = l.length :=
  (perm_sortBy le l).length_eq

/-- inserting into a sorted list keeps it sorted (total, transitive order) -/
theorem pairwise_insertBy {α} (le : α → α → Bool)
    (total : ∀ a b, le a b = true ∨ le b a = true)
    (trans : ∀ a b c, le a b = true → le b c = true → le a c = true)
    (x : α) (l : List α) (h : l.Pairwise (fun a b => le a b = true)) :
    (insertBy le x l).Pairwise (fun a b => le a b = true) := by
  induction l with
  | nil => simp [insertBy]
  | cons y ys ih =>
    simp only [insertBy]
    rw [List.pairwise_cons] at h
    split
    · rename_i hyx
      rw [List.pairwise_cons]
      refine ⟨?_, ih h.2⟩
      intro z hz
      rw [mem_insertBy] at hz
      cases hz with
      | inl e => rw [e]; exact hyx
      | inr hz => exact h.1 z hz
    · rename_i hyx
      have hxy : le x y = true := by
        cases total x y with
        | inl h' => exact h'
        | inr h' => exact absurd h' hyx
      rw [List.pairwise_cons]
      refine ⟨?_, List.pairwise_cons.mpr h⟩
      intro z hz
      simp only [List.mem_cons] at hz
      cases hz with
      | inl e => rw [e]; exact hxy
      | inr hz => exact trans x y z hxy (h.1 z hz)

theorem pairwise_sortBy {α} (le : α → α → Bool)
    (total : ∀ a b, le a b = true ∨ le b a = true)
    (trans : ∀ a b c, le a b = true → le b c = true → le a c = true) (l : List α) :
    (sortBy le l).Pairwise (fun a b => le a b = true) := by
  induction l with
  | nil => simp [sortBy]
  | cons x xs ih => exact pairwise_insertBy le total trans x _ ih

/-- sorting a list that is already sorted (and whose order is antisymmetric on it) is the identity;
    stated for the strict case used by the Model: a strictly sorted list is a fixed point. -/
theorem insertBy_of_all_lt {α} (le : α → α → Bool) (x : α) (l : List α)
    (h : ∀ y ∈ l, le y x = false) : insertBy le x l = x :: l := by
  cases l with
  | nil => rfl
  | cons y ys => simp [insertBy, h y (by simp)]

theorem sortBy_of_strict {α} (le : α → α → Bool) (l : List α)
    (h : l.Pairwise (fun a b => le b a = false)) : sortBy le l = l := by
  induction l with
  | nil => rfl
  | cons x xs ih =>
    rw [List.pairwise_cons] at h
    simp only [sortBy, ih h.2]
    exact insertBy_of_all_lt le x xs h.1

end Emu
