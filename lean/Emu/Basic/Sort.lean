/-
  A tiny insertion sort with an explicit "less-or-equal" test, used wherever the Go code calls
  `sort.Slice` / `sort.Sort`.  Go's sorts are unstable, the Model's is stable; on inputs whose keys
  are pairwise distinct (the only ones the properties fix an order for) both give the unique sorted
  permutation.  Where keys may repeat (interleave duplicates) the harness canonicalises equal-key
  groups before comparing.
-/
namespace Emu

/-- Insert `x` after every element `y` with `le y x` (stable). -/
def insertBy {α} (le : α → α → Bool) (x : α) : List α → List α
  | [] => [x]
  | y :: ys => if le y x then y :: insertBy le x ys else x :: y :: ys

def sortBy {α} (le : α → α → Bool) : List α → List α
  | [] => []
  | x :: xs => insertBy le x (sortBy le xs)

/-- Stable variant that processes left to right (equal keys keep their input order). -/
def stableSortBy {α} (le : α → α → Bool) (l : List α) : List α :=
  l.foldl (fun acc x => insertBy le x acc) []

theorem length_insertBy {α} (le : α → α → Bool) (x : α) (l : List α) :
    (insertBy le x l).length = l.length + 1 := by
  induction l with
  | nil => rfl
  | cons y ys ih => simp only [insertBy]; split <;> simp [ih]

theorem mem_insertBy {α} (le : α → α → Bool) (x a : α) (l : List α) :
    a ∈ insertBy le x l ↔ a = x ∨ a ∈ l := by
  induction l with
  | nil => simp [insertBy]
  | cons y ys ih =>
    simp only [insertBy]; split
    · simp only [List.mem_cons, ih]; grind
    · simp only [List.mem_cons]

theorem mem_sortBy {α} (le : α → α → Bool) (a : α) (l : List α) :
    a ∈ sortBy le l ↔ a ∈ l := by
  induction l with
  | nil => simp [sortBy]
  | cons y ys ih => simp only [sortBy, mem_insertBy, ih, List.mem_cons]

end Emu
