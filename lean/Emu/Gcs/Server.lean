/-
  GCS emulator Model — the HTTP handlers as one sequential state machine.
-/
import Emu.Gcs.Model

namespace Emu.Gcs

/-- What a patch body supplies (absent fields are left alone; the user map is merged key-wise).
    `computed` = the body also carries intrinsic fields (generation, md5Hash, size, name, bucket,
    metageneration), which must be ignored. -/
structure PatchBody where
  contentType : Option Bytes := none
  cacheControl : Option Bytes := none
  userMeta : List (Bytes × Bytes) := []
  computed : Bool := false
  malformed : Bool := false
deriving Repr, Inhabited

structure ComposeSrc where
  name : Bytes
  /-- `objectPreconditions.ifGenerationMatch` (0 = absent) -/
  genMatch : Int := 0
deriving Repr, Inhabited

inductive Op
  | mkBucket (b : Bytes)
  | getBucket (b : Bytes)
  /-- media / multipart upload: the body is complete -/
  | upload (b n content : Bytes) («meta» : Meta) (declared : Option (Bool × Bool)) (c : RawConds)
  | resumeInit (b n : Bytes) («meta» : Meta) (declared : Option (Bool × Bool)) (c : RawConds)
  /-- `idx` is the ordinal of the initiation inside the program (0 = unknown id) -/
  | resumeChunk (idx : Nat) (r : Option ByteRange) (body : Bytes)
  | getMeta (b n : Bytes)
  | getMedia (b n : Bytes)
  | patch (b n : Bytes) (c : RawConds) (body : PatchBody)
  | delete (b n : Bytes) (c : RawConds)
  | compose (b dst : Bytes) (c : RawConds) (srcs : List ComposeSrc) («meta» : Option Meta)
  | copy (b1 n1 b2 n2 : Bytes)
  | listAll (b pfx delim : Bytes) (max : Nat)
  | listBad (b : Bytes)
  /-- a new emulator instance on the same store (file store): only in-memory upload sessions are lost -/
  | reopen
deriving Inhabited

inductive Resp
  | status (s : Status)
  /-- 412/304 with the set of codes the property allows -/
  | condFail (allow412 allow304 : Bool)
  | object (b : Bytes) (o : Obj)
  | media (o : Obj)
  | more (received : Nat)
  | pages (b : Bytes) (ps : List (List Obj × List Bytes)) (truncated : Bool)
  | bucket (b : Bytes)
  | rewrite (b : Bytes) (o : Obj)
  | uploadId (idx : Nat)
deriving Inhabited

/-- Which failure codes the property allows for a failed precondition. -/
def allowedCodes (o : Option Obj) (c : Conds) : Bool × Bool :=
  match o with
  | none => (true, c.genNotMatch != 0 || c.metaNotMatch != 0)
  | some o =>
    let m := c.doesNotExist || (c.genMatch != 0 && (o.gen : Int) != c.genMatch)
              || (c.metaMatch != 0 && (o.metagen : Int) != c.metaMatch)
    let nm := (c.genNotMatch != 0 && (o.gen : Int) == c.genNotMatch)
              || (c.metaNotMatch != 0 && (o.metagen : Int) == c.metaNotMatch)
    (m, nm)

def condFail (o : Option Obj) (c : Conds) : Resp :=
  let (a, b) := allowedCodes o c
  .condFail a b

def mergeMeta (old : List (Bytes × Bytes)) (upd : List (Bytes × Bytes)) : List (Bytes × Bytes) :=
  upd.foldl (fun acc (k, v) =>
    if acc.any (·.1 == k) then acc.map fun e => if e.1 == k then (k, v) else e
    else insertBy (fun (a b : Bytes × Bytes) => decide (a.1 ≤ b.1)) (k, v) acc) old

def applyPatch (m : Meta) (p : PatchBody) : Meta :=
  { m with contentType := p.contentType.getD m.contentType,
           cacheControl := p.cacheControl.getD m.cacheControl,
           userMeta := mergeMeta m.userMeta p.userMeta }

/-- store-level replace of an existing object (metadata patch) -/
def Store.replace (s : Store) (b : Bytes) (o : Obj) : Store :=
  s.setBucket b (((s.bucket? b).getD []).put o)

/-- Read the sources of a compose in the pre-state. -/
def composeData (s : Store) (b : Bytes) : List ComposeSrc → Except Resp (Bytes × Nat)
  | [] => .ok ([], 0)
  | src :: rest =>
    match s.obj? b src.name with
    | none => .error (.status .notFound)
    | some o =>
      match validateConds (some o) { genMatch := src.genMatch } with
      | .ok =>
        match composeData s b rest with
        | .error e => .error e
        | .ok (d, n) => .ok (o.content ++ d, o.meta.componentCount + n)
      | _ => .error (condFail (some o) { genMatch := src.genMatch })

def finishResp (s : Store) (b n : Bytes) (res : Store × Status) (c : Conds) : Store × Resp :=
  match res.2 with
  | .ok =>
    match res.1.obj? b n with
    | some o => (res.1, .object b o)
    | none => (res.1, .status .notFound)
  | .precondition | .notModified => (s, condFail (s.obj? b n) c)
  | st => (s, .status st)

def Store.setUploadData (s : Store) (idx : Nat) (data : Bytes) : Store :=
  { s with uploads := s.uploads.map fun x => if x.id == idx then { x with data := data } else x }

def Store.pin (s : Store) (idx : Nat) (d : Bytes) : Store :=
  { s with uploads := s.uploads.map fun x => if x.id == idx then { x with pinned := some d } else x }

def Store.dropUpload (s : Store) (idx : Nat) : Store :=
  { s with uploads := s.uploads.filter (·.id != idx) }

/-- the declared MD5 a completion attempt is checked against (see `Upload.pinned`) -/
def effectiveDeclared (u : Upload) (d : Bytes) : Option (Bool × Bool) :=
  match u.pinned with
  | some d0 => some (true, d0 == d)
  | none => u.declared

def md5Passes : Option (Bool × Bool) → Bool
  | some (false, _) => false
  | some (true, false) => false
  | _ => true

/-- All bytes of a resumable upload are in: run `finishUpload`; the session is dropped only on
    success. -/
def resumeFinish (s1 : Store) (u : Upload) (idx : Nat) (d : Bytes) : Store × Resp :=
  let decl := effectiveDeclared u d
  let s2 := if md5Passes decl then s1.pin idx d else s1
  let res := finishUpload s2 u.bucket u.name d u.meta decl u.conds
  if res.2 = .ok then finishResp s2 u.bucket u.name (res.1.dropUpload idx, .ok) u.conds
  else finishResp s2 u.bucket u.name (s2, res.2) u.conds

def pageObjs (os : Objs) (names : List Bytes) : List Obj := names.filterMap os.get

def step (s : Store) : Op → Store × Resp
  | .mkBucket b =>
    if (s.bucket? b).isSome then (s, .bucket b) else (s.setBucket b [], .bucket b)
  | .getBucket b => if (s.bucket? b).isSome then (s, .bucket b) else (s, .status .notFound)
  | .upload b n content m declared rc =>
    match parseConds rc with
    | none => (s, .status .badRequest)
    | some c => finishResp s b n (finishUpload s b n content m declared c) c
  | .resumeInit b n m declared rc =>
    match parseConds rc with
    | none => (s, .status .badRequest)
    | some c =>
      let id := s.nextId + 1
      ({ s with nextId := id, uploads := s.uploads ++ [⟨id, b, n, m, declared, c, [], none⟩] }, .uploadId id)
  | .resumeChunk idx r body =>
    match s.uploads.find? (·.id == idx) with
    | none => (s, .status .serverError)   -- gcache reports a missing key as an error: 500, not 404
    | some u =>
      match r with
      | none => (s, .status .badRequest)
      | some r =>
        match resumeStep u.data r body with
        | (.bad, _) => (s, .status .badRequest)
        | (.more k, data') => (s.setUploadData idx data', .more k)
        | (.done d, data') => resumeFinish (s.setUploadData idx data') u idx d
  | .getMeta b n =>
    match s.obj? b n with
    | some o => (s, .object b o)
    | none => (s, .status .notFound)
  | .getMedia b n =>
    match s.obj? b n with
    | some o => (s, .media o)
    | none => (s, .status .notFound)
  | .patch b n rc body =>
    match parseConds rc with
    | none => (s, .status .badRequest)
    | some c =>
      match s.obj? b n with
      | none => (s, .status .notFound)
      | some o =>
        match validateConds (some o) c with
        | .ok =>
          if body.malformed then (s, .status .badRequest)
          else
            let o' := { o with metagen := o.metagen + 1, «meta» := applyPatch o.meta body }
            (s.replace b o', .object b o')
        | _ => (s, condFail (some o) c)
  | .delete b n rc =>
    match parseConds rc with
    | none => (s, .status .badRequest)
    | some c =>
      if n.isEmpty then
        -- bucket delete: the "object" looked up is the bucket directory, which is never an object
        match validateConds none c with
        | .ok =>
          if (s.bucket? b).isSome then
            ({ s with buckets := adel s.buckets b }, .status .noContent)
          else (s, .status .notFound)
        | _ => (s, condFail none c)
      else
        match validateConds (s.obj? b n) c with
        | .ok =>
          match s.obj? b n with
          | none => (s, .status .notFound)
          | some _ => (s.setBucket b (((s.bucket? b).getD []).delete n), .status .noContent)
        | _ => (s, condFail (s.obj? b n) c)
  | .compose b dst rc srcs m =>
    match parseConds rc with
    | none => (s, .status .badRequest)
    | some c =>
      if srcs.length > Generated.gcsMaxComposeSources then (s, .status .badRequest)
      else
        match composeData s b srcs with
        | .error e => (s, e)
        | .ok (data, cnt) =>
          match validateConds (s.obj? b dst) c with
          | .ok =>
            let m0 := m.getD {}
            let m' := { m0 with md5 := [], componentCount := m0.componentCount + cnt }
            let s' := s.add b dst data m'
            match s'.obj? b dst with
            | some o => (s', .object b o)
            | none => (s', .status .notFound)
          | _ => (s, condFail (s.obj? b dst) c)
  | .copy b1 n1 b2 n2 =>
    match s.obj? b1 n1 with
    | none => (s, .status .notFound)
    | some o =>
      let s' := s.add b2 n2 o.content o.meta
      match s'.obj? b2 n2 with
      | some o' => (s', .rewrite b2 o')
      | none => (s', .status .notFound)
  | .listAll b pfx delim max =>
    match s.bucket? b with
    | none => (s, .status .notFound)
    | some os =>
      let fuel := os.length + 2
      let ps := listAll (os.map (·.name)) pfx delim max fuel []
      (s, .pages b (ps.map fun p => (pageObjs os p.items, p.prefixes))
            (match ps.getLast? with | some p => p.more | none => false))
  | .listBad _ => (s, .status .badRequest)
  | .reopen => ({ s with uploads := [], nextId := 0 }, .status .ok)

end Emu.Gcs
