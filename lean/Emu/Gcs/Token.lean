/-
  Page tokens (`gcsutil.EncodePageToken` / `DecodePageToken`): the protobuf wire form of a message
  with one length-delimited field (number 1, the name of the last object consumed), base64 aside.
  Object names are arbitrary byte strings of any length.
-/
import Emu.Basic.Bytes

namespace Emu.Gcs.Token

/-- base-128 varint, least significant group first -/
def varint (n : Nat) : Bytes :=
  if h : n < 128 then [n] else (n % 128 + 128) :: varint (n / 128)
termination_by n
decreasing_by omega

/-- read a varint: the value and what follows it (`none`: the bytes end inside it) -/
def unvarint : Bytes → Option (Nat × Bytes)
  | [] => none
  | b :: rest =>
    if b < 128 then some (b, rest)
    else match unvarint rest with
      | none => none
      | some (v, rest') => some (b - 128 + 128 * v, rest')

/-- the tag of field 1 with wire type 2 (length-delimited) -/
def lastFileTag : Nat := 10

/-- `EncodePageToken` before base64: nothing for the empty name (proto3 omits default values) -/
def encode (name : Bytes) : Bytes :=
  if name.isEmpty then [] else lastFileTag :: (varint name.length ++ name)

/-- `DecodePageToken` after base64, for messages made of `LastFile` fields only (the last one wins, as
    in protobuf); `none` = not such a message -/
def decodeFrom : Nat → Bytes → Bytes → Option Bytes
  | 0, _, _ => none
  | _ + 1, acc, [] => some acc
  | fuel + 1, acc, t :: rest =>
    if t = lastFileTag then
      match unvarint rest with
      | none => none
      | some (len, body) => if body.length < len then none else decodeFrom fuel (body.take len) (body.drop len)
    else none

def decode (b : Bytes) : Option Bytes := decodeFrom (b.length + 1) [] b

end Emu.Gcs.Token
