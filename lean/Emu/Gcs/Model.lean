/-
  GCS emulator Model (`storage/gcsemu`): buckets of objects, preconditions, the three upload
  protocols (media / multipart reach `finishUpload` directly, resumable through `resumeStep`),
  metadata patch, delete, compose, copy, and paginated listing.

  Generations: the stores take `time.Now().UnixNano()`; the Model takes a logical clock that is
  advanced by every successful content write, and the harness replaces real generations by their
  rank.  (Hypothesis, measured by the harness on every run: `time.Now()` is strictly increasing
  across successive writes.)  MD5 is an uninterpreted token supplied with the content.
-/
import Emu.Basic.Bytes
import Emu.Basic.Sort
import Emu.Basic.Assoc
import Emu.Generated.Consts

namespace Emu.Gcs

structure Meta where
  contentType : Bytes := []
  cacheControl : Bytes := []
  /-- user metadata map, kept sorted by key -/
  userMeta : List (Bytes × Bytes) := []
  md5 : Bytes := []
  componentCount : Nat := 0
deriving DecidableEq, Repr, Inhabited

structure Obj where
  name : Bytes
  content : Bytes
  gen : Nat
  metagen : Nat
  «meta» : Meta
deriving DecidableEq, Repr, Inhabited

/-- A bucket's objects, ascending by name (btree / sorted walk). -/
abbrev Objs := List Obj

def Objs.get : Objs → Bytes → Option Obj
  | [], _ => none
  | x :: xs, n => if x.name == n then some x else Objs.get xs n
def Objs.delete : Objs → Bytes → Objs
  | [], _ => []
  | x :: xs, n => if x.name == n then Objs.delete xs n else x :: Objs.delete xs n
def Objs.put : Objs → Obj → Objs
  | [], o => [o]
  | x :: xs, o =>
    if o.name < x.name then o :: x :: xs
    else if o.name = x.name then o :: xs
    else x :: Objs.put xs o

/-! ### Preconditions -/

/-- A condition parameter as sent: absent, a number, or unparsable text. -/
inductive CondArg
  | unset
  | num (n : Int)
  | bad
deriving DecidableEq, Repr, Inhabited

structure RawConds where
  gm : CondArg := .unset
  gnm : CondArg := .unset
  mm : CondArg := .unset
  mnm : CondArg := .unset
deriving DecidableEq, Repr, Inhabited

/-- `cloudstorage.Conditions` as filled by `parseConds`. -/
structure Conds where
  genMatch : Int := 0
  genNotMatch : Int := 0
  metaMatch : Int := 0
  metaNotMatch : Int := 0
  doesNotExist : Bool := false
deriving DecidableEq, Repr, Inhabited

def CondArg.val : CondArg → Int
  | .num n => n
  | _ => 0

/-- `parseConds`: `none` = 400. -/
def parseConds (r : RawConds) : Option Conds :=
  if r.gm == .bad || r.gnm == .bad || r.mm == .bad || r.mnm == .bad then none
  else some { genMatch := r.gm.val, genNotMatch := r.gnm.val, metaMatch := r.mm.val,
              metaNotMatch := r.mnm.val,
              doesNotExist := match r.gm with | .num n => n == 0 | _ => false }

inductive CondResult
  | ok
  | preconditionFailed    -- 412
  | notModified           -- 304
deriving DecidableEq, Repr, Inhabited

/-- `validateConds`, in the code's order. -/
def validateConds (o : Option Obj) (c : Conds) : CondResult :=
  match o with
  | none =>
    if c = {} || c = { doesNotExist := true } then .ok else .preconditionFailed
  | some o =>
    if c.doesNotExist then .preconditionFailed
    else if c.genMatch != 0 && (o.gen : Int) != c.genMatch then .preconditionFailed
    else if c.genNotMatch != 0 && (o.gen : Int) == c.genNotMatch then .notModified
    else if c.metaMatch != 0 && (o.metagen : Int) != c.metaMatch then .preconditionFailed
    else if c.metaNotMatch != 0 && (o.metagen : Int) == c.metaNotMatch then .notModified
    else .ok

/-! ### The store -/

structure Upload where
  id : Nat
  bucket : Bytes
  name : Bytes
  «meta» : Meta
  /-- declared MD5: `none` = not declared; `some (valid, equalToComputed)` -/
  declared : Option (Bool × Bool)
  conds : Conds
  data : Bytes := []
  /-- `finishUpload` stores the computed MD5 in the session's object once the declared-MD5 check
      has passed; a later completion attempt of the same session must carry the same bytes. -/
  pinned : Option Bytes := none
deriving Repr, Inhabited

structure Store where
  buckets : List (Bytes × Objs) := []
  /-- logical clock = number of successful content writes so far -/
  clock : Nat := 0
  uploads : List Upload := []
  nextId : Nat := 0
deriving Inhabited

def Store.bucket? (s : Store) (b : Bytes) : Option Objs := aget s.buckets b

def Store.obj? (s : Store) (b n : Bytes) : Option Obj :=
  match s.bucket? b with
  | some os => os.get n
  | none => none

def Store.setBucket (s : Store) (b : Bytes) (os : Objs) : Store :=
  { s with buckets := aset s.buckets b os }

/-- `Store.Add`: creates the bucket if needed; new generation, metageneration 1. -/
def Store.add (s : Store) (b n : Bytes) (content : Bytes) (m : Meta) : Store :=
  let g := s.clock + 1
  let os := (s.bucket? b).getD []
  { s.setBucket b (os.put ⟨n, content, g, 1, m⟩) with clock := g }

inductive Status
  | ok            -- 200
  | noContent     -- 204
  | resume        -- 308
  | badRequest    -- 400
  | notFound      -- 404
  | precondition  -- 412
  | notModified   -- 304
  | serverError   -- 500
deriving DecidableEq, Repr, Inhabited

def CondResult.status : CondResult → Status
  | .ok => .ok
  | .preconditionFailed => .precondition
  | .notModified => .notModified

/-- `finishUpload` after the body has been assembled.  `declared`: see `Upload.declared`. -/
def finishUpload (s : Store) (b n content : Bytes) (m : Meta) (declared : Option (Bool × Bool))
    (c : Conds) : Store × Status :=
  match declared with
  | some (false, _) => (s, .badRequest)
  | some (true, false) => (s, .badRequest)
  | _ =>
    match validateConds (s.obj? b n) c with
    | .ok => (s.add b n content m, .ok)
    | r => (s, r.status)

/-! ### Resumable uploads -/

/-- `Content-Range` as parsed by `parseByteRange`: `lo = hi = -1` for `*`, `sz = -1` for `*`. -/
structure ByteRange where
  lo : Int
  hi : Int
  sz : Int
deriving DecidableEq, Repr, Inhabited

inductive ResumeOut
  | bad                      -- 400
  | more (received : Nat)    -- 308, Range: bytes=0-(received-1)
  | done (data : Bytes)      -- all bytes are in: hand over to finishUpload
deriving Repr, Inhabited

/-- the request is refused: `*` with a body, a range whose length differs from the body's, or
    a range that starts beyond what has been received ("missing content") -/
def resumeRejects (data : Bytes) (r : ByteRange) (body : Bytes) : Bool :=
  (r.lo == -1 && body.length != 0) ||
  (r.lo != -1 && (body.length : Int) != r.hi + 1 - r.lo) ||
  decide ((data.length : Int) < r.lo)

/-- truncate at `lo` (a re-sent range), then append -/
def resumeData (data : Bytes) (r : ByteRange) (body : Bytes) : Bytes :=
  (if r.lo != -1 then data.take r.lo.toNat else data) ++ body

/-- The data bookkeeping of `handleGcsNewObjectResume`. -/
def resumeStep (data : Bytes) (r : ByteRange) (body : Bytes) : ResumeOut × Bytes :=
  if resumeRejects data r body then (.bad, data)
  else if r.sz < 0 || ((resumeData data r body).length : Int) < r.sz then
    (.more (resumeData data r body).length, resumeData data r body)
  else (.done (resumeData data r body), resumeData data r body)

/-! ### Listing -/

/-- `greaterThanPrefix` -/
def greaterThanPrefix (item pfx : Bytes) : Bool :=
  if item.length < pfx.length then decide (pfx < item) else decide (pfx < item.take pfx.length)

/-- `lessThanPrefix`: the file store prunes a directory whose path satisfies this against the cursor or the prefix -/
def lessThanPrefix (item pfx : Bytes) : Bool :=
  if item.length < pfx.length then decide (item < pfx.take item.length) else decide (item < pfx)

/-- position of the first occurrence of `d` in `s` -/
def indexOf (d : Bytes) : Bytes → Option Nat
  | [] => if d.isEmpty then some 0 else none
  | x :: xs =>
    if d.isPrefixOf (x :: xs) then some 0
    else match indexOf d xs with
      | some i => some (i + 1)
      | none => none

/-- The collapsed prefix of `name` under (`pfx`, `delim`), if the part after `pfx` contains `delim`. -/
def collapse (pfx delim name : Bytes) : Option Bytes :=
  if delim.isEmpty then none
  else match indexOf delim (name.drop pfx.length) with
    | some i => some (name.take (pfx.length + i + delim.length))
    | none => none

structure Page where
  items : List Bytes := []
  prefixes : List Bytes := []
  count : Nat := 0
  more : Bool := false
  last : Bytes := []
  stopped : Bool := false
deriving Repr, Inhabited

/-- One callback invocation of `makeBucketListResults` on a (non-directory) name. -/
def pageStep (pfx delim cursor skip : Bytes) (max : Nat) (p : Page) (name : Bytes) : Page :=
  if p.stopped then p
  else if greaterThanPrefix name pfx then { p with stopped := true }
  else if decide (name ≤ cursor) then p
  else if !Bytes.hasPrefix name pfx then p
  else if !skip.isEmpty && Bytes.hasPrefix name skip then p
  else
    match collapse pfx delim name with
    | some cp =>
      if p.prefixes.contains cp then { p with last := name }
      else if p.count ≥ max then { p with more := true, stopped := true }
      else { p with count := p.count + 1, prefixes := p.prefixes ++ [cp], last := name }
    | none =>
      if p.count ≥ max then { p with more := true, stopped := true }
      else { p with count := p.count + 1, items := p.items ++ [name], last := name }

/-- One list request over the bucket's names in walk order; the token is the last consumed name. -/
def listPage (names : List Bytes) (pfx delim cursor : Bytes) (max : Nat) : Page :=
  let skip := if Bytes.hasPrefix cursor pfx then (collapse pfx delim cursor).getD [] else []
  names.foldl (pageStep pfx delim cursor skip max) {}

/-- Follow `nextPageToken` until it is empty (at most `fuel` pages). -/
def listAll (names : List Bytes) (pfx delim : Bytes) (max : Nat) : Nat → Bytes → List Page
  | 0, _ => []
  | fuel + 1, cursor =>
    let p := listPage names pfx delim cursor max
    if p.more then p :: listAll names pfx delim max fuel p.last else [p]

end Emu.Gcs
