/-
  The file store (`storage/gcsemu/filestore.go`) as data on disk, and its abstraction to the
  objects the memory store holds (C09).

  An object is two files: the content file (its modification time is the generation) and the
  `.emumeta` sidecar (metadata and metageneration).  A content file without sidecar is served with
  derived metadata.  The `filestore` struct holds only the directory name (and a mutex) — fact
  T5(ii), checked on every run — so this on-disk state is ALL the state: whatever an emulator
  started on the directory answers is a function of it.

  Paths: the mapping object name ↔ file path is taken to be one-to-one, which is what
  "representable as files" means (no name is a directory of another, no empty / dot segments, no
  `.emumeta` suffix); the directory structure itself is not modelled.
-/
import Emu.Gcs.Model

namespace Emu.Gcs.File
open Emu Emu.Gcs

/-- what is on disk for one object -/
structure FObj where
  name : Bytes
  content : Bytes
  /-- modification time of the content file, forced to `time.Now()` by `Add` -/
  mtime : Nat
  /-- the sidecar: metadata and metageneration; `none` = no `.emumeta` file -/
  sidecar : Option (Meta × Nat)
deriving Repr, Inhabited

/-- a bucket directory, ascending by name (the sorted walk) -/
abbrev FObjs := List FObj

def FObjs.get : FObjs → Bytes → Option FObj
  | [], _ => none
  | x :: xs, n => if x.name == n then some x else FObjs.get xs n
def FObjs.delete : FObjs → Bytes → FObjs
  | [], _ => []
  | x :: xs, n => if x.name == n then FObjs.delete xs n else x :: FObjs.delete xs n
def FObjs.put : FObjs → FObj → FObjs
  | [], o => [o]
  | x :: xs, o =>
    if o.name < x.name then o :: x :: xs
    else if o.name = x.name then o :: xs
    else x :: FObjs.put xs o

/-- `ReadMeta`: generation from the file's modification time, the rest from the sidecar if there
    is one -/
def absObj (f : FObj) : Obj :=
  match f.sidecar with
  | some (m, mg) => ⟨f.name, f.content, f.mtime, mg, m⟩
  | none => ⟨f.name, f.content, f.mtime, 0, {}⟩

def abs (l : FObjs) : Objs := l.map absObj

/-- `filestore.Add`: write the content, force its modification time, write the sidecar with
    metageneration 1 -/
def add (l : FObjs) (n content : Bytes) (m : Meta) (now : Nat) : FObjs :=
  l.put ⟨n, content, now, some (m, 1)⟩

/-- `filestore.UpdateMeta`: rewrite the sidecar only -/
def updateMeta (l : FObjs) (n : Bytes) (m : Meta) (mg : Nat) : FObjs :=
  match l.get n with
  | some f => l.put { f with sidecar := some (m, mg) }
  | none => l

/-- `filestore.Delete`: remove the content file and the sidecar -/
def delete (l : FObjs) (n : Bytes) : FObjs := l.delete n

/-- `filestore.Copy` inside one bucket directory: read source metadata and content, `Add` -/
def copy (l : FObjs) (src dst : Bytes) (now : Nat) : FObjs :=
  match l.get src with
  | some f => add l dst f.content (absObj f).meta now
  | none => l

end Emu.Gcs.File
