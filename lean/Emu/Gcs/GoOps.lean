/-
  The GCS emulator's functions that slice or index with computed bounds, with Go's partial operations.
-/
import Emu.Basic.GoSem

namespace Emu.Gcs.GoOps
open Emu.GoSem

/-- `greaterThanPrefix(item, prefix)`: `item[:len(prefix)]` only when the item is long enough -/
def greaterThanPrefixSlice (item pfx : List Nat) : Except Fault (List Nat) :=
  if item.length < pfx.length then pure item else goSlice item 0 pfx.length

/-- `lessThanPrefix(item, prefix)`: `prefix[:len(item)]` only when the item is shorter than the prefix -/
def lessThanPrefixSlice (item pfx : List Nat) : Except Fault (List Nat) :=
  if item.length < pfx.length then goSlice pfx 0 item.length else pure pfx

/-- resumable upload: `data[:lo]` is taken only after the "missing content" check `len(data) < lo` failed -/
def resumeTruncate (data : List Nat) (lo : Int) : Except Fault (List Nat) :=
  if lo == -1 then pure data
  else if (data.length : Int) < lo then pure data      -- rejected earlier with 400: no slicing
  else if lo < 0 then pure data                          -- parseByteRange yields lo ≥ 0 or -1
  else goSlice data 0 lo

/-- compose: `parts := strings.Split(object, "/compose")`; `parts[0]` only after `len(parts) == 2` -/
def composeDest (parts : List (List Nat)) : Except Fault (Option (List Nat)) :=
  if parts.length != 2 then pure none else do
    let d ← goIndex parts 0
    pure (some d)

/-- rewrite: `destParts := strings.SplitN(parts[1], "/o/", 2)`; `[0]`, `[1]` only after `len == 2` -/
def copyDest (parts : List (List Nat)) : Except Fault (Option (List Nat × List Nat)) :=
  if parts.length != 2 then pure none else do
    let b ← goIndex parts 0
    let f ← goIndex parts 1
    pure (some (b, f))

/-- batch: `contentId[0] == '<'` only when `contentId != ""` -/
def contentIdFirst (cid : List Nat) : Except Fault (Option Nat) :=
  if cid.isEmpty then pure none else do
    let c ← goIndex cid 0
    pure (some c)

/-- `strings.Split(s, ".")` for a one-byte separator: the pieces between the separators (at least one) -/
def splitByte (sep : Nat) : List Nat → List (List Nat)
  | [] => [[]]
  | c :: cs =>
    if c = sep then [] :: splitByte sep cs
    else match splitByte sep cs with
      | [] => [[c]]
      | p :: ps => (c :: p) :: ps

/-- `InitScrubbedMeta` / `InitMetaWithUrls`: `parts := strings.Split(filename, "."); ext := parts[len(parts)-1]` -/
def extension (filename : List Nat) : Except Fault (List Nat) :=
  let parts := splitByte 46 filename
  goIndex parts ((parts.length : Int) - 1)

end Emu.Gcs.GoOps
