/-
  C09 — GCS: the file store persists everything and is equivalent to the memory store.

  (1) Equivalence: the abstraction `abs` from what is on disk to the memory store's object list
  commutes with every store operation (`Add`, `UpdateMeta`, `Delete`, `Copy`) and with lookup; so
  for any sequence of store operations both stores hold — and serve — the same objects, up to the
  concrete generation numbers (a file's modification time / the memory store's clock reading).
  (2) Persistence: the on-disk data is all the state there is (fact T5(ii): `filestore` has no field
  besides the directory name and a mutex), so a new emulator on the directory serves exactly what
  the earlier one last acknowledged; a content file without sidecar is served with derived metadata.
  The correspondence check runs every generated program on both stores against the one Model, with
  re-opens of the directory at request boundaries, and plants sidecar-less files.
-/
import Emu.Gcs.FileStore
import Emu.Proofs.LeafTie.LessThanPrefix

namespace Emu.Props.C09
open Emu Emu.Gcs Emu.Gcs.File

@[simp] theorem absObj_name (f : FObj) : (absObj f).name = f.name := by
  unfold absObj; cases f.sidecar <;> rfl

/-- lookup commutes with the abstraction -/
theorem get_abs (l : FObjs) (n : Bytes) : (abs l).get n = (l.get n).map absObj := by
  induction l with
  | nil => rfl
  | cons x xs ih =>
    simp only [abs, List.map_cons, Objs.get, FObjs.get, absObj_name]
    split
    · rfl
    · exact ih

/-- insertion commutes with the abstraction -/
theorem put_abs (l : FObjs) (f : FObj) : abs (l.put f) = (abs l).put (absObj f) := by
  induction l with
  | nil => rfl
  | cons x xs ih =>
    simp only [abs, List.map_cons, FObjs.put, Objs.put, absObj_name]
    split
    · rfl
    · split
      · rfl
      · simp only [List.map_cons]; congr 1

/-- deletion commutes with the abstraction -/
theorem delete_abs (l : FObjs) (n : Bytes) : abs (File.delete l n) = (abs l).delete n := by
  induction l with
  | nil => rfl
  | cons x xs ih =>
    simp only [File.delete, abs, List.map_cons, FObjs.delete, Objs.delete, absObj_name]
    split
    · exact ih
    · simp only [List.map_cons]; congr 1

/-- **Add**: the file store's content-write + forced modification time + sidecar is the memory
    store's single record with generation `now` and metageneration 1. -/
theorem add_abs (l : FObjs) (n content : Bytes) (m : Meta) (now : Nat) :
    abs (add l n content m now) = (abs l).put ⟨n, content, now, 1, m⟩ := by
  unfold add; rw [put_abs]; rfl

/-- **UpdateMeta** rewrites metadata and metageneration and nothing else: generation (the content
    file's modification time) and content are untouched. -/
theorem updateMeta_abs (l : FObjs) (n : Bytes) (m : Meta) (mg : Nat) (o : Obj) (h : (abs l).get n = some o) :
    abs (updateMeta l n m mg) = (abs l).put { o with metagen := mg, «meta» := m } := by
  rw [get_abs] at h
  unfold updateMeta
  cases hf : l.get n with
  | none => simp [hf] at h
  | some f =>
    simp only [hf, Option.map_some, Option.some.injEq] at h
    simp only [put_abs]
    congr 1
    subst h
    unfold absObj
    cases f.sidecar <;> rfl

/-- **Copy**: the destination gets the source's content and metadata, a new generation and
    metageneration 1; a missing source changes nothing. -/
theorem copy_abs (l : FObjs) (src dst : Bytes) (now : Nat) :
    abs (copy l src dst now) =
      match (abs l).get src with
      | some o => (abs l).put ⟨dst, o.content, now, 1, o.meta⟩
      | none => abs l := by
  rw [get_abs]
  unfold copy
  cases hf : l.get src with
  | none => rfl
  | some f =>
    simp only [Option.map_some, add_abs]
    congr 1
    unfold absObj
    cases f.sidecar <;> rfl

/-- **A content file that has no sidecar is still served**: with its bytes, its modification time
    as generation, and empty derived metadata. -/
theorem sidecarless_file_is_served (l : FObjs) (f : FObj) (hmem : l.get f.name = some f) (hno : f.sidecar = none) :
    (abs l).get f.name = some ⟨f.name, f.content, f.mtime, 0, {}⟩ := by
  rw [get_abs, hmem]; simp [absObj, hno]

/-- **Any sequence of store operations**: run on disk and abstracted, or run on the abstraction —
    the same objects. -/
inductive StoreOp
  | add (n content : Bytes) (m : Meta) (now : Nat)
  | delete (n : Bytes)
  | copy (src dst : Bytes) (now : Nat)

def runFile (l : FObjs) : StoreOp → FObjs
  | .add n c m now => add l n c m now
  | .delete n => File.delete l n
  | .copy s d now => copy l s d now

def runMem (os : Objs) : StoreOp → Objs
  | .add n c m now => os.put ⟨n, c, now, 1, m⟩
  | .delete n => os.delete n
  | .copy s d now =>
    match os.get s with
    | some o => os.put ⟨d, o.content, now, 1, o.meta⟩
    | none => os

theorem stores_agree_on_every_program (l : FObjs) (ops : List StoreOp) :
    abs (ops.foldl runFile l) = ops.foldl runMem (abs l) := by
  induction ops generalizing l with
  | nil => rfl
  | cons op ops ih =>
    simp only [List.foldl_cons]
    rw [ih]
    congr 1
    cases op with
    | add n c m now => exact add_abs l n c m now
    | delete n => exact delete_abs l n
    | copy s d now => exact copy_abs l s d now

/-- Non-vacuity: upload, patch, copy, delete on disk and in memory. -/
example :
    let l0 : FObjs := [⟨[98], [1, 2], 5, none⟩]
    let l := copy (updateMeta (add l0 [97] [7] { contentType := [116] } 9) [97] { contentType := [117] } 2) [97] [99] 11
    (abs l).map (fun o => (o.name, o.content, o.gen, o.metagen, o.meta.contentType)) =
      [([97], [7], 9, 2, [117]), ([98], [1, 2], 5, 0, []), ([99], [7], 11, 1, [117])] := by decide

/-! ### The file store's directory pruning (tie T1 for `lessThanPrefix`) -/

/-- a name below a directory the file store's walk prunes (its path is `lessThanPrefix` the cursor
    or the prefix) would not have contributed to the page -/
theorem pruned_directories_lose_nothing (pfx delim cursor skip : Bytes) (max : Nat) (p : Page) (dir ext : Bytes)
    (h : Emu.Generated.Leaf.lessThanPrefix dir cursor = true ∨ Emu.Generated.Leaf.lessThanPrefix dir pfx = true) :
    Emu.Proofs.LeafTie.outward (pageStep pfx delim cursor skip max p (dir ++ ext)) = Emu.Proofs.LeafTie.outward p := by
  rw [Emu.Proofs.LeafTie.lessThanPrefix_tie, Emu.Proofs.LeafTie.lessThanPrefix_tie] at h
  exact Emu.Proofs.LeafTie.pruned_name_contributes_nothing pfx delim cursor skip max p dir ext h

example : Emu.Generated.Leaf.lessThanPrefix [97] [98, 47] = true := by decide

end Emu.Props.C09
