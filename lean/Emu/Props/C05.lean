/-
  C05 — Bigtable: row filters compute the documented filter semantics.

  The semantics is stated on the flat view of a row, `Row.flat` = the list of
  (family, qualifier, cell) in emission order.  Arguments are validated for the whole tree before
  any row is looked at (`validFilter`), so an invalid filter is rejected whatever the table holds.
-/
import Emu.Proofs.Filter
import Emu.Proofs.Regex
import Emu.Proofs.Interleave
import Emu.Bt.Server
import Emu.Proofs.LeafTie.ValidateFilter
import Emu.Proofs.LeafTie.IncludeCell
import Emu.Proofs.LeafTie.ModifyCell

namespace Emu.Props.C05
open Emu Emu.Bt Emu.Proofs.Filter Emu.Proofs.Regex

/-! #### regular expressions match the whole field, bytewise -/

theorem regex_matches_whole_field (re : Regex) (x : Bytes) : reMatch (some re) x = true ↔ Regex.Lang re x := by
  simp only [reMatch]; exact matches_iff re x

/-! #### invalid arguments are rejected, whatever the table holds -/

theorem invalid_filter_rejected (t : Table) (rnd : Int) (keys : List Bytes) (rrs : List RowRange) (limit : Int)
    (f : Filter) (h : validFilter f = false) : readRows t rnd keys rrs limit f = .error .invalidArgument := by
  unfold readRows; split
  · rfl
  · simp [h]

theorem valid_filter_never_rejected (t : Table) (rnd : Int) (keys : List Bytes) (rrs : List RowRange) (limit : Int)
    (f : Filter) (hr : validRowRanges rrs = true) (h : validFilter f = true) :
    ∃ rows, readRows t rnd keys rrs limit f = .ok rows := by
  simp [readRows, hr, h]

/-- what is invalid: false pass/block flags, fewer than two sub-filters, a sample probability
    outside (0,1), negative counts, a pattern that does not compile, sub-millisecond bounds — at
    any depth of the tree -/
theorem invalid_arguments :
    validFilter (.passAll false) = false ∧ validFilter (.blockAll false) = false ∧
    (∀ fs, fs.length < 2 → validFilter (.chain fs) = false) ∧
    (∀ fs, fs.length < 2 → validFilter (.interleave fs) = false) ∧
    (∀ p, (p ≤ 0 ∨ p ≥ 1000) → validFilter (.sample p) = false) ∧
    (∀ n, n < 0 → validFilter (.rowLimit n) = false ∧ validFilter (.rowOffset n) = false ∧
        validFilter (.colLimit n) = false) ∧
    validFilter (.rowKeyRegex none) = false ∧ validFilter (.familyRegex none) = false ∧
    validFilter (.qualRegex none) = false ∧ validFilter (.valueRegex none) = false ∧
    (∀ s e, (s % 1000 ≠ 0 ∨ e % 1000 ≠ 0) → validFilter (.tsRange s e) = false) := by
  refine ⟨rfl, rfl, ?_, ?_, ?_, ?_, rfl, rfl, rfl, rfl, ?_⟩
  · intro fs h; simp [validFilter]; omega
  · intro fs h; simp [validFilter]; omega
  · intro p h; simp only [validFilter, Bool.and_eq_false_iff, decide_eq_false_iff_not]; omega
  · intro n h; simp only [validFilter, decide_eq_false_iff_not]; omega
  · intro s e h; simp only [validFilter, Bool.and_eq_false_iff, decide_eq_false_iff_not]; omega

theorem validFilters_iff (fs : List Filter) : validFilters fs = true ↔ ∀ f ∈ fs, validFilter f = true := by
  induction fs with
  | nil => simp [validFilters]
  | cons f fs ih => simp [validFilters, ih]

/-- an invalid sub-filter anywhere makes the whole tree invalid -/
theorem invalid_subfilter (f : Filter) :
    (∀ fs, f ∈ fs → validFilter f = false → validFilter (.chain fs) = false ∧ validFilter (.interleave fs) = false) ∧
    (∀ t e, validFilter f = false → validFilter (.condition f t e) = false ∧
        validFilter (.condition t f e) = false ∧ validFilter (.condition t e f) = false) := by
  constructor
  · intro fs hm hf
    have : validFilters fs = false := by
      cases h : validFilters fs with
      | false => rfl
      | true => rw [(validFilters_iff fs).mp h f hm] at hf; cases hf
    simp [validFilter, this]
  · intro t e hf; simp [validFilter, hf]

/-! #### leaf filters on the flat view -/

theorem rowLimit_is_take (rnd : Int) (n : Int) (r : Row) :
    (filterRow rnd (.rowLimit n) r).2.flat = r.flat.take n.toNat := by
  simp only [filterRow, flat_eq]; exact rowLimitFams_spec n.toNat r.fams

theorem rowOffset_is_drop (rnd : Int) (n : Int) (r : Row) :
    (filterRow rnd (.rowOffset n) r).2.flat = r.flat.drop n.toNat := by
  simp only [filterRow, flat_eq]; exact rowOffsetFams_spec n.toNat r.fams

theorem colLimit_is_take_per_column (rnd : Int) (n : Int) (r : Row) :
    (filterRow rnd (.colLimit n) r).2.fams = r.fams.map fun fm =>
      { fm with cols := fm.cols.map fun c => { c with cells := c.cells.take n.toNat } } := rfl

/-- the cell-level filters keep exactly the cells their test admits, in order, and
    strip-value / apply-label map over them -/
theorem perCell_semantics (f : Filter) (r : Row) :
    (filterPerCell f r).2.flat = r.flat.filterMap (cellStep f) ∧
    (filterPerCell f r).1 = decide ((r.flat.filterMap (cellStep f)).length > 0) :=
  ⟨flat_perCell f r, perCell_match f r⟩

/-- the admission tests: ranges honour open/closed/unbounded ends, the timestamp range is
    `[s, e)` with `e = 0` unbounded, regexes match the whole field -/
theorem includeCell_tests (fam q : Bytes) (c : Cell) :
    (∀ fm s e, includeCell (.columnRange fm s e) fam q c = (fam == fm && inBounds s e q)) ∧
    (∀ s e, includeCell (.valueRange s e) fam q c = inBounds s e c.value) ∧
    (∀ s e, includeCell (.tsRange s e) fam q c = (decide (c.ts ≥ s) && (e == 0 || decide (c.ts < e)))) ∧
    (∀ re, includeCell (.familyRegex re) fam q c = reMatch re fam) ∧
    (∀ re, includeCell (.qualRegex re) fam q c = reMatch re q) ∧
    (∀ re, includeCell (.valueRegex re) fam q c = reMatch re c.value) :=
  ⟨fun _ _ _ => rfl, fun _ _ => rfl, fun _ _ => rfl, fun _ => rfl, fun _ => rfl, fun _ => rfl⟩

theorem inBounds_iff (s e : Bound) (x : Bytes) :
    inBounds s e x = true ↔
      (match s with | .unset => True | .opened b => b < x | .closed b => b ≤ x) ∧
      (match e with | .unset => True | .opened b => x < b | .closed b => x ≤ b) := by
  cases s <;> cases e <;> simp [inBounds]

theorem strip_and_label (c : Cell) (l : Bytes) :
    modifyCell .stripValue c = ⟨c.ts, [], []⟩ ∧ modifyCell (.applyLabel l) c = ⟨c.ts, c.value, [l]⟩ := ⟨rfl, rfl⟩

theorem pass_block_sample (rnd : Int) (r : Row) (b : Bool) (p : Int) :
    filterRow rnd (.passAll b) r = (true, r) ∧ filterRow rnd (.blockAll b) r = (false, r) ∧
    filterRow rnd (.sample p) r = (decide (rnd < p), r) := ⟨rfl, rfl, rfl⟩

/-- the row-key regex keeps the whole row or nothing -/
theorem rowKeyRegex_all_or_nothing (rnd : Int) (re : Option Regex) (r : Row) :
    filterRow rnd (.rowKeyRegex re) r =
      if reMatch re r.key then (decide (r.cellCount > 0), r) else (false, r) := by
  simp only [filterRow]
  split
  · have hid := filterPerCell_id (.rowKeyRegex re) r (fun _ _ _ => rfl) (fun _ => rfl)
    rw [Prod.ext_iff]
    refine ⟨?_, hid⟩
    have : (filterPerCell (.rowKeyRegex re) r).1 = decide ((filterPerCell (.rowKeyRegex re) r).2.cellCount > 0) := rfl
    rw [this, hid]
  · rfl

/-! #### composition -/

/-- chains compose left to right and stop at the first sub-filter that lets nothing through -/
theorem chain_composes (rnd : Int) (f : Filter) (fs : List Filter) (r : Row) :
    filterChain rnd (f :: fs) r =
      if (filterRow rnd f r).1 then filterChain rnd fs (filterRow rnd f r).2
      else (false, (filterRow rnd f r).2) := by
  simp only [filterChain, chainStep]

theorem chain_is_filterChain (rnd : Int) (fs : List Filter) (r : Row) :
    filterRow rnd (.chain fs) r = filterChain rnd fs r := by simp only [filterRow]

/-- condition: the predicate runs on a copy of the row; the true branch is taken iff it yields at
    least one cell; a missing branch yields nothing -/
theorem condition_picks_branch (rnd : Int) (p t e : Filter) (r : Row) :
    filterRow rnd (.condition p t e) r =
      if (filterRow rnd p r).1 && !(filterRow rnd p r).2.isEmpty then
        (if t.isAbsent then (false, r) else filterRow rnd t r)
      else (if e.isAbsent then (false, r) else filterRow rnd e r) := by
  simp only [filterRow, condSel]

/-- interleave yields, per column, the union of its matching branches keeping duplicates (as a
    multiset; the column is then re-sorted by descending timestamp) -/
theorem interleave_is_union (rnd : Int) (fs : List Filter) (r : Row) (fam q : Bytes)
    (hinv : ∀ b ∈ filterBranches rnd fs r, Proofs.BtInv.RowInv b.2) :
    ((filterRow rnd (.interleave fs) r).2.cellsOf fam q).Perm
      (((filterBranches rnd fs r).filter (·.1)).flatMap (fun b => b.2.cellsOf fam q)) := by
  simp only [filterRow]
  exact Proofs.Interleave.mergeBranches_cells r.key (filterBranches rnd fs r) fam q hinv

theorem interleave_branches (rnd : Int) (f : Filter) (fs : List Filter) (r : Row) :
    filterBranches rnd (f :: fs) r = filterRow rnd f r :: filterBranches rnd fs r := by
  simp only [filterBranches]

/-! #### rows without a surviving cell are omitted -/

theorem no_cell_no_row (sch : Schema) (rnd : Int) (f : Filter) (r : Row)
    (h : (filterRow rnd f r).1 = false ∨ (scrubRow sch (filterRow rnd f r).2).fams = []) :
    emitRow sch rnd f r = none := by
  unfold emitRow
  split
  · rfl
  · cases h with
    | inl h => simp [h]
    | inr h => simp [h]

/-- Non-vacuity: chain[qualifier =~ "a|b", cells-per-column 1] then interleave with strip. -/
example :
    let r : Row := ⟨[107], [⟨[102], [⟨[97], [⟨2000, [1], []⟩, ⟨1000, [2], []⟩]⟩, ⟨[99], [⟨1000, [3], []⟩]⟩]⟩]⟩
    (filterRow 0 (.chain [.qualRegex (some (.alt (.byte 97) (.byte 98))), .colLimit 1]) r).2.flat
      = [([102], [97], ⟨2000, [1], []⟩)] := by decide

/-! ### Tie T1: the repository's own text of the filter validation

`Emu.Generated.Leaf.validateFilter` is `validateFilter` (bttest/validation.go) — the type switch over
the RowFilter oneof with its checks and its recursion into chains, interleaves and conditions — read
off the Go text by `factx` on every run; it is the Model's `validFilter` (the function
`invalid_filter_rejected` and `validFilters_iff` above are about) for EVERY filter tree. -/

theorem source_validateFilter_is_the_models (f : Filter) :
    Emu.Generated.Leaf.validateFilter f = validFilter f :=
  Emu.Proofs.LeafTie.validateFilter_tie f

/-- `includeCell` (inmem.go) — the family, qualifier and value regexes, the column and value ranges with
    their open / closed / unset ends, the timestamp range — read off the Go text by `factx` on every
    run, is the Model's `includeCell` (the function `perCell_semantics`, `includeCell_tests` and
    `inBounds_iff` above are about) on every filter that passes validation. -/
theorem source_includeCell_is_the_models (f : Filter) (fam qual : Bytes) (c : Cell) (hv : validFilter f = true) :
    Emu.Generated.Leaf.includeCell f fam qual c = includeCell f fam qual c :=
  Emu.Proofs.LeafTie.includeCell_tie f fam qual c hv

example : Emu.Generated.Leaf.includeCell (.valueRange (.opened []) .unset) [102] [113] ⟨1000, [], []⟩ = false ∧
    Emu.Generated.Leaf.includeCell (.columnRange [102] (.closed [97]) (.opened [99])) [102] [98] ⟨0, [1], []⟩ = true := by decide

/-- And the repository's own text of the two transformers that change a cell (`modifyCell`: strip the
    value; apply a label), cell literals read field by field, is the Model's `modifyCell` on every
    filter that passes validation; its own label check is the one validation makes. -/
theorem source_modifyCell_is_the_models (f : Filter) (c : Cell) (hv : validFilter f = true) :
    Emu.Generated.Leaf.modifyCell f c = .ok (modifyCell f c) :=
  Emu.Proofs.LeafTie.modifyCell_tie f c hv

theorem source_modifyCell_rejects_exactly_malformed_labels (l : Bytes) (c : Cell) :
    Emu.Generated.Leaf.modifyCell (.applyLabel l) c = .error () ↔ validLabel l = false :=
  Emu.Proofs.LeafTie.modifyCell_error_iff l c

example : Emu.Generated.Leaf.modifyCell .stripValue ⟨7000, [1, 2], [[108]]⟩ = .ok ⟨7000, [], []⟩ ∧
    Emu.Generated.Leaf.modifyCell (.applyLabel [108]) ⟨7000, [1, 2], []⟩ = .ok ⟨7000, [1, 2], [[108]]⟩ := by
  constructor <;> rfl

end Emu.Props.C05
