/-
  C08 — Bigtable: disk storage recovers exactly the acknowledged state after a crash.

  Statements are about the disk-step machine `Emu.Bt.Disk`: every function of the storage layer is a
  list of atomic disk steps, a crash may fall after any prefix of it, and `view` is what a service
  started on the resulting disk serves.  Each theorem says: after ANY prefix of the plan the view of
  the table is the one before the request or the one after it (wholly absent / wholly present), for
  any leftovers on disk, and the views of all other tables never change.  Every theorem holds for an
  arbitrary disk `d` that meets only the request's own precondition (the table has / has not a
  definition), so it applies to the disk left by any earlier program and any earlier crashes: that
  is the statement for every request program and every crash position; and since a restart does
  not change what is served (`restart_changes_nothing`), for any number of crash-restart cycles.
  Trusted: atomic rename/unlink, atomic and durable goleveldb row writes, goleveldb journal recovery.
  The correspondence check takes real directory images at every request boundary and at every
  instrumented point inside these functions.
-/
import Emu.Bt.Disk

namespace Emu.Props.C08
open Emu Emu.Bt Emu.Bt.Disk

/-- a prefix of a list is one of its `length + 1` prefixes -/
theorem take_is_short {α} (l : List α) (k : Nat) : ∃ j, j ≤ l.length ∧ l.take k = l.take j := by
  rcases Nat.lt_or_ge k l.length with h | h
  · exact ⟨k, Nat.le_of_lt h, rfl⟩
  · exact ⟨l.length, Nat.le_refl _, by rw [List.take_of_length_le h, List.take_length]⟩

/-- steps on one table never change what is served for another -/
theorem other_tables_untouched (d : Disk) (s : DStep) (n m : Bytes)
    (hs : match s with
          | .writeTmp k _ | .rename k | .removeDb k | .openDb k | .setRows k _ | .removeDef k => k = n)
    (hm : m ≠ n) : view (apply d s) m = view d m := by
  cases s <;> simp only at hs <;> subst hs
  case rename =>
    simp only [apply]
    cases (d _).tmp <;> simp [view, upd, hm]
  all_goals simp [apply, view, upd, hm]

/-- the temporary file is never read: writing it changes nothing that is served -/
theorem tmp_is_never_served (d : Disk) (n : Bytes) (sch : Schema) (m : Bytes) :
    view (apply d (.writeTmp n sch)) m = view d m := by
  simp only [apply, view, upd]
  split
  · rename_i h; subst h; rfl
  · rfl

/-- a restart (which opens, creating if absent, every database) changes nothing that is served;
    so any number of crash-restart cycles serve what the first one does -/
theorem restart_changes_nothing (d : Disk) (n m : Bytes) : view (apply d (.openDb n)) m = view d m := by
  simp only [apply, view, upd]
  split
  · rename_i h; subst h
    cases (d m).defn <;> cases (d m).db <;> simp
  · rfl

/-- **CreateTable**: on a disk where the table has no definition — whatever else is left there
    from a deleted table of that name — every prefix of the plan serves either no such table or
    the new table, empty. -/
theorem create_is_all_or_nothing (d : Disk) (n : Bytes) (sch : Schema) (hno : (d n).defn = none) (k : Nat) :
    view (applyAll d ((planCreate n sch).take k)) n = none ∨
    view (applyAll d ((planCreate n sch).take k)) n = some ⟨sch, []⟩ := by
  obtain ⟨j, hj, e⟩ := take_is_short (planCreate n sch) k
  rw [e]
  have : j = 0 ∨ j = 1 ∨ j = 2 ∨ j = 3 ∨ j = 4 ∨ j = 5 := by simp [planCreate] at hj; omega
  rcases this with h | h | h | h | h | h <;> subst h <;> simp [planCreate, applyAll, apply, view, upd, hno]

/-- The order before the repair was not: with rows left over from a deleted table, a crash right
    after the rename served the new definition with the old rows. -/
theorem old_create_order_served_leftovers (n : Bytes) (sch : Schema) (r : Row) :
    let d : Disk := fun m => if m = n then { db := some [r] } else {}
    view (applyAll d ((planCreateOld n sch).take 2)) n = some ⟨sch, [r]⟩ := by
  simp [planCreateOld, applyAll, apply, view, upd]

/-- **DeleteTable**: one atomic step; afterwards the table is not served, by any restart. -/
theorem delete_is_all_or_nothing (d : Disk) (n : Bytes) (k : Nat) :
    view (applyAll d ((planDelete n).take k)) n = view d n ∨
    view (applyAll d ((planDelete n).take k)) n = none := by
  obtain ⟨j, hj, e⟩ := take_is_short (planDelete n) k
  rw [e]
  have : j = 0 ∨ j = 1 := by simp [planDelete] at hj; omega
  rcases this with h | h <;> subst h <;> simp [planDelete, applyAll, apply, view, upd]

/-- **SetTableMeta** (create/update family, GC rule change): the old definition or the new one,
    the rows untouched. -/
theorem set_meta_is_all_or_nothing (d : Disk) (n : Bytes) (old sch : Schema) (hdef : (d n).defn = some old) (k : Nat) :
    view (applyAll d ((planSetMeta n sch).take k)) n = some ⟨old, (d n).db.getD []⟩ ∨
    view (applyAll d ((planSetMeta n sch).take k)) n = some ⟨sch, (d n).db.getD []⟩ := by
  obtain ⟨j, hj, e⟩ := take_is_short (planSetMeta n sch) k
  rw [e]
  have : j = 0 ∨ j = 1 ∨ j = 2 := by simp [planSetMeta] at hj; omega
  rcases this with h | h | h <;> subst h <;> simp [planSetMeta, applyAll, apply, view, upd, hdef]

/-- **DropRowRange(all)** (`Clear`): the rows as they were, or none. -/
theorem clear_is_all_or_nothing (d : Disk) (n : Bytes) (sch : Schema) (hdef : (d n).defn = some sch) (k : Nat) :
    view (applyAll d ((planClear n).take k)) n = view d n ∨
    view (applyAll d ((planClear n).take k)) n = some ⟨sch, []⟩ := by
  obtain ⟨j, hj, e⟩ := take_is_short (planClear n) k
  rw [e]
  have : j = 0 ∨ j = 1 ∨ j = 2 := by simp [planClear] at hj; omega
  rcases this with h | h | h <;> subst h <;> simp [planClear, applyAll, apply, view, upd, hdef]

/-- a row write (MutateRow, one MutateRows entry, CheckAndMutateRow, ReadModifyWriteRow, one row
    of a prefix drop or of a GC pass) is one atomic step -/
theorem row_write_is_atomic (d : Disk) (n : Bytes) (sch : Schema) (rows : Rows) (hdef : (d n).defn = some sch) :
    view (apply d (.setRows n rows)) n = some ⟨sch, rows⟩ := by
  simp [apply, view, upd, hdef]

/-- what reads serve of a table: cells of families that are not in the definition are scrubbed,
    rows left without cells are omitted (`chunkBuilder.add`) -/
def served (t : Table) : Rows := purgeRows t.schema t.rows

/-- **Dropping families**: the definition is persisted first.  At the instrumented points (inside
    `SetTableMeta`) and right after it, what is served is the old table or the new one: under the
    new definition the not-yet-purged rows already read as purged. -/
theorem family_drop_at_meta_points (d : Disk) (n : Bytes) (old sch' : Schema) (rows : Rows) (mid : List Rows)
    (hdef : (d n).defn = some old) (hdb : (d n).db = some rows) (k : Nat) (hk : k ≤ 2) :
    let v := view (applyAll d ((planDropFamilies n sch' mid (purgeRows sch' rows)).take k)) n
    v = some ⟨old, rows⟩ ∨ (v.map served = some (purgeRows sch' rows)) := by
  have hlen : k ≤ (planSetMeta n sch').length := by simpa [planSetMeta] using hk
  simp only [planDropFamilies, List.append_assoc, List.take_append_of_le_length hlen]
  have : k = 0 ∨ k = 1 ∨ k = 2 := by omega
  rcases this with h | h | h <;> subst h <;> simp [planSetMeta, applyAll, apply, view, upd, hdef, hdb, served]

/-- and once the purge has completed the stored rows are the purged ones -/
theorem family_drop_complete (d : Disk) (n : Bytes) (old sch' : Schema) (mid : List Rows) (purged : Rows)
    (hdef : (d n).defn = some old) :
    view (applyAll d (planDropFamilies n sch' mid purged)) n = some ⟨sch', purged⟩ := by
  have key : ∀ (l : List Rows) (d' : Disk), (d' n).defn = some sch' →
      (view (applyAll d' (l.map (.setRows n) ++ [.setRows n purged])) n = some ⟨sch', purged⟩) := by
    intro l
    induction l with
    | nil => intro d' h; simp [applyAll, apply, view, upd, h]
    | cons x xs ih =>
      intro d' h
      simp only [List.map_cons, List.cons_append, applyAll, List.foldl_cons]
      exact ih _ (by simp [apply, upd, h])
  have h := key mid (applyAll d (planSetMeta n sch')) (by simp [planSetMeta, applyAll, apply, upd, hdef])
  simpa only [planDropFamilies, List.append_assoc, applyAll, List.foldl_append] using h

/-- Non-vacuity: create over leftovers of a deleted table, crash after every prefix. -/
example :
    let r : Row := ⟨[1], [⟨[102], [⟨[97], [⟨1000, [7], []⟩]⟩]⟩]⟩
    let d : Disk := fun m => if m = [9] then { db := some [r], tmp := some [] } else {}
    (List.range 6).map (fun k => (view (applyAll d ((planCreate [9] [([102], none)]).take k)) [9]).map (·.rows.length))
      = [none, none, none, some 0, some 0, some 0] := by decide

end Emu.Props.C08
