/-
  C06 — Bigtable: every single-row write is all-or-nothing and linearizable per row.

  Every data RPC runs its whole read-compute-write under the table's lock (`tbl.mu`); the
  structural fact T5 and the yield-hook interleaving runs tie that to the code.  Given that, the
  generic one-lock theorem applies with `f i` = the Model's sequential effect of request `i`
  (MutateRow, one MutateRows request, CheckAndMutateRow, ReadModifyWriteRow, or a read, which leaves
  the state unchanged).  Linearizable per table implies linearizable per row.
  Not modelled: fairness of `sync.RWMutex` (a request that can take the lock eventually does).
-/
import Emu.Proofs.Lin
import Emu.Props.C01
import Emu.Props.C12
import Emu.Props.C13

namespace Emu.Props.C06
open Emu.Conc Emu.Proofs.Lin

variable {σ ρ : Type}

/-- Reachable states of any number of concurrent requests under one lock, any interleaving. -/
theorem reachable_good (f : Nat → σ → σ × ρ) (st0 : σ) (n : Nat) (sched : List (Nat × Act)) (s : Sys σ ρ)
    (h : run f (init st0 n) sched = some s) : Good f st0 s :=
  good_run f st0 sched _ s (good_init f st0 n) h

/-- **Atomicity**: at most one request is inside its critical section. -/
theorem one_request_at_a_time (f : Nat → σ → σ × ρ) (st0 : σ) (s : Sys σ ρ) (hg : Good f st0 s)
    (i j : Nat) (ti tj : Th ρ) (hi : s.ths[i]? = some ti) (hj : s.ths[j]? = some tj)
    (wi : working ti.pc) (wj : working tj.pc) : i = j := by
  have h1 := (hg.holder i ti hi).mp wi
  have h2 := (hg.holder j tj hj).mp wj
  rw [h1] at h2; cases h2; rfl

/-- **Linearizability**: the shared state is what running the requests one at a time, in the order
    `lin` of their critical sections, produces — and every response is the response of that
    sequential run. -/
theorem explained_by_a_serial_order (f : Nat → σ → σ × ρ) (st0 : σ) (s : Sys σ ρ) (hg : Good f st0 s) :
    s.st = (seqRun f st0 s.lin).1 ∧
    ∀ (i : Nat) (th : Th ρ) (r : ρ), s.ths[i]? = some th → th.res = some r → (i, r) ∈ (seqRun f st0 s.lin).2 :=
  ⟨hg.state, hg.results⟩

/-- **Real-time order is respected**: a request that had responded before another was invoked
    comes earlier in the serial order. -/
theorem serial_order_respects_real_time (f : Nat → σ → σ × ρ) (st0 : σ) (s : Sys σ ρ) (hg : Good f st0 s)
    (i j : Nat) (ti : Th ρ) (hi : s.ths[i]? = some ti) (hj : j ∈ ti.before) (hlin : i ∈ s.lin) :
    j ∈ s.lin.take ti.snap ∧ i ∈ s.lin.drop ti.snap := by
  have hpc : ti.pc ≠ .notStarted := by
    have := (hg.lin_iff i ti hi).mp hlin
    rcases this with h | h | h <;> simp [h]
  refine ⟨hg.before i ti hi j hj, ?_⟩
  have hnot := hg.after i ti hi hpc
  have := List.take_append_drop ti.snap s.lin
  rw [← this] at hlin
  simp only [List.mem_append] at hlin
  cases hlin with
  | inl h => exact absurd h hnot
  | inr h => exact h

/-- each request is linearised exactly once -/
theorem linearised_once (f : Nat → σ → σ × ρ) (st0 : σ) (s : Sys σ ρ) (hg : Good f st0 s) : s.lin.Nodup := hg.nodup

/-- **N concurrent increments add exactly N.**  With every request an increment by its amount,
    the counter ends at the initial value plus the sum over the linearised requests — no update is
    lost, whatever the interleaving. -/
theorem concurrent_increments_add_up (amt : Nat → Int) (st0 : Int) (n : Nat) (sched : List (Nat × Act))
    (s : Sys Int Int) (h : run (fun i v => (v + amt i, v + amt i)) (init st0 n) sched = some s) :
    s.st = st0 + (s.lin.map amt).sum := by
  have hg := reachable_good (fun i v => (v + amt i, v + amt i)) st0 n sched s h
  rw [hg.state]
  have key : ∀ (l : List Nat) (v : Int),
      (seqRun (fun i v => (v + amt i, v + amt i)) v l).1 = v + (l.map amt).sum := by
    intro l
    induction l with
    | nil => intro v; simp [seqRun]
    | cons x xs ih =>
      intro v
      simp only [seqRun, List.map_cons, List.sum_cons]
      rw [ih]; omega
  exact key s.lin st0

/-- **Failure atomicity** (sequential part, from C01 / C12 / C13): a request that reports an error
    returns no new store, and a MutateRows entry with a non-OK status leaves the store as it was
    before that entry. -/
theorem failed_write_changes_nothing :
    (∀ sch now rows k ms, Bt.applyMutations sch now (Bt.Rows.getOrCreate rows k) ms = none →
        Bt.mutateRow sch now rows k ms = none) ∧
    (∀ sch now rows k ms es, Bt.mutateRow sch now rows k ms = none →
        Bt.mutateRows sch now rows ((k, ms) :: es) =
          ((Bt.mutateRows sch now rows es).1, false :: (Bt.mutateRows sch now rows es).2)) ∧
    (∀ sch now rows k rules, Bt.applyRmwRules sch now (Bt.Rows.getOrCreate rows k) ⟨k, []⟩ rules = none →
        Bt.readModifyWrite sch now rows k rules = none) :=
  ⟨C01.failed_request_changes_nothing, C01.mutateRows_failed_entry, C13.failed_rule_changes_nothing⟩

/-- Non-vacuity: three increments, one interleaving with overlapping invocations. -/
example :
    ((run (fun (_ : Nat) (v : Int) => (v + 1, v + 1)) (init (0 : Int) 3)
        [(0, .invoke), (1, .invoke), (1, .acquire), (2, .invoke), (1, .work), (1, .release), (0, .acquire),
         (0, .work), (1, .respond), (0, .release), (2, .acquire), (2, .work), (2, .release)]).map
      fun s => (s.st, s.lin)) = some (3, [1, 0, 2]) := by decide

end Emu.Props.C06
