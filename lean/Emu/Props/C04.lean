/-
  C04 — GCS: preconditions gate mutations exactly; a failed one changes nothing.
  Statements about the Model (`Emu.Gcs`); helper lemmas are in `Emu.Proofs.Gcs`.
-/
import Emu.Proofs.Gcs
import Emu.Proofs.LeafTie.ValidateConds

namespace Emu.Props.C04
open Emu Emu.Gcs

/-- what "every supplied precondition holds" means for an existing object -/
def CondsHold (o : Obj) (c : Conds) : Prop :=
  c.doesNotExist = false ∧
  (c.genMatch = 0 ∨ (o.gen : Int) = c.genMatch) ∧
  (c.genNotMatch = 0 ∨ (o.gen : Int) ≠ c.genNotMatch) ∧
  (c.metaMatch = 0 ∨ (o.metagen : Int) = c.metaMatch) ∧
  (c.metaNotMatch = 0 ∨ (o.metagen : Int) ≠ c.metaNotMatch)

/-- (1) On an existing object the check passes iff every supplied condition holds. -/
theorem present_ok_iff (o : Obj) (c : Conds) :
    validateConds (some o) c = .ok ↔ CondsHold o c :=
  Proofs.Gcs.validate_present_ok_iff o c

/-- (1') 304 is answered only when a supplied not-match condition fails … -/
theorem notModified_only_if_notMatch_fails (o : Obj) (c : Conds)
    (h : validateConds (some o) c = .notModified) :
    (c.genNotMatch ≠ 0 ∧ (o.gen : Int) = c.genNotMatch) ∨
    (c.metaNotMatch ≠ 0 ∧ (o.metagen : Int) = c.metaNotMatch) :=
  Proofs.Gcs.notModified_cause o c h

/-- … and 412 only when must-not-exist or a supplied match condition fails. -/
theorem precondition_only_if_match_fails (o : Obj) (c : Conds)
    (h : validateConds (some o) c = .preconditionFailed) :
    c.doesNotExist = true ∨ (c.genMatch ≠ 0 ∧ (o.gen : Int) ≠ c.genMatch) ∨
    (c.metaMatch ≠ 0 ∧ (o.metagen : Int) ≠ c.metaMatch) :=
  Proofs.Gcs.precondition_cause o c h

/-- (2) On an absent object only "no condition" or "must not exist" can pass, and a failure
    is 412. -/
theorem absent_ok_iff (c : Conds) :
    validateConds none c = .ok ↔ (c = {} ∨ c = { doesNotExist := true }) :=
  Proofs.Gcs.validate_absent_ok_iff c

theorem absent_fail_is_412 (c : Conds) (h : validateConds none c ≠ .ok) :
    validateConds none c = .preconditionFailed :=
  Proofs.Gcs.validate_absent_fail c h

/-- `ifGenerationMatch=0` means "must not exist". -/
theorem genMatch_zero_is_mustNotExist (r : RawConds) (c : Conds) (h : parseConds r = some c)
    (h0 : r.gm = .num 0) : c.doesNotExist = true :=
  Proofs.Gcs.parse_gm_zero r c h h0

/-- (3) An unparsable condition value is a 400 for every operation that takes conditions,
    and nothing changes. -/
theorem unparsable_is_400 (s : Store) (op : Op) (r : RawConds) (h : Proofs.Gcs.opConds op = some r)
    (hbad : parseConds r = none) : step s op = (s, .status .badRequest) :=
  Proofs.Gcs.step_bad_conds s op r h hbad

/-- (4a) Whenever a request is answered with a failed precondition, 400, 404 or 500, no bucket,
    object, content, metadata, generation or metageneration has changed. -/
theorem failure_changes_nothing (s : Store) (op : Op) (h : Proofs.Gcs.isFailure (step s op).2 = true) :
    (step s op).1.buckets = s.buckets ∧ (step s op).1.clock = s.clock :=
  Proofs.Gcs.failure_frame s op h

/-- (4b) An upload that stores its object had its conditions satisfied in the pre-state. -/
theorem upload_performed_only_if_conds_hold (s : Store) (b n content : Bytes) (m : Meta)
    (d : Option (Bool × Bool)) (c : Conds)
    (h : (finishUpload s b n content m d c).2 = .ok) : validateConds (s.obj? b n) c = .ok :=
  Proofs.Gcs.finishUpload_ok_conds s b n content m d c h

/-- (4c) … and when they are satisfied (and the declared MD5, if any, matches) it is performed. -/
theorem upload_performed_if_conds_hold (s : Store) (b n content : Bytes) (m : Meta) (c : Conds)
    (h : validateConds (s.obj? b n) c = .ok) :
    finishUpload s b n content m none c = (s.add b n content m, .ok) :=
  Proofs.Gcs.finishUpload_of_conds s b n content m c h

/-- (4d) delete is gated the same way: it removes the object iff it exists and the conditions
    hold. -/
theorem delete_gated (s : Store) (b n : Bytes) (r : RawConds) (c : Conds) (hn : n ≠ [])
    (hp : parseConds r = some c) :
    ((step s (.delete b n r)).2 = Resp.status .noContent ↔
      ((s.obj? b n).isSome ∧ validateConds (s.obj? b n) c = .ok)) :=
  Proofs.Gcs.delete_gated s b n r c hn hp

/-- Non-vacuity: a concrete object and condition set that satisfy / violate the hypotheses. -/
example : validateConds (some ⟨[97], [1], 5, 2, {}⟩) { genMatch := 5, metaNotMatch := 3 } = .ok := by decide
example : validateConds (some ⟨[97], [1], 5, 2, {}⟩) { genNotMatch := 5 } = .notModified := by decide
example : validateConds none { genNotMatch := 5 } = .preconditionFailed := by decide

/-! ### Tie T1: the repository's own text of the precondition test

`Emu.Generated.Leaf.validateConds` is regenerated from `validateConds` (gcsemu.go) by the leaf
translator on every run (returning the HTTP status of the error, 0 for `nil`); the Model's
`validateConds`, which the theorems above are about, is the same function, status for status. -/

theorem source_validateConds_is_the_models (o : Option Obj) (c : Conds) :
    Emu.Generated.Leaf.validateConds (o.map Emu.Proofs.LeafTie.toG) (Emu.Proofs.LeafTie.toGC c)
      = Emu.Proofs.LeafTie.code (validateConds o c) :=
  Emu.Proofs.LeafTie.validateConds_tie o c

example : Emu.Generated.Leaf.validateConds (some { Generation := 7, Metageneration := 2 }) { GenerationNotMatch := 7 } = 304 := by decide

end Emu.Props.C04
