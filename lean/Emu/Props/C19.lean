/-
  C19 — gcsutil lock map: mutual exclusion, cancellation safety, no deadlock, no leak.

  The machine of `Emu.Lock.Model` has one step per `l.mu` critical section and per channel
  operation; the theorems hold for any number of goroutines, keys and steps.  Assumed (Go memory
  model, not modelled): a `sync.Mutex` section is atomic, a send on a full 1-slot channel blocks, a
  receive frees the slot, `select` takes an enabled case.  Not expressible here: scheduler fairness
  (a waiter whose `acquire` stays enabled is eventually scheduled).
-/
import Emu.Proofs.Lock

namespace Emu.Props.C19
open Emu.Lock Emu.Proofs.Lock

/-- The invariant holds in every state reachable by any schedule from any number of idle
    goroutines: refcount = goroutines between `++` and `--`; entry present iff refcount > 0;
    slot full iff exactly one goroutine owns it. -/
theorem invariant_always (n : Nat) (sched : List (Nat × Action)) (s : St) (h : run (init n) sched = some s) : LockInv s := by
  suffices hh : ∀ s0, LockInv s0 → run s0 sched = some s → LockInv s from hh _ (inv_init n) h
  clear h
  induction sched with
  | nil => intro s0 h0 hr; simp [run] at hr; rw [← hr]; exact h0
  | cons x xs ih =>
    intro s0 h0 hr
    obtain ⟨t, a⟩ := x
    simp only [run] at hr
    cases hs : step s0 t a with
    | none => simp [hs] at hr
    | some s1 => simp only [hs] at hr; exact ih s1 (inv_step s0 s1 t a h0 hs) hr

/-- **Mutual exclusion**: for every key at most one goroutine owns the lock. -/
theorem mutual_exclusion (s : St) (h : LockInv s) (k : Key) : hld s k ≤ 1 := by
  have := h.slot k; split at this <;> omega

/-- `Lock` returns false only because its context ended … -/
theorem false_only_if_cancelled (s s' : St) (t : Nat) (th : Thread) (k : Key) (hth : s.threads[t]? = some th)
    (hpc : th.pc = .wait k) (h : step s t .giveUp = some s') : th.cancelled = true := by
  simp only [step, hth, hpc] at h
  split at h
  · assumption
  · cases h

/-- … and then it holds nothing and has given its reference back. -/
theorem failed_holds_nothing (k : Key) : counted k .failed = false ∧ holds k .failed = false := ⟨rfl, rfl⟩

/-- **Progress**: if the key is free, a goroutine waiting for it can take it — its `acquire` step
    is enabled (no lost wake-up: this holds in particular right after the holder's `release`). -/
theorem free_key_can_be_acquired (s : St) (hinv : LockInv s) (t : Nat) (th : Thread) (k : Key)
    (hth : s.threads[t]? = some th) (hpc : th.pc = .wait k) (hfree : isFull s k = false) :
    ∃ s', step s t .acquire = some s' := by
  have hc : cnt s k ≥ 1 := by
    unfold cnt
    apply List.countP_pos_iff.mpr
    exact ⟨th, List.mem_of_getElem? hth, by simp [hpc]⟩
  have hr := hinv.refs k
  cases he : s.ent k with
  | none => unfold rc at hr; simp [he] at hr; omega
  | some e =>
    have hf : e.full = false := by simpa [isFull, he] using hfree
    simp [step, hth, hpc, he, hf]

/-- The holder can always unlock: none of its three steps is ever blocked, and under the
    invariant none of them panics. -/
theorem holder_can_always_unlock (s : St) (hinv : LockInv s) (t : Nat) (th : Thread) (k : Key)
    (hth : s.threads[t]? = some th) :
    (th.pc = .holding k → ∃ s', step s t .find = some s' ∧ (s'.threads[t]?.map (·.pc)) = some (.found k)) ∧
    (th.pc = .found k → ∃ s', step s t .release = some s' ∧ (s'.threads[t]?.map (·.pc)) = some (.released k)) ∧
    (th.pc = .released k → ∃ s', step s t .leave = some s') := by
  have hlt := getElem?_lt hth
  refine ⟨?_, ?_, ?_⟩
  · intro hpc
    have hc : cnt s k ≥ 1 := by
      unfold cnt; apply List.countP_pos_iff.mpr
      exact ⟨th, List.mem_of_getElem? hth, by simp [hpc]⟩
    have hr := hinv.refs k
    cases he : s.ent k with
    | none => unfold rc at hr; simp [he] at hr; omega
    | some e =>
      refine ⟨setThread s t { th with pc := .found k }, by simp [step, hth, hpc, he], ?_⟩
      simp [setThread, hlt]
  · intro hpc
    have hh : hld s k ≥ 1 := by
      unfold hld; apply List.countP_pos_iff.mpr
      exact ⟨th, List.mem_of_getElem? hth, by simp [hpc]⟩
    have hs := hinv.slot k
    have hfull : isFull s k = true := by
      by_cases hf : isFull s k = true
      · exact hf
      · simp [hf] at hs; omega
    cases he : s.ent k with
    | none => simp [isFull, he] at hfull
    | some e =>
      have hef : e.full = true := by simpa [isFull, he] using hfull
      refine ⟨{ ent := setEnt s.ent k (some { e with full := false }), threads := s.threads.set t { th with pc := .released k } },
        by simp [step, hth, hpc, he, hef], ?_⟩
      simp [hlt]
  · intro hpc; simp [step, hth, hpc]

/-- Independent keys never interfere: a step of a goroutine working on key `k` leaves every other
    key's entry (refcount and slot) untouched. -/
theorem other_keys_untouched (s s' : St) (t : Nat) (a : Action) (th : Thread) (k k' : Key)
    (hth : s.threads[t]? = some th)
    (hpc : th.pc = .wait k ∨ th.pc = .holding k ∨ th.pc = .givingUp k ∨ th.pc = .found k ∨ th.pc = .released k)
    (h : step s t a = some s') (hk : k' ≠ k) : s'.ent k' = s.ent k' := by
  have hdrop : dropRef s.ent k k' = s.ent k' := by
    unfold dropRef
    cases s.ent k with
    | none => rfl
    | some e => simp only; split <;> simp [setEnt, hk]
  have hset : ∀ v, setEnt s.ent k v k' = s.ent k' := fun v => by simp [setEnt, hk]
  rcases hpc with hpc | hpc | hpc | hpc | hpc
  · -- wait k
    cases a <;> simp only [step, hth, hpc] at h <;> try (cases h; done)
    · cases he : s.ent k with
      | none => simp [he] at h
      | some e =>
        simp only [he] at h
        split at h
        · cases h
        · cases h; exact hset _
    · split at h
      · cases h; rfl
      · cases h
    · cases h; rfl
  · -- holding k
    cases a <;> simp only [step, hth, hpc] at h <;> try (cases h; done)
    · cases he : s.ent k with
      | none => simp only [he] at h; cases h; rfl
      | some e => simp only [he] at h; cases h; rfl
    · cases h; rfl
  · -- givingUp k
    cases a <;> simp only [step, hth, hpc] at h <;> try (cases h; done)
    · cases h; exact hdrop
    · cases h; rfl
  · -- found k
    cases a <;> simp only [step, hth, hpc] at h <;> try (cases h; done)
    · cases he : s.ent k with
      | none => simp only [he] at h; cases h; rfl
      | some e =>
        simp only [he] at h
        split at h
        · cases h; exact hset _
        · cases h; rfl
    · cases h; rfl
  · -- released k
    cases a <;> simp only [step, hth, hpc] at h <;> try (cases h; done)
    · cases h; exact hdrop
    · cases h; rfl

/-- Unlocking a key that nobody holds panics and changes nothing. -/
theorem stray_unlock_panics (s s' : St) (t : Nat) (k : Key) (hfree : isFull s k = false)
    (h : step s t (.strayUnlock k) = some s') :
    s'.ent = s.ent ∧ (s'.threads[t]?.map (·.pc)) = some .panicked := by
  unfold step at h
  cases hth : s.threads[t]? with
  | none => simp [hth] at h
  | some th =>
    have hlt := getElem?_lt hth
    simp only [hth] at h
    cases hpc : th.pc <;> simp only [hpc] at h <;> try cases h
    cases he : s.ent k with
    | none => simp only [he] at h; cases h; exact ⟨rfl, by simp [setThread, hlt]⟩
    | some e =>
      have hf : e.full = false := by simpa [isFull, he] using hfree
      simp only [he, hf, Bool.false_eq_true, if_false] at h
      cases h; exact ⟨rfl, by simp [setThread, hlt]⟩

/-- **No leak**: once no goroutine holds or awaits any lock, the map has no entries. -/
theorem quiescent_map_is_empty (s : St) (hinv : LockInv s)
    (hq : ∀ th ∈ s.threads, th.pc = .idle ∨ th.pc = .failed ∨ th.pc = .panicked) (k : Key) : s.ent k = none := by
  have hc : cnt s k = 0 := by
    unfold cnt
    rw [List.countP_eq_zero]
    intro th hth
    rcases hq th hth with h | h | h <;> simp [h]
  have hr := hinv.refs k
  cases he : s.ent k with
  | none => rfl
  | some e => have := hinv.present k e he; unfold rc at hr; simp [he] at hr; omega

/-- Non-vacuity: two goroutines on one key; the second is cancelled while queued and backs out,
    the first unlocks; the map ends empty. -/
example :
    ((run (init 2) [(0, .enter 7), (0, .acquire), (1, .enter 7), (1, .cancel), (1, .giveUp), (1, .backOut),
        (0, .find), (0, .release), (0, .leave)]).map fun s => (s.ent 7, s.threads.map (·.pc)))
      = some (none, [.idle, .failed]) := by decide

example : (run (init 2) [(0, .enter 7), (0, .acquire), (1, .enter 7), (1, .acquire)]).isNone = true := by decide

end Emu.Props.C19
