/-
  C17 — Bigtable: the choice of storage engine is unobservable to clients.

  The Model has no engine parameter: the three engines are three implementations of the `Rows`
  interface (an ordered map under bytewise key order) and every one of them is tied to this one
  Model by the correspondence check, so they agree with each other by transitivity.  What Lean
  adds is the part of engine independence that is about the *callers* of the interface: the
  engines differ(ed) in whether an iteration stops when the callback returns false, and the
  callbacks of ReadRows and DropRowRange give the same result under both disciplines.
-/
import Emu.Proofs.ScanLoop
import Emu.Proofs.Drop
import Emu.Bt.Server

namespace Emu.Props.C17
open Emu Emu.Bt Emu.Proofs.ScanLoop Emu.Proofs.Drop Emu.Proofs.BtRows

/-- ReadRows: iterating with or without honouring the callback's stop request yields the same
    rows — for every filter, limit, range list and table. -/
theorem readRows_iteration_discipline_unobservable (sch : Schema) (rnd : Int) (f : Filter) (limit : Int)
    (srs : List SimpleRange) (rows : Rows) :
    scanLoop sch rnd f limit true srs rows = scanLoop sch rnd f limit false srs rows := by
  rw [scanLoop_eq_scan, scanLoop_eq_scan]

/-- … and both are the Model's `scan` (the first `limit` rows that produce output, over the
    visited rows in order), i.e. the imperative loop with its shared counter is the declarative
    specification. -/
theorem readRows_loop_is_scan (sch : Schema) (rnd : Int) (f : Filter) (limit : Int) (honour : Bool)
    (keys : List Bytes) (rrs : List RowRange) (rows : Rows) :
    scanLoop sch rnd f limit honour (scanRanges keys rrs) rows = scan sch rnd rows keys rrs limit f := by
  rw [scanLoop_eq_scan]; rfl

/-- DropRowRange: collecting keys until the first non-matching one (stop honoured) or over the
    whole tail (stop ignored) deletes the same rows, on every sorted store. -/
theorem dropRowRange_iteration_discipline_unobservable (p : Bytes) (rows : Rows) (hs : Sorted rows) :
    dropPrefixScan p rows = rows.filter (fun r => !Bytes.hasPrefix r.key p) ∧
    (((rows.filter (fun r => decide (p ≤ r.key))).filter (fun r => Bytes.hasPrefix r.key p)).map (·.key)).foldl Rows.delete rows
      = rows.filter (fun r => !Bytes.hasPrefix r.key p) := by
  refine ⟨dropPrefixScan_eq_filter p rows hs, ?_⟩
  rw [foldl_delete_eq_filter]
  apply List.filter_congr
  intro r hr
  congr 1
  rw [Bool.eq_iff_iff]
  simp only [List.contains_iff_mem, List.mem_map, List.mem_filter, decide_eq_true_eq]
  constructor
  · rintro ⟨x, ⟨⟨_, _⟩, hx⟩, hk⟩; rw [← hk]; exact hx
  · intro hp
    refine ⟨r, ⟨⟨hr, ?_⟩, hp⟩, rfl⟩
    refine Decidable.byContradiction fun hlt => ?_
    have : r.key < p := by grind
    rw [not_hasPrefix_of_lt p r.key this] at hp; cases hp

/-- Non-vacuity: limit 2 over three emitting rows, both disciplines. -/
example :
    let sch : Schema := [([102], none)]
    let row (k : Nat) : Row := ⟨[k], [⟨[102], [⟨[113], [⟨1000, [k], []⟩]⟩]⟩]⟩
    (scanLoop sch 0 .absent 2 true [⟨[], []⟩] [row 1, row 2, row 3]).map (·.key) = [[1], [2]] ∧
    (scanLoop sch 0 .absent 2 false [⟨[], []⟩] [row 1, row 2, row 3]).map (·.key) = [[1], [2]] := by decide

end Emu.Props.C17
