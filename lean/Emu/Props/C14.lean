/-
  C14 — Bigtable: table, family and row-range admin changes exactly what it names.
-/
import Emu.Proofs.Drop
import Emu.Bt.Server
import Emu.Bt.Activity

namespace Emu.Props.C14
open Emu Emu.Bt Emu.Proofs.BtRow Emu.Proofs.BtInv Emu.Proofs.BtRows Emu.Proofs.Drop

/-! #### tables -/

theorem create_new (s : Server) (parent id : Bytes) (fams : Schema)
    (h : s.find (parent ++ tablesInfix ++ id) = none) :
    (step s (.create parent id fams)).2 = Resp.schema fams ∧
    ((step s (.create parent id fams)).1.find (parent ++ tablesInfix ++ id)).map (fun t => (t.schema, t.rows))
      = some (fams, []) := by
  simp only [step, h]
  exact ⟨trivial, by simp [Server.setTable, Server.find]⟩

theorem create_existing (s : Server) (parent id : Bytes) (fams : Schema) (t : Table)
    (h : s.find (parent ++ tablesInfix ++ id) = some t) :
    step s (.create parent id fams) = (s, .err .alreadyExists) := by
  simp only [step, h]

/-- DeleteTable makes the table unreachable: every later data or admin request on that name
    answers NotFound … -/
theorem delete_then_notFound (s : Server) (name : Bytes) (t : Table) (h : s.find name = some t) :
    (step s (.delete name)).2 = Resp.ok ∧ (step s (.delete name)).1.find name = none := by
  simp only [step, Server.withTable, h]
  exact ⟨trivial, by simp [Server.find]⟩

theorem missing_table_is_notFound (s : Server) (name : Bytes) (h : s.find name = none)
    (k : Table → Server × Resp) : s.withTable name k = (s, .err .notFound) := by
  simp [Server.withTable, h]

/-- … other tables are unaffected, and a table re-created under that name starts empty
    (`create_new`). -/
theorem delete_frame (s : Server) (name other : Bytes) (h : other ≠ name) :
    (step s (.delete name)).1.find other = s.find other := by
  simp only [step, Server.withTable]
  cases s.find name with
  | none => rfl
  | some t => simp [Server.find, aget_adel_other _ _ _ h]

/-- "NotFound for every later request" includes the two consistency requests: a token handed out
    while the table existed proves nothing once it is gone (and none is handed out for a missing table);
    for an existing table exactly its own token is accepted. -/
theorem consistency_requests_need_the_table (y : Sys) (name token : Bytes) :
    (y.srv.find name = none →
      (xstep y (.genToken name)).2 = .err .notFound ∧ (xstep y (.checkToken name token)).2 = .err .notFound) ∧
    ((y.srv.find name).isSome →
      (xstep y (.genToken name)).2 = .ok ∧
      ((xstep y (.checkToken name token)).2 = .ok ↔ token = consistencyToken name)) ∧
    (xstep y (.genToken name)).1.srv = y.srv ∧ (xstep y (.checkToken name token)).1.srv = y.srv := by
  refine ⟨fun h => by simp [xstep, h], fun h => ?_, ?_, ?_⟩
  · cases hf : y.srv.find name with
    | none => simp [hf] at h
    | some t =>
      refine ⟨by simp [xstep, hf], ?_⟩
      simp only [xstep, hf]
      by_cases ht : token = consistencyToken name <;> simp [ht]
  · simp only [xstep]; split <;> rfl
  · simp only [xstep]; split
    · rfl
    · split <;> rfl

/-- in particular after a DeleteTable -/
theorem deleted_table_token_is_worthless (y : Sys) (name : Bytes) :
    let y' : Sys := { y with srv := (step y.srv (.delete name)).1 }
    (xstep y' (.checkToken name (consistencyToken name))).2 = .err .notFound := by
  intro y'
  have : y'.srv.find name = none := by
    show (step y.srv (.delete name)).1.find name = none
    cases hf : y.srv.find name with
    | none => simp [step, Server.withTable, hf]
    | some t => exact (delete_then_notFound y.srv name t hf).2
  simp [xstep, this]

/-! #### column families -/

/-- ModifyColumnFamilies applies all modifications of a request or none. -/
theorem modify_all_or_nothing (t : Table) (mods : List FamMod) :
    (∃ e, modifyColumnFamilies t mods = .error e ∧ applyModsSchema t.schema mods = .error e) ∨
    (modifyColumnFamilies t mods = .ok (applyMods t mods) ∧ ∃ s', applyModsSchema t.schema mods = .ok s') := by
  unfold modifyColumnFamilies
  cases h : applyModsSchema t.schema mods with
  | error e => left; exact ⟨e, rfl, rfl⟩
  | ok s' => right; exact ⟨rfl, s', rfl⟩

theorem modify_rejected_changes_nothing (s : Server) (name : Bytes) (t : Table) (mods : List FamMod) (e : ModErr)
    (ht : s.find name = some t) (h : modifyColumnFamilies t mods = .error e) :
    (step s (.modify name mods)).1 = s := by
  simp only [step, Server.withTable, ht, h]
  cases e <;> rfl

/-- Dropping a family removes its cells from every row; families that stay keep all their cells;
    rows left without cells disappear. -/
theorem drop_family_purges (s' : Schema) (rows : Rows) (hinv : AllInv rows) (r' : Row) (h : r' ∈ purgeRows s' rows) :
    ∃ r ∈ rows, r' = scrubRow s' r ∧ r'.fams ≠ [] ∧
      ∀ fam q, r'.cellsOf fam q = if s'.has fam then r.cellsOf fam q else [] := by
  simp only [purgeRows, List.mem_filterMap] at h
  obtain ⟨r, hr, hx⟩ := h
  split at hx
  · cases hx
  · rename_i hne
    cases hx
    refine ⟨r, hr, rfl, ?_, fun fam q => cellsOf_scrubRow s' r (hinv r hr) fam q⟩
    intro e; simp [e] at hne

/-- After a family is dropped, writes that name it are rejected. -/
theorem write_to_dropped_family_rejected (sch : Schema) (id : Bytes) (now : Int) (r : Row) (q : Bytes) (ts : Int) (v : Bytes) :
    applyMutation (sch.erase id) now r (.setCell id q ts v) = none := by
  have : (sch.erase id).has id = false := by
    simp [Schema.erase, Schema.has, List.any_eq_false]
  simp [applyMutation, this]

/-! #### row ranges -/

/-- DropRowRange(prefix) removes exactly the rows whose key starts with the prefix — although the
    code only scans upwards from the prefix and stops at the first key without it (prefix-block
    lemma) — and leaves schema and every other row untouched. -/
theorem dropRowRange_prefix (t : Table) (p : Bytes) (hs : Sorted t.rows) :
    dropRowRange t (.pfx p) = some { t with rows := t.rows.filter (fun r => !Bytes.hasPrefix r.key p) } := by
  simp [dropRowRange, dropPrefixScan_eq_filter p t.rows hs]

theorem dropRowRange_all (t : Table) : dropRowRange t .all = some { t with rows := [] } := rfl

/-- a prefix ending in 0xff, or equal to a whole key, is nothing special: membership is `hasPrefix` -/
theorem dropped_iff_hasPrefix (t : Table) (p : Bytes) (hs : Sorted t.rows) (r : Row) (hr : r ∈ t.rows) :
    (∀ t', dropRowRange t (.pfx p) = some t' → (r ∈ t'.rows ↔ Bytes.hasPrefix r.key p = false)) := by
  intro t' h
  rw [dropRowRange_prefix t p hs] at h
  cases h
  simp [List.mem_filter, hr]

theorem dropRowRange_other_tables (s : Server) (name other : Bytes) (target : DropTarget) (h : other ≠ name) :
    (step s (.dropRange name target)).1.find other = s.find other := by
  simp only [step, Server.withTable]
  cases hf : s.find name with
  | none => rfl
  | some t =>
    simp only
    cases dropRowRange t target with
    | none => rfl
    | some t' => simp [Server.setTable, Server.find, aget_aset_other _ _ _ _ h]

/-- Non-vacuity: keys a, a\x00, a\xff, b with prefix "a": only b stays. -/
example :
    let rows : Rows := [⟨[97], []⟩, ⟨[97, 0], []⟩, ⟨[97, 255], []⟩, ⟨[98], []⟩]
    (dropPrefixScan [97] rows).map (·.key) = [[98]] := by decide

end Emu.Props.C14
