/-
  C01 — Bigtable: reads reflect exactly the mutations applied (data-model equivalence).

  The data model is stated on `Row.cellsOf r fam qual` (the cells of one column, newest first):
  one law per mutation kind says which cells the column holds afterwards.  `RowInv` is the
  well-formedness invariant (family names and qualifiers occur once, one cell per timestamp in
  descending order); it is kept by every mutation and by the scrub that precedes every store, and
  under it scrubbing is invisible to lookups, so what is read back is what the laws prescribe.
-/
import Emu.Proofs.BtRows
import Emu.Bt.Server
import Emu.Proofs.LeafTie.ValidTimestamp
import Emu.Proofs.MergeInPlace

namespace Emu.Props.C01
open Emu Emu.Bt Emu.Proofs.BtRow Emu.Proofs.BtInv Emu.Proofs.BtRows

/-! #### (1) the data-model laws -/

/-- SetCell: the column holds the new cell and every old cell with a different timestamp — i.e.
    one cell per (family, qualifier, timestamp) holding the last value written; `-1` means the
    server's clock in whole milliseconds.  No other column changes. -/
theorem setCell_law (sch : Schema) (now : Int) (r r' : Row) (fam q : Bytes) (ts : Int) (v : Bytes)
    (h : applyMutation sch now r (.setCell fam q ts v) = some r') (hwf : StrictDesc (r.cellsOf fam q)) :
    (∀ x, x ∈ r'.cellsOf fam q ↔ x = ⟨resolveTs now ts, v, []⟩ ∨ (x ∈ r.cellsOf fam q ∧ x.ts ≠ resolveTs now ts)) ∧
    (∀ f' q', (f' ≠ fam ∨ q' ≠ q) → r'.cellsOf f' q' = r.cellsOf f' q') ∧
    StrictDesc (r'.cellsOf fam q) := by
  simp only [applyMutation] at h
  split at h
  · cases h
  · split at h
    · cases h
    · cases h
      refine ⟨?_, ?_, ?_⟩
      · intro x; rw [Row.cellsOf_setCells_self]; exact mem_appendOrReplace _ _ hwf x
      · intro f' q' hne; exact Row.cellsOf_setCells_other r fam q f' q' _ hne
      · rw [Row.cellsOf_setCells_self]; exact appendOrReplace_desc _ _ hwf

/-- DeleteFromColumn: exactly the cells whose timestamp lies in `[s, e)` (`e = 0`: unbounded;
    no range: all of them) are removed from that column; no other column changes. -/
theorem deleteFromColumn_law (sch : Schema) (now : Int) (r r' : Row) (fam q : Bytes) (hasRange : Bool)
    (s e : Int) (h : applyMutation sch now r (.deleteFromColumn fam q hasRange s e) = some r') :
    (r'.cellsOf fam q = if hasRange then (r.cellsOf fam q).filter (fun c => !inDeleteRange s e c.ts) else []) ∧
    (∀ f' q', (f' ≠ fam ∨ q' ≠ q) → r'.cellsOf f' q' = r.cellsOf f' q') := by
  simp only [applyMutation] at h
  split at h
  · cases h
  · split at h
    · cases h
    · cases hf : r.getFamily fam with
      | none =>
        simp only [hf] at h; cases h
        have : r.cellsOf fam q = [] := by simp [Row.cellsOf, hf]
        refine ⟨by rw [this]; cases hasRange <;> simp, fun _ _ _ => rfl⟩
      | some f =>
        simp only [hf] at h
        cases hc : f.getColumn q with
        | none =>
          simp only [hc] at h; cases h
          have : r.cellsOf fam q = [] := by simp [Row.cellsOf, hf, hc]
          refine ⟨by rw [this]; cases hasRange <;> simp, fun _ _ _ => rfl⟩
        | some c =>
          simp only [hc] at h; cases h
          exact ⟨Row.cellsOf_setCells_self r fam q _, fun f' q' hne => Row.cellsOf_setCells_other r fam q f' q' _ hne⟩

/-- DeleteFromFamily: every column of that family becomes empty; other families are untouched. -/
theorem deleteFromFamily_law (sch : Schema) (now : Int) (r r' : Row) (fam : Bytes)
    (h : applyMutation sch now r (.deleteFromFamily fam) = some r') :
    (∀ q, r'.cellsOf fam q = []) ∧ (∀ f' q', f' ≠ fam → r'.cellsOf f' q' = r.cellsOf f' q') := by
  simp only [applyMutation] at h
  split at h
  · cases h
  · cases h
    refine ⟨?_, ?_⟩
    · intro q
      rw [row_cellsOf_eq]
      simp only [Row.getFamily]
      rw [find?_modifyFirst_self (fun f : Family => f.name == fam) (fun f : Family => { f with cols := [] }) (fun _ => rfl)]
      cases r.fams.find? (fun f => f.name == fam) <;> simp [Family.cellsOf, Family.getColumn]
    · intro f' q' hne
      rw [row_cellsOf_eq, row_cellsOf_eq]
      simp only [Row.getFamily]
      rw [find?_modifyFirst_other (fun f : Family => f.name == fam) (fun f : Family => f.name == f')
        (fun f : Family => { f with cols := [] }) (fun _ => rfl)]
      intro x hx
      have e : x.name = fam := by simpa using hx
      rw [e]; exact _root_.beq_false_of_ne (fun e' => hne e'.symm)

/-- DeleteFromRow: nothing is left. -/
theorem deleteFromRow_law (sch : Schema) (now : Int) (r r' : Row)
    (h : applyMutation sch now r .deleteFromRow = some r') : ∀ f q, r'.cellsOf f q = [] := by
  simp only [applyMutation] at h; cases h
  intro f q; simp [Row.cellsOf, Row.getFamily]

/-! #### (2) what the API defines as invalid is answered with an error -/

theorem setCell_invalid (sch : Schema) (now : Int) (r : Row) (fam q : Bytes) (ts : Int) (v : Bytes)
    (h : sch.has fam = false ∨ validTimestamp (resolveTs now ts) = false) :
    applyMutation sch now r (.setCell fam q ts v) = none := by
  simp only [applyMutation]
  cases h with
  | inl h => simp [h]
  | inr h => simp [h]

theorem deleteFromColumn_invalid (sch : Schema) (now : Int) (r : Row) (fam q : Bytes) (s e : Int)
    (h : sch.has fam = false ∨ validDeleteRange s e = false) :
    applyMutation sch now r (.deleteFromColumn fam q true s e) = none := by
  simp only [applyMutation]
  cases h with
  | inl h => simp [h]
  | inr h => simp [h]

theorem deleteFromFamily_unknown (sch : Schema) (now : Int) (r : Row) (fam : Bytes) (h : sch.has fam = false) :
    applyMutation sch now r (.deleteFromFamily fam) = none := by
  simp [applyMutation, h]

/-- which timestamps are valid: non-negative, at most the maximum, whole milliseconds -/
theorem validTimestamp_iff (ts : Int) :
    validTimestamp ts = true ↔ (0 ≤ ts ∧ ts ≤ Generated.maxValidMilliSeconds ∧ ts % 1000 = 0) := by
  simp only [validTimestamp, Generated.minValidMilliSeconds, Bool.and_eq_true, decide_eq_true_eq, and_assoc]
  constructor
  · intro h; exact ⟨of_decide_eq_true h.1, h.2⟩
  · intro h; exact ⟨decide_eq_true h.1, h.2⟩

/-- an inverted (or empty) delete range is invalid -/
theorem inverted_range_invalid (s e : Int) (h : s ≥ e) (he : e ≠ 0) : validDeleteRange s e = false := by
  simp [validDeleteRange, h, he]

/-- A mutation list with an invalid element at any position fails as a whole … -/
theorem invalid_element_fails_request (sch : Schema) (now : Int) (r r1 : Row) (ms1 ms2 : List Mutation) (m : Mutation)
    (h1 : applyMutations sch now r ms1 = some r1) (hm : applyMutation sch now r1 m = none) :
    applyMutations sch now r (ms1 ++ m :: ms2) = none := by
  induction ms1 generalizing r with
  | nil => simp [applyMutations] at h1; subst h1; simp [applyMutations, hm]
  | cons x xs ih =>
    simp only [applyMutations, List.cons_append] at h1 ⊢
    cases hx : applyMutation sch now r x with
    | none => simp [hx] at h1
    | some rx => simp only [hx] at h1 ⊢; exact ih rx h1

/-- … and then MutateRow changes nothing (it returns no new store). -/
theorem failed_request_changes_nothing (sch : Schema) (now : Int) (rows : Rows) (k : Bytes) (ms : List Mutation)
    (h : applyMutations sch now (rows.getOrCreate k) ms = none) : mutateRow sch now rows k ms = none := by
  simp [mutateRow, h]

/-- MutateRows: an entry whose mutations fail gets a non-OK status and leaves the store as it
    was before that entry; the other entries are applied in order. -/
theorem mutateRows_failed_entry (sch : Schema) (now : Int) (rows : Rows) (k : Bytes) (ms : List Mutation)
    (es : List (Bytes × List Mutation)) (h : mutateRow sch now rows k ms = none) :
    mutateRows sch now rows ((k, ms) :: es) =
      ((mutateRows sch now rows es).1, false :: (mutateRows sch now rows es).2) := by
  simp [mutateRows, h]

/-! #### (3) stored rows stay well formed, for every program -/

theorem mutateRow_keeps_wellformed (sch : Schema) (now : Int) (rows rows' : Rows) (k : Bytes) (ms : List Mutation)
    (hinv : AllInv rows) (hs : Sorted rows) (h : mutateRow sch now rows k ms = some rows') :
    AllInv rows' ∧ Sorted rows' := by
  unfold mutateRow at h
  cases ha : applyMutations sch now (rows.getOrCreate k) ms with
  | none => simp [ha] at h
  | some r' =>
    simp only [ha, Option.some.injEq] at h
    subst h
    have := rowInv_applyMutations sch now ms _ r' (getOrCreate_inv rows k hinv) ha
    exact ⟨allInv_update sch rows r' hinv this, sorted_update sch rows r' hs⟩

theorem mutateRows_keeps_wellformed (sch : Schema) (now : Int) (es : List (Bytes × List Mutation)) (rows : Rows)
    (hinv : AllInv rows) (hs : Sorted rows) :
    AllInv (mutateRows sch now rows es).1 ∧ Sorted (mutateRows sch now rows es).1 := by
  induction es generalizing rows with
  | nil => exact ⟨hinv, hs⟩
  | cons e es ih =>
    obtain ⟨k, ms⟩ := e
    simp only [mutateRows]
    cases hm : mutateRow sch now rows k ms with
    | none => simp only; exact ih rows hinv hs
    | some rows1 =>
      simp only
      have := mutateRow_keeps_wellformed sch now rows rows1 k ms hinv hs hm
      exact ih rows1 this.1 this.2

/-! #### (4) what is stored, and what a later read sees -/

/-- After a successful MutateRow the row is stored scrubbed — or not at all if no cell is left —
    and no other row changes. -/
theorem mutateRow_stores (sch : Schema) (now : Int) (rows rows' : Rows) (k : Bytes) (ms : List Mutation) (r' : Row)
    (ha : applyMutations sch now (rows.getOrCreate k) ms = some r') (hk : r'.key = k)
    (h : mutateRow sch now rows k ms = some rows') :
    rows'.get k = (if (scrubRow sch r').fams.isEmpty then none else some (scrubRow sch r')) ∧
    ∀ k', k' ≠ k → rows'.get k' = rows.get k' := by
  simp only [mutateRow, ha, Option.some.injEq] at h
  subst h
  subst hk
  exact ⟨get_update_self sch rows r', fun k' hk' => get_update_other sch rows r' k' hk'⟩

/-- Scrubbing (which precedes every store and every read) does not change any lookup in a family
    of the schema, and hides families that are not in the schema. -/
theorem scrub_invisible (sch : Schema) (r : Row) (h : RowInv r) (fam q : Bytes) :
    (scrubRow sch r).cellsOf fam q = if sch.has fam then r.cellsOf fam q else [] :=
  cellsOf_scrubRow sch r h fam q

/-- Shape of every row handed to a reader: each family once and in the schema, no empty family,
    no empty column, columns in strictly ascending qualifier order, cells strictly descending. -/
theorem read_shape (sch : Schema) (r : Row) (h : RowInv r) :
    KeysNodup (·.name) (scrubRow sch r).fams ∧
    (∀ f ∈ (scrubRow sch r).fams, sch.has f.name = true ∧ f.cols ≠ [] ∧
        f.cols.Pairwise (fun a b => a.qual < b.qual) ∧
        ∀ c ∈ f.cols, c.cells ≠ [] ∧ StrictDesc c.cells) := by
  have hi := rowInv_scrubRow sch r h
  refine ⟨hi.fams, ?_⟩
  intro f hf
  have hs := scrubRow_shape sch r f hf
  exact ⟨hs.1, hs.2.1, scrubRow_cols_sorted sch r h f hf, fun c hc => ⟨hs.2.2 c hc, hi.cells f hf c hc⟩⟩

/-- An unfiltered read of a stored row returns it scrubbed, and omits it iff no cell is left. -/
theorem unfiltered_read (sch : Schema) (rnd : Int) (r : Row) (hne : r.fams ≠ []) :
    emitRow sch rnd .absent r =
      if (scrubRow sch r).fams.isEmpty then none else some (scrubRow sch r) := by
  have : r.fams.isEmpty = false := by cases hf : r.fams <;> simp_all
  simp [emitRow, this, filterRow]

/-- Non-vacuity: two versions, an overwrite of one, then a ranged delete. -/
example :
    let sch : Schema := [([102], none)]
    ((applyMutations sch 0 ⟨[97], []⟩
        [.setCell [102] [113] 1000 [1], .setCell [102] [113] 2000 [2], .setCell [102] [113] 1000 [3],
         .deleteFromColumn [102] [113] true 2000 0]).map (·.cellsOf [102] [113]))
      = some [⟨1000, [3], []⟩] := by decide

/-! ### `scrubRow` works in place

The code compacts `r.Families` (and each family's `Columns`) inside the slice it is ranging over.
Written with Go's array reads, writes and re-slice, that loop computes exactly the Model's
`scrubRow` (the function "each family once, … no row that has no cells" is proved about): the write
index never overtakes the read index. -/

theorem scrubRow_in_place_is_the_models (s : Schema) (r : Row) :
    Emu.Proofs.MergeInPlace.compactInPlace (fun f : Family =>
        if s.has f.name = true then (if (scrubFam f).cols.isEmpty = true then none else some (scrubFam f)) else none) r.fams
      = .ok (scrubRow s r).fams :=
  Emu.Proofs.MergeInPlace.scrubRow_in_place s r

theorem scrubFam_in_place_is_the_models (cols : List Column) :
    Emu.Proofs.MergeInPlace.compactInPlace (fun c : Column => if c.cells.isEmpty = true then none else some c) cols
      = .ok (cols.filter (fun c => !c.cells.isEmpty)) :=
  Emu.Proofs.MergeInPlace.scrubFam_in_place cols

/-! ### Tie T1: the repository's own text of the timestamp test

`Emu.Generated.Leaf.validTimestamp` is regenerated from `(*table).validTimestamp` (inmem.go) by
the leaf translator on every run; the Model's `validTimestamp`, which the theorems above are
about, is the same function. -/

theorem source_validTimestamp_is_the_models (ts : Int) :
    Emu.Generated.Leaf.validTimestamp ts = Emu.Bt.validTimestamp ts :=
  Emu.Proofs.LeafTie.validTimestamp_tie ts

end Emu.Props.C01
