/-
  C01 — Bigtable: reads reflect exactly the mutations applied.
  (statements only; helper lemmas live in Emu/Proofs)
-/
import Emu.Bt.Server

namespace Emu.Props.C01
open Emu Emu.Bt

/-- A mutation list with an invalid element leaves the store unchanged (MutateRow reports an
    error and `mutateRow` returns no new store). -/
theorem mutateRow_error_unchanged (sch : Schema) (now : Int) (rows : Rows) (k : Bytes)
    (ms : List Mutation) (h : applyMutations sch now (rows.getOrCreate k) ms = none) :
    mutateRow sch now rows k ms = none := by
  simp [mutateRow, h]

end Emu.Props.C01
