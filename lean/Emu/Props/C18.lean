/-
  C18 — Bigtable: scans stay sane while the table is being written (leveldb engines).

  Statements are about every run of the scan machine `Emu.Bt.Scan` (any number of writes, anywhere
  between two steps of the scan — a superset of what the code allows, where writers only get in
  while a message is streamed).  `visited` are the rows handed to the per-row callback; what the
  client receives is the per-row image of them under the request's filter (C05), cut by the row
  limit (C03).
  Assumed, not modelled: a goleveldb iterator is a snapshot taken at creation; every write is
  atomic with respect to taking a snapshot (both happen under `tbl.mu`, see C06).
-/
import Emu.Proofs.Scan

namespace Emu.Props.C18
open Emu Emu.Bt Emu.Bt.Scan Emu.Proofs.Scan Emu.Proofs.BtRows Emu.Proofs.Ranges

/-- For every interleaving, what the scan has visited so far (plus what is left of the open
    snapshot) is exactly: for each range opened so far, in order, the rows of that range in the
    snapshot the range was given — and every snapshot is a state the table really had. -/
theorem visited_is_what_the_snapshots_held (rows : Rows) (srs : List SimpleRange) (acts : List Act) (s : St)
    (h : run (init rows srs) acts = some s) :
    s.visited ++ s.pending = s.seen ∧ (∀ p ∈ s.opened, p.2 ∈ s.hist) ∧ s.opened.map (·.1) ++ s.todo = srs :=
  let i := inv_run srs acts _ s (inv_init rows srs) h
  ⟨i.seen, i.snaps, i.ranges⟩

/-- **Strictly ascending keys, hence no duplicates**, whatever was written meanwhile: the ranges
    are the merged ranges of the request (pairwise separated, C03) and every table state is sorted. -/
theorem visited_strictly_ascending (rows : Rows) (srs : List SimpleRange) (hsep : Separated srs) (acts : List Act) (s : St)
    (h : run (init rows srs) acts = some s) (hsorted : ∀ T ∈ s.hist, Sorted T) :
    s.visited.Pairwise (fun a b => a.key < b.key) := by
  have i := inv_run srs acts _ s (inv_init rows srs) h
  have hsep' : Separated (s.opened.map (·.1)) := by
    have := i.ranges
    unfold Separated at hsep ⊢
    rw [← this] at hsep
    exact (List.pairwise_append.mp hsep).1
  have hasc := seen_ascending s.opened hsep' (fun p hp => hsorted _ (i.snaps p hp))
  have hseen := i.seen
  unfold St.seen at hseen
  rw [← hseen] at hasc
  exact (List.pairwise_append.mp hasc).1

theorem visited_no_duplicate_keys (rows : Rows) (srs : List SimpleRange) (hsep : Separated srs) (acts : List Act) (s : St)
    (h : run (init rows srs) acts = some s) (hsorted : ∀ T ∈ s.hist, Sorted T) :
    (s.visited.map (·.key)).Nodup := by
  have := visited_strictly_ascending rows srs hsep acts s h hsorted
  unfold List.Nodup
  rw [List.pairwise_map]
  exact this.imp (fun hlt heq => by rw [heq] at hlt; exact absurd hlt (List.lt_irrefl _))

/-- **Every returned row is a state that row really had** at some instant of the scan: it is a
    row of one of the table states in the history (never a mixture of two versions: the row comes
    whole out of one snapshot). -/
theorem every_visited_row_was_stored (rows : Rows) (srs : List SimpleRange) (acts : List Act) (s : St)
    (h : run (init rows srs) acts = some s) (r : Row) (hr : r ∈ s.visited) :
    ∃ T ∈ s.hist, r ∈ T := by
  have i := inv_run srs acts _ s (inv_init rows srs) h
  have hmem : r ∈ s.seen := by rw [← i.seen]; exact List.mem_append_left _ hr
  unfold St.seen at hmem
  simp only [List.mem_flatMap, List.mem_filter] at hmem
  obtain ⟨p, hp, hrT, _⟩ := hmem
  exact ⟨p.2, i.snaps p hp, hrT⟩

/-- **Rows not written during the scan are returned exactly as stored**: once the scan has
    finished, a row that was in every state the table had, and whose key lies in one of the
    ranges, has been visited. -/
theorem untouched_rows_are_returned (rows : Rows) (srs : List SimpleRange) (acts : List Act) (s : St)
    (h : run (init rows srs) acts = some s) (hfin : s.finished) (r : Row)
    (hstable : ∀ T ∈ s.hist, r ∈ T) (sr : SimpleRange) (hsr : sr ∈ srs) (hin : sr.contains r.key = true) :
    r ∈ s.visited := by
  have i := inv_run srs acts _ s (inv_init rows srs) h
  obtain ⟨htodo, hsnap⟩ := hfin
  have hseen := i.seen
  simp only [St.pending, hsnap, Option.getD_none, List.append_nil] at hseen
  rw [hseen]
  have hranges := i.ranges
  rw [htodo, List.append_nil] at hranges
  rw [← hranges] at hsr
  obtain ⟨p, hp, hp1⟩ := List.mem_map.mp hsr
  unfold St.seen
  simp only [List.mem_flatMap, List.mem_filter]
  exact ⟨p, hp, hstable p.2 (i.snaps p hp), by rw [hp1]; exact hin⟩

/-- **The scan is never blocked or failed by writers**: a write is always possible, and as long
    as the scan has not finished one of its own steps is enabled, whatever has been written. -/
theorem scan_always_proceeds (s : St) :
    (∀ T, (step s (.write T)).isSome) ∧
    (¬ s.finished → (step s .openRange).isSome ∨ (step s .row).isSome ∨ (step s .closeRange).isSome) := by
  refine ⟨fun T => by simp [step], ?_⟩
  intro hnf
  unfold St.finished at hnf
  cases hsnap : s.snap with
  | none =>
    cases htodo : s.todo with
    | nil => exact absurd ⟨htodo, hsnap⟩ hnf
    | cons sr rest => left; simp [step, hsnap, htodo]
  | some l =>
    cases l with
    | nil => right; right; simp [step, hsnap]
    | cons r more => right; left; simp [step, hsnap]

/-- With no concurrent write the machine is the sequential scan of C03. -/
theorem quiet_scan_is_the_sequential_scan (rows : Rows) (srs : List SimpleRange) (acts : List Act) (s : St)
    (h : run (init rows srs) acts = some s) (hfin : s.finished) (hquiet : s.hist = [rows]) :
    s.visited = scanVisit srs rows := by
  have i := inv_run srs acts _ s (inv_init rows srs) h
  obtain ⟨htodo, hsnap⟩ := hfin
  have hseen := i.seen
  simp only [St.pending, hsnap, Option.getD_none, List.append_nil] at hseen
  have hranges := i.ranges
  rw [htodo, List.append_nil] at hranges
  rw [hseen]
  unfold St.seen scanVisit
  rw [← hranges, List.flatMap_map]
  have hall : ∀ p ∈ s.opened, p.2 = rows := by
    intro p hp
    have := i.snaps p hp
    rw [hquiet, List.mem_singleton] at this
    exact this
  generalize s.opened = l at hall
  induction l with
  | nil => rfl
  | cons p ps ih =>
    simp only [List.flatMap_cons]
    rw [hall p (by simp), ih (fun q hq => hall q (List.mem_cons_of_mem _ hq))]

/-- The ranges a request is scanned by are separated (so the hypotheses above are met by the code). -/
theorem request_ranges_are_separated (srs : List SimpleRange) : Separated (mergeSimpleRanges srs) :=
  mergeSimpleRanges_separated srs

/-- Non-vacuity: two ranges; a row is deleted and another rewritten while the first range is open;
    the second range sees the new state. -/
example :
    let r (k : Nat) (q : Nat) : Row := ⟨[k], [⟨[102], [⟨[q], [⟨1000, [1], []⟩]⟩]⟩]⟩
    let t0 : Rows := [r 1 1, r 2 1, r 5 1, r 6 1]
    let t1 : Rows := [r 1 1, r 5 2, r 6 1]
    ((run (init t0 [⟨[1], [3]⟩, ⟨[5], [7]⟩]) [.openRange, .row, .write t1, .row, .closeRange, .openRange, .row, .row, .closeRange]).map
        fun s => (s.visited.map (·.key), s.visited.map (fun x => x.fams.map (·.cols.map (·.qual))))) =
      some ([[1], [2], [5], [6]], [[[[1]]], [[[1]]], [[[2]]], [[[1]]]]) := by decide

end Emu.Props.C18
