/-
  C02 — GCS: what is uploaded is what is served, until overwritten or deleted.

  Modelled: the three upload protocols down to `finishUpload` (media and multipart call it with the
  complete body; resumable through `resumeStep`), the store, metadata/media reads, delete.
  Not modelled (covered by the correspondence check only): URL parsing of the JSON, /download,
  /b/…/o/… and public forms, multipart and gzip decoding by the Go standard library.
-/
import Emu.Proofs.Gcs
import Emu.Proofs.Resumable

namespace Emu.Props.C02
open Emu Emu.Gcs Emu.Proofs.Gcs Emu.Proofs.Resumable

/-- **Chunking law** of resumable uploads: for every payload and every sequence of requests
    carrying parts of it (any chunking, re-sent and overlapping ranges, status queries,
    finalisation requests; gaps and length mismatches are refused), the server-side buffer is
    always an initial segment of the payload and every completion hands exactly the payload to
    `finishUpload`. -/
theorem resumable_chunking_law (P : Bytes) (reqs : List (ByteRange × Bytes))
    (h : ∀ q ∈ reqs, IsChunkOf P q.1 q.2) :
    IsPrefix (feed [] reqs).1 P ∧ ∀ d ∈ (feed [] reqs).2, d = P :=
  chunking_law P reqs [] (isPrefix_nil P) h

/-- An accepted upload (any protocol) is afterwards served byte for byte, with the size, MD5
    token and content type that were sent, generation fresh, metageneration 1. -/
theorem upload_then_read (s : Store) (b n content : Bytes) (m : Meta) (d : Option (Bool × Bool)) (c : Conds)
    (h : (finishUpload s b n content m d c).2 = .ok) :
    let s' := (finishUpload s b n content m d c).1
    (step s' (.getMedia b n)).2 = Resp.media ⟨n, content, s.clock + 1, 1, m⟩ ∧
    (step s' (.getMeta b n)).2 = Resp.object b ⟨n, content, s.clock + 1, 1, m⟩ := by
  have hc := finishUpload_ok_conds s b n content m d c h
  have hs : (finishUpload s b n content m d c).1 = s.add b n content m := by
    unfold finishUpload at h ⊢
    split
    · simp at h
    · simp at h
    · simp [hc]
  simp [hs, step, obj?_add_self]

/-- An upload whose declared MD5 is not valid base64 or differs from the MD5 of the bytes
    received is rejected with 400 and leaves the previous object (and everything else) intact. -/
theorem md5_mismatch_rejected (s : Store) (b n content : Bytes) (m : Meta) (c : Conds)
    (d : Bool × Bool) (hd : d.1 = false ∨ d = (true, false)) :
    finishUpload s b n content m (some d) c = (s, .badRequest) := by
  obtain ⟨d1, d2⟩ := d
  cases hd with
  | inl h => simp only at h; subst h; simp [finishUpload]
  | inr h => cases h; simp [finishUpload]

/-- An overwrite replaces the whole object (content and metadata); nothing of the old one is
    kept, and no other object is touched. -/
theorem overwrite_replaces_whole_object (s : Store) (b n c1 c2 : Bytes) (m1 m2 : Meta) :
    ((s.add b n c1 m1).add b n c2 m2).obj? b n = some ⟨n, c2, s.clock + 2, 1, m2⟩ ∧
    ∀ b' n', (b' ≠ b ∨ n' ≠ n) → ((s.add b n c1 m1).add b n c2 m2).obj? b' n' = s.obj? b' n' := by
  refine ⟨?_, ?_⟩
  · rw [obj?_add_self]; simp [Store.add]
  · intro b' n' h; rw [obj?_add_other _ _ _ _ _ _ _ h, obj?_add_other _ _ _ _ _ _ _ h]

/-- After a successful delete the object is absent: metadata and media GETs answer 404 … -/
theorem delete_makes_absent (s : Store) (b n : Bytes) (rc : RawConds) (hn : n ≠ [])
    (h : (step s (.delete b n rc)).2 = Resp.status .noContent) :
    let s' := (step s (.delete b n rc)).1
    s'.obj? b n = none ∧ (step s' (.getMeta b n)).2 = Resp.status .notFound ∧
    (step s' (.getMedia b n)).2 = Resp.status .notFound := by
  have hne : n.isEmpty = false := by cases n <;> simp_all
  simp only [step, hne, Bool.false_eq_true, if_false] at h ⊢
  cases hp : parseConds rc with
  | none => simp [hp] at h
  | some c =>
    simp only [hp] at h ⊢
    cases hv : validateConds (s.obj? b n) c with
    | ok =>
      simp only [hv] at h ⊢
      cases ho : s.obj? b n with
      | none => simp [ho] at h
      | some o =>
        have hb := obj?_some_bucket s b n o ho
        have hnone : (s.setBucket b (((s.bucket? b).getD []).delete n)).obj? b n = none := by
          simp [Store.obj?, Store.bucket?, Store.setBucket, Objs.get_delete_self]
        simp [hnone]
    | preconditionFailed => simp [hv, condFail] at h
    | notModified => simp [hv, condFail] at h

/-- … and no listing of the bucket names it any more (listings walk the names of the stored objects). -/
theorem delete_removes_from_listing (s : Store) (b n : Bytes) (rc : RawConds) (hn : n ≠ [])
    (h : (step s (.delete b n rc)).2 = Resp.status .noContent) :
    n ∉ (((step s (.delete b n rc)).1.bucket? b).getD []).map (·.name) := by
  have habs := (delete_makes_absent s b n rc hn h).1
  intro hmem
  obtain ⟨o, ho, hname⟩ := List.mem_map.mp hmem
  -- an object of that name in the bucket would be found by `get`
  have hget : ∀ (os : Objs), o ∈ os → (os.get n).isSome = true := by
    intro os
    induction os with
    | nil => intro h0; cases h0
    | cons x xs ih =>
      intro hm
      unfold Objs.get
      by_cases hx : (x.name == n) = true
      · simp [hx]
      · simp only [hx, Bool.false_eq_true, if_false]
        rcases List.mem_cons.mp hm with rfl | hm'
        · exact absurd (by simpa using hname) hx
        · exact ih hm'
  have := hget _ ho
  unfold Store.obj? at habs
  cases hb : (step s (.delete b n rc)).1.bucket? b with
  | none => rw [hb] at ho; simp at ho
  | some os =>
    rw [hb] at habs this
    simp only [Option.getD_some] at this
    simp only at habs
    rw [habs] at this
    cases this

/-- … and objects under other names or in other buckets are not affected by it. -/
theorem delete_frame (s : Store) (b n : Bytes) (rc : RawConds) (b' n' : Bytes) (hn : n ≠ [])
    (h : b' ≠ b ∨ n' ≠ n) : (step s (.delete b n rc)).1.obj? b' n' = s.obj? b' n' := by
  have hne : n.isEmpty = false := by cases n <;> simp_all
  simp only [step, hne, Bool.false_eq_true, if_false]
  cases hp : parseConds rc with
  | none => rfl
  | some c =>
    simp only
    cases hv : validateConds (s.obj? b n) c with
    | ok =>
      simp only
      cases ho : s.obj? b n with
      | none => rfl
      | some o =>
        simp only [Store.obj?, Store.bucket?, Store.setBucket]
        by_cases hb : b' = b
        · subst hb
          have hn' : n' ≠ n := by cases h with | inl h => exact absurd rfl h | inr h => exact h
          simp only [aget_aset_self]
          rw [Objs.get_delete_other _ _ _ hn']
          cases aget s.buckets b' <;> simp [Objs.get]
        · rw [aget_aset_other _ _ _ _ hb]
    | preconditionFailed => rfl
    | notModified => rfl

/-- Non-vacuity: a 5-byte payload sent as "0-1/*", re-sent "1-3/*", status query, "4-4/5". -/
example :
    (feed [] [(⟨0, 1, -1⟩, [1, 2]), (⟨1, 3, -1⟩, [2, 3, 4]), (⟨-1, -1, -1⟩, []), (⟨4, 4, 5⟩, [5])]).2
      = [[1, 2, 3, 4, 5]] := by decide

end Emu.Props.C02
