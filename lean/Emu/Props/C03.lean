/-
  C03 — Bigtable: ReadRows returns exactly the requested rows, once, in key order.

  `inRowSet` is the declarative meaning of a RowSet.  Set bounds are assumed non-empty: the code
  reads an empty bound as "unbounded" and the property is silent about set-but-empty bounds.
  Tie only (not modelled): SampleRowKeys' random choice (the response is checked against its
  relation by the harness), and the split of the chunk stream into response messages.
-/
import Emu.Proofs.Ranges
import Emu.Bt.Server
import Emu.Proofs.LeafTie.KeysOutOfRange
import Emu.Proofs.Chunks
import Emu.Proofs.Sample
import Emu.Proofs.MergeInPlace
import Emu.Proofs.LeafTie.MessageOnInvalidKeyRanges
import Emu.Proofs.LeafTie.MergeSimpleRanges

namespace Emu.Props.C03
open Emu Emu.Bt Emu.Proofs.BtRows Emu.Proofs.Ranges

/-- **Main theorem.**  For any RowSet — any mix of explicit keys and ranges with open, closed or
    unbounded ends; overlapping, duplicated, adjacent, inverted or empty — the rows the scan visits
    are exactly the stored rows whose key lies in the union of the set, in store order. -/
theorem scan_visits_exactly_the_rowset (rows : Rows) (hs : Sorted rows) (keys : List Bytes) (rrs : List RowRange)
    (hk : ∀ k ∈ keys, k ≠ []) (hr : ∀ rr ∈ rrs, Bound.nonEmpty rr.s ∧ Bound.nonEmpty rr.e)
    (hne : keys.length + rrs.length > 0) :
    scanVisit (scanRanges keys rrs) rows = rows.filter (fun r => inRowSet keys rrs r.key) := by
  unfold scanRanges mergeRowRanges
  simp only [hne, if_true]
  rw [scanVisit_merged _ rows hs]
  apply List.filter_congr
  intro r _
  simp only [List.any_append, List.any_map, inRowSet]
  congr 1
  · rw [Bool.eq_iff_iff]
    simp only [List.any_eq_true, Function.comp, List.contains_iff_mem]
    constructor
    · rintro ⟨k, hkm, hc⟩
      rw [keyRange_contains k r.key (hk k hkm)] at hc
      have : k = r.key := by simpa using hc
      rw [← this]; exact hkm
    · intro hm
      exact ⟨r.key, hm, by rw [keyRange_contains r.key r.key (hk _ hm)]; simp⟩
  · rw [Bool.eq_iff_iff]
    simp only [List.any_eq_true, Function.comp]
    constructor
    · rintro ⟨rr, hrr, hc⟩
      exact ⟨rr, hrr, by rw [← toSimple_contains rr r.key (hr rr hrr).1 (hr rr hrr).2]; exact hc⟩
    · rintro ⟨rr, hrr, hc⟩
      exact ⟨rr, hrr, by rw [toSimple_contains rr r.key (hr rr hrr).1 (hr rr hrr).2]; exact hc⟩

/-- An absent or empty RowSet means the whole table. -/
theorem empty_rowset_is_whole_table (rows : Rows) : scanVisit (scanRanges [] []) rows = rows := by
  simp [scanVisit, scanRanges, SimpleRange.contains]

/-- Each row at most once and in strictly ascending key order: the visited list is a sublist of
    the strictly sorted store. -/
theorem visited_ascending_no_duplicates (rows : Rows) (hs : Sorted rows) (keys : List Bytes) (rrs : List RowRange)
    (hk : ∀ k ∈ keys, k ≠ []) (hr : ∀ rr ∈ rrs, Bound.nonEmpty rr.s ∧ Bound.nonEmpty rr.e) :
    Sorted (scanVisit (scanRanges keys rrs) rows) := by
  by_cases hne : keys.length + rrs.length > 0
  · rw [scan_visits_exactly_the_rowset rows hs keys rrs hk hr hne]
    exact List.Pairwise.filter _ hs
  · have h1 : keys = [] := by cases keys <;> simp_all
    have h2 : rrs = [] := by cases rrs <;> simp_all
    subst h1 h2
    rw [empty_rowset_is_whole_table]; exact hs

/-- A range whose start exceeds its end is rejected with InvalidArgument and nothing is streamed. -/
theorem inverted_range_rejected (t : Table) (rnd : Int) (keys : List Bytes) (rrs : List RowRange) (limit : Int)
    (f : Filter) (rr : RowRange) (hm : rr ∈ rrs) (hinv : invalidRowRange rr = true) :
    readRows t rnd keys rrs limit f = .error .invalidArgument := by
  have : validRowRanges rrs = false := by
    simp only [validRowRanges, List.all_eq_false]
    exact ⟨rr, hm, by simp [hinv]⟩
  simp [readRows, this]

/-- which ranges are inverted: both bounds set (non-empty) and end < start, whatever the
    open/closed combination -/
theorem invalidRowRange_iff (s e : Bytes) (hs : s ≠ []) (he : e ≠ []) :
    (invalidRowRange ⟨.closed s, .closed e⟩ = decide (e < s)) ∧
    (invalidRowRange ⟨.closed s, .opened e⟩ = decide (e < s)) ∧
    (invalidRowRange ⟨.opened s, .closed e⟩ = decide (e < s)) ∧
    (invalidRowRange ⟨.opened s, .opened e⟩ = decide (e < s)) := by
  have h1 : s.isEmpty = false := by cases s <;> simp_all
  have h2 : e.isEmpty = false := by cases e <;> simp_all
  simp [invalidRowRange, keysOutOfRange, Bound.closedKey, Bound.openKey, h1, h2]
  all_goals trivial

/-- With `rows_limit = N > 0` the result is the first N rows that produce output; `0` (or a
    negative value) means no limit. -/
theorem limit_is_first_n_emitting_rows (sch : Schema) (rnd : Int) (rows : Rows) (keys : List Bytes)
    (rrs : List RowRange) (n : Nat) (hn : n > 0) (f : Filter) :
    scan sch rnd rows keys rrs (n : Int) f = (scan sch rnd rows keys rrs 0 f).take n := by
  have h1 : ((n : Int) > 0) := by omega
  have h2 : ¬ ((0 : Int) > 0) := by omega
  simp only [scan, applyLimit, h1, h2, if_true, if_false, Int.toNat_natCast]

/-- Non-vacuity: the adversarial keys a, a\x00, ab, b with ranges (a, ab] and [a\x00, b) plus key b. -/
example :
    let rows : Rows := [⟨[97], []⟩, ⟨[97, 0], []⟩, ⟨[97, 98], []⟩, ⟨[98], []⟩]
    (scanVisit (scanRanges [[98]] [⟨.opened [97], .closed [97, 98]⟩, ⟨.closed [97, 0], .opened [98]⟩]) rows).map (·.key)
      = [[97, 0], [97, 98], [98]] := by decide

/-! ### The in-place merge

`mergeSimpleRanges` merges inside the sorted array with a write pointer trailing the read index.
`mergeInPlace` is that loop written with Go's array reads, writes and re-slice; it computes exactly
the functional fold `mergeLoop` that `scan_visits_exactly_the_rowset` is about — no write clobbers
an element that is still to be read. -/

theorem in_place_merge_is_the_fold (x : SimpleRange) (xs : List SimpleRange) :
    Emu.Proofs.MergeInPlace.mergeInPlace merge1 (x :: xs) = .ok (mergeLoop x xs) := by
  rw [Emu.Proofs.MergeInPlace.mergeInPlace_eq]
  simp only [Emu.Proofs.MergeInPlace.foldMerge_is_mergeLoop]

example : Emu.Proofs.MergeInPlace.mergeInPlace merge1 [⟨[1], [3]⟩, ⟨[2], [5]⟩, ⟨[7], [8]⟩, ⟨[7, 0], []⟩, ⟨[9], [9, 1]⟩]
    = .ok [⟨[1], [5]⟩, ⟨[7], []⟩] := by rfl

/-! ### The chunk stream

`rowChunks` is `chunkBuilder.add`, `messages` the batching of `ReadRows`, `decode` the state machine
every client runs on the stream (it refuses a chunk that belongs to no row, a row that does not start
with key, family and qualifier, a second key before the commit, a family name without qualifier, a
stream whose last row is not committed). -/

/-- **Well-formedness and round trip.**  For any rows (row keys are never empty) the stream the
    encoder produces is accepted by the decoder — each row starts with its key, family and
    qualifier, ends with exactly one commit, no chunk belongs to no row — and decodes to exactly
    the rows that have cells, each with its cells in order under their family and qualifier. -/
theorem chunk_stream_decodes_to_the_rows (rs : List Row) (hk : ∀ r ∈ rs, r.key ≠ []) :
    decode (rs.flatMap rowChunks) = some (Emu.Proofs.Chunks.nonEmptyRows rs) :=
  Emu.Proofs.Chunks.decode_encode rs hk

/-- The response messages together are that stream, none of them is empty, and none exceeds the
    batch size by more than one row's chunks. -/
theorem messages_carry_the_stream (rs : List Row) :
    (messages rs).flatten = rs.flatMap rowChunks ∧
    (∀ m ∈ messages rs, m ≠ []) ∧
    (∀ m ∈ messages rs, ∃ r, m.length ≤ Emu.Generated.chunkBatch + (rowChunks r).length) := by
  refine ⟨?_, ?_, ?_⟩
  · have := Emu.Proofs.Chunks.messagesFrom_flatten Emu.Generated.chunkBatch rs []
    simpa [messages] using this
  · exact Emu.Proofs.Chunks.messagesFrom_nonempty _ rs []
  · exact Emu.Proofs.Chunks.messagesFrom_bounded _ rs [] (by simp)

/-- What a client decodes from the messages of a scan is the scan's rows. -/
theorem client_decodes_the_scan (rs : List Row) (hk : ∀ r ∈ rs, r.key ≠ []) :
    decode (messages rs).flatten = some (Emu.Proofs.Chunks.nonEmptyRows rs) := by
  rw [(messages_carry_the_stream rs).1]; exact chunk_stream_decodes_to_the_rows rs hk

example : decode (rowChunks ⟨[107], [⟨[102], [⟨[113], [⟨2, [1], []⟩, ⟨1, [2], []⟩]⟩]⟩, ⟨[103], [⟨[114], [⟨5, [], []⟩]⟩]⟩]⟩)
    = some [([107], [([102], [113], ⟨2, [1], []⟩), ([102], [113], ⟨1, [2], []⟩), ([103], [114], ⟨5, [], []⟩)])] := by rfl

/-! ### SampleRowKeys

`sampleRowKeys rows coins` is the loop of `SampleRowKeys` with the outcomes of its random draws as
a parameter; the statements hold for EVERY sequence of draws. -/

/-- The answer's keys are a subsequence of the stored keys — so, the store being strictly
    ascending, strictly ascending themselves. -/
theorem sample_is_an_ascending_subsequence (rows : Rows) (hs : Sorted rows) (coins : List Bool) :
    ((sampleRowKeys rows coins).map (·.1)).Sublist (rows.map (·.key)) ∧
    ((sampleRowKeys rows coins).map (·.1)).Pairwise (· < ·) := by
  have h := Emu.Proofs.Sample.keys_sublist rows coins 0 none
  simp only [Option.toList_none, List.map_nil, List.nil_append] at h
  refine ⟨h, List.Pairwise.sublist h ?_⟩
  exact List.pairwise_map.mpr hs

/-- A non-empty table's answer ends with the last stored key; an empty table's answer is empty. -/
theorem sample_ends_with_the_last_key (rows : Rows) (coins : List Bool) :
    ((sampleRowKeys rows coins).getLast?.map (·.1)) = rows.getLast?.map (·.key) := by
  have h := Emu.Proofs.Sample.last_key rows coins 0 none
  unfold sampleRowKeys
  rw [h]
  cases rows.getLast? <;> rfl

/-- Offsets never decrease. -/
theorem sample_offsets_do_not_decrease (rows : Rows) (coins : List Bool) :
    (sampleRowKeys rows coins).Pairwise (fun a b => a.2 ≤ b.2) :=
  (Emu.Proofs.Sample.offsets rows coins 0 none (by simp)).1

/-- The relation the correspondence check holds the implementation's answers to (`sampleExplained`,
    evaluated by the Lean driver on every answer seen) accepts exactly the answers of the loop:
    each accepted answer is the loop's answer for some draws, and every answer of the loop on a
    table (distinct keys) is accepted. -/
theorem sample_judge_is_exact (rows : Rows) (hs : Sorted rows) :
    (∀ out, sampleExplained rows out = true → ∃ coins, sampleRowKeys rows coins = out) ∧
    (∀ coins, sampleExplained rows (sampleRowKeys rows coins) = true) := by
  refine ⟨fun out h => Emu.Proofs.Sample.explained_sound rows out h, fun coins => ?_⟩
  apply Emu.Proofs.Sample.explained_complete rows coins
  exact hs.imp (fun h => by intro e; rw [e] at h; exact absurd h (List.lt_irrefl _))

example : sampleRowKeys [⟨[97], [⟨[102], [⟨[113], [⟨1, [1, 2, 3], []⟩]⟩]⟩]⟩, ⟨[98], []⟩, ⟨[99], []⟩] [true, false, false]
    = [([97], 0), ([99], 3)] := by decide

/-! ### Tie T1: the repository's own text of the inverted-range test

`Emu.Generated.Leaf.keysOutOfRange` is regenerated from `keysOutOfRange` (validation.go) by the
leaf translator on every run; the Model's function is the same function. -/

theorem source_keysOutOfRange_is_the_models (s e : Bytes) :
    Emu.Generated.Leaf.keysOutOfRange s e = Emu.Bt.keysOutOfRange s e :=
  Emu.Proofs.LeafTie.keysOutOfRange_tie s e

/-- `messageOnInvalidKeyRanges(...) != ""`, regenerated from validation.go, on the four key fields
    of a RowRange is the Model's `invalidRowRange` (the test `inverted_range_rejected` is about). -/
theorem source_messageOnInvalidKeyRanges_is_the_models (rr : RowRange) :
    (!decide (Emu.Generated.Leaf.messageOnInvalidKeyRanges rr.s.closedKey rr.s.openKey rr.e.closedKey rr.e.openKey = []))
      = invalidRowRange rr :=
  Emu.Proofs.LeafTie.messageOnInvalidKeyRanges_tie rr

/-- The closures of `mergeSimpleRanges` — the end comparison `endCmp` (an empty end is infinite), the
    order handed to `sort.Slice`, and `merge` (two results read as an `Option`) — read off the Go text by
    `factx` on every run, are the Model's `endLt`, `srLess` and `merge1`, the functions the merged-range
    theorems above are stated with (`srOf` reads the repository's `simpleRange` as the Model's). -/
theorem source_range_closures_are_the_models (a b : Emu.Generated.Leaf.GsimpleRange) :
    decide (Emu.Generated.Leaf.endCmp a b < (0 : Int)) = endLt (Emu.Proofs.LeafTie.srOf a) (Emu.Proofs.LeafTie.srOf b) ∧
    Emu.Generated.Leaf.less a b = srLess (Emu.Proofs.LeafTie.srOf a) (Emu.Proofs.LeafTie.srOf b) ∧
    (Emu.Generated.Leaf.merge a b).map Emu.Proofs.LeafTie.srOf
      = merge1 (Emu.Proofs.LeafTie.srOf a) (Emu.Proofs.LeafTie.srOf b) :=
  ⟨Emu.Proofs.LeafTie.endCmp_neg a b, Emu.Proofs.LeafTie.less_tie a b, Emu.Proofs.LeafTie.merge_tie a b⟩

example : Emu.Generated.Leaf.merge ⟨[98], [97]⟩ ⟨[], [97, 0]⟩ = some ⟨[], [97]⟩ ∧
    Emu.Generated.Leaf.merge ⟨[98], [97]⟩ ⟨[100], [99]⟩ = none ∧
    Emu.Generated.Leaf.less ⟨[], [97]⟩ ⟨[98], [97]⟩ = false ∧ Emu.Generated.Leaf.less ⟨[98], [97]⟩ ⟨[], [97]⟩ = true := by decide

end Emu.Props.C03
