/-
  C12 — Bigtable: CheckAndMutateRow applies exactly the branch its predicate selects.
-/
import Emu.Proofs.BtRows
import Emu.Bt.Server
import Emu.Proofs.LeafTie.ValidateFilter
import Emu.Proofs.LeafTie.IncludeCell

namespace Emu.Props.C12
open Emu Emu.Bt Emu.Proofs.BtRow Emu.Proofs.BtInv Emu.Proofs.BtRows

/-- "the predicate filter applied to the row's current content yields at least one cell" -/
def predicateYieldsCell (rnd : Int) (pred : Filter) (r : Row) : Bool :=
  if pred.isAbsent then !r.isEmpty
  else (filterRow rnd pred r).1 && !(filterRow rnd pred r).2.isEmpty

/-- The whole behaviour of CheckAndMutateRow in one statement: for a valid predicate,
    `predicate_matched` is `predicateYieldsCell`, exactly the selected mutation list is applied
    (with MutateRow's semantics and validation), and the result is stored like MutateRow does;
    the other list plays no role. -/
theorem cam_spec (sch : Schema) (now rnd : Int) (rows : Rows) (key : Bytes) (pred : Filter)
    (tm fm : List Mutation) (hv : validFilter pred = true) :
    checkAndMutate sch now rnd rows key pred tm fm =
      let b := predicateYieldsCell rnd pred (rows.getOrCreate key)
      match applyMutations sch now (rows.getOrCreate key) (if b then tm else fm) with
      | none => .error .other
      | some r' => .ok (Rows.update sch rows r', b) := by
  simp only [checkAndMutate, hv, Bool.not_true, Bool.false_eq_true, if_false, predicateYieldsCell]
  by_cases ha : pred.isAbsent = true
  · simp only [ha, if_true]; rfl
  · simp only [ha, if_false]; rfl

/-- An invalid predicate is rejected with InvalidArgument whatever the row holds; nothing changes
    (no new store is returned). -/
theorem invalid_predicate_rejected (sch : Schema) (now rnd : Int) (rows : Rows) (key : Bytes) (pred : Filter)
    (tm fm : List Mutation) (hv : validFilter pred = false) :
    checkAndMutate sch now rnd rows key pred tm fm = .error .invalidArgument := by
  simp [checkAndMutate, hv]

/-- An invalid mutation in the selected branch fails the request without changing the row. -/
theorem invalid_mutation_in_selected_branch (sch : Schema) (now rnd : Int) (rows : Rows) (key : Bytes)
    (pred : Filter) (tm fm : List Mutation) (hv : validFilter pred = true)
    (h : applyMutations sch now (rows.getOrCreate key)
          (if predicateYieldsCell rnd pred (rows.getOrCreate key) then tm else fm) = none) :
    checkAndMutate sch now rnd rows key pred tm fm = .error .other := by
  rw [cam_spec _ _ _ _ _ _ _ _ hv]; simp only [h]

/-- The list that is not selected is irrelevant — even if it is invalid. -/
theorem other_branch_irrelevant (sch : Schema) (now rnd : Int) (rows : Rows) (key : Bytes) (pred : Filter)
    (tm fm fm' : List Mutation) (hv : validFilter pred = true)
    (hb : predicateYieldsCell rnd pred (rows.getOrCreate key) = true) :
    checkAndMutate sch now rnd rows key pred tm fm = checkAndMutate sch now rnd rows key pred tm fm' := by
  rw [cam_spec _ _ _ _ _ _ _ _ hv, cam_spec _ _ _ _ _ _ _ _ hv]; simp [hb]

/-- Nothing else changes: every other row is as before. -/
theorem cam_frame (sch : Schema) (now rnd : Int) (rows rows' : Rows) (key : Bytes) (pred : Filter)
    (tm fm : List Mutation) (b : Bool) (h : checkAndMutate sch now rnd rows key pred tm fm = .ok (rows', b))
    (hkey : ∀ r', applyMutations sch now (rows.getOrCreate key) (if b then tm else fm) = some r' → r'.key = key)
    (k' : Bytes) (hk : k' ≠ key) : rows'.get k' = rows.get k' := by
  by_cases hv : validFilter pred = true
  · rw [cam_spec _ _ _ _ _ _ _ _ hv] at h
    simp only at h
    cases ha : applyMutations sch now (rows.getOrCreate key)
        (if predicateYieldsCell rnd pred (rows.getOrCreate key) then tm else fm) with
    | none => simp [ha] at h
    | some r' =>
      simp only [ha, Except.ok.injEq, Prod.mk.injEq] at h
      obtain ⟨h1, h2⟩ := h
      subst h1
      have hk' := hkey r' (by rw [← h2]; exact ha)
      exact get_update_other sch rows r' k' (by rw [hk']; exact hk)
  · have hv' : validFilter pred = false := by simpa using hv
    simp [checkAndMutate, hv'] at h

/-- The matched flag agrees with what a read with the same filter would do: for a row whose
    families are all in the schema, the predicate yields a cell iff ReadRows with that filter
    emits the row. -/
theorem matched_iff_read_emits (sch : Schema) (rnd : Int) (pred : Filter) (r : Row)
    (hne : r.fams ≠ []) (hnabs : pred.isAbsent = false)
    (hsch : ∀ f ∈ (filterRow rnd pred r).2.fams, sch.has f.name = true) :
    predicateYieldsCell rnd pred r = (emitRow sch rnd pred r).isSome := by
  have hfe : r.fams.isEmpty = false := by cases h : r.fams <;> simp_all
  simp only [predicateYieldsCell, hnabs, Bool.false_eq_true, if_false, emitRow, hfe]
  cases hm : (filterRow rnd pred r).1 with
  | false => simp
  | true =>
    simp only [Bool.true_and, Bool.not_true, Bool.false_eq_true, if_false]
    generalize (filterRow rnd pred r).2 = r' at hsch
    have key : r'.isEmpty = (scrubRow sch r').fams.isEmpty := by
      rw [Bool.eq_iff_iff]
      simp only [Row.isEmpty, List.all_eq_true, List.isEmpty_iff]
      constructor
      · intro h
        cases hs : (scrubRow sch r').fams with
        | nil => rfl
        | cons f' _ =>
          have hmem : f' ∈ (scrubRow sch r').fams := by rw [hs]; simp
          obtain ⟨f, hf, _, _, hne'⟩ := (mem_scrubRow_fams sch r' f').mp hmem
          have hall := h f hf
          have : (scrubFam f).cols = [] := (scrubFam_cols_empty_iff f).mpr (by
            intro c hc; have := hall c hc; simpa using this)
          exact absurd this hne'
      · intro h f hf c hc
        refine Decidable.byContradiction fun hcne => ?_
        have hcne' : c.cells ≠ [] := by simpa using hcne
        have h1 : c ∈ (scrubFam f).cols := (mem_scrubFam_cols f c).mpr ⟨hc, hcne'⟩
        have h2 : (scrubFam f).cols ≠ [] := by intro e; rw [e] at h1; cases h1
        have h3 : scrubFam f ∈ (scrubRow sch r').fams :=
          (mem_scrubRow_fams sch r' _).mpr ⟨f, hf, hsch f hf, rfl, h2⟩
        rw [h] at h3; cases h3
    rw [key]
    cases hh : (scrubRow sch r').fams.isEmpty <;> simp

/-- Non-vacuity: predicate "cells-per-row-limit 0" strips every cell, so the false branch runs. -/
example :
    let sch : Schema := [([102], none)]
    let rows : Rows := [⟨[97], [⟨[102], [⟨[113], [⟨1000, [1], []⟩]⟩]⟩]⟩]
    (match checkAndMutate sch 0 0 rows [97] (.rowLimit 0) [.deleteFromRow] [.setCell [102] [120] 2000 [9]] with
     | .ok (_, b) => b
     | .error _ => true) = false := by decide

/-! ### Tie T1: the repository's own text of the filter validation

`Emu.Generated.Leaf.validateFilter` is `validateFilter` (bttest/validation.go) — the type switch over
the RowFilter oneof with its checks and its recursion into chains, interleaves and conditions — read
off the Go text by `factx` on every run; it is the Model's `validFilter` (the function
`invalid_predicate_rejected` above is about) for EVERY filter tree. -/

theorem source_validateFilter_is_the_models (f : Filter) :
    Emu.Generated.Leaf.validateFilter f = validFilter f :=
  Emu.Proofs.LeafTie.validateFilter_tie f

/-- The per-cell tests a predicate applies (whether the predicate "matches" comes down to which cells
    they leave), as the repository's `includeCell` states them, are the Model's on every predicate
    that passes validation. -/
theorem source_includeCell_is_the_models (f : Filter) (fam qual : Bytes) (c : Cell) (hv : validFilter f = true) :
    Emu.Generated.Leaf.includeCell f fam qual c = includeCell f fam qual c :=
  Emu.Proofs.LeafTie.includeCell_tie f fam qual c hv

end Emu.Props.C12
