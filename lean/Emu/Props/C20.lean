/-
  C20 — both emulators: no request or request mix can crash or wedge the service.  PARTIAL.

  What is proved here: the functions that slice or index with bounds computed from request data
  (`Emu.Bt.GoOps`, `Emu.Gcs.GoOps`: Go's partial operations made explicit) never fault, for EVERY
  input — together with the one fact that makes the filter cases safe (counts are validated to be
  non-negative before any row is looked at; a negative count does fault, `negative_count_faults`).
  The list of such sites in the source is regenerated on every run (facts `bt.partial_ops`,
  `gcs.partial_ops`) and compared with the inventory these theorems were written against.
  What a theorem about a sequential model cannot exhibit — data races, fatal runtime errors from
  unsynchronised maps, hangs, goroutine leaks, behaviour of net/http and gRPC — is searched for, not
  proved: structure-aware request perturbation with a probe after every request, a concurrent
  admin/data mix in a child process (under the race detector in the thorough tier), and the
  lock-discipline facts of C06/C19.
-/
import Emu.Bt.GoOps
import Emu.Gcs.GoOps
import Emu.Proofs.MergeInPlace

namespace Emu.Props.C20
open Emu.GoSem

/-! ### Bigtable -/

/-- `DeleteFromColumn` with any time range on any cell list (sorted or not) never slices out of range. -/
theorem deleteRange_never_faults (cs : List Int) (s e : Int) : ∃ r, Bt.GoOps.deleteRange cs s e = .ok r := by
  unfold Bt.GoOps.deleteRange
  simp only [bind, Except.bind, pure, Except.pure]
  generalize hei : (if s > 0 then goSearch cs.length (fun i => decide (cs.getD i 0 < s)) else cs.length) = ei
  generalize hsi : (if e > 0 then goSearch cs.length (fun i => decide (cs.getD i 0 < e)) else 0) = si
  have hei_le : ei ≤ cs.length := by
    rw [← hei]; split
    · exact goSearch_le _ _
    · exact Nat.le_refl _
  have hsi_le : si ≤ cs.length := by
    rw [← hsi]; split
    · exact goSearch_le _ _
    · exact Nat.zero_le _
  split
  · rename_i hlt
    have h1 : goSlice cs (si : Int) (cs.length : Int) = .ok ((cs.drop si).take (cs.length - si)) := by
      unfold goSlice
      have : (0 : Int) ≤ si ∧ (si : Int) ≤ cs.length ∧ (cs.length : Int) ≤ cs.length := ⟨by omega, by omega, by omega⟩
      simp only [this, and_self, if_true, Int.toNat_natCast]
      congr 2; omega
    have h2 : goSlice cs (ei : Int) (cs.length : Int) = .ok ((cs.drop ei).take (cs.length - ei)) := by
      unfold goSlice
      have : (0 : Int) ≤ ei ∧ (ei : Int) ≤ cs.length ∧ (cs.length : Int) ≤ cs.length := ⟨by omega, by omega, by omega⟩
      simp only [this, and_self, if_true, Int.toNat_natCast]
      congr 2; omega
    have h3 : goSlice cs 0 (si : Int) = .ok ((cs.drop 0).take si) := by
      unfold goSlice
      have : (0 : Int) ≤ 0 ∧ (0 : Int) ≤ si ∧ (si : Int) ≤ cs.length := ⟨by omega, by omega, by omega⟩
      simp only [this, and_self, if_true, Int.toNat_zero, Int.sub_zero, Int.toNat_natCast]
    simp only [h1, h2, h3]
    apply goSlice_ok
    · omega
    · omega
    · simp only [List.length_append, List.length_take, List.length_drop]
      omega
  · exact ⟨cs, rfl⟩

/-- GC, max-age: `cells[:si]` with `si` from `sort.Search` -/
theorem gcMaxAge_never_faults (cs : List Int) (cutoff : Int) : ∃ r, Bt.GoOps.gcMaxAge cs cutoff = .ok r := by
  unfold Bt.GoOps.gcMaxAge
  have := goSearch_le cs.length (fun i => decide (cs.getD i 0 < cutoff))
  exact goSlice_ok _ _ _ (by omega) (by omega) (by omega)

/-- GC, max-versions: any `n`, negative included (the guard added by the repair of A13) -/
theorem gcMaxVersions_never_faults (cs : List Int) (n : Int) : ∃ r, Bt.GoOps.gcMaxVersions cs n = .ok r := by
  unfold Bt.GoOps.gcMaxVersions
  split
  · exact ⟨cs, rfl⟩
  · split
    · exact goSlice_ok _ _ _ (by omega) (by omega) (by omega)
    · exact ⟨cs, rfl⟩

/-- per-column limit with a validated (non-negative) count -/
theorem colLimit_never_faults (cs : List Int) (lim : Int) (h : 0 ≤ lim) : ∃ r, Bt.GoOps.colLimit cs lim = .ok r := by
  unfold Bt.GoOps.colLimit
  split
  · exact goSlice_ok _ _ _ (by omega) h (by omega)
  · exact ⟨cs, rfl⟩

/-- … and why the up-front validation is needed: a negative count does fault -/
theorem negative_count_faults : Bt.GoOps.colLimit [7] (-1) = .error .sliceBounds := by rfl

/-- per-row limit: the running `lim` stays non-negative -/
theorem rowLimit_never_faults (cols : List (List Int)) (lim : Int) (h : 0 ≤ lim) : ∃ r, Bt.GoOps.rowLimit cols lim = .ok r := by
  induction cols generalizing lim with
  | nil => exact ⟨[], rfl⟩
  | cons c rest ih =>
    unfold Bt.GoOps.rowLimit
    split
    · obtain ⟨c', hc⟩ := goSlice_ok c 0 lim (by omega) h (by omega)
      obtain ⟨r', hr⟩ := ih 0 (by omega)
      exact ⟨c' :: r', by simp [hc, hr, bind, Except.bind, pure, Except.pure]⟩
    · obtain ⟨r', hr⟩ := ih (lim - c.length) (by omega)
      exact ⟨c :: r', by simp [hr, bind, Except.bind, pure, Except.pure]⟩

/-- per-row offset: the running `offset` stays non-negative -/
theorem rowOffset_never_faults (cols : List (List Int)) (off : Int) (h : 0 ≤ off) : ∃ r, Bt.GoOps.rowOffset cols off = .ok r := by
  induction cols generalizing off with
  | nil => exact ⟨[], rfl⟩
  | cons c rest ih =>
    unfold Bt.GoOps.rowOffset
    split
    · obtain ⟨c', hc⟩ := goSlice_ok c off c.length h (by omega) (by omega)
      exact ⟨c' :: rest, by simp [hc, bind, Except.bind, pure, Except.pure]⟩
    · obtain ⟨c', hc⟩ := goSlice_ok c 0 0 (by omega) (by omega) (by omega)
      obtain ⟨r', hr⟩ := ih (off - c.length) (by omega)
      exact ⟨c' :: r', by simp [hc, hr, bind, Except.bind, pure, Except.pure]⟩

/-- ReadModifyWriteRow: the 8-byte decode is reached only with 8 bytes -/
theorem rmwDecode_never_faults (prev : List Nat) : ∃ r, Bt.GoOps.rmwDecode prev = .ok r := by
  unfold Bt.GoOps.rmwDecode
  split
  · exact ⟨none, rfl⟩
  · rename_i h
    have h8 : prev.length = 8 := by simpa using h
    obtain ⟨b, hb⟩ := goSlice_ok prev 0 8 (by omega) (by omega) (by omega)
    exact ⟨some b, by simp [hb, bind, Except.bind, pure, Except.pure]⟩

/-! ### Cloud Storage -/

theorem greaterThanPrefix_never_faults (item pfx : List Nat) : ∃ r, Gcs.GoOps.greaterThanPrefixSlice item pfx = .ok r := by
  unfold Gcs.GoOps.greaterThanPrefixSlice
  split
  · exact ⟨item, rfl⟩
  · exact goSlice_ok _ _ _ (by omega) (by omega) (by omega)

theorem lessThanPrefix_never_faults (item pfx : List Nat) : ∃ r, Gcs.GoOps.lessThanPrefixSlice item pfx = .ok r := by
  unfold Gcs.GoOps.lessThanPrefixSlice
  split
  · exact goSlice_ok _ _ _ (by omega) (by omega) (by omega)
  · exact ⟨pfx, rfl⟩

/-- resumable upload: any `Content-Range` start, any buffer -/
theorem resumeTruncate_never_faults (data : List Nat) (lo : Int) : ∃ r, Gcs.GoOps.resumeTruncate data lo = .ok r := by
  unfold Gcs.GoOps.resumeTruncate
  split
  · exact ⟨data, rfl⟩
  · split
    · exact ⟨data, rfl⟩
    · split
      · exact ⟨data, rfl⟩
      · exact goSlice_ok _ _ _ (by omega) (by omega) (by omega)

theorem composeDest_never_faults (parts : List (List Nat)) : ∃ r, Gcs.GoOps.composeDest parts = .ok r := by
  unfold Gcs.GoOps.composeDest
  split
  · exact ⟨none, rfl⟩
  · rename_i h
    have h2 : parts.length = 2 := by simpa using h
    obtain ⟨d, hd⟩ := goIndex_ok parts 0 (by omega) (by omega)
    exact ⟨some d, by simp [hd, bind, Except.bind, pure, Except.pure]⟩

theorem copyDest_never_faults (parts : List (List Nat)) : ∃ r, Gcs.GoOps.copyDest parts = .ok r := by
  unfold Gcs.GoOps.copyDest
  split
  · exact ⟨none, rfl⟩
  · rename_i h
    have h2 : parts.length = 2 := by simpa using h
    obtain ⟨b, hb⟩ := goIndex_ok parts 0 (by omega) (by omega)
    obtain ⟨f, hf⟩ := goIndex_ok parts 1 (by omega) (by omega)
    exact ⟨some (b, f), by simp [hb, hf, bind, Except.bind, pure, Except.pure]⟩

theorem contentIdFirst_never_faults (cid : List Nat) : ∃ r, Gcs.GoOps.contentIdFirst cid = .ok r := by
  unfold Gcs.GoOps.contentIdFirst
  split
  · exact ⟨none, rfl⟩
  · rename_i h
    have : 0 < cid.length := by
      cases cid with
      | nil => simp at h
      | cons _ _ => simp
    obtain ⟨c, hc⟩ := goIndex_ok cid 0 (by omega) (by omega)
    exact ⟨some c, by simp [hc, bind, Except.bind, pure, Except.pure]⟩

/-- `mergeSimpleRanges`' in-place loop (`srs[last]`, `srs[i]`, the two writes and `srs[:last+1]`,
    all on the array it is still reading): never faults, for any merge function and any array. -/
theorem mergeSimpleRanges_never_faults {α : Type} (merge : α → α → Option α) (arr : List α) :
    ∃ r, Emu.Proofs.MergeInPlace.mergeInPlace merge arr = .ok r :=
  ⟨_, Emu.Proofs.MergeInPlace.mergeInPlace_eq merge arr⟩

/-- `scrubRow` / `scrubFam` compact their slice in place with a write index trailing the range loop
    (`xs[wIdx] = x; wIdx++; xs = xs[:wIdx]`): never faults, for any keep-function and any slice. -/
theorem scrub_compaction_never_faults {α : Type} (g : α → Option α) (arr : List α) :
    ∃ r, Emu.Proofs.MergeInPlace.compactInPlace g arr = .ok r :=
  ⟨_, Emu.Proofs.MergeInPlace.compactInPlace_eq g arr⟩

/-- `escapeUTF`: for every byte the two table lookups are in range (the table has 16 entries) -/
theorem escapeNibbles_never_faults (conv : List Nat) (hc : conv.length = 16) (c : Nat) (hb : c < 256) :
    ∃ r, Bt.GoOps.escapeNibbles conv c = .ok r := by
  unfold Bt.GoOps.escapeNibbles
  obtain ⟨h, hh⟩ := goIndex_ok conv ((c / 16 : Nat) : Int) (by omega) (by omega)
  obtain ⟨l, hl⟩ := goIndex_ok conv ((c % 16 : Nat) : Int) (by omega) (by omega)
  exact ⟨(h, l), by simp only [bind, Except.bind, pure, Except.pure, hh, hl]⟩

theorem lastChunk_never_faults {α : Type} (chunks : List α) : ∃ r, Bt.GoOps.lastChunk chunks = .ok r := by
  unfold Bt.GoOps.lastChunk
  split
  · rename_i h
    obtain ⟨c, hc⟩ := goIndex_ok chunks ((chunks.length : Int) - 1) (by omega) (by omega)
    exact ⟨some c, by simp [hc, bind, Except.bind, pure, Except.pure]⟩
  · exact ⟨none, rfl⟩

theorem splitByte_nonempty (sep : Nat) (s : List Nat) : 0 < (Gcs.GoOps.splitByte sep s).length := by
  induction s with
  | nil => simp [Gcs.GoOps.splitByte]
  | cons c cs ih =>
    unfold Gcs.GoOps.splitByte
    split
    · simp
    · split <;> simp

/-- `InitScrubbedMeta` / `InitMetaWithUrls`: the last piece of `strings.Split(filename, ".")` exists for
    every file name (also the empty one, and names without a dot) -/
theorem extension_never_faults (filename : List Nat) : ∃ r, Gcs.GoOps.extension filename = .ok r := by
  unfold Gcs.GoOps.extension
  have := splitByte_nonempty 46 filename
  exact goIndex_ok _ _ (by omega) (by omega)

/-- Non-vacuity: an inverted search window, an out-of-order cell list, extreme bounds. -/
example : Bt.GoOps.deleteRange [5, 9, 1, 7] 8 2 = .ok [5, 9, 1, 7] ∧ Bt.GoOps.deleteRange [9, 7, 5, 1] 5 8 = .ok [9, 1]
    ∧ Bt.GoOps.gcMaxVersions [3, 2, 1] (-5) = .ok [3, 2, 1] ∧ Bt.GoOps.rowOffset [[1, 2], [3]] 2 = .ok [[], [3]] :=
  ⟨by rfl, by rfl, by rfl, by rfl⟩

end Emu.Props.C20
