/-
  C11 — GCS: listing is complete, duplicate-free and ordered for any prefix / delimiter / page size.

  Proved for every prefix, delimiter and page size: the per-page facts (size bound, soundness of
  every item and every rolled-up prefix, no prefix twice on a page, items in stored order, each
  item's metadata is the stored record), and the complete pagination theorem `FullStatement`, both
  without delimiter (`full_statement_without_delimiter`) and with any non-empty delimiter, multi-byte
  ones included (`full_statement_with_delimiter`): following the tokens yields every matching name
  without delimiter after the prefix exactly once in order, every distinct rolled-up prefix exactly
  once, in pages of at most `maxResults`, ending with a page without token.
-/
import Emu.Proofs.Listing
import Emu.Proofs.ListingDelim2
import Emu.Proofs.Gcs
import Emu.Proofs.LeafTie.GreaterThanPrefix
import Emu.Proofs.LeafTie.LessThanPrefix
import Emu.Proofs.Token

namespace Emu.Props.C11
open Emu Emu.Gcs Emu.Proofs.Listing

/-- the names a listing with this prefix and delimiter reports as items … -/
def expectedItems (names : List Bytes) (pfx delim : Bytes) : List Bytes :=
  names.filter fun n => Bytes.hasPrefix n pfx && (collapse pfx delim n).isNone

/-- … and as rolled-up prefixes (each distinct one once, in order of first appearance) -/
def expectedPrefixes (names : List Bytes) (pfx delim : Bytes) : List Bytes :=
  (names.filterMap fun n => if Bytes.hasPrefix n pfx then collapse pfx delim n else none).eraseDups

/-- The full statement of the property for one bucket content. -/
def FullStatement (names : List Bytes) (pfx delim : Bytes) (max : Nat) : Prop :=
  let pages := listAll names pfx delim max (names.length + 2) []
  pages.flatMap (·.items) = expectedItems names pfx delim ∧
  pages.flatMap (·.prefixes) = expectedPrefixes names pfx delim ∧
  (∀ p ∈ pages, p.items.length + p.prefixes.length ≤ max) ∧
  pages.getLast?.map (·.more) = some false

/-- **Complete pagination, no delimiter** (any sorted set of non-empty names, any prefix, any
    page size ≥ 1): following the tokens yields every name with the prefix exactly once, in
    ascending order, in pages of at most `max`, and the last page has no token. -/
theorem full_statement_without_delimiter (names : List Bytes) (hs : NamesSorted names)
    (hne : ∀ n ∈ names, n ≠ []) (pfx : Bytes) (max : Nat) (hmax : max ≥ 1) :
    FullStatement names pfx [] max := by
  have hF : names.filter (elig [] pfx) = expectedItems names pfx [] := by
    apply List.filter_congr
    intro n hn
    have : ([] : Bytes) < n := by
      cases n with
      | nil => exact absurd rfl (hne _ hn)
      | cons a t => simp
    simp [elig, this, collapse]
  have hlen : names.length + 2 ≥ (names.filter (elig [] pfx)).length + 1 := by
    have := List.length_filter_le (elig [] pfx) names; omega
  obtain ⟨h1, h2, h3⟩ := listAll_noDelim names hs pfx max hmax (names.length + 2) [] hlen
  refine ⟨by rw [h1, hF], ?_, ?_, h3⟩
  · have : (listAll names pfx [] max (names.length + 2) []).flatMap (·.prefixes) = [] := by
      rw [List.flatMap_eq_nil_iff]; intro p hp; exact (h2 p hp).2
    rw [this]
    have hfm : (names.filterMap fun n => if Bytes.hasPrefix n pfx then collapse pfx [] n else none) = [] := by
      rw [List.filterMap_eq_nil_iff]; intro n _; simp [collapse]
    simp [expectedPrefixes, hfm]
  · intro p hp; rw [(h2 p hp).2]; simpa using (h2 p hp).1

open Emu.Proofs.ListingDelim in
/-- **Complete pagination with a delimiter** (any sorted set of non-empty names, any prefix, any
    non-empty delimiter — multi-byte ones included —, any page size ≥ 1): following the tokens
    yields as items exactly the names that start with the prefix and have no delimiter after it,
    each once, in ascending order; as prefixes exactly the distinct rolled-up prefixes, each once, in
    order of first appearance; no page holds more than `max` entries; the last page has no token.
    (Names that roll up into the same prefix are contiguous in a sorted list, a page always consumes
    such a block entirely, and the next page starts right after it.) -/
theorem full_statement_with_delimiter (names : List Bytes) (hs : NamesSorted names)
    (hne : ∀ n ∈ names, n ≠ []) (pfx delim : Bytes) (hd : delim ≠ []) (max : Nat) (hmax : max ≥ 1) :
    FullStatement names pfx delim max := by
  have hbe := blockEnd_nil pfx delim hd names
  have hlen : (beyond pfx [] names).length ≤ names.length := List.length_filter_le _ _
  obtain ⟨h1, h2, h3⟩ := listAll_delim names hs pfx delim max hmax names.length [] hbe hlen (names.length + 2) (by omega)
  have hby : beyond pfx [] names = names.filter (fun n => Bytes.hasPrefix n pfx) := by
    unfold beyond
    apply List.filter_congr
    intro n hn
    have : ([] : Bytes) < n := by
      cases n with
      | nil => exact absurd rfl (hne _ hn)
      | cons a t => simp
    simp [this]
  refine ⟨?_, ?_, ?_, h3⟩
  · rw [h1, hby]
    unfold uitems expectedItems
    rw [List.filter_filter]
    apply List.filter_congr
    intro n _
    exact Bool.and_comm _ _
  · rw [h2, hby]
    unfold newPrefs expectedPrefixes
    have hf : ∀ l : List Bytes, l.filter (fun cp => !([] : List Bytes).contains cp) = l := by
      intro l; rw [List.filter_eq_self]; intro _ _; simp
    rw [hf, filterMap_filter_if]
  · intro p hp
    obtain ⟨c1, c2, _⟩ := listAll_pages_ok names pfx delim max _ _ p hp
    omega

/-- **The property's listing clause, in full**: for every sorted set of non-empty names, every
    prefix, every delimiter (none, one byte, several bytes) and every page size ≥ 1. -/
theorem full_statement (names : List Bytes) (hs : NamesSorted names) (hne : ∀ n ∈ names, n ≠ [])
    (pfx delim : Bytes) (max : Nat) (hmax : max ≥ 1) : FullStatement names pfx delim max := by
  cases delim with
  | nil => exact full_statement_without_delimiter names hs hne pfx max hmax
  | cons a t => exact full_statement_with_delimiter names hs hne pfx (a :: t) (by simp) max hmax

/-- No page ever holds more than `maxResults` entries, items and prefixes together, and no
    rolled-up prefix appears twice on a page — for every delimiter. -/
theorem page_size_bound (names : List Bytes) (pfx delim cursor : Bytes) (max : Nat) :
    let p := listPage names pfx delim cursor max
    p.items.length + p.prefixes.length ≤ max ∧ p.prefixes.Nodup := by
  obtain ⟨h1, h2, h3⟩ := listPage_ok names pfx delim cursor max
  exact ⟨by omega, h3⟩

/-- Everything a page reports is right — for every delimiter: an item is a stored name beyond
    the cursor that starts with the prefix and has no delimiter after it; a prefix is the roll-up
    of such a stored name. -/
theorem page_sound (names : List Bytes) (pfx delim cursor : Bytes) (max : Nat) :
    let p := listPage names pfx delim cursor max
    (∀ x ∈ p.items, x ∈ names ∧ Bytes.hasPrefix x pfx = true ∧ cursor < x ∧ collapse pfx delim x = none) ∧
    (∀ cp ∈ p.prefixes, ∃ x ∈ names, Bytes.hasPrefix x pfx = true ∧ cursor < x ∧ collapse pfx delim x = some cp) :=
  listPage_sound names pfx delim cursor max

/-- Each listed item's metadata is the stored record (what a metadata GET returns). -/
theorem item_metadata_is_stored_record (os : Objs) (names : List Bytes) (o : Obj) (h : o ∈ pageObjs os names) :
    os.get o.name = some o := by
  simp only [pageObjs, List.mem_filterMap] at h
  obtain ⟨n, _, hg⟩ := h
  have := Proofs.Gcs.Objs.get_name os n o hg
  rw [this]; exact hg

/-- A missing bucket is a 404, a malformed token or maxResults a 400; neither changes anything. -/
theorem missing_bucket_and_bad_parameters (s : Store) (b pfx delim : Bytes) (max : Nat)
    (h : s.bucket? b = none) :
    step s (.listAll b pfx delim max) = (s, .status .notFound) ∧
    step s (.listBad b) = (s, .status .badRequest) := by
  simp [step, h]

/-- Non-vacuity, with a delimiter: names a/1 a/2 b c, delimiter "/", page size 2 —
    the case the unrepaired code got wrong (it listed only "a/"). -/
example :
    let names : List Bytes := [[97, 47, 49], [97, 47, 50], [98], [99]]
    (listAll names [] [47] 2 6 []).map (fun p => (p.items, p.prefixes))
      = [([[98]], [[97, 47]]), ([[99]], [])] := by decide

example : FullStatement [[97, 47, 49], [97, 47, 50], [98], [99]] [] [47] 2 := by
  unfold FullStatement; decide

/-! ### Tie T1: the repository's own text of the two prefix tests, and what pruning may skip

`Emu.Generated.Leaf.greaterThanPrefix` / `lessThanPrefix` are regenerated from gcsemu.go by the
leaf translator on every run.  The first is the early-exit test of the listing callback (the
Model's `greaterThanPrefix`); the second is the file store's directory-pruning test. -/

theorem source_greaterThanPrefix_is_the_models (item pfx : Bytes) :
    Emu.Generated.Leaf.greaterThanPrefix item pfx = greaterThanPrefix item pfx :=
  Emu.Proofs.LeafTie.greaterThanPrefix_tie item pfx

/-- a name below a directory the file store's walk prunes (its path is `lessThanPrefix` the cursor
    or the prefix) would not have contributed to the page -/
theorem pruned_directories_lose_nothing (pfx delim cursor skip : Bytes) (max : Nat) (p : Page) (dir ext : Bytes)
    (h : Emu.Generated.Leaf.lessThanPrefix dir cursor = true ∨ Emu.Generated.Leaf.lessThanPrefix dir pfx = true) :
    Emu.Proofs.LeafTie.outward (pageStep pfx delim cursor skip max p (dir ++ ext)) = Emu.Proofs.LeafTie.outward p := by
  rw [Emu.Proofs.LeafTie.lessThanPrefix_tie, Emu.Proofs.LeafTie.lessThanPrefix_tie] at h
  exact Emu.Proofs.LeafTie.pruned_name_contributes_nothing pfx delim cursor skip max p dir ext h

example : Emu.Generated.Leaf.lessThanPrefix [97] [98, 47] = true := by decide

/-! ### Page tokens

`nextPageToken` is the wire form of a one-field protobuf message holding the last name consumed
(`Emu.Gcs.Token.encode`; base64 aside).  Whatever the name — any bytes, not only UTF-8, any length up
to and beyond the 1024 bytes GCS allows — decoding the token gives the name back, so "following
nextPageToken" resumes exactly after the last name of the page. -/

theorem page_token_round_trip (name : Bytes) :
    Emu.Gcs.Token.decode (Emu.Gcs.Token.encode name) = some name :=
  Emu.Proofs.Token.decode_encode name

example : Emu.Gcs.Token.decode [10, 3, 97, 255, 98] = some [97, 255, 98] ∧ Emu.Gcs.Token.decode [10, 5, 97] = none ∧
    Emu.Gcs.Token.decode [10, 130, 0, 1, 2] = some [1, 2] := by decide

end Emu.Props.C11
