/-
  C07 — GCS: concurrent operations on one object are atomic and serialisable.

  Every mutating handler runs `GetMeta → validateConds → store mutation` inside
  `locks.Run(bucket/name)`, so for one object the generic one-lock theorem (see C06) applies with
  `f i` = the Model's `step` for request `i`.  What is specific to GCS is proved here on the
  sequential Model: whatever serial order the lock produces, of N writers conditioned on the same
  generation (or on non-existence) exactly one succeeds.
  Memory store: a read is one lookup of an immutable record under the bucket mutex, i.e. one more
  atomic operation.  File store: a read is stat + sidecar read + content read with no lock, and a
  write is three separate file operations — reads can be torn (known finding B8, reproduced by the
  interleaving harness); the theorem below therefore speaks about the memory store and about all
  mutating operations of both stores.
-/
import Emu.Proofs.Lin
import Emu.Proofs.Gcs
import Emu.Proofs.ComposeSplit

namespace Emu.Props.C07
open Emu Emu.Gcs Emu.Proofs.Gcs

/-- mutual exclusion and serial explanation for any interleaving of any number of requests on one
    object (instance of the one-lock theorem) -/
theorem object_requests_are_serialised {ρ : Type} (f : Nat → Store → Store × ρ) (s0 : Store) (n : Nat)
    (sched : List (Nat × Conc.Act)) (sys : Conc.Sys Store ρ) (h : Conc.run f (Conc.init s0 n) sched = some sys) :
    sys.st = (Conc.seqRun f s0 sys.lin).1 ∧ sys.lin.Nodup :=
  let hg := Proofs.Lin.good_run f s0 sched _ sys (Proofs.Lin.good_init f s0 n) h
  ⟨hg.state, hg.nodup⟩

/-- run `k` uploads of the same object, all carrying the same conditions, one after the other -/
def uploads (b n : Bytes) (c : Conds) : Store → List (Bytes × Meta) → Store × List Status
  | s, [] => (s, [])
  | s, (content, m) :: rest =>
    let r := finishUpload s b n content m none c
    let (s', sts) := uploads b n c r.1 rest
    (s', r.2 :: sts)

/-- after a refused upload nothing has changed, so every further one is refused as well -/
theorem all_refused (s1 : Store) (b n : Bytes) (c : Conds) (st : Status)
    (hv : ∀ content m, finishUpload s1 b n content m none c = (s1, st)) (ws : List (Bytes × Meta)) :
    (uploads b n c s1 ws).2 = ws.map (fun _ => st) := by
  induction ws with
  | nil => rfl
  | cons x xs ih => simp only [uploads, hv, List.map_cons, ih]

/-- **Exactly one winner (generation match).**  Writers conditioned on the generation `g` the
    object has now: in any serial order the first one succeeds, and every later one is refused —
    no update is lost and none is applied twice. -/
theorem one_winner_on_generation (s : Store) (hb : GenBound s) (b n : Bytes) (o : Obj) (ho : s.obj? b n = some o)
    (hgen : o.gen ≠ 0) (w : Bytes × Meta) (ws : List (Bytes × Meta)) :
    (uploads b n { genMatch := o.gen } s (w :: ws)).2 = .ok :: ws.map (fun _ => .precondition) := by
  have hfirst : validateConds (s.obj? b n) { genMatch := o.gen } = .ok := by
    rw [ho]; simp [validateConds]
  have h1 : finishUpload s b n w.1 w.2 none { genMatch := o.gen } = (s.add b n w.1 w.2, .ok) :=
    finishUpload_of_conds s b n w.1 w.2 _ hfirst
  simp only [uploads, h1]
  congr 1
  have hle : o.gen ≤ s.clock := hb b n o ho
  apply all_refused
  intro content m
  have hv : validateConds ((s.add b n w.1 w.2).obj? b n) { genMatch := o.gen } = .preconditionFailed := by
    rw [obj?_add_self]
    have h0 : ((o.gen : Nat) : Int) ≠ 0 := by exact_mod_cast hgen
    have h2 : ((s.clock + 1 : Nat) : Int) ≠ ((o.gen : Nat) : Int) := by
      have : s.clock + 1 ≠ o.gen := by omega
      exact_mod_cast this
    simp [validateConds]
    refine ⟨hgen, ?_⟩
    have : s.clock + 1 ≠ o.gen := by omega
    exact_mod_cast this
  simp [finishUpload, hv, CondResult.status]

/-- **Exactly one winner (must not exist).**  Writers conditioned on non-existence of an absent
    object: the first succeeds, every later one is refused. -/
theorem one_winner_on_absence (s : Store) (b n : Bytes) (ho : s.obj? b n = none)
    (w : Bytes × Meta) (ws : List (Bytes × Meta)) :
    (uploads b n { doesNotExist := true } s (w :: ws)).2 = .ok :: ws.map (fun _ => .precondition) := by
  have hfirst : validateConds (s.obj? b n) { doesNotExist := true } = .ok := by
    rw [ho]; simp [validateConds]
  have h1 := finishUpload_of_conds s b n w.1 w.2 _ hfirst
  simp only [uploads, h1]
  congr 1
  apply all_refused
  intro content m
  have hv : validateConds ((s.add b n w.1 w.2).obj? b n) { doesNotExist := true } = .preconditionFailed := by
    rw [obj?_add_self]; simp [validateConds]
  simp [finishUpload, hv, CondResult.status]

/-- A metageneration-conditioned patch is applied only to a state it matched (its own turn's
    pre-state), and a refused one changes nothing. -/
theorem patch_only_on_matching_state (s : Store) (b n : Bytes) (rc : RawConds) (c : Conds) (body : PatchBody) (o : Obj)
    (hp : parseConds rc = some c) (ho : s.obj? b n = some o) :
    (validateConds (some o) c ≠ .ok → (step s (.patch b n rc body)).1 = s) ∧
    (validateConds (some o) c = .ok → body.malformed = false →
        (step s (.patch b n rc body)).2 = Resp.object b { o with metagen := o.metagen + 1, «meta» := applyPatch o.meta body }) := by
  constructor
  · intro hv
    cases hv' : validateConds (some o) c with
    | ok => exact absurd hv' hv
    | preconditionFailed => simp [step, hp, ho, hv']
    | notModified => simp [step, hp, ho, hv']
  · intro hv hm
    simp [step, hp, ho, hv, hm]

/-- Memory store: a read returns one stored record — generation, metageneration, metadata and
    content of the same version. -/
theorem read_is_one_record (s : Store) (b n : Bytes) (o : Obj) (h : s.obj? b n = some o) :
    (step s (.getMedia b n)).2 = Resp.media o ∧ (step s (.getMeta b n)).2 = Resp.object b o := by
  simp [step, h]

/-- Non-vacuity: three writers conditioned on generation 1 of an existing object. -/
example :
    let s0 : Store := ({} : Store).add [98] [110] [1] {}
    (uploads [98] [110] { genMatch := 1 } s0 [([2], {}), ([3], {}), ([4], {})]).2
      = [.ok, .precondition, .precondition] := by decide

/-! ### A compose and its sources

`finishCompose` holds the destination's lock only; it reads its sources first and validates and
writes the destination afterwards.  `composeSplit s0 s1` is that request with the sources read in
`s0` and the destination handled in `s1` (`Proofs/ComposeSplit`). -/

open Emu.Proofs.ComposeSplit in
/-- The one-lock account of a compose (one step, taken where it writes) is right whenever no source
    changed while the compose was under way … -/
theorem compose_is_one_step_unless_a_source_is_written (s0 s1 : Store) (b dst : Bytes) (rc : RawConds)
    (srcs : List ComposeSrc) (m : Option Meta) (h : ∀ src ∈ srcs, s0.obj? b src.name = s1.obj? b src.name) :
    composeSplit s0 s1 b dst rc srcs m = step s1 (.compose b dst rc srcs m) :=
  as_if_atomic s0 s1 b dst rc srcs m h

open Emu.Proofs.ComposeSplit in
/-- … and uploads, copies and patches that target another object do not change a source. -/
theorem writers_of_other_objects_leave_a_source (s : Store) (b' n' : Bytes) :
    (∀ b n content m d rc, (b' ≠ b ∨ n' ≠ n) → (step s (.upload b n content m d rc)).1.obj? b' n' = s.obj? b' n') ∧
    (∀ b1 n1 b2 n2, (b' ≠ b2 ∨ n' ≠ n2) → (step s (.copy b1 n1 b2 n2)).1.obj? b' n' = s.obj? b' n') ∧
    (∀ b n rc body, (b' ≠ b ∨ n' ≠ n) → (step s (.patch b n rc body)).1.obj? b' n' = s.obj? b' n') ∧
    (∀ s0 b dst rc srcs m, (b' ≠ b ∨ n' ≠ dst) → (composeSplit s0 s b dst rc srcs m).1.obj? b' n' = s.obj? b' n') :=
  ⟨fun b n content m d rc h => upload_frame s b n content m d rc b' n' h,
   fun b1 n1 b2 n2 h => copy_frame s b1 n1 b2 n2 b' n' h,
   fun b n rc body h => patch_keeps_what_compose_reads s b n rc body b' n' h,
   fun s0 b dst rc srcs m h => compose_frame s0 s b dst rc srcs m b' n' h⟩

open Emu.Proofs.ComposeSplit in
/-- Outside the property (the two requests target different objects), stated so that it is not
    mistaken for covered: with a writer of a source in between, a compose is not one step —
    compose{a ← a + c} around copy{a → c} ends in a state neither serial order gives. -/
theorem compose_is_not_one_step_over_its_sources :
    let mid := (step start copy_a_c).1
    let fin := (composeSplit start mid [98] [97] {} [⟨[97], 0⟩, ⟨[99], 0⟩] none).1
    (contentOf fin [97], contentOf fin [99]) = (some [65, 67], some [65]) ∧
    (let t := (step (step start compose_a).1 copy_a_c).1
     (contentOf t [97], contentOf t [99])) = (some [65, 67], some [65, 67]) ∧
    (let t := (step (step start copy_a_c).1 compose_a).1
     (contentOf t [97], contentOf t [99])) = (some [65, 65], some [65]) :=
  Emu.Proofs.ComposeSplit.skew

end Emu.Props.C07
