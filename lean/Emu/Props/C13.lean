/-
  C13 — Bigtable: ReadModifyWriteRow increments and appends against the latest cell.
-/
import Emu.Proofs.Rmw
import Emu.Proofs.LeafTie.MaxTimestamp

namespace Emu.Props.C13
open Emu Emu.Bt Emu.Proofs.BtRow Emu.Proofs.BtInv Emu.Proofs.BtRows Emu.Proofs.Rmw

/-- Big-endian int64 round trip (what ties "adds its amount to the 8-byte value" to arithmetic). -/
theorem int64_roundtrip (v : Int) (h1 : -(2 : Int) ^ 63 ≤ v) (h2 : v < (2 : Int) ^ 63) :
    beDecode (beEncode v) = v := beDecode_beEncode v h1 h2

/-- Arithmetic wraps at 64 bits: the stored sum is an int64 congruent to the exact sum. -/
theorem increment_wraps (v : Int) : -(2 : Int) ^ 63 ≤ wrap64 v ∧ wrap64 v < (2 : Int) ^ 63 ∧
    (wrap64 v - v) % (2 : Int) ^ 64 = 0 := wrap64_range v

/-- The timestamp of the written cell: the server time in whole milliseconds, or the newest
    existing timestamp of the column if that is later. -/
def writtenTs (now : Int) (prev : List Cell) : Int :=
  match prev.head? with
  | none => truncMs now
  | some c => max (truncMs now) c.ts

/-- The value an accepted rule writes, given the newest cell of its column (if any). -/
def writtenValue (rule : RmwRule) (prev : List Cell) : Option Bytes :=
  match rule, prev.head? with
  | .append _ _ v, none => some v
  | .append _ _ v, some c => some (c.value ++ v)
  | .increment _ _ amt, none => some (beEncode (wrap64 amt))
  | .increment _ _ amt, some c =>
    if c.value.length = 8 then some (beEncode (wrap64 (beDecode c.value + amt))) else none
  | .unknown _ _, _ => none

/-- **One rule.**  It is accepted iff its family is in the schema and (for an increment) the newest
    cell, if there is one, is 8 bytes long; then it writes exactly one cell with `writtenValue` and
    `writtenTs` into its column — replacing a cell of the same timestamp, keeping every other
    version — and changes no other column. -/
theorem rule_semantics (sch : Schema) (now : Int) (r : Row) (rule : RmwRule)
    (hwf : StrictDesc (r.cellsOf rule.fam rule.qual)) :
    match applyRmwRule sch now r rule with
    | none => sch.has rule.fam = false ∨ writtenValue rule (r.cellsOf rule.fam rule.qual) = none
    | some (r', cell) =>
      sch.has rule.fam = true ∧
      writtenValue rule (r.cellsOf rule.fam rule.qual) = some cell.value ∧
      cell.ts = writtenTs now (r.cellsOf rule.fam rule.qual) ∧
      (∀ x, x ∈ r'.cellsOf rule.fam rule.qual ↔
          x = cell ∨ (x ∈ r.cellsOf rule.fam rule.qual ∧ x.ts ≠ cell.ts)) ∧
      (∀ f q, (f ≠ rule.fam ∨ q ≠ rule.qual) → r'.cellsOf f q = r.cellsOf f q) := by
  unfold applyRmwRule
  by_cases hs : sch.has rule.fam = true
  · simp only [hs, Bool.not_true, Bool.false_eq_true, if_false]
    cases rule with
    | unknown f q => simp [writtenValue]
    | append f q v =>
      simp only [RmwRule.fam, RmwRule.qual] at hwf ⊢
      refine ⟨trivial, ?_, ?_, ?_, ?_⟩
      · unfold writtenValue; cases (r.cellsOf f q).head? <;> simp
      · unfold writtenTs; cases (r.cellsOf f q).head? <;> rfl
      · intro x; rw [Row.cellsOf_setCells_self]; exact mem_appendOrReplace _ _ hwf x
      · intro f' q' hne; exact Row.cellsOf_setCells_other r f q f' q' _ hne
    | increment f q amt =>
      simp only [RmwRule.fam, RmwRule.qual] at hwf ⊢
      cases hh : (r.cellsOf f q).head? with
      | none =>
        simp only
        refine ⟨trivial, ?_, ?_, ?_, ?_⟩
        · simp [writtenValue, hh]
        · simp [writtenTs, hh]
        · intro x; rw [Row.cellsOf_setCells_self]; exact mem_appendOrReplace _ _ hwf x
        · intro f' q' hne; exact Row.cellsOf_setCells_other r f q f' q' _ hne
      | some c =>
        simp only
        by_cases hl : c.value.length = 8
        · simp only [hl, bne_self_eq_false, Bool.false_eq_true, if_false]
          refine ⟨trivial, ?_, ?_, ?_, ?_⟩
          · simp [writtenValue, hh, hl]
          · simp [writtenTs, hh]
          · intro x; rw [Row.cellsOf_setCells_self]; exact mem_appendOrReplace _ _ hwf x
          · intro f' q' hne; exact Row.cellsOf_setCells_other r f q f' q' _ hne
        · have : (c.value.length != 8) = true := by simp [hl]
          simp only [this, if_true]
          right; simp [writtenValue, hh, hl]
  · have hs' : sch.has rule.fam = false := by simpa using hs
    simp [hs']

/-- Rules are applied in order, each to the row as left by the previous ones; the first failing
    rule fails the whole request. -/
theorem rules_in_order (sch : Schema) (now : Int) (r res : Row) (rule : RmwRule) (rules : List RmwRule) :
    applyRmwRules sch now r res (rule :: rules) =
      match applyRmwRule sch now r rule with
      | none => none
      | some (r', cell) => applyRmwRules sch now r' (res.setCells rule.fam rule.qual fun _ => [cell]) rules := rfl

/-- A failing rule anywhere makes ReadModifyWriteRow fail and return no new store. -/
theorem failed_rule_changes_nothing (sch : Schema) (now : Int) (rows : Rows) (k : Bytes) (rules : List RmwRule)
    (h : applyRmwRules sch now (rows.getOrCreate k) ⟨k, []⟩ rules = none) :
    readModifyWrite sch now rows k rules = none := by
  simp [readModifyWrite, h]

/-- The response row holds, for the column of the last rule, exactly the cell that rule wrote. -/
theorem response_has_written_cell (sch : Schema) (now : Int) (r res r' : Row) (rule : RmwRule) (cell : Cell)
    (h : applyRmwRule sch now r rule = some (r', cell)) :
    applyRmwRules sch now r res [rule] = some (r', res.setCells rule.fam rule.qual fun _ => [cell]) ∧
    (res.setCells rule.fam rule.qual fun _ => [cell]).cellsOf rule.fam rule.qual = [cell] := by
  refine ⟨by simp [applyRmwRules, h], Row.cellsOf_setCells_self _ _ _ _⟩

/-- The row stays well formed (one cell per timestamp, newest first) through every rule. -/
theorem rule_keeps_wellformed (sch : Schema) (now : Int) (r r' : Row) (rule : RmwRule) (cell : Cell)
    (hinv : RowInv r) (h : applyRmwRule sch now r rule = some (r', cell)) : RowInv r' := by
  unfold applyRmwRule at h
  split at h
  · cases h
  · simp only at h
    split at h
    · cases h
    · cases h
      exact rowInv_setCells r _ _ _ (fun cs hcs => appendOrReplace_desc cs _ hcs) hinv

/-- Non-vacuity: increment a missing cell by 5, then by -7; then append to it fails? No — append
    works on any value; a second increment on the 9-byte result fails. -/
example :
    let sch : Schema := [([102], none)]
    (applyRmwRules sch 5000 ⟨[97], []⟩ ⟨[97], []⟩
      [.increment [102] [113] 5, .increment [102] [113] (-7)]).map (fun p => (p.1.cellsOf [102] [113]).map (·.value))
      = some [[255, 255, 255, 255, 255, 255, 255, 254]] := by decide

example :
    let sch : Schema := [([102], none)]
    (applyRmwRules sch 5000 ⟨[97], []⟩ ⟨[97], []⟩
      [.increment [102] [113] 5, .append [102] [113] [1], .increment [102] [113] 1]).isNone = true := by decide

/-! ### Tie T1: the repository's own text of the timestamp choice

`Emu.Generated.Leaf.maxTimestamp` is regenerated from `maxTimestamp` (inmem.go) by the leaf
translator on every run; `applyRmwRule` stamps the new cell with `max (truncMs now) prev.ts`. -/

theorem source_maxTimestamp_is_max (x y : Int) : Emu.Generated.Leaf.maxTimestamp x y = max x y :=
  Emu.Proofs.LeafTie.maxTimestamp_tie x y

end Emu.Props.C13
