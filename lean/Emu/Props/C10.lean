/-
  C10 — GCS: generation and metageneration follow the versioning laws.
  The Model's generation is a logical clock advanced by every successful content write
  (hypothesis: `time.Now()` strictly increases across successive writes; re-measured by the
  harness on every run, which replaces real generations by their rank).
-/
import Emu.Proofs.Gcs

namespace Emu.Props.C10
open Emu Emu.Gcs Emu.Proofs.Gcs

/-- Every content write (upload, compose, copy destination all go through `Store.add`) stores
    the object with a fresh generation `clock + 1` and metageneration 1. -/
theorem write_sets_new_generation (s : Store) (b n c : Bytes) (m : Meta) :
    (s.add b n c m).obj? b n = some ⟨n, c, s.clock + 1, 1, m⟩ :=
  obj?_add_self s b n c m

/-- … and leaves every other object (other name or other bucket) exactly as it was. -/
theorem write_frame (s : Store) (b n c : Bytes) (m : Meta) (b' n' : Bytes) (h : b' ≠ b ∨ n' ≠ n) :
    (s.add b n c m).obj? b' n' = s.obj? b' n' :=
  obj?_add_other s b n c m b' n' h

/-- **Freshness over whole histories**: start from the empty store, run any program, then write.
    The new generation is strictly greater than the generation of every object that existed in
    *any* state the history passed through — in particular every generation that name ever had,
    also across delete and re-create. -/
theorem new_generation_exceeds_every_earlier_one (ops : List Op) (b n c : Bytes) (m : Meta)
    (t : Store) (ht : t ∈ trace {} ops) (b' n' : Bytes) (o : Obj) (ho : t.obj? b' n' = some o) :
    ∀ o', ((final {} ops).add b n c m).obj? b n = some o' → o.gen < o'.gen := by
  intro o' h'
  rw [obj?_add_self] at h'
  cases h'
  have hb : GenBound ({} : Store) := by intro b n o h; simp [Store.obj?, Store.bucket?, aget] at h
  have h1 := genBound_trace {} ops hb t ht b' n' o ho
  have h2 := clock_le_final {} ops t ht
  simp only; omega

/-- The logical clock never goes back, whatever is requested. -/
theorem clock_monotone (s : Store) (op : Op) : s.clock ≤ (step s op).1.clock :=
  evolves_clock_mono (step_evolves s op)

/-- A request changes the object store in one of six ways only: not at all; one content write
    with a fresh generation; one metadata replace that keeps name, generation, content and MD5 and
    adds exactly one to the metageneration; one object delete; one bucket delete; one bucket
    create.  (Reads, listings and failed requests fall in the first class: see C04.) -/
theorem step_changes_store_only_by_these (s : Store) (op : Op) : Evolves s (step s op).1 :=
  step_evolves s op

/-- A successful patch: generation, content, size and MD5 unchanged, metageneration + 1,
    only the supplied fields replaced, the user-metadata map merged key-wise. -/
theorem patch_effect (s : Store) (b : Bytes) (o : Obj) (rc : RawConds) (c : Conds) (body : PatchBody)
    (ho : s.obj? b o.name = some o) (hp : parseConds rc = some c)
    (hv : validateConds (some o) c = .ok) (hm : body.malformed = false) :
    let o' : Obj := { o with metagen := o.metagen + 1, «meta» := applyPatch o.meta body }
    step s (.patch b o.name rc body) = (s.replace b o', .object b o') ∧
    o'.gen = o.gen ∧ o'.content = o.content ∧ o'.meta.md5 = o.meta.md5 ∧
    o'.meta.contentType = body.contentType.getD o.meta.contentType ∧
    o'.meta.cacheControl = body.cacheControl.getD o.meta.cacheControl := by
  simp [step, hp, ho, hv, hm, applyPatch]

/-- Reads and listings never change the store. -/
theorem reads_change_nothing (s : Store) (b n p d : Bytes) (k : Nat) :
    (step s (.getMeta b n)).1 = s ∧ (step s (.getMedia b n)).1 = s ∧
    (step s (.listAll b p d k)).1 = s ∧ (step s (.getBucket b)).1 = s := by
  refine ⟨?_, ?_, ?_, ?_⟩ <;> simp only [step] <;> split <;> rfl

/-- What a metadata GET, a media GET and a listing report for an object is the same stored
    record (so generation and metageneration agree wherever they are reported). -/
theorem reports_agree (s : Store) (b n : Bytes) (o : Obj) (h : s.obj? b n = some o) :
    (step s (.getMeta b n)).2 = Resp.object b o ∧ (step s (.getMedia b n)).2 = Resp.media o := by
  simp [step, h]

/-- Non-vacuity: a concrete history with overwrite, delete and re-create. -/
example :
    let ops : List Op := [.upload [98] [97] [1] {} none {}, .upload [98] [97] [2] {} none {},
                          .delete [98] [97] {}, .upload [98] [97] [3] {} none {}]
    ((final {} ops).obj? [98] [97]).map (·.gen) = some 3 := by decide

end Emu.Props.C10
