/-
  C15 — GCS: compose concatenates its sources in order; copy clones an object.
-/
import Emu.Proofs.Gcs

namespace Emu.Props.C15
open Emu Emu.Gcs Emu.Proofs.Gcs

/-- content of a source in the pre-state (empty if missing) -/
def srcContent (s : Store) (b : Bytes) (src : ComposeSrc) : Bytes :=
  ((s.obj? b src.name).map (·.content)).getD []

/-- When every source can be read, the composed data is the concatenation, in request order, of
    the sources' contents **in the pre-state**. -/
theorem composeData_is_concatenation (s : Store) (b : Bytes) (srcs : List ComposeSrc) (d : Bytes) (cnt : Nat)
    (h : composeData s b srcs = .ok (d, cnt)) : d = srcs.flatMap (srcContent s b) := by
  induction srcs generalizing d cnt with
  | nil => simp [composeData] at h; simp [h.1]
  | cons src rest ih =>
    simp only [composeData] at h
    cases ho : s.obj? b src.name with
    | none => simp [ho] at h
    | some o =>
      simp only [ho] at h
      cases hv : validateConds (some o) { genMatch := src.genMatch } with
      | ok =>
        simp only [hv] at h
        cases hr : composeData s b rest with
        | error e => simp [hr] at h
        | ok r =>
          obtain ⟨d', n'⟩ := r
          simp only [hr] at h
          cases h
          simp [List.flatMap_cons, srcContent, ho, ih d' n' hr]
      | preconditionFailed => simp [hv] at h
      | notModified => simp [hv] at h

/-- A missing source makes the read fail (the request answers 404 and, by C04's frame theorem,
    nothing changes). -/
theorem composeData_missing_source (s : Store) (b : Bytes) (srcs : List ComposeSrc)
    (h : ∃ src ∈ srcs, s.obj? b src.name = none) : ∀ r, composeData s b srcs ≠ .ok r := by
  induction srcs with
  | nil => obtain ⟨_, hm, _⟩ := h; cases hm
  | cons src rest ih =>
    intro r hr
    simp only [composeData] at hr
    cases ho : s.obj? b src.name with
    | none => simp [ho] at hr
    | some o =>
      simp only [ho] at hr
      cases hv : validateConds (some o) { genMatch := src.genMatch } with
      | ok =>
        simp only [hv] at hr
        cases hrest : composeData s b rest with
        | error e => simp [hrest] at hr
        | ok r' =>
          obtain ⟨x, hx, hnone⟩ := h
          cases hx with
          | head => rw [ho] at hnone; cases hnone
          | tail _ hx' => exact ih ⟨x, hx', hnone⟩ r' hrest
      | preconditionFailed => simp [hv] at hr
      | notModified => simp [hv] at hr

/-- More than the maximum number of sources (regenerated from the code: 32) is a 400. -/
theorem too_many_sources (s : Store) (b dst : Bytes) (rc : RawConds) (c : Conds) (srcs : List ComposeSrc)
    (m : Option Meta) (hp : parseConds rc = some c) (h : srcs.length > Generated.gcsMaxComposeSources) :
    step s (.compose b dst rc srcs m) = (s, .status .badRequest) := by
  simp [step, hp, h]

/-- A successful compose stores at the destination exactly that concatenation with the request's
    metadata (no MD5), with a fresh generation; every other object — every source that is not the
    destination included — is untouched.  The destination may itself be a source: the data was
    read before the write. -/
theorem compose_effect (s : Store) (b dst : Bytes) (rc : RawConds) (c : Conds) (srcs : List ComposeSrc)
    (m : Option Meta) (d : Bytes) (cnt : Nat) (hp : parseConds rc = some c)
    (hlen : ¬ srcs.length > Generated.gcsMaxComposeSources)
    (hd : composeData s b srcs = .ok (d, cnt)) (hv : validateConds (s.obj? b dst) c = .ok) :
    let s' := (step s (.compose b dst rc srcs m)).1
    (∃ o, s'.obj? b dst = some o ∧ o.content = srcs.flatMap (srcContent s b) ∧ o.gen = s.clock + 1 ∧
        o.metagen = 1 ∧ o.meta.md5 = [] ∧ o.meta.contentType = (m.getD {}).contentType ∧
        o.meta.userMeta = (m.getD {}).userMeta) ∧
    (∀ b' n', (b' ≠ b ∨ n' ≠ dst) → s'.obj? b' n' = s.obj? b' n') := by
  have hc := composeData_is_concatenation s b srcs d cnt hd
  simp only [step, hp, hlen, if_false, hd, hv]
  rw [obj?_add_self]
  refine ⟨⟨_, obj?_add_self _ _ _ _ _, ?_⟩, ?_⟩
  · simp [hc]
  · intro b' n' h; exact obj?_add_other _ _ _ _ _ _ _ h

/-- Copy: the destination gets the source's content, MD5 and user-settable metadata with a fresh
    generation; the response reports that resource; every other object is untouched. -/
theorem copy_effect (s : Store) (b1 n1 b2 n2 : Bytes) (o : Obj) (h : s.obj? b1 n1 = some o) :
    let r := step s (.copy b1 n1 b2 n2)
    r.2 = Resp.rewrite b2 ⟨n2, o.content, s.clock + 1, 1, o.meta⟩ ∧
    r.1.obj? b2 n2 = some ⟨n2, o.content, s.clock + 1, 1, o.meta⟩ ∧
    (∀ b' n', (b' ≠ b2 ∨ n' ≠ n2) → r.1.obj? b' n' = s.obj? b' n') := by
  simp only [step, h]
  rw [obj?_add_self]
  exact ⟨rfl, obj?_add_self _ _ _ _ _, fun b' n' hh => obj?_add_other _ _ _ _ _ _ _ hh⟩

/-- In particular the source is untouched unless it is the destination itself. -/
theorem copy_leaves_source (s : Store) (b1 n1 b2 n2 : Bytes) (o : Obj) (h : s.obj? b1 n1 = some o)
    (hne : b1 ≠ b2 ∨ n1 ≠ n2) : (step s (.copy b1 n1 b2 n2)).1.obj? b1 n1 = some o := by
  rw [(copy_effect s b1 n1 b2 n2 o h).2.2 b1 n1 hne, h]

/-- A missing source is a 404 and changes nothing. -/
theorem copy_missing (s : Store) (b1 n1 b2 n2 : Bytes) (h : s.obj? b1 n1 = none) :
    step s (.copy b1 n1 b2 n2) = (s, .status .notFound) := by
  simp [step, h]

/-- Non-vacuity: composing [x, dst, x] into dst where dst = "D", x = "X". -/
example :
    let s0 : Store := ((({} : Store).add [98] [120] [88] {}).add [98] [100] [68] {})
    ((step s0 (.compose [98] [100] {} [⟨[120], 0⟩, ⟨[100], 0⟩, ⟨[120], 0⟩] none)).1.obj? [98] [100]).map (·.content)
      = some [88, 68, 88] := by decide

end Emu.Props.C15
