/-
  C16 — Bigtable: garbage collection removes exactly what the GC rules condemn.

  Cells of a column are strictly descending by timestamp (C01), so "the N newest" are the first N
  and "older than the cut-off" is a tail: every rule retains a prefix, and `keep` says which.
  Not modelled: the 15–60 s timer loop that decides *when* a pass runs (only its quiescence test).
-/
import Emu.Proofs.Gc
import Emu.Proofs.GcInterleave
import Emu.Bt.Server
import Emu.Proofs.Activity
import Emu.Proofs.LeafTie.ApplyGC

namespace Emu.Props.C16
open Emu Emu.Bt Emu.Proofs.BtRow Emu.Proofs.BtInv Emu.Proofs.Gc

/-- Every rule tree retains exactly the first `keep` cells of the column — for all rule trees
    (mutual induction over the tree), all cell lists and all clock values. -/
theorem gc_retains_prefix (now : Int) (rule : GcRule) (cs : List Cell) :
    applyGC now rule cs = cs.take (keep now rule cs) := applyGC_eq_take now rule cs

/-- max-versions N retains the N newest (N ≥ 0; a negative N is not a valid rule and retains all) -/
theorem maxVersions_keep (now : Int) (n : Int) (cs : List Cell) (h : n ≥ 0) :
    keep now (.maxVersions n) cs = min n.toNat cs.length := by simp [keep, h]

/-- max-age retains exactly the cells that are not older than `now − age` (boundary included) -/
theorem maxAge_retains (now sec nanos : Int) (cs : List Cell) (h : StrictDesc cs) (c : Cell) (hc : c ∈ cs) :
    c ∈ applyGC now (.maxAge sec nanos) cs ↔ c.ts ≥ now - sec * 1000000 - Int.tdiv nanos 1000 :=
  maxAge_retains_iff now sec nanos cs h c hc

/-- a union retains a cell iff every member retains it: its prefix is the shortest of the members' -/
theorem union_keep (now : Int) (r : GcRule) (rs : List GcRule) (cs : List Cell) :
    keep now (.union (r :: rs)) cs = min (keep now r cs) (keep now (.union rs) cs) := by
  simp [keep, keeps]

/-- rule kinds the emulator does not implement retain everything -/
theorem unsupported_rule_keeps_all (now : Int) (cs : List Cell) : applyGC now .other cs = cs := by
  simp [applyGC]

/-- Effect of a pass on any column of any row: the rule of the column's family applied to its
    cells; a family without a rule is not touched. -/
theorem pass_effect_on_column (now : Int) (s : Schema) (r : Row) (fam q : Bytes) :
    (gcRow now s r).cellsOf fam q =
      match s.rule? fam with
      | none => r.cellsOf fam q
      | some rule => (r.cellsOf fam q).take (keep now rule (r.cellsOf fam q)) := by
  rw [cellsOf_gcRow]
  cases s.rule? fam with
  | none => rfl
  | some rule => exact applyGC_eq_take now rule _

/-- A pass stores each row scrubbed after collection and removes rows left without cells;
    a table whose families carry no rule is not touched at all. -/
theorem pass_removes_empty_rows (now : Int) (t : Table) (r : Row) (h : r ∈ (gcPass now t).rows)
    (hr : t.schema.all (·.2.isNone) = false) : r.fams ≠ [] := by
  simp only [gcPass, hr, Bool.false_eq_true, if_false, List.mem_filterMap] at h
  obtain ⟨x, _, hx⟩ := h
  split at hx
  · cases hx
  · rename_i hne; cases hx; intro e; simp [e] at hne

theorem pass_without_rules_is_identity (now : Int) (t : Table) (h : t.schema.all (·.2.isNone) = true) :
    gcPass now t = t := by simp [gcPass, h]

/-- A pass on one table leaves every other table as it was. -/
theorem pass_touches_one_table (s : Server) (name other : Bytes) (h : other ≠ name) :
    (step s (.gc name)).1.find other = s.find other := by
  simp only [step, Server.withTable]
  cases hf : s.find name with
  | none => rfl
  | some t => simp [Server.setTable, Server.find, aget_aset_other _ _ _ _ h]

/-- The pass never works from a stale copy: when it visits a key it collects the row *as stored at
    that moment* (so a write acknowledged while the lock was released is part of what it sees). -/
theorem visit_collects_current_row (now : Int) (s : Schema) (rows : Rows) (k : Bytes) :
    gcStored now s rows k =
      match rows.get k with
      | none => none
      | some r =>
        some (if (scrubRow s (gcRow now s r)).fams.isEmpty then none else some (scrubRow s (gcRow now s r))) := rfl

/-- A pass runs only on a table that is not in active use: never if the last write or the last
    read is more recent than the quiescence period, and never twice without a write in between. -/
theorem pass_only_when_quiescent (lw lr realNow : Int) (h : shouldGC lw lr realNow = true) :
    lw ≠ 0 ∧ realNow - lw ≥ Generated.quiesceNanos ∧ realNow - lr ≥ Generated.quiesceNanos := by
  simp only [shouldGC, Bool.not_eq_true', Bool.or_eq_false_iff, beq_eq_false_iff_ne, ne_eq,
    decide_eq_false_iff_not, Int.not_lt] at h
  exact ⟨h.1.1, h.1.2, h.2⟩

/-- Non-vacuity: union(max-versions 2, max-age 1 s) at now = 3.5 s over cells at 3 s, 2.4 s, 1 s. -/
example : applyGC 3500000 (.union [.maxVersions 2, .maxAge 1 0])
    [⟨3000000, [1], []⟩, ⟨2400000, [2], []⟩, ⟨1000000, [3], []⟩] = [⟨3000000, [1], []⟩] := by decide

open Emu.Proofs.GcInterleave in
/-- **Writes acknowledged while a pass is running are never lost or reverted.**  Let one client
    write in at every point where the pass gives up the table lock (any writes, any table, any
    rules).  `lastWritten k` is the row of key `k` exactly as the last acknowledged write touching it
    left it (the row as stored when the pass began, if no write touched it).  After the pass every
    stored row is that row collected zero or more times: the pass only ever applies the GC rules to
    what is stored at that moment, it never writes an older version back and never deletes a row
    that a write has refilled. -/
theorem pass_never_reverts_a_write (now : Int) (t : Table) (writes : List (Bytes × List Mutation)) (k : Bytes) :
    ∃ n, (gcInterleaved now t writes).1.rows.get k =
      iter (collectO now t.schema) n (if t.schema.all (·.2.isNone) then t.rows.get k else lastWritten now t writes k) := by
  unfold gcInterleaved
  split
  · exact ⟨0, rfl⟩
  · simp only
    have h0 : Rel now t.schema ({ rows := t.rows, writes := writes } : GcwState).rows (fun k => t.rows.get k) :=
      fun k => ⟨0, rfl⟩
    have h1 := foldl_gcVisitG_rel now t.schema (t.rows.map (·.key)) ({ rows := t.rows, writes := writes }, fun k => t.rows.get k) h0
    rw [foldl_gcVisitG_fst] at h1
    exact foldl_gcFinish_rel now t.schema _ _ _ h1 k

open Emu.Proofs.GcInterleave in
/-- what `lastWritten` records at a lock reversal: an acknowledged write replaces the record of its
    own key by the row it produced, and of no other key; a refused write records nothing -/
theorem record_follows_acknowledged_writes (now : Int) (s : Schema) (st1 : GcwState) (last : Bytes → Option Row)
    (wk : Bytes) (ms : List Mutation) (ws : List (Bytes × List Mutation))
    (hrev : (st1.visited + 1) % Generated.gcLockReversalPeriod = 0) (hw : st1.writes = (wk, ms) :: ws) :
    (∀ rows', mutateRow s now st1.rows wk ms = some rows' →
        ghostStep now s st1 last wk = rows'.get wk ∧ ∀ k, k ≠ wk → ghostStep now s st1 last k = last k) ∧
    (mutateRow s now st1.rows wk ms = none → ghostStep now s st1 last = last) := by
  unfold ghostStep
  simp only [hrev, if_true, hw]
  constructor
  · intro rows' h
    simp only [h]
    exact ⟨by simp, fun k hk => by simp [hk]⟩
  · intro h; simp only [h]

/-! ### "… nor runs on a table that is in active use"

The background loop calls `gc(now, done, force=false)`; `xstep y (.tryGc name)` is that call, the
table's activity stamps (`Emu.Bt.Activity`) being moved by the requests exactly as `tbl.read()` /
`tbl.write()` move them and by `idle` as time passing does. -/

/-- The loop's pass leaves a table alone unless its stamps say "quiet". -/
theorem loop_pass_leaves_a_busy_table_alone (y : Sys) (name : Bytes) (h : (y.activity name).quiet = false) :
    (xstep y (.tryGc name)).1 = y := by
  simp only [xstep]
  cases hf : y.srv.find name with
  | none => rfl
  | some t => simp [h]

/-- … and when they do, it is one uninterrupted pass (`gcPass`, the function the theorems above are about). -/
theorem loop_pass_on_a_quiet_table (y : Sys) (name : Bytes) (t : Table) (ht : y.srv.find name = some t)
    (h : (y.activity name).quiet = true) :
    (xstep y (.tryGc name)).1.srv = y.srv.setTable name (gcPass y.srv.now t) := by
  simp only [xstep, ht, h, if_true, Sys.setAct]

/-- What "quiet" means in terms of the table's history (reads, writes, passes, time passing, from
    its creation on): something was written — or the table created — since the last pass, and for
    `quiesceNanos` (five minutes) there has been neither a read nor a write. -/
theorem quiet_means_unused (h : List Ev) :
    (Activity.after h).quiet = true ↔
      backDirty h.reverse = true ∧
      Emu.Generated.quiesceNanos ≤ (backSince (· == .write) h.reverse : Int) ∧
      Emu.Generated.quiesceNanos ≤ (backSince (· == .read) h.reverse : Int) :=
  Emu.Proofs.Activity.pass_runs_iff h

/-- In particular a read or a write less than five minutes ago keeps the pass away, whatever
    happened before it. -/
theorem recent_request_keeps_the_pass_away (before : List Ev) (e : Ev) (waits : List Nat)
    (he : e = .read ∨ e = .write) (hw : (waits.sum : Int) < Emu.Generated.quiesceNanos) :
    (Activity.after (before ++ e :: waits.map Ev.wait)).quiet = false :=
  Emu.Proofs.Activity.recent_request_keeps_the_pass_away before e waits he hw

example : (Activity.after [.write, .wait 200000000000, .read, .wait 400000000000]).quiet = true ∧
    (Activity.after [.write, .wait 400000000000, .read, .wait 200000000000]).quiet = false ∧
    (Activity.after [.write, .wait 400000000000, .pass, .wait 400000000000]).quiet = false := by decide

/-! ### Tie T1: the repository's own text of the rule evaluation

`Emu.Generated.Leaf.applyGC` is `applyGC` (bttest/inmem.go) — the type switch over the rule oneof,
the cut-off arithmetic, the binary search `sort.Search`, the slicing and the loop over a union's
members — read off the Go text by `factx` on every run.  On every list of cells in descending
timestamp order (the order the emulator keeps a column in: strictly descending, `Proofs/BtInv`) it
is the Model's `applyGC`, the function the theorems above are about. -/

theorem source_applyGC_is_the_models (now : Int) (rule : GcRule) (cs : List Cell) (h : StrictDesc cs) :
    Emu.Generated.Leaf.applyGC cs rule now = applyGC now rule cs :=
  Emu.Proofs.LeafTie.applyGC_tie now rule cs (Emu.Proofs.LeafTie.Desc.of_strict h)

/-- the standard library's binary search, on a predicate that stays true once it is true, returns the
    first index where it holds -/
theorem binary_search_finds_the_first (p : Nat → Bool) (n : Nat)
    (hmono : ∀ i j, i ≤ j → j < n → p i = true → p j = true) :
    (∀ i, i < Emu.GoSem.goSearch n p → p i = false) ∧
    (Emu.GoSem.goSearch n p < n → p (Emu.GoSem.goSearch n p) = true) :=
  Emu.Proofs.LeafTie.goSearch_first p n hmono

example : Emu.Generated.Leaf.applyGC [⟨30, [1], []⟩, ⟨20, [2], []⟩, ⟨10, [3], []⟩] (.union [.maxAge 0 15000, .maxVersions 1]) 35
    = [⟨30, [1], []⟩] ∧ StrictDesc [⟨30, [1], []⟩, ⟨20, [2], []⟩, ⟨10, [3], []⟩] := by
  constructor
  · decide
  · simp [StrictDesc]

end Emu.Props.C16
