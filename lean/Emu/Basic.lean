def hello := "world"
