/-
  Interleave: per column, the merged row holds the concatenation of the matching branches' cells
  (then stably re-sorted by descending timestamp).
-/
import Emu.Proofs.BtInv
import Emu.Bt.Filter

namespace Emu.Proofs.Interleave
open Emu Emu.Bt Emu.Proofs.BtRow Emu.Proofs.BtInv

theorem cellsOf_ensureFamily (r : Row) (name fam q : Bytes) :
    (r.ensureFamily name).cellsOf fam q = r.cellsOf fam q := by
  unfold Row.ensureFamily
  split
  · rfl
  · rename_i hany
    rw [row_cellsOf_eq, row_cellsOf_eq]
    simp only [Row.getFamily, List.find?_append, List.find?_cons, List.find?_nil]
    cases hf : r.fams.find? (fun f => f.name == fam) with
    | some f => simp
    | none =>
      simp only [Option.none_or]
      cases hnf : (name == fam) <;> simp [Family.cellsOf, Family.getColumn]

/-- folding one family's columns into the accumulator appends, per column, that column's cells -/
theorem cellsOf_foldCols (fname : Bytes) (cols : List Column) (hnd : KeysNodup (·.qual) cols) (acc : Row) (fam q : Bytes) :
    (cols.foldl (fun acc c => acc.setCells fname c.qual (· ++ c.cells)) acc).cellsOf fam q =
      acc.cellsOf fam q ++ (if fam = fname then Family.cellsOf ⟨fname, cols⟩ q else []) := by
  induction cols generalizing acc with
  | nil => simp [Family.cellsOf, Family.getColumn]
  | cons c cs ih =>
    unfold KeysNodup at hnd ih
    simp only [List.map_cons, List.nodup_cons] at hnd
    simp only [List.foldl_cons]
    rw [ih hnd.2]
    by_cases hf : fam = fname
    · subst hf
      simp only [if_true, Family.cellsOf, Family.getColumn, List.find?_cons]
      by_cases hq : c.qual = q
      · subst hq
        simp only [beq_self_eq_true]
        rw [Row.cellsOf_setCells_self]
        have : cs.find? (fun x => x.qual == c.qual) = none := by
          simp only [List.find?_eq_none, beq_iff_eq]
          intro x hx e; exact hnd.1 (e ▸ List.mem_map_of_mem hx)
        simp [this]
      · have hne : (c.qual == q) = false := _root_.beq_false_of_ne hq
        simp only [hne]
        rw [Row.cellsOf_setCells_other _ _ _ _ _ _ (Or.inr (fun e => hq e.symm))]
    · simp only [hf, if_false, List.append_nil]
      rw [Row.cellsOf_setCells_other _ _ _ _ _ _ (Or.inl hf)]

theorem cellsOf_mergeInto (acc br : Row) (hbr : RowInv br) (fam q : Bytes) :
    (mergeInto acc br).cellsOf fam q = acc.cellsOf fam q ++ br.cellsOf fam q := by
  unfold mergeInto
  have hcols := hbr.cols
  have hfams := hbr.fams
  rw [row_cellsOf_eq br]
  simp only [Row.getFamily]
  generalize br.fams = fams at hcols hfams
  induction fams generalizing acc with
  | nil => simp
  | cons f fs ih =>
    unfold KeysNodup at hfams
    simp only [List.map_cons, List.nodup_cons] at hfams
    simp only [List.foldl_cons]
    rw [ih _ (fun g hg => hcols g (by simp [hg])) hfams.2]
    rw [cellsOf_foldCols f.name f.cols (hcols f (by simp)) _ fam q, cellsOf_ensureFamily]
    simp only [List.find?_cons]
    by_cases hf : fam = f.name
    · subst hf
      simp only [beq_self_eq_true, if_true]
      have : fs.find? (fun x => x.name == f.name) = none := by
        simp only [List.find?_eq_none, beq_iff_eq]
        intro x hx e; exact hfams.1 (e ▸ List.mem_map_of_mem hx)
      simp [List.append_assoc, this]
    · have hne : (f.name == fam) = false := _root_.beq_false_of_ne (fun e => hf e.symm)
      simp [hf, hne]

theorem perm_stableSortBy {α} (le : α → α → Bool) (l : List α) : (stableSortBy le l).Perm l := by
  unfold stableSortBy
  suffices h : ∀ acc, (l.foldl (fun acc x => insertBy le x acc) acc).Perm (acc ++ l) by simpa using h []
  induction l with
  | nil => intro acc; simp
  | cons x xs ih =>
    intro acc
    simp only [List.foldl_cons]
    refine (ih _).trans ?_
    have := perm_insertBy le x acc
    refine (List.Perm.append_right xs this).trans ?_
    simp only [List.cons_append]
    exact (List.perm_middle (a := x) (l₁ := acc) (l₂ := xs)).symm

theorem cellsOf_sortCellsDesc (r : Row) (fam q : Bytes) :
    ((sortCellsDesc r).cellsOf fam q).Perm (r.cellsOf fam q) := by
  rw [row_cellsOf_eq, row_cellsOf_eq]
  simp only [sortCellsDesc, Row.getFamily, List.find?_map]
  have hname : ((fun f : Family => f.name == fam) ∘ fun fm : Family =>
      { fm with cols := fm.cols.map fun c => { c with cells := stableSortBy (fun a b => decide (a.ts ≥ b.ts)) c.cells } })
      = (fun f : Family => f.name == fam) := by funext f; rfl
  rw [hname]
  cases r.fams.find? (fun f => f.name == fam) with
  | none => exact List.Perm.refl _
  | some f =>
    simp only [Option.map_some, Family.cellsOf, Family.getColumn, List.find?_map]
    have hq : ((fun c : Column => c.qual == q) ∘ fun c : Column =>
        { c with cells := stableSortBy (fun a b => decide (a.ts ≥ b.ts)) c.cells }) = (fun c : Column => c.qual == q) := by
      funext c; rfl
    rw [hq]
    cases f.cols.find? (fun c => c.qual == q) with
    | none => exact List.Perm.refl _
    | some c => exact perm_stableSortBy _ _

theorem mergeBranches_cells (key : Bytes) (brs : List (Bool × Row)) (fam q : Bytes)
    (hinv : ∀ b ∈ brs, RowInv b.2) :
    ((mergeBranches key brs).2.cellsOf fam q).Perm
      ((brs.filter (·.1)).flatMap (fun b => b.2.cellsOf fam q)) := by
  unfold mergeBranches
  simp only
  refine (cellsOf_sortCellsDesc _ fam q).trans ?_
  have hinv' : ∀ b ∈ brs.filter (·.1), RowInv b.2 := fun b hb => hinv b (List.mem_filter.mp hb).1
  generalize brs.filter (·.1) = l at hinv'
  suffices h : ∀ acc : Row, (l.foldl (fun acc b => mergeInto acc b.2) acc).cellsOf fam q =
      acc.cellsOf fam q ++ l.flatMap (fun b => b.2.cellsOf fam q) by
    rw [h]; simp [Row.cellsOf, Row.getFamily]
  induction l with
  | nil => intro acc; simp
  | cons b bs ih =>
    intro acc
    simp only [List.foldl_cons, List.flatMap_cons]
    rw [ih (fun x hx => hinv' x (by simp [hx])), cellsOf_mergeInto acc b.2 (hinv' b (by simp))]
    simp [List.append_assoc]

end Emu.Proofs.Interleave
