/-
  Invariants of the lock-map machine, for any number of goroutines, keys and steps.
-/
import Emu.Lock.Model

namespace Emu.Proofs.Lock
open Emu.Lock

/-- the goroutine has incremented key `k`'s refcount and not yet decremented it -/
def counted (k : Key) : PC → Bool
  | .wait k' => k' == k
  | .holding k' => k' == k
  | .givingUp k' => k' == k
  | .found k' => k' == k
  | .released k' => k' == k
  | _ => false

/-- the goroutine owns key `k`'s channel slot -/
def holds (k : Key) : PC → Bool
  | .holding k' => k' == k
  | .found k' => k' == k
  | _ => false

def cnt (s : St) (k : Key) : Nat := s.threads.countP fun th => counted k th.pc
def hld (s : St) (k : Key) : Nat := s.threads.countP fun th => holds k th.pc
def rc (s : St) (k : Key) : Nat := match s.ent k with | none => 0 | some e => e.refcount
def isFull (s : St) (k : Key) : Bool := match s.ent k with | none => false | some e => e.full

/-- refcount = number of goroutines between `++` and `--`; an entry exists iff its refcount is
    positive; the slot is full iff exactly one goroutine owns it (and never more than one). -/
structure LockInv (s : St) : Prop where
  refs : ∀ k, rc s k = cnt s k
  present : ∀ k e, s.ent k = some e → e.refcount > 0
  slot : ∀ k, hld s k = if isFull s k then 1 else 0

theorem inv_init (n : Nat) : LockInv (init n) := by
  refine ⟨?_, ?_, ?_⟩
  · intro k; simp [rc, cnt, init, List.countP_replicate, counted]
  · intro k e h; simp [init] at h
  · intro k; simp [hld, isFull, init, List.countP_replicate, holds]

theorem count_set {p : PC → Bool} (l : List Thread) (t : Nat) (th th' : Thread) (h : l[t]? = some th) :
    (l.set t th').countP (fun x => p x.pc) + (if p th.pc then 1 else 0) =
      l.countP (fun x => p x.pc) + (if p th'.pc then 1 else 0) := by
  have hlt : t < l.length := by
    rcases Nat.lt_or_ge t l.length with h' | h'
    · exact h'
    · rw [List.getElem?_eq_none h'] at h; cases h
  have hget : l[t] = th := by rw [List.getElem?_eq_getElem hlt] at h; cases h; rfl
  rw [List.countP_set hlt, hget]
  have hpos : p th.pc = true → l.countP (fun x => p x.pc) ≥ 1 := by
    intro hp
    apply List.countP_pos_iff.mpr
    exact ⟨th, by rw [← hget]; exact List.getElem_mem hlt, hp⟩
  by_cases hp : p th.pc = true
  · have := hpos hp; simp only [hp, if_true]; omega
  · have hp' : p th.pc = false := by simpa using hp
    simp only [hp', Bool.false_eq_true, if_false]; omega

theorem rc_setEnt (s : St) (k k' : Key) (v : Option Entry) (ths : List Thread) :
    rc { ent := setEnt s.ent k v, threads := ths } k' =
      if k' = k then (match v with | none => 0 | some e => e.refcount) else rc s k' := by
  unfold rc setEnt; simp only; by_cases h : k' = k <;> simp [h]

theorem isFull_setEnt (s : St) (k k' : Key) (v : Option Entry) (ths : List Thread) :
    isFull { ent := setEnt s.ent k v, threads := ths } k' =
      if k' = k then (match v with | none => false | some e => e.full) else isFull s k' := by
  unfold isFull setEnt; simp only; by_cases h : k' = k <;> simp [h]

end Emu.Proofs.Lock

namespace Emu.Proofs.Lock
open Emu.Lock

theorem holds_counted (k : Key) (pc : PC) (h : holds k pc = true) : counted k pc = true := by
  cases pc <;> simp_all [holds, counted]

theorem hld_le_cnt (l : List Thread) (k : Key) :
    l.countP (fun th => holds k th.pc) ≤ l.countP (fun th => counted k th.pc) :=
  List.countP_mono_left (fun th _ h => holds_counted k th.pc h)

/-- effect of `refcount--; delete if 0` on the two projections, given positivity -/
theorem rc_dropRef (s : St) (k k' : Key) (ths : List Thread) (hp : ∀ e, s.ent k = some e → e.refcount > 0) :
    rc { ent := dropRef s.ent k, threads := ths } k' = if k' = k then rc s k - 1 else rc s k' := by
  unfold dropRef
  cases he : s.ent k with
  | none => by_cases h : k' = k <;> simp [rc, h, he]
  | some e =>
    have := hp e he
    simp only
    by_cases h1 : e.refcount ≤ 1
    · simp only [h1, if_true]
      rw [rc_setEnt]
      by_cases h : k' = k
      · simp only [h, if_true, rc, he]; omega
      · simp [h]
    · simp only [h1, if_false]
      rw [rc_setEnt]
      by_cases h : k' = k
      · simp [h, rc, he]
      · simp [h]

theorem isFull_dropRef (s : St) (k k' : Key) (ths : List Thread) :
    isFull { ent := dropRef s.ent k, threads := ths } k' =
      if k' = k then (isFull s k && decide (rc s k > 1)) else isFull s k' := by
  unfold dropRef
  cases he : s.ent k with
  | none => by_cases h : k' = k <;> simp [isFull, rc, h, he]
  | some e =>
    simp only
    by_cases h1 : e.refcount ≤ 1
    · simp only [h1, if_true]
      rw [isFull_setEnt]
      by_cases h : k' = k
      · have : ¬ e.refcount > 1 := by omega
        simp [h, rc, he, this]
      · simp [h]
    · simp only [h1, if_false]
      rw [isFull_setEnt]
      by_cases h : k' = k
      · have : e.refcount > 1 := by omega
        simp [h, isFull, rc, he, this]
      · simp [h]

theorem present_dropRef (s : St) (k : Key) (hp : ∀ k e, s.ent k = some e → e.refcount > 0) :
    ∀ k' e, dropRef s.ent k k' = some e → e.refcount > 0 := by
  intro k' e h
  unfold dropRef at h
  cases he : s.ent k with
  | none => simp only [he] at h; exact hp k' e h
  | some e0 =>
    simp only [he] at h
    by_cases h1 : e0.refcount ≤ 1
    · simp only [h1, if_true, setEnt] at h
      by_cases hk : k' = k
      · simp [hk] at h
      · simp only [hk, if_false] at h; exact hp k' e h
    · simp only [h1, if_false, setEnt] at h
      by_cases hk : k' = k
      · simp only [hk, if_true, Option.some.injEq] at h; rw [← h]; simp; omega
      · simp only [hk, if_false] at h; exact hp k' e h

/-- a thread that is counted for `k` but does not own the slot leaves at most `cnt - 1` owners -/
theorem hld_lt_of_counted_nonholder (s : St) (t : Nat) (th : Thread) (k : Key) (h : s.threads[t]? = some th)
    (hc : counted k th.pc = true) (hh : holds k th.pc = false) : hld s k + 1 ≤ cnt s k := by
  have h1 := count_set (p := counted k) s.threads t th ⟨.idle, th.cancelled⟩ h
  have h2 := count_set (p := holds k) s.threads t th ⟨.idle, th.cancelled⟩ h
  have h3 := hld_le_cnt (s.threads.set t ⟨.idle, th.cancelled⟩) k
  have hi1 : counted k PC.idle = false := rfl
  have hi2 : holds k PC.idle = false := rfl
  simp only [hc, hh, hi1, hi2, if_true, Bool.false_eq_true, if_false] at h1 h2
  unfold hld cnt
  omega

end Emu.Proofs.Lock

namespace Emu.Proofs.Lock
open Emu.Lock

theorem getElem?_lt {l : List Thread} {t : Nat} {th : Thread} (h : l[t]? = some th) : t < l.length := by
  rcases Nat.lt_or_ge t l.length with h' | h'
  · exact h'
  · rw [List.getElem?_eq_none h'] at h; cases h

/-- Reduction: to re-establish the invariant after one goroutine moved and the entry table
    changed, compare refcount and slot with the goroutine's old and new program counter. -/
theorem inv_update (s : St) (t : Nat) (th th' : Thread) (ent' : Key → Option Entry)
    (hinv : LockInv s) (hth : s.threads[t]? = some th)
    (hA : ∀ k', rc { ent := ent', threads := s.threads.set t th' } k' + (if counted k' th.pc then 1 else 0)
        = rc s k' + (if counted k' th'.pc then 1 else 0))
    (hB : ∀ k' e, ent' k' = some e → e.refcount > 0)
    (hC : ∀ k', (if isFull { ent := ent', threads := s.threads.set t th' } k' then 1 else 0) + (if holds k' th.pc then 1 else 0)
        = (if isFull s k' then 1 else 0) + (if holds k' th'.pc then 1 else 0)) :
    LockInv { ent := ent', threads := s.threads.set t th' } := by
  refine ⟨?_, hB, ?_⟩
  · intro k'
    have h1 := count_set (p := counted k') s.threads t th th' hth
    have h2 := hinv.refs k'
    have h3 := hA k'
    show rc _ k' = (s.threads.set t th').countP (fun th => counted k' th.pc)
    unfold cnt at h2
    omega
  · intro k'
    have h1 := count_set (p := holds k') s.threads t th th' hth
    have h2 := hinv.slot k'
    have h3 := hC k'
    show (s.threads.set t th').countP (fun th => holds k' th.pc) = _
    unfold hld at h2
    omega

section simp_lemmas
variable (k k' : Key)
@[simp] theorem counted_idle : counted k' .idle = false := rfl
@[simp] theorem counted_failed : counted k' .failed = false := rfl
@[simp] theorem counted_panicked : counted k' .panicked = false := rfl
@[simp] theorem counted_wait : counted k' (.wait k) = (k == k') := rfl
@[simp] theorem counted_holding : counted k' (.holding k) = (k == k') := rfl
@[simp] theorem counted_givingUp : counted k' (.givingUp k) = (k == k') := rfl
@[simp] theorem counted_found : counted k' (.found k) = (k == k') := rfl
@[simp] theorem counted_released : counted k' (.released k) = (k == k') := rfl
@[simp] theorem holds_idle : holds k' .idle = false := rfl
@[simp] theorem holds_failed : holds k' .failed = false := rfl
@[simp] theorem holds_panicked : holds k' .panicked = false := rfl
@[simp] theorem holds_wait : holds k' (.wait k) = false := rfl
@[simp] theorem holds_holding : holds k' (.holding k) = (k == k') := rfl
@[simp] theorem holds_givingUp : holds k' (.givingUp k) = false := rfl
@[simp] theorem holds_found : holds k' (.found k) = (k == k') := rfl
@[simp] theorem holds_released : holds k' (.released k) = false := rfl
end simp_lemmas

theorem rc_same (s : St) (ths : List Thread) (k : Key) : rc { ent := s.ent, threads := ths } k = rc s k := rfl
theorem isFull_same (s : St) (ths : List Thread) (k : Key) : isFull { ent := s.ent, threads := ths } k = isFull s k := rfl

/-- a step that only changes the goroutine's flag or moves it between two program counters with
    the same counting status -/
theorem inv_move (s : St) (t : Nat) (th th' : Thread) (hinv : LockInv s) (hth : s.threads[t]? = some th)
    (h1 : ∀ k', counted k' th'.pc = counted k' th.pc) (h2 : ∀ k', holds k' th'.pc = holds k' th.pc) :
    LockInv (setThread s t th') := by
  unfold setThread
  apply inv_update s t th th' s.ent hinv hth
  · intro k'; rw [rc_same, h1]
  · exact hinv.present
  · intro k'; rw [isFull_same, h2]

/-- **Every step preserves the invariant.** -/
theorem inv_step (s s' : St) (t : Nat) (a : Action) (hinv : LockInv s) (h : step s t a = some s') : LockInv s' := by
  unfold step at h
  cases hth : s.threads[t]? with
  | none => simp [hth] at h
  | some th =>
    simp only [hth] at h
    have hcancel : LockInv (setThread s t { th with cancelled := true }) :=
      inv_move s t th _ hinv hth (fun _ => rfl) (fun _ => rfl)
    cases hpc : th.pc with
    | idle =>
      cases a with
      | enter k =>
        simp only [hpc] at h; cases h
        apply inv_update s t th _ _ hinv hth
        · intro k'
          rw [rc_setEnt]
          by_cases hk : k' = k
          · subst hk; cases he : s.ent k' <;> simp [hpc, rc, he] <;> omega
          · have hk2 : (k == k') = false := by simp; exact fun e => hk e.symm
            simp [hk, hk2, hpc]
        · intro k' e he
          simp only [setEnt] at he
          by_cases hk : k' = k
          · simp only [hk, if_true, Option.some.injEq] at he; rw [← he]; simp
          · simp only [hk, if_false] at he; exact hinv.present k' e he
        · intro k'
          rw [isFull_setEnt]
          by_cases hk : k' = k
          · subst hk; cases he : s.ent k' <;> simp [hpc, isFull, he]
          · simp [hk, hpc]
      | strayUnlock k =>
        simp only [hpc] at h
        have hp : LockInv (setThread s t { th with pc := .panicked }) :=
          inv_move s t th _ hinv hth (fun k' => by simp [hpc]) (fun k' => by simp [hpc])
        cases he : s.ent k with
        | none => simp only [he] at h; cases h; exact hp
        | some e =>
          simp only [he] at h
          split at h
          · cases h
          · cases h; exact hp
      | cancel => simp only [hpc] at h; cases h; rw [hpc] at hcancel; exact hcancel
      | _ => simp [hpc] at h
    | wait k =>
      cases a with
      | acquire =>
        simp only [hpc] at h
        cases he : s.ent k with
        | none => simp [he] at h
        | some e =>
          simp only [he] at h
          by_cases hf : e.full = true
          · simp [hf] at h
          · have hf' : e.full = false := by simpa using hf
            simp only [hf', Bool.false_eq_true, if_false, Option.some.injEq] at h
            subst h
            apply inv_update s t th _ _ hinv hth
            · intro k'
              rw [rc_setEnt]
              by_cases hk : k' = k
              · subst hk; simp [hpc, rc, he]
              · simp [hk, hpc]
            · intro k' e' he'
              simp only [setEnt] at he'
              by_cases hk : k' = k
              · simp only [hk, if_true, Option.some.injEq] at he'; rw [← he']; exact hinv.present k e he
              · simp only [hk, if_false] at he'; exact hinv.present k' e' he'
            · intro k'
              rw [isFull_setEnt]
              by_cases hk : k' = k
              · subst hk; simp [hpc, isFull, he, hf']
              · have hk2 : (k == k') = false := by simp; exact fun e => hk e.symm
                simp [hk, hk2, hpc]
      | giveUp =>
        simp only [hpc] at h
        split at h
        · cases h; exact inv_move s t th _ hinv hth (fun k' => by simp [hpc]) (fun k' => by simp [hpc])
        · cases h
      | cancel => simp only [hpc] at h; cases h; rw [hpc] at hcancel; exact hcancel
      | _ => simp [hpc] at h
    | holding k =>
      cases a with
      | find =>
        simp only [hpc] at h
        have hcounted : cnt s k ≥ 1 := by
          unfold cnt
          apply List.countP_pos_iff.mpr
          exact ⟨th, List.mem_of_getElem? hth, by simp [hpc]⟩
        cases he : s.ent k with
        | none => have := hinv.refs k; unfold rc at this; simp [he] at this; omega
        | some e =>
          simp only [he] at h; cases h
          exact inv_move s t th _ hinv hth (fun k' => by simp [hpc]) (fun k' => by simp [hpc])
      | cancel => simp only [hpc] at h; cases h; rw [hpc] at hcancel; exact hcancel
      | _ => simp [hpc] at h
    | givingUp k =>
      cases a with
      | backOut =>
        simp only [hpc] at h; cases h
        have hnh := hld_lt_of_counted_nonholder s t th k hth (by simp [hpc]) (by simp [hpc])
        have hr := hinv.refs k
        have hs := hinv.slot k
        apply inv_update s t th _ _ hinv hth
        · intro k'
          rw [rc_dropRef s k k' _ (hinv.present k)]
          by_cases hk : k' = k
          · subst hk; simp [hpc]; omega
          · have hk2 : (k == k') = false := by simp; exact fun e => hk e.symm
            simp [hk, hk2, hpc]
        · exact present_dropRef s k hinv.present
        · intro k'
          rw [isFull_dropRef]
          by_cases hk : k' = k
          · subst hk
            simp only [hpc, holds_givingUp, holds_failed, if_true]
            by_cases hf : isFull s k' = true
            · simp only [hf, if_true] at hs
              have : rc s k' > 1 := by omega
              simp [hf, this]
            · simp [hf]
          · simp [hk, hpc]
      | cancel => simp only [hpc] at h; cases h; rw [hpc] at hcancel; exact hcancel
      | _ => simp [hpc] at h
    | failed =>
      cases a with
      | again =>
        simp only [hpc] at h; cases h
        exact inv_move s t th _ hinv hth (fun k' => by simp [hpc]) (fun k' => by simp [hpc])
      | cancel => simp only [hpc] at h; cases h; rw [hpc] at hcancel; exact hcancel
      | _ => simp [hpc] at h
    | found k =>
      cases a with
      | release =>
        simp only [hpc] at h
        have hheld : hld s k ≥ 1 := by
          unfold hld
          apply List.countP_pos_iff.mpr
          exact ⟨th, List.mem_of_getElem? hth, by simp [hpc]⟩
        have hfull : isFull s k = true := by
          have := hinv.slot k
          by_cases hf : isFull s k = true
          · exact hf
          · simp [hf] at this; omega
        cases he : s.ent k with
        | none => simp [isFull, he] at hfull
        | some e =>
          have hef : e.full = true := by simpa [isFull, he] using hfull
          simp only [he, hef, if_true, Option.some.injEq] at h
          subst h
          apply inv_update s t th _ _ hinv hth
          · intro k'
            rw [rc_setEnt]
            by_cases hk : k' = k
            · subst hk; simp [hpc, rc, he]
            · simp [hk, hpc]
          · intro k' e' he'
            simp only [setEnt] at he'
            by_cases hk : k' = k
            · simp only [hk, if_true, Option.some.injEq] at he'; rw [← he']; exact hinv.present k e he
            · simp only [hk, if_false] at he'; exact hinv.present k' e' he'
          · intro k'
            rw [isFull_setEnt]
            by_cases hk : k' = k
            · subst hk; simp [hpc, isFull, he, hef]
            · have hk2 : (k == k') = false := by simp; exact fun e => hk e.symm
              simp [hk, hk2, hpc]
      | cancel => simp only [hpc] at h; cases h; rw [hpc] at hcancel; exact hcancel
      | _ => simp [hpc] at h
    | released k =>
      cases a with
      | leave =>
        simp only [hpc] at h; cases h
        have hnh := hld_lt_of_counted_nonholder s t th k hth (by simp [hpc]) (by simp [hpc])
        have hr := hinv.refs k
        have hs := hinv.slot k
        apply inv_update s t th _ _ hinv hth
        · intro k'
          rw [rc_dropRef s k k' _ (hinv.present k)]
          by_cases hk : k' = k
          · subst hk; simp [hpc]; omega
          · have hk2 : (k == k') = false := by simp; exact fun e => hk e.symm
            simp [hk, hk2, hpc]
        · exact present_dropRef s k hinv.present
        · intro k'
          rw [isFull_dropRef]
          by_cases hk : k' = k
          · subst hk
            simp only [hpc, holds_released, holds_idle, if_true]
            by_cases hf : isFull s k' = true
            · simp only [hf, if_true] at hs
              have : rc s k' > 1 := by omega
              simp [hf, this]
            · simp [hf]
          · simp [hk, hpc]
      | cancel => simp only [hpc] at h; cases h; rw [hpc] at hcancel; exact hcancel
      | _ => simp [hpc] at h
    | panicked =>
      cases a with
      | cancel => simp only [hpc] at h; cases h; rw [hpc] at hcancel; exact hcancel
      | _ => simp [hpc] at h

end Emu.Proofs.Lock
