import Emu.Gcs.Token

namespace Emu.Proofs.Token
open Emu Emu.Gcs.Token

theorem unvarint_varint (n : Nat) : ∀ rest : Bytes, unvarint (varint n ++ rest) = some (n, rest) := by
  induction n using Nat.strongRecOn with
  | _ n ih =>
    intro rest
    unfold varint
    by_cases h : n < 128
    · simp [h, unvarint]
    · have hlt : n / 128 < n := by omega
      simp only [h, dite_false, List.cons_append, unvarint]
      have hb : ¬ (n % 128 + 128 < 128) := by omega
      simp only [hb, if_false, ih (n / 128) hlt rest]
      congr 2
      omega

theorem varint_length_pos (n : Nat) : 0 < (varint n).length := by
  unfold varint
  by_cases h : n < 128 <;> simp [h]

/-- **Round trip** for every name (any bytes, any length). -/
theorem decode_encode (name : Bytes) : decode (encode name) = some name := by
  unfold decode encode
  cases hn : name with
  | nil => simp [decodeFrom]
  | cons c cs =>
    simp only [List.isEmpty_cons, Bool.false_eq_true, if_false]
    rw [← hn]
    have hlen : ((lastFileTag :: (varint name.length ++ name)).length + 1) = (varint name.length ++ name).length + 1 + 1 := by simp
    rw [hlen]
    simp only [decodeFrom, if_true, unvarint_varint, Nat.lt_irrefl, if_false, List.take_length, List.drop_length]

end Emu.Proofs.Token
