/-
  `mergeSimpleRanges` works IN PLACE: it sorts `srs`, then walks it with a write pointer `last`
  that trails the read index `i`, overwriting `srs[last]` / `srs[last+1]` while it still reads
  `srs[i]` from the same array, and returns `srs[:last+1]`.  The Model (`Emu.Bt.mergeLoop`) is the
  functional fold the C03 theorems are about.  Here the array loop is written with Go's partial
  operations and proved (a) never to fault and (b) to compute exactly the functional fold — the
  writes never clobber an element that is still to be read.
-/
import Emu.Basic.GoSem
import Emu.Bt.Read
import Emu.Bt.Types

namespace Emu.Proofs.MergeInPlace
open Emu Emu.GoSem

/-- `l[i] = x` -/
def goSet {α} (l : List α) (i : Int) (x : α) : Except Fault (List α) :=
  if 0 ≤ i ∧ i < l.length then .ok (l.set i.toNat x) else .error .indexRange

variable {α : Type}

/-- the functional fold (`Emu.Bt.mergeLoop` for any merge function) -/
def foldMerge (merge : α → α → Option α) : α → List α → List α
  | last, [] => [last]
  | last, x :: xs =>
    match merge last x with
    | some m => foldMerge merge m xs
    | none => last :: foldMerge merge x xs

/-- the body of `for i := range srs` for the indices `i, i+1, …, i+n-1` -/
def loop (merge : α → α → Option α) : Nat → List α → Nat → Nat → Except Fault (List α × Nat)
  | 0, arr, last, _ => pure (arr, last)
  | n + 1, arr, last, i => do
    let a ← goIndex arr last
    let b ← goIndex arr i
    match merge a b with
    | some m => do
      let arr' ← goSet arr last m
      loop merge n arr' last (i + 1)
    | none => do
      let arr' ← goSet arr ((last : Int) + 1) b
      loop merge n arr' (last + 1) (i + 1)

/-- the merge phase of `mergeSimpleRanges` on the sorted array -/
def mergeInPlace (merge : α → α → Option α) (arr : List α) : Except Fault (List α) :=
  if arr.length = 0 then pure arr else do
    let (arr', last) ← loop merge (arr.length - 1) arr 0 1
    goSlice arr' 0 ((last : Int) + 1)

theorem goIndex_at (pre : List α) (x : α) (post : List α) (k : Int) (h : k = (pre.length : Int)) :
    goIndex (pre ++ x :: post) k = .ok x := by
  subst h
  unfold goIndex
  have : (pre ++ x :: post)[pre.length]? = some x := by
    rw [List.getElem?_append_right (Nat.le_refl _)]; simp
  simp [this]

theorem goSet_at (pre : List α) (x y : α) (post : List α) (k : Int) (h : k = (pre.length : Int)) :
    goSet (pre ++ x :: post) k y = .ok (pre ++ y :: post) := by
  subst h
  unfold goSet
  have h2 : (pre.length : Int) < ((pre ++ x :: post).length : Int) := by simp; omega
  have h1 : (0 : Int) ≤ (pre.length : Int) := by omega
  simp only [h1, h2, and_self, if_true, Int.toNat_natCast]
  congr 1
  rw [List.set_append_right _ _ (Nat.le_refl _)]
  simp

/-- Loop invariant, stated as what the loop returns: with `done ++ [cur]` in `arr[0..last]`,
    anything (`mid`) in between, and `rest` in `arr[i..]`, the loop ends with
    `done ++ foldMerge cur rest` in `arr[0..last']`. -/
theorem loop_spec (merge : α → α → Option α) : ∀ (rest done mid : List α) (cur : α) (last i : Nat),
    last = done.length → i = (done ++ cur :: mid).length →
    ∃ arr', loop merge rest.length ((done ++ cur :: mid) ++ rest) last i
      = .ok (arr', done.length + (foldMerge merge cur rest).length - 1) ∧
      arr'.take (done.length + (foldMerge merge cur rest).length) = done ++ foldMerge merge cur rest := by
  intro rest
  induction rest with
  | nil =>
    intro done mid cur last i hl _
    refine ⟨(done ++ cur :: mid) ++ [], ?_, ?_⟩
    · simp [loop, foldMerge, pure, Except.pure, hl]
    · simp [foldMerge, List.take_append, List.take_of_length_le]
  | cons b rest ih =>
    intro done mid cur last i hl hi
    have harr : (done ++ cur :: mid) ++ b :: rest = done ++ cur :: (mid ++ b :: rest) := by simp
    have hlast : goIndex ((done ++ cur :: mid) ++ b :: rest) (last : Int) = .ok cur := by
      rw [harr]; exact goIndex_at done cur _ _ (by rw [hl])
    have hidx : goIndex ((done ++ cur :: mid) ++ b :: rest) (i : Int) = .ok b :=
      goIndex_at _ b rest _ (by rw [hi])
    simp only [List.length_cons, loop, hlast, hidx, bind, Except.bind, foldMerge]
    cases hm : merge cur b with
    | some m =>
      have hset : goSet ((done ++ cur :: mid) ++ b :: rest) (last : Int) m
          = .ok ((done ++ m :: (mid ++ [b])) ++ rest) := by
        rw [harr, goSet_at done cur m _ _ (by rw [hl])]; simp
      simp only [hset]
      exact ih done (mid ++ [b]) m last (i + 1) hl (by rw [hi]; simp; omega)
    | none =>
      have hk : (last : Int) + 1 = ((done ++ [cur]).length : Int) := by rw [hl]; simp
      cases mid with
      | nil =>
        have hset : goSet ((done ++ [cur]) ++ b :: rest) ((last : Int) + 1) b
            = .ok (((done ++ [cur]) ++ b :: []) ++ rest) := by
          rw [goSet_at (done ++ [cur]) b b rest _ hk]; simp
        simp only [hset]
        obtain ⟨arr', h1, h2⟩ := ih (done ++ [cur]) [] b (last + 1) (i + 1) (by rw [hl]; simp) (by rw [hi]; simp)
        refine ⟨arr', ?_, ?_⟩
        · rw [h1]; simp only [List.length_append, List.length_cons, List.length_nil]
          congr 2; omega
        · simp only [List.length_append, List.length_cons, List.length_nil] at h2 ⊢
          rw [show done.length + ((foldMerge merge b rest).length + 1) = done.length + (0 + 1) + (foldMerge merge b rest).length by omega]
          simpa using h2
      | cons c mid' =>
        have harr2 : (done ++ cur :: c :: mid') ++ b :: rest = (done ++ [cur]) ++ c :: (mid' ++ b :: rest) := by simp
        have hset : goSet ((done ++ cur :: c :: mid') ++ b :: rest) ((last : Int) + 1) b
            = .ok (((done ++ [cur]) ++ b :: (mid' ++ [b])) ++ rest) := by
          rw [harr2, goSet_at (done ++ [cur]) c b _ _ hk]; simp
        simp only [hset]
        obtain ⟨arr', h1, h2⟩ := ih (done ++ [cur]) (mid' ++ [b]) b (last + 1) (i + 1) (by rw [hl]; simp)
          (by rw [hi]; simp; omega)
        refine ⟨arr', ?_, ?_⟩
        · rw [h1]; simp only [List.length_append, List.length_cons, List.length_nil]
          congr 2; omega
        · simp only [List.length_append, List.length_cons, List.length_nil] at h2 ⊢
          rw [show done.length + ((foldMerge merge b rest).length + 1) = done.length + (0 + 1) + (foldMerge merge b rest).length by omega]
          simpa using h2

theorem foldMerge_length_pos (merge : α → α → Option α) (cur : α) (rest : List α) :
    0 < (foldMerge merge cur rest).length := by
  induction rest generalizing cur with
  | nil => simp [foldMerge]
  | cons b rest ih =>
    simp only [foldMerge]
    cases merge cur b with
    | some m => exact ih m
    | none => simp

/-- **The in-place loop never faults and computes the functional fold.** -/
theorem mergeInPlace_eq (merge : α → α → Option α) (arr : List α) :
    mergeInPlace merge arr = .ok (match arr with | [] => [] | x :: xs => foldMerge merge x xs) := by
  cases arr with
  | nil => rfl
  | cons x xs =>
    obtain ⟨arr', h1, h2⟩ := loop_spec merge xs [] [] x 0 1 rfl rfl
    have hpos := foldMerge_length_pos merge x xs
    simp only [List.nil_append, List.length_nil, Nat.zero_add, List.singleton_append] at h1 h2
    simp only [mergeInPlace, List.length_cons, Nat.add_eq_zero_iff, Nat.succ_ne_zero, and_false, if_false,
      Nat.add_sub_cancel, bind, Except.bind]
    have h1' : loop merge xs.length (x :: xs) 0 1 = .ok (arr', (foldMerge merge x xs).length - 1) := by
      simpa using h1
    rw [h1']
    simp only
    have hlen : (foldMerge merge x xs).length ≤ arr'.length := by
      have := congrArg List.length h2
      simp only [List.length_take] at this
      omega
    unfold goSlice
    have e : (((foldMerge merge x xs).length - 1 : Nat) : Int) + 1 = ((foldMerge merge x xs).length : Int) := by omega
    rw [e]
    have c1 : (0 : Int) ≤ 0 ∧ (0 : Int) ≤ ((foldMerge merge x xs).length : Int) ∧ ((foldMerge merge x xs).length : Int) ≤ (arr'.length : Int) := by
      refine ⟨by omega, by omega, by omega⟩
    simp only [c1, and_self, if_true, Int.toNat_zero, List.drop_zero, Int.sub_zero, Int.toNat_natCast]
    rw [h2]

/-! ### the write-index idiom of `scrubRow` / `scrubFam`

    wIdx := 0
    for _, x := range xs { if y, keep := g(x); keep { xs[wIdx] = y; wIdx++ } }
    xs = xs[:wIdx]

The loop overwrites the array it ranges over; it is `List.filterMap`. -/

def compactLoop (g : α → Option α) : Nat → List α → Nat → Nat → Except Fault (List α × Nat)
  | 0, arr, w, _ => pure (arr, w)
  | n + 1, arr, w, i => do
    let x ← goIndex arr i
    match g x with
    | some y => do
      let arr' ← goSet arr w y
      compactLoop g n arr' (w + 1) (i + 1)
    | none => compactLoop g n arr w (i + 1)

def compactInPlace (g : α → Option α) (arr : List α) : Except Fault (List α) := do
  let (arr', w) ← compactLoop g arr.length arr 0 0
  goSlice arr' 0 w

theorem compactLoop_spec (g : α → Option α) : ∀ (rest done mid : List α) (w i : Nat),
    w = done.length → i = (done ++ mid).length →
    ∃ arr', compactLoop g rest.length ((done ++ mid) ++ rest) w i
      = .ok (arr', done.length + (rest.filterMap g).length) ∧
      arr'.take (done.length + (rest.filterMap g).length) = done ++ rest.filterMap g := by
  intro rest
  induction rest with
  | nil =>
    intro done mid w i hw _
    refine ⟨(done ++ mid) ++ [], ?_, ?_⟩
    · simp [compactLoop, pure, Except.pure, hw]
    · simp [List.take_append, List.take_of_length_le]
  | cons x rest ih =>
    intro done mid w i hw hi
    have hidx : goIndex ((done ++ mid) ++ x :: rest) (i : Int) = .ok x :=
      goIndex_at _ x rest _ (by rw [hi])
    simp only [List.length_cons, compactLoop, hidx, bind, Except.bind, List.filterMap_cons]
    cases hg : g x with
    | none =>
      simp only
      have harr : (done ++ mid) ++ x :: rest = (done ++ (mid ++ [x])) ++ rest := by simp
      rw [harr]
      exact ih done (mid ++ [x]) w (i + 1) hw (by rw [hi]; simp; omega)
    | some y =>
      simp only
      cases mid with
      | nil =>
        have hset : goSet ((done ++ []) ++ x :: rest) (w : Int) y = .ok (((done ++ [y]) ++ []) ++ rest) := by
          rw [List.append_nil, goSet_at done x y rest _ (by rw [hw])]; simp
        simp only [hset]
        obtain ⟨arr', h1, h2⟩ := ih (done ++ [y]) [] (w + 1) (i + 1) (by rw [hw]; simp) (by rw [hi]; simp)
        refine ⟨arr', ?_, ?_⟩
        · rw [h1]; simp only [List.length_append, List.length_cons, List.length_nil]; congr 2; omega
        · simp only [List.length_append, List.length_cons, List.length_nil] at h2 ⊢
          rw [show done.length + ((List.filterMap g rest).length + 1) = done.length + (0 + 1) + (List.filterMap g rest).length by omega]
          simpa using h2
      | cons c mid' =>
        have harr : (done ++ c :: mid') ++ x :: rest = done ++ c :: (mid' ++ x :: rest) := by simp
        have hset : goSet ((done ++ c :: mid') ++ x :: rest) (w : Int) y = .ok (((done ++ [y]) ++ (mid' ++ [x])) ++ rest) := by
          rw [harr, goSet_at done c y _ _ (by rw [hw])]; simp
        simp only [hset]
        obtain ⟨arr', h1, h2⟩ := ih (done ++ [y]) (mid' ++ [x]) (w + 1) (i + 1) (by rw [hw]; simp) (by rw [hi]; simp; omega)
        refine ⟨arr', ?_, ?_⟩
        · rw [h1]; simp only [List.length_append, List.length_cons, List.length_nil]; congr 2; omega
        · simp only [List.length_append, List.length_cons, List.length_nil] at h2 ⊢
          rw [show done.length + ((List.filterMap g rest).length + 1) = done.length + (0 + 1) + (List.filterMap g rest).length by omega]
          simpa using h2

/-- **The write-index loop never faults and is `filterMap`.** -/
theorem compactInPlace_eq (g : α → Option α) (arr : List α) :
    compactInPlace g arr = .ok (arr.filterMap g) := by
  obtain ⟨arr', h1, h2⟩ := compactLoop_spec g arr [] [] 0 0 rfl rfl
  simp only [List.nil_append, List.length_nil, Nat.zero_add] at h1 h2
  simp only [compactInPlace, h1, bind, Except.bind]
  have hlen : (arr.filterMap g).length ≤ arr'.length := by
    have := congrArg List.length h2
    simp only [List.length_take] at this
    omega
  unfold goSlice
  have c1 : (0 : Int) ≤ 0 ∧ (0 : Int) ≤ ((arr.filterMap g).length : Int) ∧ ((arr.filterMap g).length : Int) ≤ (arr'.length : Int) :=
    ⟨by omega, by omega, by omega⟩
  simp only [c1, and_self, if_true, Int.toNat_zero, List.drop_zero, Int.sub_zero, Int.toNat_natCast]
  rw [h2]


theorem filterMap_guard {β : Type} (p : β → Bool) (l : List β) :
    l.filterMap (fun x => if p x = true then none else some x) = l.filter (fun x => !p x) := by
  induction l with
  | nil => rfl
  | cons x xs ih =>
    rw [List.filterMap_cons, List.filter_cons]
    cases h : p x
    · simp only [Bool.false_eq_true, if_false, Bool.not_false, if_true, ih]
    · simp only [if_true, Bool.not_true, Bool.false_eq_true, if_false, ih]

/-- `scrubFam`'s loop (before its sort): the columns that have cells, in order -/
theorem scrubFam_in_place (cols : List Bt.Column) :
    compactInPlace (fun c : Bt.Column => if c.cells.isEmpty = true then none else some c) cols
      = .ok (cols.filter (fun c => !c.cells.isEmpty)) := by
  rw [compactInPlace_eq, filterMap_guard (fun c : Bt.Column => c.cells.isEmpty)]

/-- `scrubRow`'s loop: families of the schema, scrubbed, those left with columns — the Model's `scrubRow` -/
theorem scrubRow_in_place (s : Bt.Schema) (r : Bt.Row) :
    compactInPlace (fun f : Bt.Family =>
        if s.has f.name = true then (if (Bt.scrubFam f).cols.isEmpty = true then none else some (Bt.scrubFam f)) else none) r.fams
      = .ok (Bt.scrubRow s r).fams := by
  rw [compactInPlace_eq]
  congr 1
  unfold Bt.scrubRow
  simp only
  generalize r.fams = fams
  induction fams with
  | nil => rfl
  | cons f fs ih =>
    rw [List.filterMap_cons, List.filter_cons]
    cases h1 : s.has f.name
    · simp only [Bool.false_eq_true, if_false]; exact ih
    · simp only [if_true, List.map_cons, List.filter_cons]
      cases h2 : (Bt.scrubFam f).cols.isEmpty
      · simp only [Bool.false_eq_true, if_false, Bool.not_false, if_true, ih]
      · simp only [if_true, Bool.not_true, Bool.false_eq_true, if_false, ih]

/-- for the emulator's merge: the array loop is the Model's `mergeLoop` -/
theorem foldMerge_is_mergeLoop (x : Bt.SimpleRange) (xs : List Bt.SimpleRange) :
    foldMerge Bt.merge1 x xs = Bt.mergeLoop x xs := by
  induction xs generalizing x with
  | nil => rfl
  | cons b rest ih =>
    simp only [foldMerge, Bt.mergeLoop]
    cases Bt.merge1 x b with
    | some m => exact ih m
    | none => simp [ih b]

end Emu.Proofs.MergeInPlace
