/-
  `SampleRowKeys` (Model `sampleFrom`, the loop with its random draws as a parameter): for EVERY
  sequence of draws the answer is a subsequence of the stored keys, ends with the last stored key,
  and carries non-decreasing offsets.
-/
import Emu.Bt.Chunks

namespace Emu.Proofs.Sample
open Emu Emu.Bt

theorem keys_sublist (rows : List Row) : ∀ (coins : List Bool) (off : Nat) (last : Option (Bytes × Nat)),
    ((sampleFrom rows coins off last).map (·.1)).Sublist (last.toList.map (·.1) ++ rows.map (·.key)) := by
  induction rows with
  | nil => intro coins off last; simp [sampleFrom]
  | cons r rs ih =>
    intro coins off last
    simp only [sampleFrom]
    split
    · have h := ih coins.tail (off + r.size) none
      simp only [Option.toList_none, List.map_nil, List.nil_append] at h
      simp only [List.map_cons]
      exact List.sublist_append_of_sublist_right (h.cons_cons r.key)
    · have h := ih coins.tail (off + r.size) (some (r.key, off))
      simp only [Option.toList_some, List.map_cons, List.map_nil, List.singleton_append] at h
      simp only [List.map_cons]
      exact List.sublist_append_of_sublist_right h

theorem last_key (rows : List Row) : ∀ (coins : List Bool) (off : Nat) (last : Option (Bytes × Nat)),
    (sampleFrom rows coins off last).getLast?.map (·.1) =
      (match rows.getLast? with
       | some r => some r.key
       | none => last.map (·.1)) := by
  induction rows with
  | nil => intro coins off last; cases last <;> simp [sampleFrom]
  | cons r rs ih =>
    intro coins off last
    simp only [sampleFrom]
    rw [List.getLast?_cons]
    split
    · have h := ih coins.tail (off + r.size) none
      rw [List.getLast?_cons]
      cases hl : rs.getLast? with
      | none =>
        rw [hl] at h
        cases hs : (sampleFrom rs coins.tail (off + r.size) none).getLast? with
        | none => simp
        | some x => rw [hs] at h; simp at h
      | some r' =>
        rw [hl] at h
        cases hs : (sampleFrom rs coins.tail (off + r.size) none).getLast? with
        | none => rw [hs] at h; simp at h
        | some x => rw [hs] at h; simpa using h
    · have h := ih coins.tail (off + r.size) (some (r.key, off))
      rw [h]
      cases rs.getLast? <;> simp

def lower (last : Option (Bytes × Nat)) (off : Nat) : Nat :=
  match last with
  | some l => l.2
  | none => off

/-- offsets never decrease, and none lies below the offset the loop (or its pending row) started at -/
theorem offsets (rows : List Row) : ∀ (coins : List Bool) (off : Nat) (last : Option (Bytes × Nat)),
    (∀ p ∈ last, p.2 ≤ off) →
    (sampleFrom rows coins off last).Pairwise (fun a b => a.2 ≤ b.2) ∧
    ∀ p ∈ sampleFrom rows coins off last, lower last off ≤ p.2 := by
  induction rows with
  | nil =>
    intro coins off last _
    cases last <;> simp [sampleFrom, lower]
  | cons r rs ih =>
    intro coins off last hl
    have lo : lower last off ≤ off := by
      cases last with
      | none => exact Nat.le_refl _
      | some l => exact hl l rfl
    simp only [sampleFrom]
    split
    · obtain ⟨hp, hge⟩ := ih coins.tail (off + r.size) none (by simp)
      refine ⟨List.pairwise_cons.mpr ⟨fun p hp' => ?_, hp⟩, fun p hp' => ?_⟩
      · have := hge p hp'; simp only [lower] at this ⊢; omega
      · rcases List.mem_cons.mp hp' with rfl | h
        · exact lo
        · have := hge p h; simp only [lower] at this; omega
    · obtain ⟨hp, hge⟩ := ih coins.tail (off + r.size) (some (r.key, off)) (by simp)
      refine ⟨hp, fun p hp' => ?_⟩
      have := hge p hp'; simp only [lower] at this; omega

/-! ### the judge used by the correspondence check accepts every answer of the loop -/

theorem last_ignored (r : Row) (rs : List Row) (coins : List Bool) (off : Nat) (x y : Option (Bytes × Nat)) :
    sampleFrom (r :: rs) coins off x = sampleFrom (r :: rs) coins off y := by
  simp only [sampleFrom]

theorem explained_core (rows : List Row) : ∀ (coins : List Bool) (off : Nat) (last : Option (Bytes × Nat))
    (mem : Bytes → Bool), rows.Pairwise (fun a b => a.key ≠ b.key) →
    (∀ r ∈ rows, mem r.key = (sampleFrom rows coins off last).any (·.1 == r.key)) →
    sampleFrom rows (rows.map fun r => mem r.key) off last = sampleFrom rows coins off last := by
  induction rows with
  | nil => intro coins off last mem _ _; rfl
  | cons r rs ih =>
    intro coins off last mem hd hm
    have hr := hm r (by simp)
    cases rs with
    | nil =>
      simp only [sampleFrom, List.map_cons, List.map_nil, List.headD_cons]
      split <;> split <;> rfl
    | cons r2 rs' =>
      have hd' := (List.pairwise_cons.mp hd).2
      have hne : ∀ r' ∈ r2 :: rs', r.key ≠ r'.key := (List.pairwise_cons.mp hd).1
      by_cases c : coins.headD false = true
      · -- drawn: the key is in the answer, and the rest is judged on its own
        have hout : sampleFrom (r :: r2 :: rs') coins off last =
            (r.key, off) :: sampleFrom (r2 :: rs') coins.tail (off + r.size) none := by
          simp only [sampleFrom, c, if_true]
        rw [hout] at hr hm ⊢
        have hmr : mem r.key = true := by simpa using hr
        have htail := ih coins.tail (off + r.size) none mem hd' (by
          intro r' hr'
          have := hm r' (List.mem_cons_of_mem _ hr')
          rw [this, List.any_cons]
          have : ((r.key, off).1 == r'.key) = false := by simpa using hne r' hr'
          rw [this, Bool.false_or])
        rw [sampleFrom]
        simp only [List.map_cons, List.headD_cons, hmr, if_true, List.tail_cons]
        simp only [List.map_cons] at htail
        rw [htail]
      · -- not drawn and not last: the key is not in the answer
        have c' : coins.headD false = false := by simpa using c
        have hout : sampleFrom (r :: r2 :: rs') coins off last =
            sampleFrom (r2 :: rs') coins.tail (off + r.size) none := by
          simp only [sampleFrom, c', Bool.false_eq_true, if_false]
        rw [hout] at hr hm ⊢
        have hnot : mem r.key = false := by
          rw [hr, List.any_eq_false]
          intro p hp
          have hsub := keys_sublist (r2 :: rs') coins.tail (off + r.size) none
          have : p.1 ∈ (r2 :: rs').map (·.key) := by
            have := hsub.subset (List.mem_map_of_mem (f := (·.1)) hp)
            simpa using this
          obtain ⟨r', hr', e⟩ := List.mem_map.mp this
          have := hne r' hr'
          simp only [beq_iff_eq]
          intro h; exact this (by rw [e, h])
        have htail := ih coins.tail (off + r.size) none mem hd' (by
          intro r' hr'
          exact hm r' (List.mem_cons_of_mem _ hr'))
        rw [sampleFrom]
        simp only [List.map_cons, List.headD_cons, hnot, Bool.false_eq_true, if_false, List.tail_cons]
        simp only [List.map_cons] at htail
        rw [last_ignored _ _ _ _ _ none, htail]

/-- every answer of the loop, for any draws, is recognised as one -/
theorem explained_complete (rows : List Row) (coins : List Bool) (hd : rows.Pairwise (fun a b => a.key ≠ b.key)) :
    sampleExplained rows (sampleRowKeys rows coins) = true := by
  unfold sampleExplained sampleRowKeys
  rw [explained_core rows coins 0 none (fun k => (sampleFrom rows coins 0 none).any (·.1 == k)) hd (fun _ _ => rfl)]
  exact beq_self_eq_true _

/-- … and only answers of the loop are -/
theorem explained_sound (rows : List Row) (out : List (Bytes × Nat)) (h : sampleExplained rows out = true) :
    ∃ coins, sampleRowKeys rows coins = out :=
  ⟨_, by simpa [sampleExplained] using h⟩

end Emu.Proofs.Sample
