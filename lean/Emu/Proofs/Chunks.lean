/-
  The chunk encoder (`chunkBuilder.add`, Model `rowChunks`) against the client-side decoder
  (`Emu.Bt.decode`): every stream the encoder produces is accepted by the decoder and decodes to
  exactly the rows that were encoded; the batching into messages loses nothing and sends no empty
  message.
-/
import Emu.Bt.Chunks

namespace Emu.Proofs.Chunks
open Emu Emu.Bt

/-! ### family / qualifier tracking over a list of chunks -/

def cellsFrom : Option Bytes → Option Bytes → List Chunk → Option (List Triple × Option Bytes × Option Bytes)
  | f, q, [] => some ([], f, q)
  | f, q, c :: cs =>
    match cellStep f q c with
    | none => none
    | some (t, f', q') =>
      match cellsFrom f' q' cs with
      | none => none
      | some (ts, f'', q'') => some (t :: ts, f'', q'')

theorem cellsFrom_cons (f q : Option Bytes) (c : Chunk) (cs : List Chunk) :
    cellsFrom f q (c :: cs) = match cellStep f q c with
      | none => none
      | some (t, f', q') => (cellsFrom f' q' cs).map (fun (ts, f'', q'') => (t :: ts, f'', q'')) := by
  simp only [cellsFrom]
  cases cellStep f q c with
  | none => rfl
  | some r => obtain ⟨t, f', q'⟩ := r; simp only; cases cellsFrom f' q' cs <;> rfl

theorem cellsFrom_append (a b : List Chunk) : ∀ (f q : Option Bytes) (ta : List Triple) (f' q' : Option Bytes),
    cellsFrom f q a = some (ta, f', q') →
    cellsFrom f q (a ++ b) = (cellsFrom f' q' b).map (fun (tb, f'', q'') => (ta ++ tb, f'', q'')) := by
  induction a with
  | nil =>
    intro f q ta f' q' h
    simp only [cellsFrom, Option.some.injEq, Prod.mk.injEq] at h
    obtain ⟨rfl, rfl, rfl⟩ := h
    cases hb : cellsFrom f q b <;> simp [hb]
  | cons c cs ih =>
    intro f q ta f' q' h
    simp only [cellsFrom, List.cons_append] at h ⊢
    cases hc : cellStep f q c with
    | none => simp [hc] at h
    | some r =>
      obtain ⟨t, f1, q1⟩ := r
      simp only [hc] at h ⊢
      cases hcs : cellsFrom f1 q1 cs with
      | none => simp [hcs] at h
      | some r2 =>
        obtain ⟨ts, f2, q2⟩ := r2
        simp only [hcs, Option.some.injEq, Prod.mk.injEq] at h
        obtain ⟨rfl, rfl, rfl⟩ := h
        rw [ih f1 q1 ts f2 q2 hcs]
        cases hb : cellsFrom f2 q2 b <;> simp

/-! ### what the encoder's pieces decode to -/

def colTriples (n : Bytes) (c : Column) : List Triple := c.cells.map fun cell => (n, c.qual, cell)
def famTriples (f : Family) : List Triple := f.cols.flatMap (colTriples f.name)

theorem flat_eq (r : Row) : r.flat = r.fams.flatMap famTriples := rfl

/-- continuation cells of a column (no family, no qualifier on the wire) -/
theorem cellsFrom_rest (n q : Bytes) (xs : List Cell) :
    cellsFrom (some n) (some q) (xs.map fun y => (⟨none, none, none, y.ts, y.value, y.labels, false⟩ : Chunk))
      = some (xs.map fun cell => (n, q, cell), some n, some q) := by
  induction xs with
  | nil => rfl
  | cons x xs ih => simp [cellsFrom, cellStep, ih]

/-- the columns of a family once the family name is known -/
theorem cellsFrom_cols (n : Bytes) (cols : List Column) : ∀ q : Option Bytes,
    ∃ q', cellsFrom (some n) q (cols.flatMap colChunks) = some (cols.flatMap (colTriples n), some n, q') := by
  induction cols with
  | nil => intro q; exact ⟨q, rfl⟩
  | cons c cs ih =>
    intro q
    cases hc : c.cells with
    | nil =>
      obtain ⟨q', h⟩ := ih q
      exact ⟨q', by simp [colChunks, colTriples, hc, h]⟩
    | cons x xs =>
      obtain ⟨q', h⟩ := ih (some c.qual)
      refine ⟨q', ?_⟩
      have hrest := cellsFrom_rest n c.qual xs
      have happ := cellsFrom_append _ (cs.flatMap colChunks) _ _ _ _ _ hrest
      simp only [List.flatMap_cons, colChunks, colTriples, hc, List.cons_append, cellsFrom, cellStep,
        Option.isSome_none, Bool.false_and, Bool.false_eq_true, if_false, Option.none_or, Option.some_or,
        List.map_cons]
      rw [happ, h]
      simp [colTriples]

/-- one family, whatever was known before it: its first chunk names family and qualifier -/
theorem cellsFrom_fam (f : Family) : ∀ fam q : Option Bytes,
    ∃ fam' q', cellsFrom fam q (famChunks f) = some (famTriples f, fam', q') := by
  intro fam q
  unfold famChunks famTriples
  generalize f.cols = cols
  induction cols with
  | nil => exact ⟨fam, q, rfl⟩
  | cons c cs ih =>
    cases hc : c.cells with
    | nil =>
      obtain ⟨fam', q', h⟩ := ih
      exact ⟨fam', q', by simpa [colChunks, colTriples, hc] using h⟩
    | cons x xs =>
      obtain ⟨q', h⟩ := cellsFrom_cols f.name cs (some c.qual)
      refine ⟨some f.name, q', ?_⟩
      have hrest := cellsFrom_rest f.name c.qual xs
      have happ := cellsFrom_append _ (cs.flatMap colChunks) _ _ _ _ _ hrest
      simp only [List.flatMap_cons, colChunks, colTriples, hc, List.cons_append, setFam, cellsFrom, cellStep,
        Option.isSome_some, Option.isNone_some, Bool.and_false, Bool.false_eq_true, if_false, Option.some_or,
        List.map_cons]
      rw [happ, h]
      simp [colTriples]

theorem cellsFrom_fams (fams : List Family) : ∀ fam q : Option Bytes,
    ∃ fam' q', cellsFrom fam q (fams.flatMap famChunks) = some (fams.flatMap famTriples, fam', q') := by
  induction fams with
  | nil => intro fam q; exact ⟨fam, q, rfl⟩
  | cons f fs ih =>
    intro fam q
    obtain ⟨f1, q1, h1⟩ := cellsFrom_fam f fam q
    obtain ⟨f2, q2, h2⟩ := ih f1 q1
    refine ⟨f2, q2, ?_⟩
    simp only [List.flatMap_cons]
    rw [cellsFrom_append _ _ _ _ _ _ _ h1, h2]
    rfl

/-! ### plain chunks: no key, no commit -/

def Plain (c : Chunk) : Prop := c.rowKey = none ∧ c.commit = false

theorem plain_colChunks (c : Column) : ∀ x ∈ colChunks c, Plain x := by
  intro x hx
  unfold colChunks at hx
  cases hc : c.cells with
  | nil => simp [hc] at hx
  | cons y ys =>
    simp only [hc, List.mem_cons, List.mem_map] at hx
    rcases hx with rfl | ⟨z, _, rfl⟩ <;> exact ⟨rfl, rfl⟩

theorem plain_setFam (n : Bytes) (l : List Chunk) (h : ∀ x ∈ l, Plain x) : ∀ x ∈ setFam n l, Plain x := by
  cases l with
  | nil => simpa [setFam] using h
  | cons a t =>
    intro x hx
    simp only [setFam, List.mem_cons] at hx
    rcases hx with rfl | hx
    · exact ⟨(h a (by simp)).1, (h a (by simp)).2⟩
    · exact h x (by simp [hx])

theorem plain_fams (fams : List Family) : ∀ x ∈ fams.flatMap famChunks, Plain x := by
  intro x hx
  simp only [List.mem_flatMap] at hx
  obtain ⟨f, _, hx⟩ := hx
  refine plain_setFam f.name _ ?_ x hx
  intro y hy
  simp only [List.mem_flatMap] at hy
  obtain ⟨c, _, hy⟩ := hy
  exact plain_colChunks c y hy

theorem hasKey_plain (c : Chunk) (h : Plain c) : c.hasKey = false := by
  unfold Chunk.hasKey; rw [h.1]

/-- inside a row, plain chunks only add cells -/
theorem run_plain (l : List Chunk) : ∀ (st : DState) (k : Bytes) (cs : List Triple),
    (∀ x ∈ l, Plain x) → st.cur = some (k, cs) →
    decodeFrom st l = (cellsFrom st.fam st.qual l).map
      (fun (ts, f, q) => { rows := st.rows, cur := some (k, cs ++ ts), fam := f, qual := q }) := by
  induction l with
  | nil =>
    intro st k cs _ hc
    cases st; simp_all [decodeFrom, cellsFrom]
  | cons c t ih =>
    intro st k cs hp hc
    have pc := hp c (by simp)
    rw [cellsFrom_cons]
    simp only [decodeFrom, decodeStep, hasKey_plain c pc, Bool.false_eq_true, if_false, hc]
    cases hs : cellStep st.fam st.qual c with
    | none => simp
    | some r =>
      obtain ⟨t1, f1, q1⟩ := r
      simp only [pc.2, Bool.false_eq_true, if_false]
      rw [ih _ k (cs ++ [t1]) (fun x hx => hp x (by simp [hx])) rfl]
      simp only
      cases cellsFrom f1 q1 t <;> simp

/-- … and the chunk that carries the commit closes the row -/
theorem run_commit (l : List Chunk) : ∀ (st : DState) (k : Bytes) (cs : List Triple),
    l ≠ [] → (∀ x ∈ l, Plain x) → st.cur = some (k, cs) →
    decodeFrom st (setCommit l) = (cellsFrom st.fam st.qual l).map
      (fun (ts, f, q) => { rows := st.rows ++ [(k, cs ++ ts)], cur := none, fam := f, qual := q }) := by
  induction l with
  | nil => intro st k cs h; exact absurd rfl h
  | cons c t ih =>
    intro st k cs _ hp hc
    have pc := hp c (by simp)
    have hk : ({ c with commit := true } : Chunk).hasKey = false := by
      unfold Chunk.hasKey; simp [pc.1]
    cases t with
    | nil =>
      simp only [setCommit, decodeFrom, decodeStep, hk, Bool.false_eq_true, if_false, hc, cellsFrom]
      have : cellStep st.fam st.qual { c with commit := true } = cellStep st.fam st.qual c := rfl
      rw [this]
      cases hs : cellStep st.fam st.qual c with
      | none => simp
      | some r => obtain ⟨t1, f1, q1⟩ := r; simp
    | cons d t' =>
      rw [cellsFrom_cons]
      simp only [setCommit, decodeFrom, decodeStep, hasKey_plain c pc, Bool.false_eq_true, if_false, hc]
      cases hs : cellStep st.fam st.qual c with
      | none => simp
      | some r =>
        obtain ⟨t1, f1, q1⟩ := r
        simp only [pc.2, Bool.false_eq_true, if_false]
        rw [ih _ k (cs ++ [t1]) (by simp) (fun x hx => hp x (by simp [hx])) rfl]
        simp only
        cases cellsFrom f1 q1 (d :: t') <;> simp

/-- a whole row between rows: key on the first chunk, commit on the last -/
theorem run_row (l : List Chunk) (k : Bytes) (st : DState) (ts : List Triple) (f q : Option Bytes)
    (hne : l ≠ []) (hk : k ≠ []) (hp : ∀ x ∈ l, Plain x) (hc : st.cur = none)
    (hcells : cellsFrom none none l = some (ts, f, q)) :
    decodeFrom st (setCommit (setKey k l)) = some { rows := st.rows ++ [(k, ts)], cur := none, fam := f, qual := q } := by
  cases l with
  | nil => exact absurd rfl hne
  | cons a t =>
    have pa := hp a (by simp)
    obtain ⟨k0, kt, hkk⟩ : ∃ k0 kt, k = k0 :: kt := by cases k with | nil => exact absurd rfl hk | cons x y => exact ⟨x, y, rfl⟩
    simp only [cellsFrom] at hcells
    cases hs : cellStep none none a with
    | none => simp [hs] at hcells
    | some r =>
      obtain ⟨t1, f1, q1⟩ := r
      -- the first chunk names family and qualifier
      have hfq : a.family.isSome = true ∧ a.qual.isSome = true := by
        unfold cellStep at hs
        cases hf : a.family <;> cases hq : a.qual <;> simp [hf, hq] at hs ⊢
      simp only [hs] at hcells
      cases hrest : cellsFrom f1 q1 t with
      | none => simp [hrest] at hcells
      | some r2 =>
        obtain ⟨ts2, f2, q2⟩ := r2
        simp only [hrest, Option.some.injEq, Prod.mk.injEq] at hcells
        obtain ⟨rfl, rfl, rfl⟩ := hcells
        cases t with
        | nil =>
          simp only [cellsFrom, Option.some.injEq, Prod.mk.injEq] at hrest
          obtain ⟨rfl, rfl, rfl⟩ := hrest
          have e : cellStep none none { a with rowKey := some k, commit := true } = cellStep none none a := rfl
          subst hkk
          simp only [setKey, setCommit, decodeFrom, decodeStep, Chunk.hasKey, if_true, hc, hfq.1, hfq.2,
            Bool.and_self, e, hs, Option.getD_some, List.nil_append]
        | cons b t' =>
          have e : ∀ rk cm, cellStep none none { a with rowKey := rk, commit := cm } = cellStep none none a := fun _ _ => rfl
          have hstep : decodeStep st { a with rowKey := some k } =
              some { rows := st.rows, cur := some (k, [t1]), fam := f1, qual := q1 } := by
            subst hkk
            simp only [decodeStep, Chunk.hasKey, if_true, hc, hfq.1, hfq.2, Bool.and_self, e, hs, pa.2,
              Bool.false_eq_true, if_false, Option.getD_some, List.nil_append]
          simp only [setKey, setCommit, decodeFrom, hstep]
          rw [run_commit (b :: t') _ k [t1] (by simp) (fun x hx => hp x (by simp [hx])) rfl]
          simp [hrest]

/-! ### the stream -/

theorem rowChunks_nil_iff (r : Row) : r.fams.flatMap famChunks = [] → r.flat = [] := by
  intro h
  obtain ⟨f, q, hc⟩ := cellsFrom_fams r.fams none none
  rw [h] at hc
  simp only [cellsFrom, Option.some.injEq, Prod.mk.injEq] at hc
  rw [flat_eq]; exact hc.1.symm

theorem decodeFrom_append (a b : List Chunk) : ∀ st : DState,
    decodeFrom st (a ++ b) = (decodeFrom st a).bind (fun s => decodeFrom s b) := by
  induction a with
  | nil => intro st; rfl
  | cons c cs ih =>
    intro st
    simp only [List.cons_append, decodeFrom]
    cases decodeStep st c with
    | none => rfl
    | some s => exact ih s

def nonEmptyRows (rs : List Row) : List DRow :=
  (rs.filter fun r => !r.flat.isEmpty).map fun r => (r.key, r.flat)

theorem decodeFrom_rows (rs : List Row) (hk : ∀ r ∈ rs, r.key ≠ []) : ∀ st : DState, st.cur = none →
    ∃ f q, decodeFrom st (rs.flatMap rowChunks) =
      some { rows := st.rows ++ nonEmptyRows rs, cur := none, fam := f, qual := q } := by
  induction rs with
  | nil => intro st hc; exact ⟨st.fam, st.qual, by cases st; simp_all [decodeFrom, nonEmptyRows]⟩
  | cons r rs ih =>
    intro st hc
    simp only [List.flatMap_cons]
    rw [decodeFrom_append]
    obtain ⟨f, q, hcells⟩ := cellsFrom_fams r.fams none none
    by_cases hl : r.fams.flatMap famChunks = []
    · have hflat := rowChunks_nil_iff r hl
      obtain ⟨f2, q2, h2⟩ := ih (fun x hx => hk x (by simp [hx])) st hc
      refine ⟨f2, q2, ?_⟩
      simp only [rowChunks, hl, setKey, setCommit, decodeFrom, Option.bind_some, h2]
      simp [nonEmptyRows, hflat]
    · have hrow := run_row _ r.key st _ f q hl (hk r (by simp)) (plain_fams r.fams) hc hcells
      have hflat : r.flat ≠ [] := by
        intro h0
        rw [flat_eq] at h0
        rw [h0] at hcells
        -- a non-empty chunk list yields at least one cell
        cases hL : r.fams.flatMap famChunks with
        | nil => exact hl hL
        | cons a t =>
          rw [hL] at hcells
          simp only [cellsFrom] at hcells
          cases hs : cellStep none none a with
          | none => simp [hs] at hcells
          | some x =>
            obtain ⟨t1, f1, q1⟩ := x
            simp only [hs] at hcells
            cases hr : cellsFrom f1 q1 t with
            | none => simp [hr] at hcells
            | some y => obtain ⟨a1, a2, a3⟩ := y; simp [hr] at hcells
      obtain ⟨f2, q2, h2⟩ := ih (fun x hx => hk x (by simp [hx]))
        { rows := st.rows ++ [(r.key, r.fams.flatMap famTriples)], cur := none, fam := f, qual := q } rfl
      refine ⟨f2, q2, ?_⟩
      simp only [rowChunks, hrow, Option.bind_some, h2]
      have : (!r.flat.isEmpty) = true := by
        cases hf : r.flat with
        | nil => exact absurd hf hflat
        | cons _ _ => rfl
      rw [flat_eq] at this
      simp [nonEmptyRows, this, flat_eq, List.filter_cons, List.append_assoc]

/-- **Round trip**: the encoder's stream for any rows (row keys are never empty) is accepted by the
    decoder and decodes to exactly the rows that have cells, with their cells in order. -/
theorem decode_encode (rs : List Row) (hk : ∀ r ∈ rs, r.key ≠ []) :
    decode (rs.flatMap rowChunks) = some (nonEmptyRows rs) := by
  obtain ⟨f, q, h⟩ := decodeFrom_rows rs hk {} rfl
  simp [decode, h]

/-! ### messages -/

theorem messagesFrom_flatten (batch : Nat) (rs : List Row) : ∀ buf : List Chunk,
    (messagesFrom batch buf rs).flatten = buf ++ rs.flatMap rowChunks := by
  induction rs with
  | nil => intro buf; cases buf <;> simp [messagesFrom]
  | cons r rs ih =>
    intro buf
    simp only [messagesFrom]
    split
    · simp [ih]
    · simp [ih]

theorem messagesFrom_nonempty (batch : Nat) (rs : List Row) : ∀ buf : List Chunk,
    ∀ m ∈ messagesFrom batch buf rs, m ≠ [] := by
  induction rs with
  | nil =>
    intro buf m hm
    cases buf with
    | nil => simp [messagesFrom] at hm
    | cons a t => simp [messagesFrom] at hm; simp [hm]
  | cons r rs ih =>
    intro buf m hm
    simp only [messagesFrom] at hm
    split at hm
    · rename_i hlen
      simp only [List.mem_cons] at hm
      rcases hm with rfl | hm
      · intro h0; rw [h0] at hlen; simp at hlen
      · exact ih [] m hm
    · exact ih _ m hm

theorem messagesFrom_bounded (batch : Nat) (rs : List Row) : ∀ buf : List Chunk, buf.length ≤ batch →
    ∀ m ∈ messagesFrom batch buf rs, ∃ r, m.length ≤ batch + (rowChunks r).length := by
  induction rs with
  | nil =>
    intro buf hb m hm
    cases buf with
    | nil => simp [messagesFrom] at hm
    | cons a t =>
      simp [messagesFrom] at hm
      exact ⟨⟨[], []⟩, by rw [hm]; simp [rowChunks, setKey, setCommit]; simpa using hb⟩
  | cons r rs ih =>
    intro buf hb m hm
    simp only [messagesFrom] at hm
    split at hm
    · simp only [List.mem_cons] at hm
      rcases hm with rfl | hm
      · exact ⟨r, by simp; omega⟩
      · exact ih [] (by simp) m hm
    · rename_i hlen
      exact ih _ (by omega) m hm

end Emu.Proofs.Chunks
