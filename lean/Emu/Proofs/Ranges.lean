/-
  RowSets: `mergeRowRanges` normalises a set of keys and ranges into ordered, separated simple
  ranges with the same union; scanning them in turn over a sorted store visits exactly the rows of
  the set, each once, in key order.
-/
import Emu.Proofs.BtRows
import Emu.Bt.Read

namespace Emu.Proofs.Ranges
open Emu Emu.Bt Emu.Proofs.BtRows

/-! ### declarative RowSet membership -/

def inRowRange (rr : RowRange) (k : Bytes) : Bool :=
  (match rr.s with
   | .unset => true
   | .closed s => decide (s ≤ k)
   | .opened s => decide (s < k)) &&
  (match rr.e with
   | .unset => true
   | .closed e => decide (k ≤ e)
   | .opened e => decide (k < e))

def inRowSet (keys : List Bytes) (rrs : List RowRange) (k : Bytes) : Bool :=
  keys.contains k || rrs.any (inRowRange · k)

/-- set bounds are non-empty (an empty bound is read as "unbounded" by the code; the property does
    not say what a set-but-empty bound means) -/
def Bound.nonEmpty : Bound → Prop
  | .unset => True
  | .closed b => b ≠ []
  | .opened b => b ≠ []

/-! ### one range -/

theorem append_zero_ne_nil (k : Bytes) : k ++ [0] ≠ [] := by simp

theorem toSimple_contains (rr : RowRange) (k : Bytes) (hs : Bound.nonEmpty rr.s) (he : Bound.nonEmpty rr.e) :
    rr.toSimple.contains k = inRowRange rr k := by
  obtain ⟨s, e⟩ := rr
  unfold RowRange.toSimple SimpleRange.contains inRowRange
  congr 1
  · cases s with
    | unset => simp
    | closed b =>
      simp only [Bound.nonEmpty] at hs
      have : b.isEmpty = false := by cases b <;> simp_all
      simp [this]
    | opened b =>
      have : (b ++ [0]).isEmpty = false := by cases b <;> simp
      simp only [this, Bool.false_or]
      rw [Bool.eq_iff_iff]; simp only [decide_eq_true_eq]
      exact (Bytes.lt_iff_succ_le b k).symm
  · cases e with
    | unset => simp
    | closed b =>
      have : (b ++ [0]).isEmpty = false := by cases b <;> simp
      simp only [this, Bool.false_or]
      rw [Bool.eq_iff_iff]; simp only [decide_eq_true_eq]
      exact (Bytes.le_iff_lt_succ b k).symm
    | opened b =>
      simp only [Bound.nonEmpty] at he
      have : b.isEmpty = false := by cases b <;> simp_all
      simp [this]

theorem keyRange_contains (k0 k : Bytes) (h : k0 ≠ []) : (keyRange k0).contains k = (k0 == k) := by
  unfold keyRange SimpleRange.contains
  have h1 : k0.isEmpty = false := by cases k0 <;> simp_all
  have h2 : (k0 ++ [0]).isEmpty = false := by cases k0 <;> simp
  simp only [h1, h2, Bool.false_or]
  rw [Bool.eq_iff_iff]
  simp only [Bool.and_eq_true, decide_eq_true_eq, beq_iff_eq]
  rw [← Bytes.le_iff_lt_succ]
  constructor
  · intro ⟨a, b⟩; exact Std.le_antisymm a b
  · intro e; subst e; exact ⟨Std.le_refl _, Std.le_refl _⟩

/-! ### merging two ranges -/

theorem merge1_some_contains (a b m : SimpleRange) (hab : a.start ≤ b.start) (h : merge1 a b = some m) (k : Bytes) :
    m.contains k = (a.contains k || b.contains k) := by
  unfold merge1 at h
  split at h
  · cases h
  · rename_i hnd
    simp only [Option.some.injEq] at h
    subst h
    simp only [Bool.and_eq_true, Bool.not_eq_true', decide_eq_true_eq, not_and, Bool.not_eq_false] at hnd
    unfold SimpleRange.contains endLt
    rw [Bool.eq_iff_iff]
    have hnil : ∀ x : Bytes, x ≤ [] → x = [] := fun x h => List.le_nil.mp h
    have hnlt : ∀ x : Bytes, ¬ x < [] := fun x => List.not_lt_nil x
    have h1 := hnil a.start
    have h2 := hnil b.start
    have h3 := hnlt k
    cases ha : a.stop with
    | nil =>
      cases hb : b.stop with
      | nil => simp; grind
      | cons y ys => simp; grind
    | cons x xs =>
      have hne : a.stop.isEmpty = false := by simp [ha]
      have hlt := hnd hne
      cases hb : b.stop with
      | nil => simp [ha, hb] at hlt ⊢; grind
      | cons y ys => simp [ha, hb] at hlt ⊢; grind

theorem merge1_none_sep (a b : SimpleRange) (h : merge1 a b = none) : a.stop ≠ [] ∧ a.stop < b.start := by
  unfold merge1 at h
  split at h
  · rename_i hd
    simp only [Bool.and_eq_true, Bool.not_eq_true', decide_eq_true_eq] at hd
    exact ⟨by intro e; simp [e] at hd, hd.2⟩
  · cases h

theorem merge1_start (a b m : SimpleRange) (h : merge1 a b = some m) : m.start = a.start := by
  unfold merge1 at h; split at h
  · cases h
  · cases h; rfl

/-! ### the merge loop -/

/-- input to the loop: starts ascending -/
def StartSorted (l : List SimpleRange) : Prop := l.Pairwise (fun a b => a.start ≤ b.start)

/-- output of the loop: every range ends (strictly) before every later range starts -/
def Separated (l : List SimpleRange) : Prop := l.Pairwise (fun a b => a.stop ≠ [] ∧ a.stop < b.start)

theorem mergeLoop_union (last : SimpleRange) (xs : List SimpleRange)
    (h1 : ∀ x ∈ xs, last.start ≤ x.start) (hs : StartSorted xs) (k : Bytes) :
    (mergeLoop last xs).any (·.contains k) = (last.contains k || xs.any (·.contains k)) := by
  induction xs generalizing last with
  | nil => simp [mergeLoop]
  | cons x xs ih =>
    unfold StartSorted at hs
    rw [List.pairwise_cons] at hs
    simp only [mergeLoop]
    cases hm : merge1 last x with
    | some m =>
      simp only
      have hstart := merge1_start last x m hm
      rw [ih m (fun y hy => by rw [hstart]; exact h1 y (by simp [hy])) hs.2]
      rw [merge1_some_contains last x m (h1 x (by simp)) hm k]
      simp [Bool.or_assoc]
    | none =>
      simp only [List.any_cons]
      rw [ih x (fun y hy => hs.1 y hy) hs.2]

theorem mergeLoop_start_ge (last : SimpleRange) (xs : List SimpleRange)
    (h1 : ∀ x ∈ xs, last.start ≤ x.start) (hs : StartSorted xs) :
    ∀ b ∈ mergeLoop last xs, last.start ≤ b.start := by
  induction xs generalizing last with
  | nil => intro b hb; simp [mergeLoop] at hb; rw [hb]; exact Std.le_refl _
  | cons x xs ih =>
    unfold StartSorted at hs
    rw [List.pairwise_cons] at hs
    intro b hb
    simp only [mergeLoop] at hb
    cases hm : merge1 last x with
    | some m =>
      simp only [hm] at hb
      have hstart := merge1_start last x m hm
      have := ih m (fun y hy => by rw [hstart]; exact h1 y (by simp [hy])) hs.2 b hb
      rw [hstart] at this; exact this
    | none =>
      simp only [hm, List.mem_cons] at hb
      cases hb with
      | inl e => rw [e]; exact Std.le_refl _
      | inr hb' =>
        have := ih x (fun y hy => hs.1 y hy) hs.2 b hb'
        exact Std.le_trans (h1 x (by simp)) this

theorem mergeLoop_separated (last : SimpleRange) (xs : List SimpleRange)
    (h1 : ∀ x ∈ xs, last.start ≤ x.start) (hs : StartSorted xs) : Separated (mergeLoop last xs) := by
  induction xs generalizing last with
  | nil => simp [mergeLoop, Separated]
  | cons x xs ih =>
    unfold StartSorted at hs
    rw [List.pairwise_cons] at hs
    simp only [mergeLoop]
    cases hm : merge1 last x with
    | some m =>
      simp only
      have hstart := merge1_start last x m hm
      exact ih m (fun y hy => by rw [hstart]; exact h1 y (by simp [hy])) hs.2
    | none =>
      simp only
      unfold Separated
      rw [List.pairwise_cons]
      refine ⟨?_, ih x (fun y hy => hs.1 y hy) hs.2⟩
      intro b hb
      obtain ⟨hne, hlt⟩ := merge1_none_sep last x hm
      have := mergeLoop_start_ge x xs (fun y hy => hs.1 y hy) hs.2 b hb
      exact ⟨hne, Std.lt_of_lt_of_le hlt this⟩

/-! ### the sort -/

def srLe (a b : SimpleRange) : Bool := !srLess b a

theorem srLe_start (a b : SimpleRange) (h : srLe a b = true) : a.start ≤ b.start := by
  unfold srLe srLess at h
  grind

theorem srLe_total (a b : SimpleRange) : srLe a b = true ∨ srLe b a = true := by
  unfold srLe srLess endLt
  grind

theorem srLe_trans (a b c : SimpleRange) (h1 : srLe a b = true) (h2 : srLe b c = true) : srLe a c = true := by
  unfold srLe srLess endLt at *
  grind

theorem sorted_startSorted (l : List SimpleRange) : StartSorted (sortBy srLe l) := by
  have := pairwise_sortBy srLe srLe_total srLe_trans l
  exact List.Pairwise.imp (fun h => srLe_start _ _ h) this

/-- **`mergeSimpleRanges` keeps the union** … -/
theorem mergeSimpleRanges_union (srs : List SimpleRange) (k : Bytes) :
    (mergeSimpleRanges srs).any (·.contains k) = srs.any (·.contains k) := by
  unfold mergeSimpleRanges
  have hperm := perm_sortBy srLe srs
  have hss := sorted_startSorted srs
  show (match sortBy srLe srs with | [] => [] | x :: xs => mergeLoop x xs).any _ = _
  have hany : srs.any (·.contains k) = (sortBy srLe srs).any (·.contains k) := by
    rw [Bool.eq_iff_iff]
    simp only [List.any_eq_true]
    constructor
    · rintro ⟨x, hx, hc⟩; exact ⟨x, hperm.mem_iff.mpr hx, hc⟩
    · rintro ⟨x, hx, hc⟩; exact ⟨x, hperm.mem_iff.mp hx, hc⟩
  rw [hany]
  cases hsrt : sortBy srLe srs with
  | nil => rfl
  | cons x xs =>
    rw [hsrt] at hss
    unfold StartSorted at hss
    rw [List.pairwise_cons] at hss
    simp only [List.any_cons]
    exact mergeLoop_union x xs hss.1 hss.2 k

/-- … and its output is separated (hence disjoint and in ascending order). -/
theorem mergeSimpleRanges_separated (srs : List SimpleRange) : Separated (mergeSimpleRanges srs) := by
  unfold mergeSimpleRanges
  have hss := sorted_startSorted srs
  show Separated (match sortBy srLe srs with | [] => [] | x :: xs => mergeLoop x xs)
  cases hsrt : sortBy srLe srs with
  | nil => simp [Separated]
  | cons x xs =>
    rw [hsrt] at hss
    unfold StartSorted at hss
    rw [List.pairwise_cons] at hss
    exact mergeLoop_separated x xs hss.1 hss.2

/-! ### scanning separated ranges over a sorted store -/

theorem filter_append_of_precede (rows : Rows) (hs : Sorted rows) (P Q : Row → Bool)
    (hpq : ∀ x y, P x = true → Q y = true → x.key < y.key) :
    rows.filter P ++ rows.filter Q = rows.filter (fun r => P r || Q r) := by
  induction rows with
  | nil => rfl
  | cons x xs ih =>
    unfold Sorted at hs ih
    rw [List.pairwise_cons] at hs
    have ih' := ih hs.2
    simp only [List.filter_cons]
    cases hp : P x with
    | true =>
      have hq : Q x = false := by
        cases hq : Q x with
        | false => rfl
        | true => exact absurd (hpq x x hp hq) (List.lt_irrefl _)
      simp [hq, ih']
    | false =>
      cases hq : Q x with
      | false => simp [ih']
      | true =>
        have hnone : xs.filter P = [] := by
          rw [List.filter_eq_nil_iff]
          intro y hy hpy
          have h1 := hpq y x hpy hq
          have h2 := hs.1 y hy
          exact absurd (Std.lt_trans h1 h2) (List.lt_irrefl _)
        have hcongr : xs.filter (fun r => P r || Q r) = xs.filter Q := by
          apply List.filter_congr
          intro y hy
          have : P y = false := by
            cases hpy : P y with
            | false => rfl
            | true =>
              have h1 := hpq y x hpy hq
              have h2 := hs.1 y hy
              exact absurd (Std.lt_trans h1 h2) (List.lt_irrefl _)
          simp [this]
        simp [hnone, hcongr]

theorem flatMap_filter (Ps : List (Row → Bool)) (rows : Rows) (hs : Sorted rows)
    (hsep : Ps.Pairwise (fun P Q => ∀ x y, P x = true → Q y = true → x.key < y.key)) :
    Ps.flatMap (fun P => rows.filter P) = rows.filter (fun r => Ps.any (fun P => P r)) := by
  induction Ps with
  | nil => simp
  | cons P Ps ih =>
    rw [List.pairwise_cons] at hsep
    simp only [List.flatMap_cons, ih hsep.2, List.any_cons]
    apply filter_append_of_precede rows hs
    intro x y hx hy
    simp only [List.any_eq_true] at hy
    obtain ⟨Q, hQ, hqy⟩ := hy
    exact hsep.1 Q hQ x y hx hqy

/-- keys of an earlier range precede keys of a later one -/
theorem separated_precede (a b : SimpleRange) (h : a.stop ≠ [] ∧ a.stop < b.start) (k k' : Bytes)
    (hk : a.contains k = true) (hk' : b.contains k' = true) : k < k' := by
  obtain ⟨hne, hlt⟩ := h
  unfold SimpleRange.contains at hk hk'
  have h1 : a.stop.isEmpty = false := by cases hh : a.stop <;> simp_all
  have h2 : b.start.isEmpty = false := by
    cases hh : b.start with
    | nil => rw [hh] at hlt; exact absurd hlt (List.not_lt_nil _)
    | cons _ _ => rfl
  simp only [h1, h2, Bool.false_or, Bool.and_eq_true, decide_eq_true_eq] at hk hk'
  exact Std.lt_of_lt_of_le (Std.lt_trans hk.2 hlt) hk'.1

/-- **The scan over merged ranges visits exactly the rows whose key is in some range, each once,
    in ascending key order.** -/
theorem scanVisit_merged (srs : List SimpleRange) (rows : Rows) (hs : Sorted rows) :
    scanVisit (mergeSimpleRanges srs) rows = rows.filter (fun r => srs.any (·.contains r.key)) := by
  unfold scanVisit
  have hsep := mergeSimpleRanges_separated srs
  have h := flatMap_filter ((mergeSimpleRanges srs).map (fun sr => fun r : Row => sr.contains r.key)) rows hs
    (by
      rw [List.pairwise_map]
      apply List.Pairwise.imp _ hsep
      intro a b hab x y hx hy
      exact separated_precede a b hab x.key y.key hx hy)
  rw [List.flatMap_map] at h
  rw [h]
  apply List.filter_congr
  intro r _
  rw [List.any_map]
  exact mergeSimpleRanges_union srs r.key

end Emu.Proofs.Ranges
