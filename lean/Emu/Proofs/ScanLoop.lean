/-
  The ReadRows callback loop as the code has it (`addRow` returns false once the limit is
  reached), run under two iteration disciplines: one that honours the callback's `false`
  (google/btree, the repaired leveldb iteration) and one that ignores it (leveldb before the
  repair).  For this callback both give the same rows, and they are the Model's declarative `scan`.
-/
import Emu.Bt.Read

namespace Emu.Proofs.ScanLoop
open Emu Emu.Bt

structure Loop where
  count : Nat := 0
  out : List Row := []
deriving Inhabited

/-- the `addRow` closure of `ReadRows` (filters are validated before the scan, so `filterRow`
    cannot fail here): returns the new state and whether the iteration should go on -/
def addRow (sch : Schema) (rnd : Int) (f : Filter) (limit : Int) (st : Loop) (r : Row) : Loop × Bool :=
  if limit > 0 && decide (st.count ≥ limit.toNat) then (st, false)
  else
    match emitRow sch rnd f r with
    | none => (st, true)
    | some o => ({ count := st.count + 1, out := st.out ++ [o] }, true)

/-- iteration that stops when the callback says so -/
def ascendStop (cb : Loop → Row → Loop × Bool) : Loop → List Row → Loop
  | st, [] => st
  | st, r :: rs => if (cb st r).2 then ascendStop cb (cb st r).1 rs else (cb st r).1

/-- iteration that calls the callback for every row regardless -/
def ascendAll (cb : Loop → Row → Loop × Bool) (st : Loop) (rows : List Row) : Loop :=
  rows.foldl (fun st r => (cb st r).1) st

theorem addRow_full (sch : Schema) (rnd : Int) (f : Filter) (limit : Int) (st : Loop) (r : Row)
    (hl : limit > 0) (hfull : st.count ≥ limit.toNat) : addRow sch rnd f limit st r = (st, false) := by
  simp [addRow, hl, hfull]

theorem addRow_open (sch : Schema) (rnd : Int) (f : Filter) (limit : Int) (st : Loop) (r : Row)
    (h : ¬ (limit > 0 ∧ st.count ≥ limit.toNat)) :
    addRow sch rnd f limit st r =
      match emitRow sch rnd f r with
      | none => (st, true)
      | some o => ({ count := st.count + 1, out := st.out ++ [o] }, true) := by
  have : (decide (limit > 0) && decide (st.count ≥ limit.toNat)) = false := by
    rw [Bool.and_eq_false_iff]; simp only [decide_eq_false_iff_not]
    by_cases h1 : limit > 0
    · right; exact fun h2 => h ⟨h1, h2⟩
    · left; exact h1
  simp only [addRow, this, Bool.false_eq_true, if_false]

theorem addRow_halted_stays (sch : Schema) (rnd : Int) (f : Filter) (limit : Int) (st : Loop) (r : Row)
    (h : (addRow sch rnd f limit st r).2 = false) (r' : Row) :
    addRow sch rnd f limit st r' = (st, false) ∧ (addRow sch rnd f limit st r).1 = st := by
  by_cases hc : limit > 0 ∧ st.count ≥ limit.toNat
  · exact ⟨addRow_full _ _ _ _ _ _ hc.1 hc.2, by rw [addRow_full _ _ _ _ _ _ hc.1 hc.2]⟩
  · rw [addRow_open _ _ _ _ _ _ hc] at h
    cases he : emitRow sch rnd f r <;> simp [he] at h

theorem ascendAll_halted (sch : Schema) (rnd : Int) (f : Filter) (limit : Int) (st : Loop) (rows : List Row)
    (h : ∀ r', addRow sch rnd f limit st r' = (st, false)) :
    ascendAll (addRow sch rnd f limit) st rows = st := by
  induction rows with
  | nil => rfl
  | cons r rs ih => simp only [ascendAll, List.foldl_cons, h r] at ih ⊢; exact ih

/-- **The iteration discipline is unobservable for the ReadRows callback.** -/
theorem stop_eq_all (sch : Schema) (rnd : Int) (f : Filter) (limit : Int) (st : Loop) (rows : List Row) :
    ascendStop (addRow sch rnd f limit) st rows = ascendAll (addRow sch rnd f limit) st rows := by
  induction rows generalizing st with
  | nil => rfl
  | cons r rs ih =>
    simp only [ascendStop, ascendAll, List.foldl_cons]
    cases hc : (addRow sch rnd f limit st r).2 with
    | true => simp only [if_true]; exact ih _
    | false =>
      simp only [Bool.false_eq_true, if_false]
      obtain ⟨h1, h2⟩ := addRow_halted_stays sch rnd f limit st r hc r
      rw [h2]
      have := ascendAll_halted sch rnd f limit st rs (fun r' => (addRow_halted_stays sch rnd f limit st r hc r').1)
      simp only [ascendAll] at this
      exact this.symm

/-- the loop computes "the first `limit` rows that produce output" -/
theorem ascendAll_out (sch : Schema) (rnd : Int) (f : Filter) (limit : Int) (st : Loop) (rows : List Row)
    (hst : st.count = st.out.length) :
    (ascendAll (addRow sch rnd f limit) st rows).out =
      (if limit > 0 then (st.out ++ rows.filterMap (emitRow sch rnd f)).take (max st.out.length limit.toNat)
       else st.out ++ rows.filterMap (emitRow sch rnd f)) ∧
    (ascendAll (addRow sch rnd f limit) st rows).count = (ascendAll (addRow sch rnd f limit) st rows).out.length := by
  induction rows generalizing st with
  | nil =>
    simp only [ascendAll, List.foldl_nil, List.filterMap_nil, List.append_nil]
    refine ⟨?_, hst⟩
    split
    · rw [List.take_of_length_le]; omega
    · rfl
  | cons r rs ih =>
    have hcons : ascendAll (addRow sch rnd f limit) st (r :: rs) =
        ascendAll (addRow sch rnd f limit) (addRow sch rnd f limit st r).1 rs := rfl
    rw [hcons]
    by_cases hc : limit > 0 ∧ st.count ≥ limit.toNat
    · rw [addRow_full _ _ _ _ _ _ hc.1 hc.2]
      have := ih st hst
      simp only [hc.1, if_true] at this ⊢
      refine ⟨?_, this.2⟩
      rw [this.1]
      have hm : max st.out.length limit.toNat = st.out.length := by omega
      rw [hm, List.take_append_of_le_length (Nat.le_refl _), List.take_append_of_le_length (Nat.le_refl _)]
    · rw [addRow_open _ _ _ _ _ _ hc]
      cases he : emitRow sch rnd f r with
      | none =>
        simp only [List.filterMap_cons, he]
        exact ih st hst
      | some o =>
        simp only [List.filterMap_cons, he]
        have := ih { count := st.count + 1, out := st.out ++ [o] } (by simp [hst])
        simp only [List.append_assoc, List.singleton_append, List.length_append, List.length_singleton] at this ⊢
        refine ⟨?_, this.2⟩
        rw [this.1]
        split
        · rename_i hl
          congr 1
          have : ¬ st.count ≥ limit.toNat := fun h2 => hc ⟨hl, h2⟩
          omega
        · rfl

/-- the code's loop over the merged ranges, sharing `count` across ranges -/
def scanLoop (sch : Schema) (rnd : Int) (f : Filter) (limit : Int) (honourStop : Bool)
    (srs : List SimpleRange) (rows : Rows) : List Row :=
  (srs.foldl (fun st sr =>
      (if honourStop then ascendStop else ascendAll) (addRow sch rnd f limit) st (rows.filter (sr.contains ·.key)))
    ({} : Loop)).out

theorem scanLoop_eq_scan (sch : Schema) (rnd : Int) (f : Filter) (limit : Int) (honourStop : Bool)
    (srs : List SimpleRange) (rows : Rows) :
    scanLoop sch rnd f limit honourStop srs rows =
      applyLimit limit ((scanVisit srs rows).filterMap (emitRow sch rnd f)) := by
  have hall : scanLoop sch rnd f limit honourStop srs rows =
      (ascendAll (addRow sch rnd f limit) {} (scanVisit srs rows)).out := by
    unfold scanLoop scanVisit
    have : ∀ st : Loop, (srs.foldl (fun st sr =>
        (if honourStop then ascendStop else ascendAll) (addRow sch rnd f limit) st (rows.filter (sr.contains ·.key))) st)
        = ascendAll (addRow sch rnd f limit) st (srs.flatMap fun sr => rows.filter (sr.contains ·.key)) := by
      induction srs with
      | nil => intro st; rfl
      | cons sr srs ih =>
        intro st
        simp only [List.foldl_cons, List.flatMap_cons]
        rw [ih]
        cases honourStop
        · simp [ascendAll, List.foldl_append]
        · simp only [if_true, stop_eq_all]; simp [ascendAll, List.foldl_append]
    rw [this]
  rw [hall]
  have := (ascendAll_out sch rnd f limit {} (scanVisit srs rows) rfl).1
  rw [this]
  unfold applyLimit
  split
  · simp
  · simp

end Emu.Proofs.ScanLoop
