/-
  The chunking law of resumable uploads (`resumeStep`, used by Props C02).
-/
import Emu.Gcs.Server

namespace Emu.Proofs.Resumable
open Emu Emu.Gcs

/-- `data` is an initial segment of the payload `P`. -/
def IsPrefix (data P : Bytes) : Prop := data = P.take data.length

/-- A request that carries (any part of) payload `P`: either no bytes (`*`: status query or
    finalisation) or the bytes of `P` from offset `lo`; a declared total size, if any, is `|P|`. -/
def IsChunkOf (P : Bytes) (r : ByteRange) (body : Bytes) : Prop :=
  (r.sz = -1 ∨ r.sz = P.length) ∧
  ((r.lo = -1 ∧ body = []) ∨
   (0 ≤ r.lo ∧ body = (P.drop r.lo.toNat).take body.length ∧ r.lo.toNat + body.length ≤ P.length))

theorem isPrefix_nil (P : Bytes) : IsPrefix [] P := by simp [IsPrefix]

theorem isPrefix_length_le {data P : Bytes} (h : IsPrefix data P) : data.length ≤ P.length := by
  unfold IsPrefix at h
  have := congrArg List.length h
  simp at this; omega

theorem isPrefix_take {data P : Bytes} (h : IsPrefix data P) (k : Nat) (hk : k ≤ data.length) :
    data.take k = P.take k := by
  unfold IsPrefix at h
  rw [h, List.take_take]; congr 1; omega

theorem resumeData_prefix (P data : Bytes) (r : ByteRange) (body : Bytes)
    (hd : IsPrefix data P) (hc : IsChunkOf P r body) (hok : resumeRejects data r body = false) :
    IsPrefix (resumeData data r body) P := by
  unfold resumeData
  unfold resumeRejects at hok
  simp only [Bool.or_eq_false_iff, decide_eq_false_iff_not, Int.not_lt] at hok
  obtain ⟨⟨_, _⟩, hmiss⟩ := hok
  obtain ⟨_, hb⟩ := hc
  cases hb with
  | inl h =>
    obtain ⟨hlo, hbody⟩ := h
    simp [hlo, hbody]; exact hd
  | inr h =>
    obtain ⟨hlo, hbody, hlen⟩ := h
    have hne : (r.lo != -1) = true := by simp; omega
    simp only [hne, if_true]
    have hle : r.lo.toNat ≤ data.length := by omega
    rw [isPrefix_take hd _ hle]
    unfold IsPrefix
    have hl : (P.take r.lo.toNat ++ body).length = r.lo.toNat + body.length := by
      simp; have := isPrefix_length_le hd; omega
    rw [hl, List.take_add, ← hbody]

/-- One request keeps the buffer an initial segment of the payload (accepted or rejected). -/
theorem resumeStep_prefix (P data : Bytes) (r : ByteRange) (body : Bytes)
    (hd : IsPrefix data P) (hc : IsChunkOf P r body) : IsPrefix (resumeStep data r body).2 P := by
  unfold resumeStep
  cases hrej : resumeRejects data r body with
  | true => simpa using hd
  | false =>
    have := resumeData_prefix P data r body hd hc hrej
    simp only [Bool.false_eq_true, if_false]
    split <;> exact this

/-- The request that completes the upload hands exactly the payload to `finishUpload`. -/
theorem resumeStep_done (P data : Bytes) (r : ByteRange) (body d : Bytes)
    (hd : IsPrefix data P) (hc : IsChunkOf P r body)
    (hdone : (resumeStep data r body).1 = .done d) : d = P := by
  unfold resumeStep at hdone
  cases hrej : resumeRejects data r body with
  | true => simp [hrej] at hdone
  | false =>
    have hp := resumeData_prefix P data r body hd hc hrej
    simp only [hrej, Bool.false_eq_true, if_false] at hdone
    split at hdone
    · simp at hdone
    · rename_i hfin
      simp only [ResumeOut.done.injEq] at hdone
      subst hdone
      obtain ⟨hsz, _⟩ := hc
      simp only [Bool.or_eq_true, decide_eq_true_eq, not_or, Int.not_lt] at hfin
      have hlen := isPrefix_length_le hp
      unfold IsPrefix at hp
      cases hsz with
      | inl h => omega
      | inr h =>
        have : P.length ≤ (resumeData data r body).length := by omega
        rw [hp, List.take_of_length_le this]

/-- Feed a whole sequence of requests; collect the payloads handed over at completions. -/
def feed (data : Bytes) : List (ByteRange × Bytes) → Bytes × List Bytes
  | [] => (data, [])
  | (r, body) :: rest =>
    let res := resumeStep data r body
    let (dfin, outs) := feed res.2 rest
    match res.1 with
    | .done d => (dfin, d :: outs)
    | _ => (dfin, outs)

/-- **Chunking law.**  For every payload and every sequence of requests that carry parts of it —
    in any chunking, with re-sent or overlapping ranges, status queries, finalisation requests,
    gaps and length mismatches (which are rejected) — the buffer is always an initial segment of
    the payload, and every completion hands over exactly the payload. -/
theorem chunking_law (P : Bytes) (reqs : List (ByteRange × Bytes)) (data : Bytes)
    (hd : IsPrefix data P) (hreqs : ∀ q ∈ reqs, IsChunkOf P q.1 q.2) :
    IsPrefix (feed data reqs).1 P ∧ ∀ d ∈ (feed data reqs).2, d = P := by
  induction reqs generalizing data with
  | nil => simp [feed]; exact hd
  | cons q rest ih =>
    obtain ⟨r, body⟩ := q
    have hq := hreqs (r, body) (by simp)
    have hp := resumeStep_prefix P data r body hd hq
    have := ih (resumeStep data r body).2 hp (fun q hq' => hreqs q (by simp [hq']))
    simp only [feed]
    cases hres : (resumeStep data r body).1 with
    | done d =>
      have hdP := resumeStep_done P data r body d hd hq hres
      simp only [hres]
      refine ⟨this.1, ?_⟩
      intro x hx
      simp only [List.mem_cons] at hx
      cases hx with
      | inl e => rw [e, hdP]
      | inr h => exact this.2 x h
    | bad => simp only [hres]; exact this
    | more k => simp only [hres]; exact this

end Emu.Proofs.Resumable
