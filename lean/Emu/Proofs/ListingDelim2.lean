/-
  Listing with a delimiter, part 2: following the page tokens.
-/
import Emu.Proofs.ListingDelim

namespace Emu.Proofs.ListingDelim
open Emu Emu.Gcs Emu.Proofs.Listing Emu.Proofs.Drop

/-- the `skip` prefix a page computes from its cursor -/
def skipOf (pfx delim c : Bytes) : Bytes :=
  if Bytes.hasPrefix c pfx then (collapse pfx delim c).getD [] else []

/-- names beyond the cursor that carry the listing prefix -/
def beyond (pfx c : Bytes) (names : List Bytes) : List Bytes :=
  names.filter fun n => decide (c < n) && Bytes.hasPrefix n pfx

/-- the cursor sits at the end of a block: no name beyond it rolls up into the cursor's own prefix -/
def BlockEnd (pfx delim c : Bytes) (names : List Bytes) : Prop :=
  ∀ n ∈ names, c < n → Bytes.hasPrefix n pfx = true →
    (skipOf pfx delim c).isEmpty = true ∨ Bytes.hasPrefix n (skipOf pfx delim c) = false

theorem rel_eq_beyond (pfx delim c : Bytes) (names : List Bytes) (h : BlockEnd pfx delim c names) :
    names.filter (relevant pfx c (skipOf pfx delim c)) = beyond pfx c names := by
  unfold beyond
  apply List.filter_congr
  intro n hn
  unfold relevant
  by_cases h1 : c < n
  · by_cases h2 : Bytes.hasPrefix n pfx = true
    · cases h n hn h1 h2 with
      | inl e => simp [h1, h2, e]
      | inr e => simp [h1, h2, e]
    · simp [h2]
  · simp [h1]

theorem sorted_filter (names : List Bytes) (hs : NamesSorted names) (f : Bytes → Bool) : NamesSorted (names.filter f) :=
  List.Pairwise.filter _ hs

/-- in a sorted list split in two, the names beyond the last name of the first part are the second part -/
theorem filter_gt_last (R1 R2 : List Bytes) (hs : NamesSorted (R1 ++ R2)) (l : Bytes) (hl : R1.getLast? = some l) :
    (R1 ++ R2).filter (fun n => decide (l < n)) = R2 := by
  unfold NamesSorted at hs
  rw [List.pairwise_append] at hs
  obtain ⟨h1, h2, h12⟩ := hs
  have hmem : l ∈ R1 := List.mem_of_getLast? hl
  rw [List.filter_append]
  have e1 : R1.filter (fun n => decide (l < n)) = [] := by
    rw [List.filter_eq_nil_iff]
    intro x hx
    simp only [decide_eq_true_eq]
    -- x ≤ l because l is the last element of the sorted R1
    obtain ⟨pre, hpre⟩ : ∃ pre, R1 = pre ++ [l] := by
      have := List.getLast?_eq_some_iff.mp hl
      obtain ⟨ys, hys⟩ := this
      exact ⟨ys, hys⟩
    rw [hpre, List.mem_append, List.mem_singleton] at hx
    rw [hpre, List.pairwise_append] at h1
    cases hx with
    | inl hx => exact fun hlt => absurd (Std.lt_trans (h1.2.2 x hx l (by simp)) hlt) (List.lt_irrefl _)
    | inr hx => rw [hx]; exact List.lt_irrefl _
  have e2 : R2.filter (fun n => decide (l < n)) = R2 := by
    rw [List.filter_eq_self]
    intro x hx
    simp only [decide_eq_true_eq]
    exact h12 l hmem x hx
  rw [e1, e2, List.nil_append]

theorem hasPrefix_trans (n cp pfx : Bytes) (h1 : Bytes.hasPrefix n cp = true) (h2 : Bytes.hasPrefix cp pfx = true) :
    Bytes.hasPrefix n pfx = true := by
  unfold Bytes.hasPrefix at *
  rw [List.isPrefixOf_iff_prefix] at *
  exact List.IsPrefix.trans h2 h1

/-- a rolled-up prefix extends the listing prefix (for a name that has it) -/
theorem collapse_extends (pfx delim n cp : Bytes) (h : collapse pfx delim n = some cp) (hp : Bytes.hasPrefix n pfx = true) :
    Bytes.hasPrefix cp pfx = true := by
  obtain ⟨_, i, _, hcp⟩ := (collapse_some_iff pfx delim n cp).mp h
  have ht := (hasPrefix_iff_take n pfx).mp hp
  rw [hasPrefix_iff_take, hcp, List.take_take]
  have : min pfx.length (pfx.length + i + delim.length) = pfx.length := by omega
  rw [this, ht]

/-- **One page of the real listing**, from a cursor at a block end: it consumes an initial segment
    `R1` of the names beyond the cursor, reports its items and its rolled-up prefixes (each once),
    and issues a token iff a name is left; the token is the last consumed name. -/
theorem listPage_delim (names : List Bytes) (hs : NamesSorted names) (pfx delim c : Bytes) (max : Nat)
    (hbe : BlockEnd pfx delim c names) :
    ∃ R1 R2, beyond pfx c names = R1 ++ R2 ∧
      (listPage names pfx delim c max).items = uitems pfx delim R1 ∧
      (listPage names pfx delim c max).prefixes = newPrefs pfx delim [] R1 ∧
      (listPage names pfx delim c max).more = !R2.isEmpty ∧
      (listPage names pfx delim c max).last = (R1.getLast?).getD [] ∧
      (∀ h t, R2 = h :: t → isNew pfx delim (newPrefs pfx delim [] R1) h = true) ∧
      (R1 = [] → beyond pfx c names = [] ∨ max = 0 ∨ R2 = []) := by
  have hcore := fold_pageStep_core pfx delim c (skipOf pfx delim c) max names hs {}
  rw [rel_eq_beyond pfx delim c names hbe] at hcore
  obtain ⟨R1, R2, e, i1, i2, i3, i4, i5, i6⟩ := fold_estep pfx delim max (beyond pfx c names) {} rfl rfl
  have hp : core (listPage names pfx delim c max) = core ((beyond pfx c names).foldl (estep pfx delim max) {}) := by
    unfold listPage; exact hcore
  simp only [core, Prod.mk.injEq] at hp
  obtain ⟨c1, c2, _, c4, c5⟩ := hp
  refine ⟨R1, R2, e, ?_, ?_, ?_, ?_, ?_, ?_⟩
  · rw [c1, i1]; simp
  · rw [c2, i2]; simp
  · rw [c4, i3]
  · rw [c5, i4]
  · simpa using i5
  · intro h; have := i6 h; simpa using this

/-! ### from one page to the next -/

theorem mem_newPrefs_nil (pfx delim : Bytes) (R : List Bytes) (cp : Bytes) :
    cp ∈ newPrefs pfx delim [] R ↔ ∃ n ∈ R, collapse pfx delim n = some cp := by
  unfold newPrefs
  rw [List.mem_eraseDups]
  simp [List.mem_filterMap]

/-- the situation after a page that issued a token -/
structure Split (pfx delim c : Bytes) (names R1 R2 : List Bytes) (c' h : Bytes) (t : List Bytes) : Prop where
  sorted : NamesSorted names
  split : beyond pfx c names = R1 ++ R2
  r2 : R2 = h :: t
  last : R1.getLast? = some c'
  fresh : isNew pfx delim (newPrefs pfx delim [] R1) h = true

namespace Split
variable {pfx delim c : Bytes} {names R1 R2 : List Bytes} {c' h : Bytes} {t : List Bytes}

theorem sortedR (S : Split pfx delim c names R1 R2 c' h t) : NamesSorted (R1 ++ R2) := by
  rw [← S.split]; exact sorted_filter names S.sorted _

theorem c'_mem (S : Split pfx delim c names R1 R2 c' h t) : c' ∈ beyond pfx c names := by
  rw [S.split]; exact List.mem_append_left _ (List.mem_of_getLast? S.last)

theorem c_lt (S : Split pfx delim c names R1 R2 c' h t) : c < c' := by
  have := S.c'_mem
  simp only [beyond, List.mem_filter, Bool.and_eq_true, decide_eq_true_eq] at this
  exact this.2.1

theorem c'_pfx (S : Split pfx delim c names R1 R2 c' h t) : Bytes.hasPrefix c' pfx = true := by
  have := S.c'_mem
  simp only [beyond, List.mem_filter, Bool.and_eq_true, decide_eq_true_eq] at this
  exact this.2.2

/-- the names beyond the new cursor are exactly the unconsumed ones -/
theorem beyond_next (S : Split pfx delim c names R1 R2 c' h t) : beyond pfx c' names = R2 := by
  have h1 : beyond pfx c' names = (beyond pfx c names).filter (fun n => decide (c' < n)) := by
    unfold beyond
    rw [List.filter_filter]
    apply List.filter_congr
    intro n _
    by_cases hlt : c' < n
    · have : c < n := Std.lt_trans S.c_lt hlt
      simp [hlt, this]
    · simp [hlt]
  rw [h1, S.split]
  exact filter_gt_last R1 R2 S.sortedR c' S.last

theorem lt_R2 (S : Split pfx delim c names R1 R2 c' h t) (x : Bytes) (hx : x ∈ R1) (y : Bytes) (hy : y ∈ R2) : x < y := by
  have := S.sortedR
  unfold NamesSorted at this
  rw [List.pairwise_append] at this
  exact this.2.2 x hx y hy

theorem h_le (S : Split pfx delim c names R1 R2 c' h t) (y : Bytes) (hy : y ∈ R2) : h ≤ y := by
  have hs := S.sortedR
  unfold NamesSorted at hs
  rw [List.pairwise_append] at hs
  have h2 := hs.2.1
  rw [S.r2, List.pairwise_cons] at h2
  rw [S.r2, List.mem_cons] at hy
  cases hy with
  | inl e => rw [e]; exact Std.le_refl _
  | inr hy => exact Std.le_of_lt (h2.1 y hy)

/-- no name still to come rolls up into a prefix already reported -/
theorem no_repeat (S : Split pfx delim c names R1 R2 c' h t) (n1 : Bytes) (h1 : n1 ∈ R1) (n2 : Bytes) (h2 : n2 ∈ R2)
    (cp : Bytes) (e1 : collapse pfx delim n1 = some cp) : collapse pfx delim n2 ≠ some cp := by
  intro e2
  have hh : h ∈ R2 := by rw [S.r2]; simp
  have hmid : collapse pfx delim h = some cp :=
    collapse_between pfx delim n1 h n2 cp e1 e2 (Std.le_of_lt (S.lt_R2 n1 h1 h hh)) (S.h_le n2 h2)
  have hin : cp ∈ newPrefs pfx delim [] R1 := (mem_newPrefs_nil pfx delim R1 cp).mpr ⟨n1, h1, e1⟩
  have := S.fresh
  simp only [isNew, hmid, Bool.not_eq_true', List.contains_eq_mem, decide_eq_false_iff_not] at this
  exact this hin

/-- the new cursor sits at a block end -/
theorem blockEnd_next (S : Split pfx delim c names R1 R2 c' h t) : BlockEnd pfx delim c' names := by
  intro n hn hlt hp
  unfold skipOf
  simp only [S.c'_pfx, if_true]
  cases hc : collapse pfx delim c' with
  | none => left; rfl
  | some cp =>
    right
    simp only [Option.getD_some]
    cases hpre : Bytes.hasPrefix n cp with
    | false => rfl
    | true =>
      have hcn : collapse pfx delim n = some cp := collapse_of_hasPrefix pfx delim c' n cp hc hpre
      have hn2 : n ∈ R2 := by
        rw [← S.beyond_next]
        simp [beyond, hn, hlt, hp]
      exact absurd hcn (S.no_repeat c' (List.mem_of_getLast? S.last) n hn2 cp hc)

/-- the rolled-up prefixes of both parts together are those of the first followed by those of the second -/
theorem newPrefs_append (S : Split pfx delim c names R1 R2 c' h t) :
    newPrefs pfx delim [] (R1 ++ R2) = newPrefs pfx delim [] R1 ++ newPrefs pfx delim [] R2 := by
  have hf : ∀ l : List Bytes, l.filter (fun cp => !([] : List Bytes).contains cp) = l := by
    intro l; rw [List.filter_eq_self]; intro _ _; simp
  unfold newPrefs
  rw [hf, hf, hf, List.filterMap_append, List.eraseDups_append]
  congr 2
  unfold List.removeAll
  rw [List.filter_eq_self]
  intro cp hcp
  simp only [List.mem_filterMap] at hcp
  obtain ⟨n2, hn2, e2⟩ := hcp
  simp only [Bool.not_eq_true', List.elem_eq_mem, decide_eq_false_iff_not, List.mem_filterMap, not_exists, not_and]
  intro n1 hn1 e1
  exact S.no_repeat n1 hn1 n2 hn2 cp e1 e2

end Split

/-! ### the whole pagination -/

theorem uitems_append (pfx delim : Bytes) (R1 R2 : List Bytes) :
    uitems pfx delim (R1 ++ R2) = uitems pfx delim R1 ++ uitems pfx delim R2 := by
  unfold uitems; exact List.filter_append ..

/-- **Following the tokens** from a cursor at a block end yields, page after page, exactly the
    items and the rolled-up prefixes (each once) of the names beyond the cursor, and ends with a
    page without token. -/
theorem listAll_delim (names : List Bytes) (hs : NamesSorted names) (pfx delim : Bytes) (max : Nat) (hmax : max ≥ 1) :
    ∀ (k : Nat) (c : Bytes), BlockEnd pfx delim c names → (beyond pfx c names).length ≤ k →
      ∀ fuel, fuel ≥ k + 1 →
        (listAll names pfx delim max fuel c).flatMap (·.items) = uitems pfx delim (beyond pfx c names) ∧
        (listAll names pfx delim max fuel c).flatMap (·.prefixes) = newPrefs pfx delim [] (beyond pfx c names) ∧
        (listAll names pfx delim max fuel c).getLast?.map (·.more) = some false := by
  intro k
  induction k with
  | zero =>
    intro c hbe hlen fuel hfuel
    obtain ⟨f, rfl⟩ : ∃ f, fuel = f + 1 := ⟨fuel - 1, by omega⟩
    have hnil : beyond pfx c names = [] := List.length_eq_zero_iff.mp (Nat.le_zero.mp hlen)
    obtain ⟨R1, R2, e, i1, i2, i3, _, _, _⟩ := listPage_delim names hs pfx delim c max hbe
    rw [hnil] at e
    have h1 : R1 = [] := (List.append_eq_nil_iff.mp e.symm).1
    have h2 : R2 = [] := (List.append_eq_nil_iff.mp e.symm).2
    subst h1; subst h2
    have hm : (listPage names pfx delim c max).more = false := by rw [i3]; rfl
    simp only [listAll, hm, Bool.false_eq_true, if_false, List.flatMap_cons, List.flatMap_nil, List.append_nil, hnil]
    exact ⟨i1, i2, by simp [hm]⟩
  | succ k ih =>
    intro c hbe hlen fuel hfuel
    obtain ⟨f, rfl⟩ : ∃ f, fuel = f + 1 := ⟨fuel - 1, by omega⟩
    obtain ⟨R1, R2, e, i1, i2, i3, i4, i5, i6⟩ := listPage_delim names hs pfx delim c max hbe
    cases hR2 : R2 with
    | nil =>
      subst hR2
      have hm : (listPage names pfx delim c max).more = false := by rw [i3]; rfl
      simp only [listAll, hm, Bool.false_eq_true, if_false, List.flatMap_cons, List.flatMap_nil, List.append_nil]
      rw [e, List.append_nil]
      exact ⟨i1, i2, by simp [hm]⟩
    | cons h t =>
      have hm : (listPage names pfx delim c max).more = true := by rw [i3, hR2]; rfl
      have hR1 : R1 ≠ [] := by
        intro h0
        rcases i6 h0 with h' | h' | h'
        · rw [e, hR2] at h'; simp at h'
        · omega
        · rw [hR2] at h'; cases h'
      obtain ⟨c', hc'⟩ : ∃ c', R1.getLast? = some c' := ⟨_, List.getLast?_eq_some_getLast hR1⟩
      have hlast : (listPage names pfx delim c max).last = c' := by rw [i4, hc']; rfl
      have S : Split pfx delim c names R1 R2 c' h t := ⟨hs, e, hR2, hc', i5 h t hR2⟩
      have hlen2 : (beyond pfx c' names).length ≤ k := by
        rw [S.beyond_next]
        have : (R1 ++ R2).length ≤ k + 1 := by rw [← e]; exact hlen
        have : R1.length ≥ 1 := List.length_pos_iff.mpr hR1
        simp only [List.length_append] at *
        omega
      obtain ⟨j1, j2, j3⟩ := ih c' S.blockEnd_next hlen2 f (by omega)
      simp only [listAll, hm, if_true, List.flatMap_cons, hlast]
      refine ⟨?_, ?_, ?_⟩
      · rw [j1, i1, S.beyond_next, e, uitems_append]
      · rw [j2, i2, S.beyond_next, e, S.newPrefs_append]
      · cases hrest : listAll names pfx delim max f c' with
        | nil => rw [hrest] at j3; simp at j3
        | cons q qs => rw [List.getLast?_cons_cons, ← hrest]; exact j3

/-- every page of the iteration is a well-formed page (size bound, no prefix twice) -/
theorem listAll_pages_ok (names : List Bytes) (pfx delim : Bytes) (max : Nat) :
    ∀ (fuel : Nat) (c : Bytes), ∀ p ∈ listAll names pfx delim max fuel c, PageOk max p
  | 0, _, p, hp => by simp [listAll] at hp
  | fuel + 1, c, p, hp => by
    simp only [listAll] at hp
    split at hp
    · rw [List.mem_cons] at hp
      cases hp with
      | inl e => rw [e]; exact listPage_ok names pfx delim c max
      | inr h => exact listAll_pages_ok names pfx delim max fuel _ p h
    · rw [List.mem_singleton] at hp
      rw [hp]; exact listPage_ok names pfx delim c max

theorem filterMap_filter_if {α β} (f : α → Bool) (g : α → Option β) (l : List α) :
    (l.filter f).filterMap g = l.filterMap (fun x => if f x then g x else none) := by
  induction l with
  | nil => rfl
  | cons x xs ih =>
    by_cases h : f x = true
    · rw [List.filter_cons, if_pos h, List.filterMap_cons, List.filterMap_cons, ih]
      simp [h]
    · rw [List.filter_cons, if_neg h, List.filterMap_cons, ih]
      simp [h]

/-- the empty cursor is a block end -/
theorem blockEnd_nil (pfx delim : Bytes) (hd : delim ≠ []) (names : List Bytes) : BlockEnd pfx delim [] names := by
  intro n _ _ _
  left
  unfold skipOf
  split
  · rename_i hp
    have : pfx = [] := by
      unfold Bytes.hasPrefix at hp
      cases pfx with
      | nil => rfl
      | cons a t => simp at hp
    subst this
    have : collapse [] delim [] = none := by
      unfold collapse
      have hde : delim.isEmpty = false := by cases delim with | nil => exact absurd rfl hd | cons _ _ => rfl
      simp only [hde, Bool.false_eq_true, if_false, List.length_nil, List.drop_nil]
      cases delim with
      | nil => exact absurd rfl hd
      | cons a t => simp [indexOf]
    simp [this]
  · rfl

end Emu.Proofs.ListingDelim
