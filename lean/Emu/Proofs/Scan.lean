/-
  Invariants of the scan machine `Emu.Bt.Scan` (C18).
-/
import Emu.Bt.Scan
import Emu.Proofs.Ranges

namespace Emu.Proofs.Scan
open Emu Emu.Bt Emu.Bt.Scan Emu.Proofs.BtRows Emu.Proofs.Ranges

structure Inv (srs : List SimpleRange) (s : St) : Prop where
  /-- visited rows followed by the rest of the open snapshot = what the opened ranges were given -/
  seen : s.visited ++ s.pending = s.seen
  /-- the opened ranges followed by the remaining ones are the request's ranges -/
  ranges : s.opened.map (·.1) ++ s.todo = srs
  /-- every snapshot is a state the table really had -/
  snaps : ∀ p ∈ s.opened, p.2 ∈ s.hist
  /-- the current state is in the history -/
  cur : s.cur ∈ s.hist

theorem inv_init (rows : Rows) (srs : List SimpleRange) : Inv srs (init rows srs) :=
  ⟨by simp [init, St.pending, St.seen], by simp [init], by simp [init], by simp [init]⟩

theorem inv_step (srs : List SimpleRange) (s s' : St) (a : Act) (h : Inv srs s) (hs : step s a = some s') : Inv srs s' := by
  cases a with
  | openRange =>
    simp only [step] at hs
    split at hs
    · rename_i hsnap htodo
      cases hs
      refine ⟨?_, ?_, ?_, h.cur⟩
      · have := h.seen
        simp only [St.pending, hsnap, Option.getD_none, List.append_nil] at this
        simp [St.pending, St.seen, List.flatMap_append, ← this]
        simp [St.seen] at this
        rw [this]
      · rw [← h.ranges, htodo]; simp
      · intro p hp
        simp only [List.mem_append, List.mem_singleton] at hp
        cases hp with
        | inl hp => exact h.snaps p hp
        | inr hp => rw [hp]; exact h.cur
    · cases hs
  | row =>
    simp only [step] at hs
    split at hs
    · rename_i r more hsnap
      cases hs
      refine ⟨?_, h.ranges, h.snaps, h.cur⟩
      have := h.seen
      simp only [St.pending, hsnap, Option.getD_some] at this
      simp only [St.pending, Option.getD_some, St.seen, List.append_assoc, List.singleton_append]
      exact this
    · cases hs
  | closeRange =>
    simp only [step] at hs
    split at hs
    · rename_i hsnap
      cases hs
      refine ⟨?_, h.ranges, h.snaps, h.cur⟩
      have := h.seen
      simp only [St.pending, hsnap, Option.getD_some, List.append_nil] at this
      simp only [St.pending, Option.getD_none, List.append_nil, St.seen]
      exact this
    · cases hs
  | write rows' =>
    simp only [step] at hs
    cases hs
    refine ⟨h.seen, h.ranges, ?_, by simp⟩
    intro p hp
    exact List.mem_append_left _ (h.snaps p hp)

theorem inv_run (srs : List SimpleRange) (acts : List Act) (s s' : St) (h : Inv srs s) (hr : run s acts = some s') : Inv srs s' := by
  induction acts generalizing s with
  | nil => simp [run] at hr; rw [← hr]; exact h
  | cons a rest ih =>
    simp only [run] at hr
    cases hs : step s a with
    | none => simp [hs] at hr
    | some s1 => simp only [hs] at hr; exact ih s1 (inv_step srs s s1 a h hs) hr

/-- the history only grows, so "every state the table had" includes the initial one -/
theorem hist_grows (acts : List Act) (s s' : St) (hr : run s acts = some s') : ∀ T ∈ s.hist, T ∈ s'.hist := by
  induction acts generalizing s with
  | nil => simp [run] at hr; rw [← hr]; intro T h; exact h
  | cons a rest ih =>
    simp only [run] at hr
    cases hs : step s a with
    | none => simp [hs] at hr
    | some s1 =>
      simp only [hs] at hr
      intro T hT
      apply ih s1 hr
      cases a with
      | write rows' => simp only [step] at hs; cases hs; exact List.mem_append_left _ hT
      | openRange => simp only [step] at hs; split at hs <;> cases hs; exact hT
      | row => simp only [step] at hs; split at hs <;> cases hs; exact hT
      | closeRange => simp only [step] at hs; split at hs <;> cases hs; exact hT

/-- rows given to separated ranges from sorted snapshots come out in strictly ascending key order -/
theorem seen_ascending (opened : List (SimpleRange × Rows)) (hsep : Separated (opened.map (·.1)))
    (hsorted : ∀ p ∈ opened, Sorted p.2) :
    (opened.flatMap fun p => p.2.filter (p.1.contains ·.key)).Pairwise (fun a b => a.key < b.key) := by
  induction opened with
  | nil => simp
  | cons p ps ih =>
    simp only [List.map_cons, Separated, List.pairwise_cons] at hsep
    simp only [List.flatMap_cons, List.pairwise_append]
    refine ⟨?_, ?_, ?_⟩
    · exact List.Pairwise.filter _ (hsorted p (by simp))
    · exact ih hsep.2 (fun q hq => hsorted q (List.mem_cons_of_mem _ hq))
    · intro x hx y hy
      simp only [List.mem_filter] at hx
      simp only [List.mem_flatMap, List.mem_filter] at hy
      obtain ⟨q, hq, _, hyq⟩ := hy
      have hsep1 := hsep.1 q.1 (List.mem_map_of_mem hq)
      exact separated_precede p.1 q.1 hsep1 x.key y.key hx.2 hyq

end Emu.Proofs.Scan
