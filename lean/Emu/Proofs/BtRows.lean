/-
  The row store of the Bigtable Model: a list kept strictly ascending by key.
-/
import Emu.Proofs.BtInv

namespace Emu.Proofs.BtRows
open Emu Emu.Bt Emu.Proofs.BtRow Emu.Proofs.BtInv

def Sorted (rows : Rows) : Prop := rows.Pairwise (fun a b => a.key < b.key)

theorem mem_put (rows : Rows) (r x : Row) (h : x ∈ Rows.put rows r) : x = r ∨ x ∈ rows := by
  induction rows with
  | nil => simp [Rows.put] at h; exact Or.inl h
  | cons y ys ih =>
    simp only [Rows.put] at h
    split at h
    · simp only [List.mem_cons] at h ⊢; exact h
    · split at h
      · simp only [List.mem_cons] at h ⊢
        cases h with
        | inl e => exact Or.inl e
        | inr h' => exact Or.inr (Or.inr h')
      · simp only [List.mem_cons] at h ⊢
        cases h with
        | inl e => exact Or.inr (Or.inl e)
        | inr h' =>
          cases ih h' with
          | inl e => exact Or.inl e
          | inr h'' => exact Or.inr (Or.inr h'')

theorem get_put_self (rows : Rows) (r : Row) : (Rows.put rows r).get r.key = some r := by
  induction rows with
  | nil => simp [Rows.put, Rows.get]
  | cons y ys ih =>
    simp only [Rows.put]
    split
    · simp [Rows.get]
    · split
      · simp [Rows.get]
      · rename_i h1 h2
        have : (y.key == r.key) = false := _root_.beq_false_of_ne (fun e => h2 e.symm)
        simp only [Rows.get, List.find?_cons, this]
        exact ih

theorem get_put_other (rows : Rows) (r : Row) (k : Bytes) (h : k ≠ r.key) :
    (Rows.put rows r).get k = rows.get k := by
  have hr : (r.key == k) = false := _root_.beq_false_of_ne (fun e => h e.symm)
  induction rows with
  | nil => simp [Rows.put, Rows.get, hr]
  | cons y ys ih =>
    simp only [Rows.put]
    split
    · simp [Rows.get, List.find?_cons, hr]
    · split
      · rename_i _ heq
        have hy : (y.key == k) = false := by rw [← heq]; exact hr
        simp [Rows.get, List.find?_cons, hr, hy]
      · simp only [Rows.get, List.find?_cons] at ih ⊢
        split
        · rfl
        · exact ih

theorem get_delete_self (rows : Rows) (k : Bytes) : (Rows.delete rows k).get k = none := by
  simp only [Rows.delete, Rows.get, List.find?_eq_none, List.mem_filter]
  intro x ⟨_, hx⟩; simpa using hx

theorem get_delete_other (rows : Rows) (k k' : Bytes) (h : k' ≠ k) :
    (Rows.delete rows k).get k' = rows.get k' := by
  simp only [Rows.delete, Rows.get, List.find?_filter]
  congr 1
  funext a
  by_cases ha : a.key = k'
  · simp [ha, h]
  · simp [ha]

theorem sorted_delete (rows : Rows) (k : Bytes) (h : Sorted rows) : Sorted (Rows.delete rows k) :=
  List.Pairwise.filter _ h

theorem sorted_put (rows : Rows) (r : Row) (h : Sorted rows) : Sorted (Rows.put rows r) := by
  induction rows with
  | nil => simp [Rows.put, Sorted]
  | cons y ys ih =>
    unfold Sorted at h ih ⊢
    rw [List.pairwise_cons] at h
    simp only [Rows.put]
    split
    · rename_i hlt
      rw [List.pairwise_cons]
      refine ⟨?_, List.pairwise_cons.mpr h⟩
      intro z hz
      simp only [List.mem_cons] at hz
      cases hz with
      | inl e => rw [e]; exact hlt
      | inr hz => have := h.1 z hz; exact Std.lt_trans hlt this
    · split
      · rename_i _ heq
        rw [List.pairwise_cons]
        refine ⟨?_, h.2⟩
        intro z hz; rw [heq]; exact h.1 z hz
      · rename_i h1 h2
        rw [List.pairwise_cons]
        refine ⟨?_, ih h.2⟩
        intro z hz
        cases mem_put ys r z hz with
        | inl e =>
          rw [e]
          grind
        | inr hm => exact h.1 z hm

/-! ### `Rows.update` -/

theorem scrubRow_key (sch : Schema) (r : Row) : (scrubRow sch r).key = r.key := rfl

theorem get_update_self (sch : Schema) (rows : Rows) (r : Row) :
    (Rows.update sch rows r).get r.key =
      if (scrubRow sch r).fams.isEmpty then none else some (scrubRow sch r) := by
  unfold Rows.update
  simp only
  split
  · exact get_delete_self rows r.key
  · have := get_put_self rows (scrubRow sch r); simpa [scrubRow_key] using this

theorem get_update_other (sch : Schema) (rows : Rows) (r : Row) (k : Bytes) (h : k ≠ r.key) :
    (Rows.update sch rows r).get k = rows.get k := by
  unfold Rows.update
  simp only
  split
  · exact get_delete_other rows r.key k h
  · exact get_put_other rows (scrubRow sch r) k h

theorem sorted_update (sch : Schema) (rows : Rows) (r : Row) (h : Sorted rows) : Sorted (Rows.update sch rows r) := by
  unfold Rows.update; simp only; split
  · exact sorted_delete _ _ h
  · exact sorted_put _ _ h

theorem mem_update (sch : Schema) (rows : Rows) (r x : Row) (h : x ∈ Rows.update sch rows r) :
    x = scrubRow sch r ∨ x ∈ rows := by
  unfold Rows.update at h; simp only at h; split at h
  · right; exact (List.mem_filter.mp h).1
  · exact mem_put rows _ x h

theorem get_mem (rows : Rows) (k : Bytes) (r : Row) (h : rows.get k = some r) : r ∈ rows ∧ r.key = k := by
  have h1 := List.mem_of_find?_eq_some h
  have h2 := List.find?_some h
  exact ⟨h1, by simpa using h2⟩

/-- every stored row is well formed -/
def AllInv (rows : Rows) : Prop := ∀ r ∈ rows, RowInv r

theorem getOrCreate_inv (rows : Rows) (k : Bytes) (h : AllInv rows) : RowInv (rows.getOrCreate k) := by
  unfold Rows.getOrCreate
  cases hg : rows.get k with
  | none => exact rowInv_empty k
  | some r => exact h r (get_mem rows k r hg).1

theorem allInv_update (sch : Schema) (rows : Rows) (r : Row) (h : AllInv rows) (hr : RowInv r) :
    AllInv (Rows.update sch rows r) := by
  intro x hx
  cases mem_update sch rows r x hx with
  | inl e => rw [e]; exact rowInv_scrubRow sch r hr
  | inr hm => exact h x hm

end Emu.Proofs.BtRows
