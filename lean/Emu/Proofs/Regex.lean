/-
  The derivative matcher decides the declarative language: `matches r s ↔ Lang r s`.
  (Whole-string by construction — this is "regexes match the whole field bytewise".)
-/
import Emu.Basic.Regex

namespace Emu.Proofs.Regex
open Emu Emu.Regex

theorem nullable_iff (r : Regex) : nullable r = true ↔ Lang r [] := by
  induction r with
  | empty => simp [nullable]; exact Lang.empty
  | never => simp [nullable]; intro h; cases h
  | byte c => simp [nullable]; intro h; cases h
  | anyByte => simp [nullable]; intro h; cases h
  | dot => simp [nullable]; intro h; cases h
  | cls neg rs => simp [nullable]; intro h; cases h
  | cat a b iha ihb =>
    simp only [nullable, Bool.and_eq_true, iha, ihb]
    constructor
    · rintro ⟨h1, h2⟩; exact Lang.cat (s := []) (t := []) h1 h2
    · intro h
      generalize hw : ([] : Bytes) = w at h
      cases h with
      | @cat _ _ s t h1 h2 =>
        have hst := List.append_eq_nil_iff.mp hw.symm
        obtain ⟨hs, ht⟩ := hst
        subst hs ht; exact ⟨h1, h2⟩
  | alt a b iha ihb =>
    simp only [nullable, Bool.or_eq_true, iha, ihb]
    constructor
    · rintro (h | h)
      · exact Lang.altL h
      · exact Lang.altR h
    · intro h
      cases h with
      | altL h => exact Or.inl h
      | altR h => exact Or.inr h
  | star a _ => simp [nullable]; exact Lang.starNil

/-- a non-empty word of `star a` starts with a non-empty word of `a` -/
theorem star_cons {a : Regex} {w : Bytes} (h : Lang (.star a) w) : ∀ x s, w = x :: s →
    ∃ s1 s2, s = s1 ++ s2 ∧ Lang a (x :: s1) ∧ Lang (.star a) s2 := by
  generalize hr : Regex.star a = r at h
  induction h with
  | empty => cases hr
  | byte => cases hr
  | anyByte => cases hr
  | dot => cases hr
  | cls => cases hr
  | cat => cases hr
  | altL => cases hr
  | altR => cases hr
  | starNil => intro x s h; cases h
  | @starCons a' s t h1 h2 _ ih2 =>
    cases hr
    intro x w hw
    cases s with
    | nil => exact ih2 rfl x w (by simpa using hw)
    | cons y s' =>
      simp only [List.cons_append, List.cons.injEq] at hw
      obtain ⟨rfl, rfl⟩ := hw
      exact ⟨s', t, rfl, h1, h2⟩

theorem deriv_iff (r : Regex) (x : Nat) (s : Bytes) : Lang (deriv x r) s ↔ Lang r (x :: s) := by
  induction r generalizing s with
  | empty =>
    simp only [deriv]
    constructor
    · intro h; cases h
    · intro h; cases h
  | never =>
    simp only [deriv]
    constructor
    · intro h; cases h
    · intro h; cases h
  | byte c =>
    simp only [deriv]
    split
    · rename_i hxc
      have e : x = c := by simpa using hxc
      subst e
      constructor
      · intro h; cases h; exact Lang.byte x
      · intro h; cases h; exact Lang.empty
    · rename_i hxc
      constructor
      · intro h; cases h
      · intro h; cases h; simp at hxc
  | anyByte =>
    simp only [deriv]
    constructor
    · intro h; cases h; exact Lang.anyByte x
    · intro h; cases h; exact Lang.empty
  | dot =>
    simp only [deriv]
    split
    · rename_i hx
      constructor
      · intro h; cases h; exact Lang.dot x (by simpa using hx)
      · intro h; cases h; exact Lang.empty
    · rename_i hx
      constructor
      · intro h; cases h
      · intro h; cases h with | dot _ hne => simp at hx; exact absurd hx hne
  | cls neg rs =>
    simp only [deriv]
    split
    · rename_i hx
      constructor
      · intro h; cases h; exact Lang.cls neg rs x hx
      · intro h; cases h; exact Lang.empty
    · rename_i hx
      constructor
      · intro h; cases h
      · intro h; cases h with | cls _ _ _ hin => exact absurd hin hx
  | cat a b iha ihb =>
    simp only [deriv]
    constructor
    · intro h
      split at h
      · rename_i hn
        cases h with
        | altL h =>
          cases h with
          | cat h1 h2 => exact Lang.cat (s := x :: _) ((iha _).mp h1) h2
        | altR h =>
          have := (ihb _).mp h
          exact Lang.cat (s := []) ((nullable_iff a).mp hn) this
      · cases h with
        | cat h1 h2 => exact Lang.cat (s := x :: _) ((iha _).mp h1) h2
    · intro h
      generalize hw : x :: s = w at h
      cases h with
      | cat h1 h2 =>
        rename_i s1 t1
        cases s1 with
        | nil =>
          simp only [List.nil_append] at hw
          subst hw
          have hn := (nullable_iff a).mpr h1
          simp only [hn, if_true]
          exact Lang.altR ((ihb _).mpr h2)
        | cons y s1' =>
          simp only [List.cons_append, List.cons.injEq] at hw
          obtain ⟨rfl, rfl⟩ := hw
          have hd := Lang.cat ((iha _).mpr h1) h2
          split
          · exact Lang.altL hd
          · exact hd
  | alt a b iha ihb =>
    simp only [deriv]
    constructor
    · intro h
      cases h with
      | altL h => exact Lang.altL ((iha _).mp h)
      | altR h => exact Lang.altR ((ihb _).mp h)
    · intro h
      cases h with
      | altL h => exact Lang.altL ((iha _).mpr h)
      | altR h => exact Lang.altR ((ihb _).mpr h)
  | star a iha =>
    simp only [deriv]
    constructor
    · intro h
      cases h with
      | cat h1 h2 => exact Lang.starCons (s := x :: _) ((iha _).mp h1) h2
    · intro h
      obtain ⟨s1, s2, rfl, h1, h2⟩ := star_cons h x s rfl
      exact Lang.cat ((iha _).mpr h1) h2

/-- **The matcher is exact.** -/
theorem matches_iff (r : Regex) (s : Bytes) : r.matches s = true ↔ Lang r s := by
  induction s generalizing r with
  | nil => simp only [Regex.matches]; exact nullable_iff r
  | cons x xs ih => simp only [Regex.matches]; rw [ih, deriv_iff]

end Emu.Proofs.Regex
