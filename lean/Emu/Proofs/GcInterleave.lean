/-
  A GC pass interleaved with client writes never reverts a write (C16, third clause).

  `gcInterleaved` (Emu.Bt.Admin) lets one client write in at every lock reversal.  The ghost-carrying
  version below additionally records, per row key, the row as the last acknowledged write touching it
  left it (initially: the row as stored when the pass began).  Invariant: at every moment every
  stored row is obtained from that recorded row by collecting it zero or more times — nothing older
  is ever written back.
-/
import Emu.Bt.Admin
import Emu.Proofs.BtRows

namespace Emu.Proofs.GcInterleave
open Emu Emu.Bt Emu.Proofs.BtRows

/-- collecting a (possibly absent) stored row: a row left without cells is removed -/
def collectO (now : Int) (s : Schema) : Option Row → Option Row
  | none => none
  | some r =>
    let r' := scrubRow s (gcRow now s r)
    if r'.fams.isEmpty then none else some r'

def iter {α} (f : α → α) : Nat → α → α
  | 0, x => x
  | n + 1, x => f (iter f n x)

/-- every stored row comes from the recorded one by collections only -/
def Rel (now : Int) (s : Schema) (rows : Rows) (last : Bytes → Option Row) : Prop :=
  ∀ k, ∃ n, rows.get k = iter (collectO now s) n (last k)

theorem setCells_key (r : Row) (fam q : Bytes) (g : List Cell → List Cell) : (r.setCells fam q g).key = r.key := by
  unfold Row.setCells; split <;> rfl

theorem applyMutation_key (sch : Schema) (now : Int) (r r' : Row) (m : Mutation) (h : applyMutation sch now r m = some r') :
    r'.key = r.key := by
  cases m with
  | unknown => simp [applyMutation] at h
  | setCell fam q ts v =>
    simp only [applyMutation] at h
    split at h
    · cases h
    · split at h
      · cases h
      · cases h; exact setCells_key _ _ _ _
  | deleteFromColumn fam q hasRange s e =>
    simp only [applyMutation] at h
    split at h
    · cases h
    · split at h
      · cases h
      · split at h
        · cases h; rfl
        · split at h
          · cases h; rfl
          · cases h; exact setCells_key _ _ _ _
  | deleteFromFamily fam =>
    simp only [applyMutation] at h
    split at h
    · cases h
    · cases h; rfl
  | deleteFromRow => simp only [applyMutation] at h; cases h; rfl

theorem applyMutations_key (sch : Schema) (now : Int) (ms : List Mutation) (r r' : Row)
    (h : applyMutations sch now r ms = some r') : r'.key = r.key := by
  induction ms generalizing r with
  | nil => simp [applyMutations] at h; rw [← h]
  | cons m ms ih =>
    simp only [applyMutations] at h
    cases hm : applyMutation sch now r m with
    | none => simp [hm] at h
    | some r1 =>
      simp only [hm] at h
      rw [ih r1 h, applyMutation_key sch now r r1 m hm]

theorem getOrCreate_key (rows : Rows) (k : Bytes) : (rows.getOrCreate k).key = k := by
  unfold Rows.getOrCreate
  cases h : rows.get k with
  | none => rfl
  | some r => exact (get_mem rows k r h).2

/-- a write touches only its own row -/
theorem mutateRow_other (sch : Schema) (now : Int) (rows rows' : Rows) (wk k : Bytes) (ms : List Mutation)
    (h : mutateRow sch now rows wk ms = some rows') (hk : k ≠ wk) : rows'.get k = rows.get k := by
  unfold mutateRow at h
  cases hm : applyMutations sch now (rows.getOrCreate wk) ms with
  | none => simp [hm] at h
  | some r =>
    simp only [hm, Option.some.injEq] at h
    rw [← h]
    have hkey : r.key = wk := by rw [applyMutations_key sch now ms _ r hm, getOrCreate_key]
    exact get_update_other sch rows r k (by rw [hkey]; exact hk)

/-- the collection step of a visit (and of the end-of-pass clean-up) applies one collection to the
    visited row as stored now, or leaves everything as it is -/
theorem collect_step_rel (now : Int) (s : Schema) (rows rows' : Rows) (last : Bytes → Option Row) (k : Bytes)
    (hrel : Rel now s rows last)
    (hstep : rows' = rows ∨ (∃ r', gcStored now s rows k = some (some r') ∧ rows' = rows.put r') ∨
             (gcStored now s rows k = some none ∧ rows' = rows.delete k)) :
    Rel now s rows' last := by
  intro k'
  obtain ⟨n, hn⟩ := hrel k'
  rcases hstep with h | ⟨r', hst, h⟩ | ⟨hst, h⟩
  · exact ⟨n, by rw [h]; exact hn⟩
  · -- stored row collected and written back
    unfold gcStored at hst
    cases hg : rows.get k with
    | none => simp [hg] at hst
    | some r =>
      simp only [hg, Option.some.injEq] at hst
      have hne : (scrubRow s (gcRow now s r)).fams.isEmpty = false := by
        cases hh : (scrubRow s (gcRow now s r)).fams.isEmpty with
        | false => rfl
        | true => simp [hh] at hst
      simp only [hne, Bool.false_eq_true, if_false, Option.some.injEq] at hst
      have hkey : r'.key = k := by rw [← hst]; exact (get_mem rows k r hg).2
      by_cases hk : k' = k
      · subst hk
        refine ⟨n + 1, ?_⟩
        have hget : (rows.put r').get k' = some r' := by rw [← hkey]; exact get_put_self rows r'
        rw [h, hget]
        simp only [iter]
        rw [← hn, hg]
        rw [hst] at hne
        simp [collectO, hst, hne]
      · refine ⟨n, ?_⟩
        rw [h, get_put_other rows r' k' (by rw [hkey]; exact hk)]
        exact hn
  · -- stored row collected to nothing and removed
    unfold gcStored at hst
    cases hg : rows.get k with
    | none => simp [hg] at hst
    | some r =>
      simp only [hg, Option.some.injEq] at hst
      have he : (scrubRow s (gcRow now s r)).fams.isEmpty = true := by
        cases hh : (scrubRow s (gcRow now s r)).fams.isEmpty with
        | true => rfl
        | false => simp [hh] at hst
      by_cases hk : k' = k
      · subst hk
        refine ⟨n + 1, ?_⟩
        rw [h, get_delete_self]
        simp only [iter]
        rw [← hn, hg]
        simp [collectO, he]
      · refine ⟨n, ?_⟩
        rw [h, get_delete_other rows k k' hk]
        exact hn

/-- an acknowledged write: the recorded row of its key becomes the row it produced -/
theorem write_step_rel (now : Int) (s : Schema) (rows rows' : Rows) (last : Bytes → Option Row) (wk : Bytes) (ms : List Mutation)
    (hrel : Rel now s rows last) (hw : mutateRow s now rows wk ms = some rows') :
    Rel now s rows' (fun k => if k = wk then rows'.get wk else last k) := by
  intro k
  by_cases hk : k = wk
  · subst hk; exact ⟨0, by simp [iter]⟩
  · obtain ⟨n, hn⟩ := hrel k
    exact ⟨n, by simp only [hk, if_false]; rw [mutateRow_other s now rows rows' wk k ms hw hk]; exact hn⟩

/-- the collection half of a visit -/
def visitCollected (now : Int) (s : Schema) (st : GcwState) (k : Bytes) : GcwState :=
  match gcStored now s st.rows k with
  | none => st
  | some none => { st with emptied := st.emptied ++ [k] }
  | some (some r') => { st with rows := st.rows.put r' }

/-- the lock-reversal half of a visit: at every `gcLockReversalPeriod`-th row one client write gets in -/
def afterReversal (now : Int) (s : Schema) (st1 : GcwState) : GcwState :=
  let n := st1.visited + 1
  if n % Generated.gcLockReversalPeriod = 0 then
    match st1.writes with
    | [] => { st1 with visited := n }
    | (wk, ms) :: ws =>
      match mutateRow s now st1.rows wk ms with
      | none => { st1 with visited := n, writes := ws, sts := st1.sts ++ [false] }
      | some rows => { st1 with visited := n, writes := ws, sts := st1.sts ++ [true], rows := rows }
  else { st1 with visited := n }

theorem gcVisit_split (now : Int) (s : Schema) (st : GcwState) (k : Bytes) :
    gcVisit now s st k = afterReversal now s (visitCollected now s st k) := rfl

/-- the record of last written rows across the lock-reversal half -/
def ghostStep (now : Int) (s : Schema) (st1 : GcwState) (last : Bytes → Option Row) : Bytes → Option Row :=
  if (st1.visited + 1) % Generated.gcLockReversalPeriod = 0 then
    match st1.writes with
    | [] => last
    | (wk, ms) :: _ =>
      match mutateRow s now st1.rows wk ms with
      | none => last
      | some rows => fun k' => if k' = wk then rows.get wk else last k'
  else last

/-- the ghost-carrying visit: `gcVisit` itself, plus the record of last written rows -/
def gcVisitG (now : Int) (s : Schema) (p : GcwState × (Bytes → Option Row)) (k : Bytes) : GcwState × (Bytes → Option Row) :=
  (gcVisit now s p.1 k, ghostStep now s (visitCollected now s p.1 k) p.2)

theorem foldl_gcVisitG_fst (now : Int) (s : Schema) (ks : List Bytes) (p : GcwState × (Bytes → Option Row)) :
    (ks.foldl (gcVisitG now s) p).1 = ks.foldl (gcVisit now s) p.1 := by
  induction ks generalizing p with
  | nil => rfl
  | cons k ks ih => simp only [List.foldl_cons]; rw [ih]; rfl

theorem visitCollected_rel (now : Int) (s : Schema) (st : GcwState) (last : Bytes → Option Row) (k : Bytes)
    (h : Rel now s st.rows last) : Rel now s (visitCollected now s st k).rows last := by
  unfold visitCollected
  cases hg : gcStored now s st.rows k with
  | none => simpa using h
  | some o =>
    cases o with
    | none => simpa using h
    | some r' => exact collect_step_rel now s st.rows _ last k h (Or.inr (Or.inl ⟨r', hg, rfl⟩))

theorem afterReversal_rel (now : Int) (s : Schema) (st1 : GcwState) (last : Bytes → Option Row)
    (h : Rel now s st1.rows last) : Rel now s (afterReversal now s st1).rows (ghostStep now s st1 last) := by
  unfold afterReversal ghostStep
  simp only
  by_cases hc : (st1.visited + 1) % Generated.gcLockReversalPeriod = 0
  · simp only [hc, if_true]
    cases hw : st1.writes with
    | nil => simpa using h
    | cons w ws =>
      obtain ⟨wk, ms⟩ := w
      simp only
      cases hm : mutateRow s now st1.rows wk ms with
      | none => simpa using h
      | some rows => exact write_step_rel now s st1.rows rows last wk ms h hm
  · simp only [hc, if_false]; exact h

theorem gcVisitG_rel (now : Int) (s : Schema) (p : GcwState × (Bytes → Option Row)) (k : Bytes)
    (h : Rel now s p.1.rows p.2) : Rel now s (gcVisitG now s p k).1.rows (gcVisitG now s p k).2 := by
  unfold gcVisitG
  simp only [gcVisit_split]
  exact afterReversal_rel now s _ p.2 (visitCollected_rel now s p.1 p.2 k h)

theorem foldl_gcVisitG_rel (now : Int) (s : Schema) (ks : List Bytes) (p : GcwState × (Bytes → Option Row))
    (h : Rel now s p.1.rows p.2) :
    Rel now s (ks.foldl (gcVisitG now s) p).1.rows (ks.foldl (gcVisitG now s) p).2 := by
  induction ks generalizing p with
  | nil => exact h
  | cons k ks ih => simp only [List.foldl_cons]; exact ih _ (gcVisitG_rel now s p k h)

theorem gcFinish_rel (now : Int) (s : Schema) (rows : Rows) (last : Bytes → Option Row) (k : Bytes)
    (h : Rel now s rows last) : Rel now s (gcFinish now s rows k) last := by
  unfold gcFinish
  cases hg : gcStored now s rows k with
  | none => simpa using h
  | some o =>
    cases o with
    | none => exact collect_step_rel now s rows _ last k h (Or.inr (Or.inr ⟨hg, rfl⟩))
    | some r' => exact collect_step_rel now s rows _ last k h (Or.inr (Or.inl ⟨r', hg, rfl⟩))

theorem foldl_gcFinish_rel (now : Int) (s : Schema) (ks : List Bytes) (rows : Rows) (last : Bytes → Option Row)
    (h : Rel now s rows last) : Rel now s (ks.foldl (gcFinish now s) rows) last := by
  induction ks generalizing rows with
  | nil => exact h
  | cons k ks ih => simp only [List.foldl_cons]; exact ih _ (gcFinish_rel now s rows last k h)

/-- the record of last written rows after the whole pass -/
def lastWritten (now : Int) (t : Table) (writes : List (Bytes × List Mutation)) : Bytes → Option Row :=
  ((t.rows.map (·.key)).foldl (gcVisitG now t.schema) ({ rows := t.rows, writes := writes }, fun k => t.rows.get k)).2

end Emu.Proofs.GcInterleave
