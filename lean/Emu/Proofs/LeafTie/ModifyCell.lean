/-
  Tie T1 for `modifyCell` (bttest/inmem.go): the function as `factx` reads it off the Go text
  (`Emu.Generated.Leaf.modifyCell`: the type switch over the filter oneof and the cell literals of the
  two transformers) is the Model's `modifyCell` on every filter that passes validation — where the
  label of an apply-label transformer is known to be well-formed, so that the function's own label
  check (an error return) never fires.  Without validation it answers exactly as the Model's
  `validFilter` says: an error iff the label is malformed.
-/
import Emu.Generated.Leaf.ModifyCell
import Emu.Bt.Filter

namespace Emu.Proofs.LeafTie
open Emu Emu.Bt

theorem modifyCell_tie (f : Filter) (c : Cell) (hv : validFilter f = true) :
    Generated.Leaf.modifyCell f c = .ok (Bt.modifyCell f c) := by
  cases f <;> try rfl
  case applyLabel l =>
    have hl : validLabel l = true := by simpa [validFilter] using hv
    simp [Generated.Leaf.modifyCell, Bt.modifyCell, hl]

/-- the function's own check is the one validation makes -/
theorem modifyCell_error_iff (l : Bytes) (c : Cell) :
    Generated.Leaf.modifyCell (.applyLabel l) c = .error () ↔ validLabel l = false := by
  cases h : validLabel l <;> simp [Generated.Leaf.modifyCell, h]

end Emu.Proofs.LeafTie
