/-
  Tie T1 for `applyGC` (bttest/inmem.go): the function as `factx` reads it off the Go text
  (`Emu.Generated.Leaf.applyGC`: the type switch over the rule oneof, the cut-off arithmetic, the
  binary search `sort.Search`, the slicing, the loop over a union's rules) is the Model's `applyGC`
  on every list of cells in descending timestamp order — the order the emulator keeps them in
  (`Proofs/BtInv`).

  The binary search is `Emu.GoSem.goSearch`, the standard library's loop; `goSearch_first` below is
  its specification for a predicate that, once true, stays true.
-/
import Emu.Generated.Leaf.ApplyGC
import Emu.Bt.Admin
import Emu.Proofs.BtRow
import Emu.Proofs.Gc

namespace Emu.Proofs.LeafTie
open Emu Emu.Bt Emu.GoSem

/-- `sort.Search` on a predicate that is monotone on `[0, n)`: everything before the result fails
    the predicate, and the result (if inside) satisfies it. -/
theorem goSearchAux_first (p : Nat → Bool) (n : Nat) (hmono : ∀ i j, i ≤ j → j < n → p i = true → p j = true)
    (fuel lo hi : Nat) (hle : lo ≤ hi) (hn : hi ≤ n) (hf : hi - lo < fuel)
    (hlo : ∀ i, i < lo → p i = false) (hhi : hi < n → p hi = true) :
    (∀ i, i < goSearchAux p fuel lo hi → p i = false) ∧
    (goSearchAux p fuel lo hi < n → p (goSearchAux p fuel lo hi) = true) := by
  induction fuel generalizing lo hi with
  | zero => omega
  | succ f ih =>
    unfold goSearchAux
    split
    · rename_i hlt
      simp only
      split
      · rename_i hp
        have hph : p ((lo + hi) / 2) = false := by simpa using hp
        apply ih _ _ (by omega) hn (by omega) _ hhi
        intro i hi'
        cases hpi : p i with
        | false => rfl
        | true =>
          have := hmono i ((lo + hi) / 2) (by omega) (by omega) hpi
          rw [hph] at this; cases this
      · rename_i hp
        have hph : p ((lo + hi) / 2) = true := by simpa using hp
        exact ih _ _ (by omega) (by omega) (by omega) hlo (fun _ => hph)
    · have : lo = hi := by omega
      subst this
      exact ⟨hlo, hhi⟩

theorem goSearch_first (p : Nat → Bool) (n : Nat) (hmono : ∀ i j, i ≤ j → j < n → p i = true → p j = true) :
    (∀ i, i < goSearch n p → p i = false) ∧ (goSearch n p < n → p (goSearch n p) = true) :=
  goSearchAux_first p n hmono (n + 1) 0 n (Nat.zero_le _) (Nat.le_refl _) (by omega) (fun _ h => by omega)
    (fun h => by omega)

/-- a prefix cut where the predicate first fails is `takeWhile` -/
theorem take_eq_takeWhile {α} [Inhabited α] (q : α → Bool) (l : List α) (r : Nat) (hr : r ≤ l.length)
    (hbefore : ∀ i, i < r → q (l.getD i default) = true) (hat : r < l.length → q (l.getD r default) = false) :
    l.take r = l.takeWhile q := by
  induction l generalizing r with
  | nil => simp
  | cons x xs ih =>
    cases r with
    | zero =>
      have := hat (by simp)
      simp only [List.getD_cons_zero] at this
      simp [this]
    | succ k =>
      have hx := hbefore 0 (by omega)
      simp only [List.getD_cons_zero] at hx
      simp only [List.take_succ_cons, List.takeWhile_cons, hx, ite_true]
      congr 1
      apply ih k (by simpa using hr)
      · intro i hi
        have := hbefore (i + 1) (by omega)
        simpa using this
      · intro hk
        have := hat (by simpa using hk)
        simpa using this

def Desc (cs : List Cell) : Prop := cs.Pairwise (fun a b => a.ts ≥ b.ts)

theorem Desc.of_strict {cs : List Cell} (h : Emu.Proofs.BtRow.StrictDesc cs) : Desc cs :=
  List.Pairwise.imp (fun h => by omega) h

theorem Desc.sublist {cs ds : List Cell} (h : Desc cs) (hs : ds.Sublist cs) : Desc ds :=
  List.Pairwise.sublist hs h

theorem desc_getD_mono (cs : List Cell) (h : Desc cs) (i j : Nat) (hij : i ≤ j) (hj : j < cs.length) :
    (cs.getD j default).ts ≤ (cs.getD i default).ts := by
  by_cases e : i = j
  · subst e; exact Int.le_refl _
  · have hi : i < cs.length := by omega
    have := (List.pairwise_iff_getElem.mp h) i j hi hj (by omega)
    simp only [List.getD_eq_getElem?_getD, List.getElem?_eq_getElem hi, List.getElem?_eq_getElem hj, Option.getD_some]
    omega

/-- the max-age arm: binary search for the first cell older than the cut-off, keep what is before it -/
theorem maxAge_arm (cs : List Cell) (h : Desc cs) (cutoff : Int) :
    cs.take (goSearch cs.length (fun i => decide ((cs.getD i default).ts < cutoff)))
      = cs.takeWhile (fun c => decide (c.ts ≥ cutoff)) := by
  have hmono : ∀ i j, i ≤ j → j < cs.length →
      (fun i => decide ((cs.getD i default).ts < cutoff)) i = true →
      (fun i => decide ((cs.getD i default).ts < cutoff)) j = true := by
    intro i j hij hj hp
    have := desc_getD_mono cs h i j hij hj
    simp only [decide_eq_true_eq] at hp ⊢
    omega
  have hs := goSearch_first _ cs.length hmono
  apply take_eq_takeWhile _ cs _ (goSearch_le _ _)
  · intro i hi
    have := hs.1 i hi
    simp only [decide_eq_false_iff_not] at this
    simp only [decide_eq_true_eq]; omega
  · intro hlt
    have := hs.2 hlt
    simp only [decide_eq_true_eq] at this
    simp only [decide_eq_false_iff_not]; omega

theorem applyGC_sublist (now : Int) (r : GcRule) (cs : List Cell) : (Bt.applyGC now r cs).Sublist cs := by
  rw [Emu.Proofs.Gc.applyGC_eq_take]; exact List.take_sublist _ _

mutual
theorem applyGC_tie (now : Int) : ∀ (rule : GcRule) (cs : List Cell), Desc cs →
    Generated.Leaf.applyGC cs rule now = Bt.applyGC now rule cs
  | .maxVersions n, cs, _ => by
    unfold Generated.Leaf.applyGC Bt.applyGC
    by_cases hn : n < 0
    · have : ¬ n ≥ 0 := by omega
      simp only [hn, if_true, this, if_false]
    · have : n ≥ 0 := by omega
      simp only [hn, if_false, this, if_true]
      by_cases hl : (cs.length : Int) > n
      · simp only [hl, if_true]
      · simp only [hl, if_false]
        exact (List.take_of_length_le (by omega)).symm
  | .maxAge sec nanos, cs, h => by
    unfold Generated.Leaf.applyGC Bt.applyGC
    exact maxAge_arm cs h _
  | .union rs, cs, h => by
    unfold Generated.Leaf.applyGC Bt.applyGC
    exact applyGCs_tie now rs cs h
  | .other, cs, _ => by
    unfold Generated.Leaf.applyGC Bt.applyGC
    rfl
theorem applyGCs_tie (now : Int) : ∀ (rules : List GcRule) (cs : List Cell), Desc cs →
    Generated.Leaf.applyGCs cs rules now = Bt.applyGCs now rules cs
  | [], cs, _ => by
    unfold Generated.Leaf.applyGCs Bt.applyGCs
    rfl
  | r :: rest, cs, h => by
    unfold Generated.Leaf.applyGCs Bt.applyGCs
    rw [applyGC_tie now r cs h]
    exact applyGCs_tie now rest _ (h.sublist (applyGC_sublist now r cs))
end

end Emu.Proofs.LeafTie
