/-
  Tie T1 for the closures of `mergeSimpleRanges` (bttest/inmem.go): `endCmp`, the comparator handed to
  `sort.Slice`, and `merge`, as `factx` reads them off the Go text
  (`Emu/Generated/Leaf/MergeSimpleRanges.lean`), are the Model's `endLt`, `srLess` and `merge1` — the
  functions the range theorems of C03 (`Proofs/Ranges`) are about.
-/
import Emu.Generated.Leaf.MergeSimpleRanges
import Emu.Proofs.LeafTie.KeysOutOfRange
import Emu.Bt.Read

namespace Emu.Proofs.LeafTie
open Emu Emu.Bt

/-- the repository's `simpleRange` as the Model's -/
def srOf (g : Generated.Leaf.GsimpleRange) : SimpleRange := ⟨g.start, g.end_⟩

theorem bytesCompare_neg (a b : Bytes) : Generated.Leaf.bytesCompare a b < (0 : Int) ↔ a < b := by
  unfold Generated.Leaf.bytesCompare
  by_cases h1 : a < b
  · simp [h1]
  · by_cases h2 : a = b
    · subst h2; simp [List.lt_irrefl]
    · simp [h1, h2]

theorem len_pos_iff (l : Bytes) : ((0 : Int) < (l.length : Int)) ↔ l.isEmpty = false := by
  cases l with
  | nil => simp
  | cons x xs =>
    have : (0 : Int) < ((x :: xs).length : Int) := by
      simp only [List.length_cons]; omega
    simp

/-- `endCmp a b < 0` is the Model's `endLt` -/
theorem endCmp_neg (a b : Generated.Leaf.GsimpleRange) :
    decide (Generated.Leaf.endCmp a b < (0 : Int)) = endLt (srOf a) (srOf b) := by
  unfold Generated.Leaf.endCmp endLt srOf
  cases ha : a.end_ with
  | nil =>
    cases hb : b.end_ with
    | nil => simp
    | cons y ys => simp; omega
  | cons x xs =>
    cases hb : b.end_ with
    | nil => simp; omega
    | cons y ys =>
      have h1 : ¬ (((x :: xs).length : Int) = 0) := by simp; omega
      have h2 : ¬ (((y :: ys).length : Int) = 0) := by simp; omega
      simp only [h1, h2, decide_false, Bool.false_and, Bool.false_eq_true, if_false, List.isEmpty_cons]
      rw [Bool.eq_iff_iff]
      simp only [decide_eq_true_eq]
      exact bytesCompare_neg _ _

/-- `endCmp a b > 0` is `endLt` the other way round -/
theorem endCmp_pos (a b : Generated.Leaf.GsimpleRange) :
    decide ((0 : Int) < Generated.Leaf.endCmp a b) = endLt (srOf b) (srOf a) := by
  unfold Generated.Leaf.endCmp endLt srOf
  cases ha : a.end_ with
  | nil =>
    cases hb : b.end_ with
    | nil => simp
    | cons y ys => simp; omega
  | cons x xs =>
    cases hb : b.end_ with
    | nil => simp; omega
    | cons y ys =>
      have h1 : ¬ (((x :: xs).length : Int) = 0) := by simp; omega
      have h2 : ¬ (((y :: ys).length : Int) = 0) := by simp; omega
      simp only [h1, h2, decide_false, Bool.false_and, Bool.false_eq_true, if_false, List.isEmpty_cons]
      rw [Bool.eq_iff_iff]
      simp only [decide_eq_true_eq]
      exact bytesCompare_pos _ _

/-- the comparator handed to `sort.Slice` is the Model's `srLess` -/
theorem less_tie (x y : Generated.Leaf.GsimpleRange) :
    Generated.Leaf.less x y = srLess (srOf x) (srOf y) := by
  unfold Generated.Leaf.less srLess
  simp only []
  by_cases h1 : x.start < y.start
  · have : Generated.Leaf.bytesCompare x.start y.start < (0 : Int) := (bytesCompare_neg _ _).mpr h1
    simp [srOf, h1, this]
  · have n1 : ¬ Generated.Leaf.bytesCompare x.start y.start < (0 : Int) := fun h => h1 ((bytesCompare_neg _ _).mp h)
    by_cases h2 : y.start < x.start
    · have : (0 : Int) < Generated.Leaf.bytesCompare x.start y.start := (bytesCompare_pos _ _).mpr h2
      simp [srOf, h1, h2, n1, this]
    · have n2 : ¬ (0 : Int) < Generated.Leaf.bytesCompare x.start y.start := fun h => h2 ((bytesCompare_pos _ _).mp h)
      have e1 := endCmp_neg x y
      have e2 := endCmp_pos x y
      simp only [srOf] at e1 e2
      simp only [srOf, h1, h2, n1, n2, decide_false, Bool.false_eq_true, if_false, e1]
      cases hl : endLt ⟨x.start, x.end_⟩ ⟨y.start, y.end_⟩ <;> simp

/-- `merge` is the Model's `merge1` -/
theorem merge_tie (a b : Generated.Leaf.GsimpleRange) :
    (Generated.Leaf.merge a b).map srOf = merge1 (srOf a) (srOf b) := by
  have e1 := endCmp_neg a b
  obtain ⟨ae, as⟩ := a
  obtain ⟨be, bs⟩ := b
  simp only [srOf] at e1
  have hend : (if Generated.Leaf.endCmp ⟨ae, as⟩ ⟨be, bs⟩ < (0 : Int) then be else ae)
      = (if endLt ⟨as, ae⟩ ⟨bs, be⟩ = true then be else ae) := by
    by_cases hc : Generated.Leaf.endCmp ⟨ae, as⟩ ⟨be, bs⟩ < (0 : Int)
    · have hl : endLt ⟨as, ae⟩ ⟨bs, be⟩ = true := by rw [← e1]; simp [hc]
      simp [hc, hl]
    · have hl : endLt ⟨as, ae⟩ ⟨bs, be⟩ = false := by rw [← e1]; simp [hc]
      simp [hc, hl]
  unfold Generated.Leaf.merge merge1
  simp only [srOf, decide_eq_true_eq, hend]
  cases ae with
  | nil =>
    simp [srOf]
    split <;> rename_i h <;> simp [h]
  | cons x xs =>
    have hp : (0 : Int) < ((x :: xs).length : Int) := by simp only [List.length_cons]; omega
    by_cases hlt : (x :: xs) < bs
    · have := (bytesCompare_neg (x :: xs) bs).mpr hlt
      simp [hlt, this]
    · have : ¬ Generated.Leaf.bytesCompare (x :: xs) bs < (0 : Int) := fun h => hlt ((bytesCompare_neg _ _).mp h)
      simp [hlt, this, srOf]
      split <;> rename_i h <;> simp [h]

end Emu.Proofs.LeafTie
