/-
  Big-endian int64 round trip and the ReadModifyWriteRow rule step.
-/
import Emu.Proofs.BtRows

namespace Emu.Proofs.Rmw
open Emu Emu.Bt Emu.Proofs.BtRow

theorem beDecodeU_append (l : Bytes) (x : Nat) : beDecodeU (l ++ [x]) = beDecodeU l * 256 + x := by
  simp [beDecodeU, List.foldl_append]

theorem beDecodeU_encodeU (k n : Nat) : beDecodeU (beEncodeU k n) = n % 256 ^ k := by
  induction k generalizing n with
  | zero => simp [beEncodeU, beDecodeU, Nat.mod_one]
  | succ k ih =>
    simp only [beEncodeU, beDecodeU_append, ih]
    rw [Nat.pow_succ, Nat.mul_comm (256 ^ k) 256, Nat.mod_mul]
    omega

theorem length_beEncodeU (k n : Nat) : (beEncodeU k n).length = k := by
  induction k generalizing n with
  | zero => rfl
  | succ k ih => simp [beEncodeU, ih]

theorem pow64 : (2 : Int) ^ 64 = 18446744073709551616 := by decide
theorem pow63 : (2 : Int) ^ 63 = 9223372036854775808 := by decide
theorem npow64 : (2 : Nat) ^ 64 = 18446744073709551616 := by decide
theorem npow63 : (2 : Nat) ^ 63 = 9223372036854775808 := by decide
theorem p256_8 : (256 : Nat) ^ 8 = 18446744073709551616 := by decide

/-- the 8-byte big-endian encoding always has 8 bytes -/
theorem length_beEncode (v : Int) : (beEncode v).length = 8 := length_beEncodeU 8 _

/-- **Round trip**: decoding the encoding of any int64 gives it back. -/
theorem beDecode_beEncode (v : Int) (h1 : -(2 : Int) ^ 63 ≤ v) (h2 : v < (2 : Int) ^ 63) :
    beDecode (beEncode v) = v := by
  unfold beDecode beEncode
  rw [beDecodeU_encodeU, p256_8]
  unfold toInt64
  simp only [npow64, npow63, pow64]
  rw [pow63] at h1 h2
  have hm : 0 ≤ v % 18446744073709551616 := Int.emod_nonneg _ (by decide)
  have hlt : v % 18446744073709551616 < 18446744073709551616 := Int.emod_lt_of_pos _ (by decide)
  have hn : ((v % 18446744073709551616).toNat : Int) = v % 18446744073709551616 := Int.toNat_of_nonneg hm
  have hmod : (v % 18446744073709551616).toNat % 18446744073709551616 % 18446744073709551616
      = (v % 18446744073709551616).toNat := by omega
  rw [hmod]
  split <;> omega

/-- 64-bit wrap-around: values in range are unchanged … -/
theorem wrap64_id (v : Int) (h1 : -(2 : Int) ^ 63 ≤ v) (h2 : v < (2 : Int) ^ 63) : wrap64 v = v := by
  unfold wrap64 toInt64
  simp only [npow64, npow63, pow64]
  rw [pow63] at h1 h2
  have hm : 0 ≤ v % 18446744073709551616 := Int.emod_nonneg _ (by decide)
  have hn : ((v % 18446744073709551616).toNat : Int) = v % 18446744073709551616 := Int.toNat_of_nonneg hm
  have hmod : (v % 18446744073709551616).toNat % 18446744073709551616 = (v % 18446744073709551616).toNat := by omega
  rw [hmod]
  split <;> omega

/-- … the result is always an int64 and congruent to the exact sum modulo 2^64. -/
theorem wrap64_range (v : Int) : -(2 : Int) ^ 63 ≤ wrap64 v ∧ wrap64 v < (2 : Int) ^ 63 ∧
    (wrap64 v - v) % (2 : Int) ^ 64 = 0 := by
  unfold wrap64 toInt64
  simp only [npow64, npow63, pow64, pow63]
  have hm : 0 ≤ v % 18446744073709551616 := Int.emod_nonneg _ (by decide)
  have hn : ((v % 18446744073709551616).toNat : Int) = v % 18446744073709551616 := Int.toNat_of_nonneg hm
  have hmod : (v % 18446744073709551616).toNat % 18446744073709551616 = (v % 18446744073709551616).toNat := by omega
  rw [hmod]
  split <;> omega

end Emu.Proofs.Rmw
