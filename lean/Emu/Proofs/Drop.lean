/-
  DropRowRange by prefix: the scan-until-first-non-prefix of the code deletes exactly the rows whose
  key starts with the prefix (prefix-block lemma on the bytewise order).
-/
import Emu.Proofs.BtRows
import Emu.Bt.Admin

namespace Emu.Proofs.Drop
open Emu Emu.Bt Emu.Proofs.BtRows

/-- a key below the prefix cannot start with it -/
theorem not_hasPrefix_of_lt (p k : Bytes) (h : k < p) : Bytes.hasPrefix k p = false := by
  induction p generalizing k with
  | nil => exact absurd h (by simp)
  | cons a p ih =>
    cases k with
    | nil => simp [Bytes.hasPrefix]
    | cons b k =>
      simp only [Bytes.hasPrefix, List.isPrefixOf_cons₂, Bool.and_eq_false_iff, beq_eq_false_iff_ne] at ih ⊢
      rw [List.cons_lt_cons_iff] at h
      cases h with
      | inl hlt => left; omega
      | inr heq => right; exact ih k heq.2

/-- **Prefix-block lemma**: at or above the prefix, once a key does not start with it no greater
    key does. -/
theorem prefix_block (p k k' : Bytes) (hk : p ≤ k) (hnp : Bytes.hasPrefix k p = false) (hle : k ≤ k') :
    Bytes.hasPrefix k' p = false := by
  induction p generalizing k k' with
  | nil => simp [Bytes.hasPrefix] at hnp
  | cons a p ih =>
    cases k with
    | nil => exact absurd hk (by simp)
    | cons b k =>
      cases k' with
      | nil => exact absurd hle (by simp)
      | cons c k' =>
        simp only [Bytes.hasPrefix, List.isPrefixOf_cons₂, Bool.and_eq_false_iff, beq_eq_false_iff_ne] at hnp ih ⊢
        rw [List.cons_le_cons_iff] at hk hle
        cases hk with
        | inl hab =>
          cases hle with
          | inl hbc => left; omega
          | inr hbc => left; omega
        | inr hab =>
          obtain ⟨rfl, hpk⟩ := hab
          cases hle with
          | inl hbc => left; omega
          | inr hbc =>
            obtain ⟨rfl, hkk⟩ := hbc
            cases hnp with
            | inl h => exact absurd rfl h
            | inr h => right; exact ih k k' hpk h hkk

theorem takeWhile_eq_filter {α} (P : α → Bool) (R : α → α → Prop) (l : List α) (hs : l.Pairwise R)
    (hclosed : ∀ a b, P a = false → R a b → P b = false) : l.takeWhile P = l.filter P := by
  induction l with
  | nil => rfl
  | cons x xs ih =>
    rw [List.pairwise_cons] at hs
    simp only [List.takeWhile_cons, List.filter_cons]
    cases hx : P x with
    | true => simp [ih hs.2]
    | false =>
      simp only [Bool.false_eq_true, if_false]
      symm
      rw [List.filter_eq_nil_iff]
      intro b hb
      simp [hclosed x b hx (hs.1 b hb)]

theorem foldl_delete_eq_filter (keys : List Bytes) (rows : Rows) :
    keys.foldl Rows.delete rows = rows.filter (fun r => !keys.contains r.key) := by
  induction keys generalizing rows with
  | nil =>
    simp only [List.foldl_nil, List.contains_nil, Bool.not_false]
    exact (List.filter_eq_self.mpr (fun _ _ => rfl)).symm
  | cons k ks ih =>
    simp only [List.foldl_cons, ih, Rows.delete, List.filter_filter]
    congr 1
    funext r
    simp only [List.contains_cons, Bool.not_or, bne]
    cases h1 : ks.contains r.key <;> cases h2 : (r.key == k) <;> simp

/-- The collected keys are exactly the keys that start with the prefix. -/
theorem rowsToDelete_spec (p : Bytes) (rows : Rows) (hs : Sorted rows) (r : Row) (hr : r ∈ rows) :
    (rowsToDelete p rows).contains r.key = Bytes.hasPrefix r.key p := by
  unfold rowsToDelete
  have hsf : ((rows.filter (fun r => decide (p ≤ r.key))).Pairwise (fun a b => a.key < b.key)) :=
    List.Pairwise.filter _ hs
  have htw := takeWhile_eq_filter (fun r : Row => Bytes.hasPrefix r.key p) (fun a b => p ≤ a.key ∧ a.key < b.key)
    (rows.filter (fun r => decide (p ≤ r.key)))
    (by
      apply List.Pairwise.imp_of_mem _ hsf
      intro a b ha _ hab
      exact ⟨by simpa using (List.mem_filter.mp ha).2, hab⟩)
    (fun a b ha hab => prefix_block p a.key b.key hab.1 ha (Std.le_of_lt hab.2))
  rw [htw, List.filter_filter]
  rw [Bool.eq_iff_iff]
  simp only [List.contains_iff_mem, List.mem_map, List.mem_filter, Bool.and_eq_true, decide_eq_true_eq]
  constructor
  · rintro ⟨x, ⟨_, hx, _⟩, hk⟩; rw [← hk]; exact hx
  · intro hp
    refine ⟨r, ⟨hr, hp, ?_⟩, rfl⟩
    refine Decidable.byContradiction fun hlt => ?_
    have : r.key < p := by grind
    rw [not_hasPrefix_of_lt p r.key this] at hp; cases hp

/-- **DropRowRange(prefix) deletes exactly the rows whose key starts with the prefix.** -/
theorem dropPrefixScan_eq_filter (p : Bytes) (rows : Rows) (hs : Sorted rows) :
    dropPrefixScan p rows = rows.filter (fun r => !Bytes.hasPrefix r.key p) := by
  unfold dropPrefixScan
  rw [foldl_delete_eq_filter]
  apply List.filter_congr
  intro r hr
  rw [rowsToDelete_spec p rows hs r hr]

end Emu.Proofs.Drop
