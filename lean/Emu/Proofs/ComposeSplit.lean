/-
  A compose in two halves.

  `finishCompose` runs inside the lock of the destination only.  It first reads every source (and
  tests the source's generation condition), then looks the destination up, validates the request's
  conditions and writes.  A writer of one of the sources takes that other object's lock and can run
  between the two halves.  `composeSplit s0 s1` is the compose whose sources are read in `s0` and whose
  destination is validated and written in `s1`.

  * `split_at_one_instant`: with `s0 = s1` it is the Model's `step`.
  * `as_if_atomic`: if every source is in `s1` what it was in `s0`, the split compose is the atomic one
    taken at the moment of the write — the one-lock machine's account of it is right.
  * the frame lemmas say when that is so: an upload, copy, compose, delete or patch whose target is not
    the source leaves the source as it was.
  * `skew`: when a writer of a source does come in between, the outcome need not be one any serial
    order gives (compose{a ← a+b} next to copy{a → b}).  C07 speaks about requests that target the
    same object; these two do not.  The interleaving harness therefore keeps a compose one step in a
    program where another request writes one of its sources (`ConcProgram.CrossRead`).
-/
import Emu.Gcs.Server
import Emu.Proofs.Gcs

namespace Emu.Proofs.ComposeSplit
open Emu Emu.Gcs Emu.Proofs.Gcs

def composeSplit (s0 s1 : Store) (b dst : Bytes) (rc : RawConds) (srcs : List ComposeSrc) (m : Option Meta) :
    Store × Resp :=
  match parseConds rc with
  | none => (s1, .status .badRequest)
  | some c =>
    if srcs.length > Generated.gcsMaxComposeSources then (s1, .status .badRequest)
    else
      match composeData s0 b srcs with
      | .error e => (s1, e)
      | .ok (data, cnt) =>
        match validateConds (s1.obj? b dst) c with
        | .ok =>
          let m0 := m.getD {}
          let m' := { m0 with md5 := [], componentCount := m0.componentCount + cnt }
          let s' := s1.add b dst data m'
          match s'.obj? b dst with
          | some o => (s', .object b o)
          | none => (s', .status .notFound)
        | _ => (s1, condFail (s1.obj? b dst) c)

theorem split_at_one_instant (s : Store) (b dst : Bytes) (rc : RawConds) (srcs : List ComposeSrc) (m : Option Meta) :
    composeSplit s s b dst rc srcs m = step s (.compose b dst rc srcs m) := by
  simp only [composeSplit, step]
  cases parseConds rc with
  | none => rfl
  | some c =>
    dsimp only
    by_cases hl : srcs.length > Generated.gcsMaxComposeSources
    · simp only [hl, if_true]
    · simp only [hl, if_false]
      cases composeData s b srcs with
      | error e => rfl
      | ok p =>
        obtain ⟨data, cnt⟩ := p
        dsimp only
        cases validateConds (s.obj? b dst) c
        all_goals dsimp only
        all_goals first | rfl | (split <;> (rename_i h; simp only [h]))

/-- the read half sees nothing but the sources -/
theorem composeData_congr (s0 s1 : Store) (b : Bytes) (srcs : List ComposeSrc)
    (h : ∀ src ∈ srcs, s0.obj? b src.name = s1.obj? b src.name) :
    composeData s0 b srcs = composeData s1 b srcs := by
  induction srcs with
  | nil => rfl
  | cons src rest ih =>
    have h1 := h src (List.mem_cons_self ..)
    have h2 := ih (fun x hx => h x (List.mem_cons_of_mem _ hx))
    simp only [composeData, h1, h2]

/-- **As if atomic.**  No source changed between the two halves: the compose is the Model's atomic
    one, taken when it writes. -/
theorem as_if_atomic (s0 s1 : Store) (b dst : Bytes) (rc : RawConds) (srcs : List ComposeSrc) (m : Option Meta)
    (h : ∀ src ∈ srcs, s0.obj? b src.name = s1.obj? b src.name) :
    composeSplit s0 s1 b dst rc srcs m = step s1 (.compose b dst rc srcs m) := by
  rw [← split_at_one_instant]
  simp only [composeSplit, composeData_congr s0 s1 b srcs h]

/-! ### Which requests leave a source as it was -/

theorem add_frame (s : Store) (b n c : Bytes) (m : Meta) (b' n' : Bytes) (h : b' ≠ b ∨ n' ≠ n) :
    (s.add b n c m).obj? b' n' = s.obj? b' n' := obj?_add_other s b n c m b' n' h

theorem finishUpload_frame (s : Store) (b n content : Bytes) (m : Meta) (d : Option (Bool × Bool)) (c : Conds)
    (b' n' : Bytes) (h : b' ≠ b ∨ n' ≠ n) :
    (finishUpload s b n content m d c).1.obj? b' n' = s.obj? b' n' := by
  unfold finishUpload
  split
  · rfl
  · rfl
  · split
    · exact add_frame s b n content m b' n' h
    · rfl

theorem finishResp_state (s : Store) (b n : Bytes) (res : Store × Status) (c : Conds) :
    (finishResp s b n res c).1 = res.1 ∨ (finishResp s b n res c).1 = s := by
  unfold finishResp
  split
  · split <;> exact .inl rfl
  all_goals exact .inr rfl

/-- an upload (any one-request protocol) of another object -/
theorem upload_frame (s : Store) (b n content : Bytes) (m : Meta) (d : Option (Bool × Bool)) (rc : RawConds)
    (b' n' : Bytes) (h : b' ≠ b ∨ n' ≠ n) :
    (step s (.upload b n content m d rc)).1.obj? b' n' = s.obj? b' n' := by
  simp only [step]
  split
  · rfl
  · rename_i c _
    rcases finishResp_state s b n (finishUpload s b n content m d c) c with e | e
    · rw [e]; exact finishUpload_frame s b n content m d c b' n' h
    · rw [e]

/-- a copy to another object -/
theorem copy_frame (s : Store) (b1 n1 b2 n2 : Bytes) (b' n' : Bytes) (h : b' ≠ b2 ∨ n' ≠ n2) :
    (step s (.copy b1 n1 b2 n2)).1.obj? b' n' = s.obj? b' n' := by
  simp only [step]
  split
  · rfl
  · rename_i o _
    have := add_frame s b2 n2 o.content o.meta b' n' h
    split <;> exact this

/-- a compose into another object (whenever it reads its own sources) -/
theorem compose_frame (s0 s : Store) (b dst : Bytes) (rc : RawConds) (srcs : List ComposeSrc) (m : Option Meta)
    (b' n' : Bytes) (h : b' ≠ b ∨ n' ≠ dst) :
    (composeSplit s0 s b dst rc srcs m).1.obj? b' n' = s.obj? b' n' := by
  unfold composeSplit
  split
  · rfl
  · split
    · rfl
    · split
      · rfl
      · split
        · rename_i data cnt _ _ _
          have := add_frame s b dst data { (m.getD {}) with md5 := [], componentCount := (m.getD {}).componentCount + cnt } b' n' h
          dsimp only
          split <;> exact this
        · rfl

/-- a metadata patch of any object leaves every object's content and generation — what a compose
    reads of a source, and what its source condition tests — as they were -/
theorem patch_keeps_what_compose_reads (s : Store) (b n : Bytes) (rc : RawConds) (body : PatchBody) (b' n' : Bytes)
    (h : b' ≠ b ∨ n' ≠ n) :
    (step s (.patch b n rc body)).1.obj? b' n' = s.obj? b' n' := by
  simp only [step]
  split
  · rfl
  · split
    · rfl
    · rename_i o ho
      split
      · split
        · rfl
        · have hb := obj?_some_bucket s b n o ho
          have hn : o.name = n := by
            unfold Store.obj? at ho
            split at ho
            · exact Objs.get_name _ _ _ ho
            · cases ho
          exact obj?_replace_other s b { o with metagen := o.metagen + 1, «meta» := applyPatch o.meta body } b' n'
            (by rcases h with h | h
                · exact .inl h
                · exact .inr (by simpa [hn] using h)) hb
      · rfl

/-! ### When a writer of a source does come in between -/

def ob (n c : Bytes) (g : Nat) : Obj := ⟨n, c, g, 1, {}⟩
/-- bucket `b` = [98] holds a = "A" and c = "C" -/
def start : Store := { buckets := [([98], [ob [97] [65] 1, ob [99] [67] 2])], clock := 2 }
def compose_a : Op := .compose [98] [97] {} [⟨[97], 0⟩, ⟨[99], 0⟩] none
def copy_a_c : Op := .copy [98] [97] [98] [99]

def contentOf (s : Store) (n : Bytes) : Option Bytes := (s.obj? [98] n).map (·.content)

/-- compose{a ← a + c} reads its sources, copy{a → c} runs, the compose writes: a = "AC", c = "A".
    compose first would leave c = "AC"; copy first would leave a = "AA". -/
theorem skew :
    let mid := (step start copy_a_c).1
    let fin := (composeSplit start mid [98] [97] {} [⟨[97], 0⟩, ⟨[99], 0⟩] none).1
    (contentOf fin [97], contentOf fin [99]) = (some [65, 67], some [65]) ∧
    (let t := (step (step start compose_a).1 copy_a_c).1
     (contentOf t [97], contentOf t [99])) = (some [65, 67], some [65, 67]) ∧
    (let t := (step (step start copy_a_c).1 compose_a).1
     (contentOf t [97], contentOf t [99])) = (some [65, 65], some [65]) := by
  decide

end Emu.Proofs.ComposeSplit
