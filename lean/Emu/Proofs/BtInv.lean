/-
  Well-formedness of Bigtable rows in the Model: family names and qualifiers occur once, cells are
  strictly descending by timestamp.  Preserved by every mutation and by `scrubRow`; under it,
  scrubbing does not change what a lookup sees.
-/
import Emu.Proofs.BtRow

namespace Emu.Proofs.BtInv
open Emu Emu.Bt Emu.Proofs.BtRow

def KeysNodup {α} (k : α → Bytes) (l : List α) : Prop := (l.map k).Nodup

theorem map_modifyFirst {α} (k : α → Bytes) (p : α → Bool) (g : α → α) (hg : ∀ x, k (g x) = k x) (l : List α) :
    (modifyFirst p g l).map k = l.map k := by
  induction l with
  | nil => rfl
  | cons x xs ih => simp only [modifyFirst]; split <;> simp [hg, ih]

theorem find?_of_mem_nodup {α} (k : α → Bytes) (l : List α) (h : KeysNodup k l) (x : α) (hx : x ∈ l) :
    l.find? (fun y => k y == k x) = some x := by
  induction l with
  | nil => cases hx
  | cons y ys ih =>
    unfold KeysNodup at h ih
    simp only [List.map_cons, List.nodup_cons] at h
    simp only [List.find?_cons]
    cases hx with
    | head => simp
    | tail _ hm =>
      have : (k y == k x) = false := by
        simp only [beq_eq_false_iff_ne, ne_eq]
        intro e; exact h.1 (e ▸ List.mem_map_of_mem hm)
      simp [this, ih h.2 hm]

structure RowInv (r : Row) : Prop where
  fams : KeysNodup (·.name) r.fams
  cols : ∀ f ∈ r.fams, KeysNodup (·.qual) f.cols
  cells : ∀ f ∈ r.fams, ∀ c ∈ f.cols, StrictDesc c.cells

theorem rowInv_empty (k : Bytes) : RowInv ⟨k, []⟩ :=
  ⟨by simp [KeysNodup], by simp, by simp⟩

theorem mem_modifyFirst {α} (p : α → Bool) (g : α → α) (l : List α) (y : α) (h : y ∈ modifyFirst p g l) :
    y ∈ l ∨ ∃ x ∈ l, p x = true ∧ y = g x := by
  induction l with
  | nil => cases h
  | cons x xs ih =>
    simp only [modifyFirst] at h
    split at h
    · rename_i hx
      simp only [List.mem_cons] at h
      cases h with
      | inl e => right; exact ⟨x, by simp, hx, e⟩
      | inr h' => left; simp [h']
    · simp only [List.mem_cons] at h
      cases h with
      | inl e => left; simp [e]
      | inr h' =>
        cases ih h' with
        | inl h'' => left; simp [h'']
        | inr h'' => obtain ⟨z, hz, hp, e⟩ := h''; right; exact ⟨z, by simp [hz], hp, e⟩

theorem familyInv_setCells (f : Family) (q : Bytes) (g : List Cell → List Cell)
    (hg : ∀ cs, StrictDesc cs → StrictDesc (g cs))
    (hc : KeysNodup (·.qual) f.cols) (hs : ∀ c ∈ f.cols, StrictDesc c.cells) :
    KeysNodup (·.qual) (f.setCells q g).cols ∧ ∀ c ∈ (f.setCells q g).cols, StrictDesc c.cells := by
  by_cases hany : f.cols.any (·.qual == q) = true
  · simp only [Family.setCells, hany, if_true]
    constructor
    · unfold KeysNodup
      rw [map_modifyFirst (fun c : Column => c.qual) (fun c : Column => c.qual == q)
        (fun c : Column => { c with cells := g c.cells }) (fun _ => rfl)]; exact hc
    · intro c hcm
      cases mem_modifyFirst _ _ _ _ hcm with
      | inl h => exact hs c h
      | inr h => obtain ⟨x, hx, _, e⟩ := h; rw [e]; exact hg _ (hs x hx)
  · simp only [Family.setCells, hany, if_false, Bool.false_eq_true]
    constructor
    · unfold KeysNodup at hc ⊢
      simp only [List.map_append, List.map_cons, List.map_nil]
      rw [List.nodup_append]
      refine ⟨hc, by simp, ?_⟩
      intro a ha b hb
      simp only [List.mem_singleton] at hb
      subst hb
      simp only [Bool.not_eq_true, List.any_eq_false, beq_iff_eq] at hany
      obtain ⟨c, hcm, e⟩ := List.mem_map.mp ha
      intro e'; exact hany c hcm (e.trans e')
    · intro c hcm
      simp only [List.mem_append, List.mem_singleton] at hcm
      cases hcm with
      | inl h => exact hs c h
      | inr e => rw [e]; exact hg [] (by simp [StrictDesc])

theorem rowInv_setCells (r : Row) (fam q : Bytes) (g : List Cell → List Cell)
    (hg : ∀ cs, StrictDesc cs → StrictDesc (g cs)) (h : RowInv r) : RowInv (r.setCells fam q g) := by
  by_cases hany : r.fams.any (·.name == fam) = true
  · simp only [Row.setCells, hany, if_true]
    refine ⟨?_, ?_, ?_⟩
    · unfold KeysNodup
      rw [map_modifyFirst (fun f : Family => f.name) (fun f : Family => f.name == fam)
        (fun f : Family => f.setCells q g) (fun x => Family.name_setCells x q g)]; exact h.fams
    · intro f hf
      cases mem_modifyFirst _ _ _ _ hf with
      | inl hm => exact h.cols f hm
      | inr hm =>
        obtain ⟨x, hx, _, e⟩ := hm
        rw [e]; exact (familyInv_setCells x q g hg (h.cols x hx) (h.cells x hx)).1
    · intro f hf
      cases mem_modifyFirst _ _ _ _ hf with
      | inl hm => exact h.cells f hm
      | inr hm =>
        obtain ⟨x, hx, _, e⟩ := hm
        rw [e]; exact (familyInv_setCells x q g hg (h.cols x hx) (h.cells x hx)).2
  · simp only [Row.setCells, hany, if_false, Bool.false_eq_true]
    have hnew := familyInv_setCells ⟨fam, []⟩ q g hg (by simp [KeysNodup]) (by simp)
    refine ⟨?_, ?_, ?_⟩
    · have hf := h.fams
      unfold KeysNodup at hf ⊢
      simp only [List.map_append, List.map_cons, List.map_nil, Family.name_setCells]
      rw [List.nodup_append]
      refine ⟨hf, by simp, ?_⟩
      intro a ha b hb
      simp only [List.mem_singleton] at hb
      subst hb
      simp only [Bool.not_eq_true, List.any_eq_false, beq_iff_eq] at hany
      obtain ⟨c, hcm, e⟩ := List.mem_map.mp ha
      intro e'; exact hany c hcm (e.trans e')
    · intro f hf
      simp only [List.mem_append, List.mem_singleton] at hf
      cases hf with
      | inl hm => exact h.cols f hm
      | inr e => rw [e]; exact hnew.1
    · intro f hf
      simp only [List.mem_append, List.mem_singleton] at hf
      cases hf with
      | inl hm => exact h.cells f hm
      | inr e => rw [e]; exact hnew.2

/-- Every mutation keeps the row well formed. -/
theorem rowInv_applyMutation (sch : Schema) (now : Int) (r r' : Row) (m : Mutation)
    (h : RowInv r) (hm : applyMutation sch now r m = some r') : RowInv r' := by
  cases m with
  | unknown => simp [applyMutation] at hm
  | setCell fam q ts v =>
    simp only [applyMutation] at hm
    split at hm
    · cases hm
    · split at hm
      · cases hm
      · cases hm
        exact rowInv_setCells r fam q _ (fun cs hcs => appendOrReplace_desc cs _ hcs) h
  | deleteFromColumn fam q hasRange s e =>
    simp only [applyMutation] at hm
    split at hm
    · cases hm
    · split at hm
      · cases hm
      · split at hm
        · cases hm; exact h
        · split at hm
          · cases hm; exact h
          · cases hm
            apply rowInv_setCells r fam q _ _ h
            intro cs hcs
            split
            · exact strictDesc_filter cs _ hcs
            · simp [StrictDesc]
  | deleteFromFamily fam =>
    simp only [applyMutation] at hm
    split at hm
    · cases hm
    · cases hm
      refine ⟨?_, ?_, ?_⟩
      · unfold KeysNodup
        rw [map_modifyFirst (fun f : Family => f.name) (fun f : Family => f.name == fam)
          (fun f : Family => { f with cols := [] }) (fun _ => rfl)]; exact h.fams
      · intro f hf
        cases mem_modifyFirst _ _ _ _ hf with
        | inl hm' => exact h.cols f hm'
        | inr hm' => obtain ⟨x, _, _, e⟩ := hm'; rw [e]; simp [KeysNodup]
      · intro f hf
        cases mem_modifyFirst _ _ _ _ hf with
        | inl hm' => exact h.cells f hm'
        | inr hm' => obtain ⟨x, _, _, e⟩ := hm'; rw [e]; simp
  | deleteFromRow =>
    simp only [applyMutation] at hm
    cases hm
    exact ⟨by simp [KeysNodup], by simp, by simp⟩

theorem rowInv_applyMutations (sch : Schema) (now : Int) (ms : List Mutation) (r r' : Row)
    (h : RowInv r) (hm : applyMutations sch now r ms = some r') : RowInv r' := by
  induction ms generalizing r with
  | nil => simp [applyMutations] at hm; rw [← hm]; exact h
  | cons m ms ih =>
    simp only [applyMutations] at hm
    cases h1 : applyMutation sch now r m with
    | none => simp [h1] at hm
    | some r1 =>
      simp only [h1] at hm
      exact ih r1 (rowInv_applyMutation sch now r r1 m h h1) hm

end Emu.Proofs.BtInv

namespace Emu.Proofs.BtInv
open Emu Emu.Bt Emu.Proofs.BtRow

/-! ### scrubbing -/

theorem find?_key_some {α} (k : α → Bytes) (l : List α) (a : Bytes) (x : α)
    (h : l.find? (fun y => k y == a) = some x) : x ∈ l ∧ k x = a := by
  have h1 := List.mem_of_find?_eq_some h
  have h2 := List.find?_some h
  exact ⟨h1, by simpa using h2⟩

theorem find?_key_none {α} (k : α → Bytes) (l : List α) (a : Bytes) (h : ∀ y ∈ l, k y ≠ a) :
    l.find? (fun y => k y == a) = none := by
  simp only [List.find?_eq_none, beq_iff_eq]; exact h

theorem find?_key_of_mem {α} (k : α → Bytes) (l : List α) (h : KeysNodup k l) (x : α) (hx : x ∈ l) (a : Bytes)
    (ha : k x = a) : l.find? (fun y => k y == a) = some x := by
  subst ha; exact find?_of_mem_nodup k l h x hx

def qualLe (a b : Column) : Bool := decide (a.qual ≤ b.qual)

theorem keysNodup_sortBy {α} (k : α → Bytes) (le : α → α → Bool) (l : List α) (h : KeysNodup k l) :
    KeysNodup k (sortBy le l) := by
  unfold KeysNodup at *
  exact ((perm_sortBy le l).map k).nodup_iff.mpr h

theorem keysNodup_filter {α} (k : α → Bytes) (p : α → Bool) (l : List α) (h : KeysNodup k l) :
    KeysNodup k (l.filter p) := by
  unfold KeysNodup at *
  exact List.Nodup.sublist (List.Sublist.map k List.filter_sublist) h

theorem scrubFam_name (f : Family) : (scrubFam f).name = f.name := rfl

theorem mem_scrubFam_cols (f : Family) (c : Column) :
    c ∈ (scrubFam f).cols ↔ c ∈ f.cols ∧ c.cells ≠ [] := by
  simp only [scrubFam, mem_sortBy, List.mem_filter]
  cases c.cells <;> simp

theorem scrubFam_keysNodup (f : Family) (h : KeysNodup (·.qual) f.cols) : KeysNodup (·.qual) (scrubFam f).cols :=
  keysNodup_sortBy _ _ _ (keysNodup_filter _ _ _ h)

/-- a scrubbed family answers every column lookup like the original -/
theorem cellsOf_scrubFam (f : Family) (h : KeysNodup (·.qual) f.cols) (q : Bytes) :
    Family.cellsOf (scrubFam f) q = Family.cellsOf f q := by
  unfold Family.cellsOf Family.getColumn
  cases hf : f.cols.find? (fun c => c.qual == q) with
  | none =>
    have hn : ∀ y ∈ (scrubFam f).cols, y.qual ≠ q := by
      intro y hy
      have := ((mem_scrubFam_cols f y).mp hy).1
      simp only [List.find?_eq_none, beq_iff_eq] at hf
      exact hf y this
    rw [find?_key_none (fun c : Column => c.qual) _ q hn]
  | some c =>
    obtain ⟨hc, hq⟩ := find?_key_some (fun c : Column => c.qual) _ q c hf
    by_cases he : c.cells = []
    · have hn : ∀ y ∈ (scrubFam f).cols, y.qual ≠ q := by
        intro y hy hyq
        obtain ⟨hy1, hy2⟩ := (mem_scrubFam_cols f y).mp hy
        have : f.cols.find? (fun c => c.qual == q) = some y :=
          find?_key_of_mem (fun c : Column => c.qual) _ h y hy1 q hyq
        rw [hf] at this; cases this; exact hy2 he
      rw [find?_key_none (fun c : Column => c.qual) _ q hn]; simp [he]
    · have hm : c ∈ (scrubFam f).cols := (mem_scrubFam_cols f c).mpr ⟨hc, he⟩
      rw [find?_key_of_mem (fun c : Column => c.qual) _ (scrubFam_keysNodup f h) c hm q hq]

theorem scrubFam_cols_empty_iff (f : Family) : (scrubFam f).cols = [] ↔ ∀ c ∈ f.cols, c.cells = [] := by
  constructor
  · intro h c hc
    by_cases he : c.cells = []
    · exact he
    · have := (mem_scrubFam_cols f c).mpr ⟨hc, he⟩
      rw [h] at this; cases this
  · intro h
    cases hs : (scrubFam f).cols with
    | nil => rfl
    | cons c cs =>
      have : c ∈ (scrubFam f).cols := by rw [hs]; simp
      obtain ⟨h1, h2⟩ := (mem_scrubFam_cols f c).mp this
      exact absurd (h c h1) h2

theorem mem_scrubRow_fams (sch : Schema) (r : Row) (f' : Family) :
    f' ∈ (scrubRow sch r).fams ↔ ∃ f ∈ r.fams, sch.has f.name = true ∧ f' = scrubFam f ∧ (scrubFam f).cols ≠ [] := by
  simp only [scrubRow, List.mem_filter, List.mem_map]
  constructor
  · rintro ⟨⟨f, ⟨hf, hs⟩, e⟩, hne⟩
    refine ⟨f, hf, hs, e.symm, ?_⟩
    rw [e]; intro h; simp [h] at hne
  · rintro ⟨f, hf, hs, e, hne⟩
    refine ⟨⟨f, ⟨hf, hs⟩, e.symm⟩, ?_⟩
    rw [e]; cases h : (scrubFam f).cols <;> simp_all

theorem scrubRow_famsNodup (sch : Schema) (r : Row) (h : KeysNodup (·.name) r.fams) :
    KeysNodup (·.name) (scrubRow sch r).fams := by
  unfold scrubRow
  apply keysNodup_filter
  unfold KeysNodup at *
  simp only [List.map_map]
  have : ((fun f : Family => f.name) ∘ scrubFam) = (fun f : Family => f.name) := by funext f; rfl
  rw [this]
  exact List.Nodup.sublist (List.Sublist.map _ List.filter_sublist) h

/-- **Scrubbing is invisible to lookups**: cells of families that are in the schema are kept,
    families that are not are dropped. -/
theorem cellsOf_scrubRow (sch : Schema) (r : Row) (h : RowInv r) (fam q : Bytes) :
    (scrubRow sch r).cellsOf fam q = if sch.has fam then r.cellsOf fam q else [] := by
  rw [row_cellsOf_eq, row_cellsOf_eq]
  unfold Row.getFamily
  by_cases hs : sch.has fam = true
  · simp only [hs, if_true]
    cases hf : r.fams.find? (fun f => f.name == fam) with
    | none =>
      have hn : ∀ y ∈ (scrubRow sch r).fams, y.name ≠ fam := by
        intro y hy
        obtain ⟨f, hfm, _, e, _⟩ := (mem_scrubRow_fams sch r y).mp hy
        simp only [List.find?_eq_none, beq_iff_eq] at hf
        rw [e]; exact hf f hfm
      rw [find?_key_none (fun f : Family => f.name) _ fam hn]
    | some f =>
      obtain ⟨hfm, hname⟩ := find?_key_some (fun f : Family => f.name) _ fam f hf
      by_cases he : (scrubFam f).cols = []
      · have hn : ∀ y ∈ (scrubRow sch r).fams, y.name ≠ fam := by
          intro y hy hyn
          obtain ⟨f2, hf2, _, e, hne⟩ := (mem_scrubRow_fams sch r y).mp hy
          have : r.fams.find? (fun f => f.name == fam) = some f2 :=
            find?_key_of_mem (fun f : Family => f.name) _ h.fams f2 hf2 fam (by rw [e] at hyn; exact hyn)
          rw [hf] at this; cases this; exact hne he
        rw [find?_key_none (fun f : Family => f.name) _ fam hn]
        simp only
        have hall := (scrubFam_cols_empty_iff f).mp he
        unfold Family.cellsOf Family.getColumn
        cases hc : f.cols.find? (fun c => c.qual == q) with
        | none => rfl
        | some c => exact (hall c (List.mem_of_find?_eq_some hc)).symm
      · have hm : scrubFam f ∈ (scrubRow sch r).fams :=
          (mem_scrubRow_fams sch r _).mpr ⟨f, hfm, by rw [hname]; exact hs, rfl, he⟩
        rw [find?_key_of_mem (fun f : Family => f.name) _ (scrubRow_famsNodup sch r h.fams) _ hm fam hname]
        exact cellsOf_scrubFam f (h.cols f hfm) q
  · simp only [hs, if_false, Bool.false_eq_true]
    have hn : ∀ y ∈ (scrubRow sch r).fams, y.name ≠ fam := by
      intro y hy hyn
      obtain ⟨f, _, hsf, e, _⟩ := (mem_scrubRow_fams sch r y).mp hy
      rw [e] at hyn; rw [show (scrubFam f).name = f.name from rfl] at hyn
      rw [hyn] at hsf; exact hs hsf
    rw [find?_key_none (fun f : Family => f.name) _ fam hn]

/-- scrubbing keeps (indeed establishes the output form of) well-formedness -/
theorem rowInv_scrubRow (sch : Schema) (r : Row) (h : RowInv r) : RowInv (scrubRow sch r) := by
  refine ⟨scrubRow_famsNodup sch r h.fams, ?_, ?_⟩
  · intro f' hf'
    obtain ⟨f, hf, _, e, _⟩ := (mem_scrubRow_fams sch r f').mp hf'
    rw [e]; exact scrubFam_keysNodup f (h.cols f hf)
  · intro f' hf' c hc
    obtain ⟨f, hf, _, e, _⟩ := (mem_scrubRow_fams sch r f').mp hf'
    rw [e] at hc
    exact h.cells f hf c ((mem_scrubFam_cols f c).mp hc).1

/-- What a scrubbed row looks like: only schema families, none empty, no empty column. -/
theorem scrubRow_shape (sch : Schema) (r : Row) :
    ∀ f ∈ (scrubRow sch r).fams, sch.has f.name = true ∧ f.cols ≠ [] ∧ ∀ c ∈ f.cols, c.cells ≠ [] := by
  intro f' hf'
  obtain ⟨f, hf, hs, e, hne⟩ := (mem_scrubRow_fams sch r f').mp hf'
  subst e
  exact ⟨hs, hne, fun c hc => ((mem_scrubFam_cols f c).mp hc).2⟩

/-- … with the columns of every family in strictly ascending qualifier order. -/
theorem scrubRow_cols_sorted (sch : Schema) (r : Row) (h : RowInv r) :
    ∀ f ∈ (scrubRow sch r).fams, f.cols.Pairwise (fun a b => a.qual < b.qual) := by
  intro f' hf'
  obtain ⟨f, hf, _, e, _⟩ := (mem_scrubRow_fams sch r f').mp hf'
  subst e
  have hsorted : (scrubFam f).cols.Pairwise (fun a b => qualLe a b = true) := by
    apply pairwise_sortBy qualLe
    · intro a b; simp only [qualLe, decide_eq_true_eq]; exact Std.le_total
    · intro a b c h1 h2; simp only [qualLe, decide_eq_true_eq] at *; exact Std.le_trans h1 h2
  have hnd := scrubFam_keysNodup f (h.cols f hf)
  unfold KeysNodup at hnd
  rw [List.nodup_iff_pairwise_ne, List.pairwise_map] at hnd
  apply List.Pairwise.imp _ (hsorted.and hnd)
  intro a b ⟨h1, h2⟩
  simp only [qualLe, decide_eq_true_eq] at h1
  exact Std.lt_of_le_of_ne h1 h2

end Emu.Proofs.BtInv
